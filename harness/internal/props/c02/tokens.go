package c02

import (
	"bytes"
	"fmt"
	"path/filepath"
	"sync"
	"time"

	bolt "go.etcd.io/bbolt"

	trcommon "github.com/cossacklabs/acra/cmd/acra-translator/common"
	"github.com/cossacklabs/acra/encryptor/base/config"
	"github.com/cossacklabs/acra/pseudonymization"
	tokenCommon "github.com/cossacklabs/acra/pseudonymization/common"
	"github.com/cossacklabs/acra/pseudonymization/storage"

	"verif/harness/internal/ev"
	"verif/harness/internal/gen"
	"verif/harness/internal/rig/envrig"
	"verif/harness/internal/rig/ksrig"
)

// Token stores: "de-tokenization under B fails or hands back the stored protected form (the token) unchanged".

const tokenSchemaYAML = `
schemas:
  - table: tok
    columns: [id, t_str, t_bytes, t_email, t_i32, t_i64, t_str_nc, t_bytes_nc]
    encrypted:
      - column: t_str
        token_type: str
        consistent_tokenization: true
      - column: t_bytes
        token_type: bytes
        consistent_tokenization: true
      - column: t_email
        token_type: email
        consistent_tokenization: true
      - column: t_i32
        token_type: int32
        consistent_tokenization: true
      - column: t_i64
        token_type: int64
        consistent_tokenization: true
      - column: t_str_nc
        token_type: str
        consistent_tokenization: false
      - column: t_bytes_nc
        token_type: bytes
        consistent_tokenization: false
`

// recordingStorage notes what is saved under which context (ids are needed for the storage-level probe under B).
type recordingStorage struct {
	tokenCommon.TokenStorage
	mu    sync.Mutex
	saved []savedToken
}

type savedToken struct {
	id  []byte
	ctx tokenCommon.TokenContext
}

func (s *recordingStorage) Save(id []byte, ctx tokenCommon.TokenContext, data []byte) error {
	err := s.TokenStorage.Save(id, ctx, data)
	if err == nil {
		s.mu.Lock()
		s.saved = append(s.saved, savedToken{append([]byte{}, id...), tokenCommon.TokenContext{ClientID: append([]byte{}, ctx.ClientID...)}})
		s.mu.Unlock()
	}
	return err
}

func (s *recordingStorage) SetAccessTimeGranularity(g time.Duration) error {
	return s.TokenStorage.SetAccessTimeGranularity(g)
}

type tokenCase struct {
	column string
	typ    tokenCommon.TokenType
	value  interface{} // typed original
	raw    []byte      // column text form
	marker []byte      // nil for integers
}

func tokenCases(rng *gen.Rand) []tokenCase {
	mk := func() []byte { return newMarker(rng) }
	m1, m2, m3, m4, m5 := mk(), mk(), mk(), mk(), mk()
	i32 := int32(1_000_000_007 + rng.Intn(1000)*2 + 1)
	i64 := int64(7_000_000_000_000_000_001) + int64(rng.Intn(100000))*2
	return []tokenCase{
		{"t_str", tokenCommon.TokenType_String, "secret " + string(m1) + " text", []byte("secret " + string(m1) + " text"), m1},
		{"t_bytes", tokenCommon.TokenType_Bytes, []byte("bin-" + string(m2) + "-end"), []byte("bin-" + string(m2) + "-end"), m2},
		{"t_email", tokenCommon.TokenType_Email, tokenCommon.Email(string(m3) + "@example.com"), []byte(string(m3) + "@example.com"), m3},
		{"t_i32", tokenCommon.TokenType_Int32, i32, []byte(fmt.Sprint(i32)), nil},
		{"t_i64", tokenCommon.TokenType_Int64, i64, []byte(fmt.Sprint(i64)), nil},
		{"t_str_nc", tokenCommon.TokenType_String, "nc " + string(m4), []byte("nc " + string(m4)), m4},
		{"t_bytes_nc", tokenCommon.TokenType_Bytes, []byte("ncb" + string(m5)), []byte("ncb" + string(m5)), m5},
	}
}

func render(v interface{}) []byte {
	switch t := v.(type) {
	case []byte:
		return t
	case string:
		return []byte(t)
	case tokenCommon.Email:
		return []byte(t)
	case nil:
		return nil
	default:
		return []byte(fmt.Sprint(t))
	}
}

func tokenStores(r *ev.Run, envs []*envrig.Env, rng *gen.Rand) {
	schema, err := config.MapTableSchemaStoreFromConfig([]byte(tokenSchemaYAML), false)
	if err != nil {
		panic(fmt.Errorf("token schema: %w", err))
	}
	setting := func(col string) config.ColumnEncryptionSetting {
		return schema.GetTableSchema("tok").GetColumnEncryptionSettings(col)
	}
	type store struct {
		name string
		make func(ks ksrig.FullKeyStore) (top tokenCommon.TokenStorage, rec *recordingStorage, closeFn func())
	}
	boltStore := func() (tokenCommon.TokenStorage, func()) {
		p := filepath.Join(ksrig.ScratchDir("c02-bolt"), "tokens.db")
		db, err := bolt.Open(p, 0o600, nil)
		if err != nil {
			panic(err)
		}
		return storage.NewBoltDBTokenStorage(db), func() { db.Close() }
	}
	wrap := func(rec *recordingStorage, ks ksrig.FullKeyStore) tokenCommon.TokenStorage {
		enc, err := storage.NewSCellEncryptor(ks)
		if err != nil {
			panic(err)
		}
		return storage.WrapStorageWithEncryption(rec, enc)
	}
	stores := []store{
		{"memory", func(ks ksrig.FullKeyStore) (tokenCommon.TokenStorage, *recordingStorage, func()) {
			m, _ := storage.NewMemoryTokenStorage()
			rec := &recordingStorage{TokenStorage: m}
			return rec, rec, func() {}
		}},
		{"memory+encryption", func(ks ksrig.FullKeyStore) (tokenCommon.TokenStorage, *recordingStorage, func()) {
			m, _ := storage.NewMemoryTokenStorage()
			rec := &recordingStorage{TokenStorage: m}
			return wrap(rec, ks), rec, func() {}
		}},
		{"boltdb", func(ks ksrig.FullKeyStore) (tokenCommon.TokenStorage, *recordingStorage, func()) {
			b, c := boltStore()
			rec := &recordingStorage{TokenStorage: b}
			return rec, rec, c
		}},
		{"boltdb+encryption", func(ks ksrig.FullKeyStore) (tokenCommon.TokenStorage, *recordingStorage, func()) {
			b, c := boltStore()
			rec := &recordingStorage{TokenStorage: b}
			return wrap(rec, ks), rec, c
		}},
	}
	type issued struct {
		owner client
		tc    tokenCase
		token interface{} // typed token
		via   string
	}
	for _, e := range envs[:2] { // v1 and v2 (in-memory) keystores supply the token-encryption keys
		for _, st := range stores {
			top, rec, closeFn := st.make(e.KS)
			pseudo, err := pseudonymization.NewPseudoanonymizer(top)
			if err != nil {
				panic(err)
			}
			dt, err := pseudonymization.NewDataTokenizer(pseudo)
			if err != nil {
				panic(err)
			}
			tr, err := trcommon.NewTranslatorService(&trcommon.TranslatorData{Keystorage: e.KS, Tokenizer: pseudo})
			if err != nil {
				panic(err)
			}
			var all []issued
			for ci, c := range clients {
				ctx := tokenCommon.TokenContext{ClientID: c.id}
				for _, tc := range tokenCases(rng) {
					s := setting(tc.column)
					// three ways to tokenize
					var tok interface{}
					var err error
					via := ""
					switch (ci + len(all)) % 3 {
					case 0:
						via = "Pseudoanonymizer"
						if s.IsConsistentTokenization() {
							tok, err = pseudo.AnonymizeConsistently(tc.value, ctx, tc.typ)
						} else {
							tok, err = pseudo.Anonymize(tc.value, ctx, tc.typ)
						}
					case 1:
						via = "DataTokenizer.Tokenize"
						var b []byte
						b, err = dt.Tokenize(append([]byte{}, tc.raw...), ctx, s)
						if err == nil {
							tok, err = typed(b, tc.typ)
						}
					default:
						via = "translator.Tokenize"
						tok, err = tr.Tokenize(bg, tc.value, tc.typ, c.id, nil)
					}
					if err != nil {
						r.Count("tokenize_errors", 1)
						continue
					}
					if bytes.Equal(render(tok), tc.raw) {
						r.Count("token_equals_value", 1)
						continue
					}
					all = append(all, issued{c, tc, tok, via})
					r.Count("tokens_issued", 1)
				}
			}
			// key rotation between tokenization and detokenization (the encrypted stores use the clients' symmetric keys)
			for _, c := range clients[1:3] {
				if err := e.KS.GenerateClientIDSymmetricKey(c.id); err != nil {
					panic(err)
				}
			}
			e.KS.Reset()
			for _, is := range all {
				ctxA := tokenCommon.TokenContext{ClientID: is.owner.id}
				// control: the owner gets the value back
				if v, err := pseudo.Deanonymize(is.token, ctxA, is.tc.typ); err == nil && bytes.Equal(render(v), is.tc.raw) {
					r.Count("token_control_owner_detokenized", 1)
					r.SetAdd("token_stores_effective_for_owner", e.Name+"|"+st.name)
				} else {
					r.Count("token_control_owner_failed", 1)
				}
				for _, b := range clients {
					if bytes.Equal(b.id, is.owner.id) {
						continue
					}
					ctxB := tokenCommon.TokenContext{ClientID: b.id}
					ops := []struct {
						name string
						f    func() (interface{}, error)
					}{
						{"Pseudoanonymizer.Deanonymize", func() (interface{}, error) { return pseudo.Deanonymize(is.token, ctxB, is.tc.typ) }},
						{"DataTokenizer.Detokenize", func() (interface{}, error) {
							return dt.Detokenize(append([]byte{}, render(is.token)...), ctxB, setting(is.tc.column))
						}},
						{"translator.Detokenize", func() (interface{}, error) { return tr.Detokenize(bg, is.token, is.tc.typ, b.id, nil) }},
					}
					for _, op := range ops {
						r.Case()
						var out interface{}
						var err error
						pan := ""
						func() {
							defer func() {
								if p := recover(); p != nil {
									pan = fmt.Sprint(p)
								}
							}()
							out, err = op.f()
						}()
						got := render(out)
						sig := fmt.Sprintf("token of one client detokenized under another: ks=%s store=%s type=%s op=%s", e.Name, st.name, is.tc.column, op.name)
						leaked := false
						if is.tc.marker != nil {
							leaked = bytes.Contains(got, is.tc.marker)
						} else {
							leaked = bytes.Equal(got, is.tc.raw) && !bytes.Equal(render(is.token), is.tc.raw)
						}
						switch {
						case pan != "":
							r.Inconclusive("panic: " + sig + ": " + pan)
						case leaked:
							r.Violation(sig, map[string]interface{}{"owner": string(is.owner.id), "requester": string(b.id), "tokenized_via": is.via, "value": string(is.tc.raw), "token": ev.Hex(render(is.token)), "got": ev.Hex(got)})
						case err != nil:
							r.Count("detokenize_under_other_refused", 1)
							r.Distinct(fmt.Sprintf("token|%s|%s|%s|%s|refused", e.Name, st.name, is.tc.column, op.name))
						case bytes.Equal(got, render(is.token)):
							r.Count("detokenize_under_other_returned_token_unchanged", 1)
							r.Distinct(fmt.Sprintf("token|%s|%s|%s|%s|token-unchanged", e.Name, st.name, is.tc.column, op.name))
						default:
							// some other value (e.g. the requester owns an equal token): not the owner's plaintext, not judged
							r.Count("detokenize_under_other_returned_other_value", 1)
						}
						r.SampleN("token:"+op.name, 1, map[string]interface{}{"keystore": e.Name, "store": st.name, "owner": string(is.owner.id), "requester": string(b.id), "type": is.tc.column, "value": string(is.tc.raw), "token": ev.Hex(render(is.token)), "result": ev.Hex(got), "err": fmt.Sprint(err)})
					}
				}
			}
			// storage-level probe: ids saved under A requested under context B at the store's own API
			rec.mu.Lock()
			saved := append([]savedToken{}, rec.saved...)
			rec.mu.Unlock()
			markers := map[string][][]byte{}
			for _, is := range all {
				if is.tc.marker != nil {
					markers[string(is.owner.id)] = append(markers[string(is.owner.id)], is.tc.marker)
				}
			}
			for _, sv := range saved {
				// control under the saving context
				if v, err := top.Get(sv.id, sv.ctx); err == nil && len(v) > 0 {
					r.Count("token_storage_control_get_under_owner", 1)
				}
				for _, b := range clients {
					if bytes.Equal(b.id, sv.ctx.ClientID) {
						continue
					}
					r.Case()
					v, err := top.Get(sv.id, tokenCommon.TokenContext{ClientID: b.id})
					leaked := false
					for _, mk := range markers[string(sv.ctx.ClientID)] {
						if bytes.Contains(v, mk) {
							leaked = true
						}
					}
					switch {
					case leaked:
						r.Violation(fmt.Sprintf("token record of one client returned by TokenStorage.Get under another client's context: ks=%s store=%s", e.Name, st.name),
							map[string]interface{}{"owner": string(sv.ctx.ClientID), "requester": string(b.id), "record_id": ev.Hex(sv.id), "got": ev.Hex(v)})
					case err != nil:
						r.Count("token_storage_get_under_other_refused", 1)
						r.Distinct(fmt.Sprintf("tokenstore|%s|%s|refused", e.Name, st.name))
					default:
						r.Count("token_storage_get_under_other_returned_other_record", 1)
					}
				}
			}
			closeFn()
		}
	}
	r.RequireAtLeast("tokens_issued", 150)
	r.RequireAtLeast("token_control_owner_detokenized", 150)
	r.RequireSetAtLeast("token_stores_effective_for_owner", 8)
	r.RequireAtLeast("detokenize_under_other_returned_token_unchanged", 500)
	r.RequireAtLeast("token_storage_control_get_under_owner", 200)
	r.RequireAtLeast("token_storage_get_under_other_refused", 600)
}

// typed converts the column text form of a token back to the typed value the Pseudoanonymizer API takes.
func typed(b []byte, t tokenCommon.TokenType) (interface{}, error) {
	switch t {
	case tokenCommon.TokenType_String:
		return string(b), nil
	case tokenCommon.TokenType_Email:
		return tokenCommon.Email(b), nil
	case tokenCommon.TokenType_Bytes:
		return b, nil
	case tokenCommon.TokenType_Int32:
		var v int32
		_, err := fmt.Sscan(string(b), &v)
		return v, err
	case tokenCommon.TokenType_Int64:
		var v int64
		_, err := fmt.Sscan(string(b), &v)
		return v, err
	}
	return nil, fmt.Errorf("unknown token type")
}
