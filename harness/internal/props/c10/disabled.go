package c10

import (
	"fmt"
	"time"

	"github.com/cossacklabs/acra/pseudonymization/common"

	"verif/harness/internal/ev"
	"verif/harness/internal/gen"
	"verif/harness/internal/rig/ksrig"
)

// Disabled tokens. The property: "... the owning client gets the original back from the token while other clients and
// unknown tokens get the token itself", under "token enable/disable/remove maintenance in between". A token whose record
// maintenance has disabled is, for every reader, an unknown token (every store documents ErrTokenDisabled as "pretend that
// it's not there"): detokenizing it must answer with the token itself, without an error, through every entry point, and
// must answer with the original again once the token is enabled back.
//
// Two drivers share one judgement (judgeDisabledDetok / judgeReenabledDetok):
//   - disabledMatrix: deterministic, store kind x token type x detokenize entry point, at quiescence;
//   - sweeps inside the histories (after a "disabled" phase and after "enable"), plus the strict rule for the
//     detokenize calls that run concurrently while tokens are disabled (oracle.go).

// detokSig names the detokenize entry point of a layer in signatures.
var detokSig = map[layer]string{
	lPseudo:     "Pseudoanonymizer.Deanonymize",
	lPseudoTyp:  "Pseudoanonymizer.Deanonymize",
	lTranslator: "TranslatorService.Detokenize",
	lDataTok:    "DataTokenizer.Detokenize",
	lColumn:     "TokenProcessor.OnColumn",
}

func maintSig(what, store string, typ common.TokenType, l layer) string {
	return fmt.Sprintf("maint/%s/%s/%s/%s", what, store, typeName(typ), detokSig[l])
}

// detokObs is one observed detokenize call on a token whose record state (disabled / enabled back) the monitor knows.
type detokObs struct {
	store string // store kind (counters, sets)
	cfg   string // store configuration as named in signatures (kind, plus a non-default access-time granularity)
	l     layer
	tok   tval
	val   tval // the original the issuer tokenized
	known bool // val is known
	out   tval
	prob  string
	err   error
	pan   *panicInfo
}

// judgeDisabledDetok decides one detokenize of a DISABLED token: the token itself, no error. Returns true when it held.
func judgeDisabledDetok(r *ev.Run, o detokObs, via string, detail func(extra map[string]interface{}) map[string]interface{}) bool {
	violation := func(sig string, d interface{}) { r.Violation(storeSig(o.store, sig), d) } // Redis variants: signatures start with "redis "
	typ := o.tok.typ
	// what was observed (non-vacuity is about observations, whatever the verdict)
	r.Count("disabled_token_detokenize_judged:"+via, 1)
	if !o.known || !o.tok.equal(o.val) {
		r.SetAdd("disabled_token_judged_distinguishable_store_type_entry", o.store+"/"+typeName(typ)+"/"+detokSig[o.l])
	}
	switch {
	case o.pan != nil:
		violation(fmt.Sprintf("panic in detokenize: layer=%s type=%s len=%s site=%s class=%s", layerNames[o.l], typeName(typ), o.tok.lenClass(), o.pan.site, o.pan.class),
			detail(map[string]interface{}{"stack": o.pan.stack, "token_state": "disabled"}))
		return false
	case o.err != nil:
		violation(maintSig("disabled-token-detokenize-error", o.cfg, typ, o.l),
			detail(map[string]interface{}{"what": "detokenizing a token that maintenance disabled must answer like an unknown token (the token itself, no error); the call failed", "error": o.err.Error(), "error_class": errClass(o.err)}))
		return false
	case o.prob != "":
		violation(fmt.Sprintf("format: detokenize %s: layer=%s type=%s", o.prob, layerNames[o.l], typeName(typ)), detail(map[string]interface{}{"token_state": "disabled"}))
		return false
	case o.out.equal(o.tok):
		r.Count("disabled_token_came_back_itself", 1)
		r.Count("disabled_token_came_back_itself:"+via, 1)
		r.SetAdd("disabled_token_itself_store_type_entry", o.store+"/"+typeName(typ)+"/"+detokSig[o.l])
		if !o.known || !o.tok.equal(o.val) {
			r.SetAdd("disabled_token_itself_distinguishable_store_type_entry", o.store+"/"+typeName(typ)+"/"+detokSig[o.l])
		}
		return true
	case o.known && o.out.equal(o.val):
		violation(maintSig("disabled-token-detokenize-returned-original", o.cfg, typ, o.l),
			detail(map[string]interface{}{"what": "a disabled token must be treated as not there: the reader got the original instead of the token itself", "result": o.out.full()}))
		return false
	}
	violation(maintSig("disabled-token-detokenize-returned-other", o.cfg, typ, o.l),
		detail(map[string]interface{}{"what": "detokenizing a disabled token returned neither the token itself nor anything the token ever stood for", "result": o.out.full()}))
	return false
}

// judgeReenabledDetok decides one owner detokenize of a token that was disabled and then ENABLED back: the original.
func judgeReenabledDetok(r *ev.Run, o detokObs, via string, detail func(extra map[string]interface{}) map[string]interface{}) bool {
	violation := func(sig string, d interface{}) { r.Violation(storeSig(o.store, sig), d) } // Redis variants: signatures start with "redis "
	typ := o.tok.typ
	r.Count("reenabled_token_detokenize_judged:"+via, 1)
	r.SetAdd("reenabled_token_judged_store_type_entry", o.store+"/"+typeName(typ)+"/"+detokSig[o.l])
	switch {
	case o.pan != nil:
		violation(fmt.Sprintf("panic in detokenize: layer=%s type=%s len=%s site=%s class=%s", layerNames[o.l], typeName(typ), o.tok.lenClass(), o.pan.site, o.pan.class),
			detail(map[string]interface{}{"stack": o.pan.stack, "token_state": "enabled back"}))
		return false
	case o.err != nil:
		violation(maintSig("reenabled-token-detokenize-error", o.cfg, typ, o.l),
			detail(map[string]interface{}{"what": "the owner's detokenize of a token that was disabled and enabled back failed", "error": o.err.Error(), "error_class": errClass(o.err)}))
		return false
	case o.prob != "":
		violation(fmt.Sprintf("format: detokenize %s: layer=%s type=%s", o.prob, layerNames[o.l], typeName(typ)), detail(map[string]interface{}{"token_state": "enabled back"}))
		return false
	case o.out.equal(o.val):
		r.Count("reenabled_token_returned_original", 1)
		r.Count("reenabled_token_returned_original:"+via, 1)
		r.SetAdd("reenabled_token_original_store_type_entry", o.store+"/"+typeName(typ)+"/"+detokSig[o.l])
		return true
	}
	violation(maintSig("reenabled-token-not-restored", o.cfg, typ, o.l),
		detail(map[string]interface{}{"what": "after the token was enabled back its owner must get the original again", "result": o.out.full(), "came_back_as_the_token_itself": o.out.equal(o.tok)}))
	return false
}

// matrixValues: the fixed per-type value list of the matrix (all boundary-directed candidates of the type).
func matrixValues(rng *gen.Rand, t common.TokenType) []tval { return boundaryValues(rng, t) }

type dmTok struct {
	tok, val   tval
	ctx        int
	consistent bool
	via        layer
}

// disabledMatrix: on one store kind, tokenize every boundary value of every type (consistent and random mode, entry
// points rotating), disable every record (what "acra-tokens disable" does: through the storage visitor, in the thorough
// tier on BoltDB through the acra-tokens subcommand in a child process), detokenize every token through every
// detokenize entry point as its owner (must be the token itself), enable everything back, detokenize again (must be
// the original). Sequential; the store is quiescent at every step.
func disabledMatrix(r *ev.Run, kind storeKind, ks ksrig.FullKeyStore) {
	violation := func(sig string, d interface{}) { r.Violation(storeSig(kind.name(), sig), d) } // Redis variants: signatures start with "redis "
	t0 := time.Now()
	defer func() { r.Count("wall_ms_in_disabled_matrix", time.Since(t0).Milliseconds()) }() // cost accounting only
	store := kind.name()
	g, err := newRig(kind, ks, true)
	if err != nil {
		r.Inconclusive(fmt.Sprintf("disabled-token matrix: store %s could not be built: %v", store, err))
		return
	}
	defer g.discard()
	rng := gen.New(r.Seed, "c10-disabled-matrix-"+store)
	viaCLI := kind.bolt && r.Thorough()
	how := "storage visitor (TokenStorage.VisitMetadata)"
	if viaCLI {
		how = "acra-tokens subcommand in a child process"
	}
	var toks []dmTok
	for _, typ := range allTypes {
		r.Case()
		for vi, v := range matrixValues(rng, typ) {
			for ci, consistent := range []bool{true, false} {
				v, consistent := v, consistent
				ls := layersFor(consistent)
				l := ls[(vi+ci)%len(ls)]
				ctx := (vi + 2*ci) % 3
				out, problem, err, pan := guarded(func() (tval, string, error) { return g.tokenize(l, consistent, ctx, v) })
				det := map[string]interface{}{"matrix": "disabled tokens", "store": store, "entry": layerNames[l], "type": typeName(typ), "mode": modeName(consistent), "value": v.full(), "client": string(clientIDs[ctx])}
				switch {
				case pan != nil:
					det["stack"] = pan.stack
					violation(fmt.Sprintf("panic in tokenize: layer=%s type=%s len=%s site=%s class=%s", layerNames[l], typeName(typ), v.lenClass(), pan.site, pan.class), det)
				case err != nil && tokenSpaceSmall(v):
					r.Count("disabled_matrix_small_space_tokenize_refused", 1)
				case err != nil:
					det["error"] = err.Error()
					violation(fmt.Sprintf("unexpected error: op=tokenize layer=%s type=%s len=%s mode=%s encrypting-wrapper=%v class=%s", layerNames[l], typeName(typ), v.errLenClass(), modeName(consistent), kind.enc, errClass(err)), det)
				case problem != "":
					violation(fmt.Sprintf("format: %s: layer=%s type=%s", problem, layerNames[l], typeName(typ)), det)
				default:
					det["token"] = out.full()
					checkTokenFormat(r, l, v, out, det)
					toks = append(toks, dmTok{tok: out, val: v, ctx: ctx, consistent: consistent, via: l})
				}
			}
		}
	}
	detailOf := func(t dmTok, l layer, state string) func(map[string]interface{}) map[string]interface{} {
		return func(extra map[string]interface{}) map[string]interface{} {
			m := map[string]interface{}{"matrix": "disabled tokens", "store": store, "detokenize_entry": detokSig[l], "type": typeName(t.tok.typ), "token": t.tok.full(), "original": t.val.full(),
				"client": string(clientIDs[t.ctx]), "tokenized_through": layerNames[t.via], "mode": modeName(t.consistent), "token_state": state, "disabled_through": how,
				"replay": fmt.Sprintf("VERIF_SEED=%d ./check C10 %s", r.Seed, r.Tier)}
			for k, v := range extra {
				m[k] = v
			}
			return m
		}
	}
	call := func(t dmTok, l layer) detokObs {
		o := detokObs{store: store, cfg: store, l: l, tok: t.tok, val: t.val, known: true}
		o.out, o.prob, o.err, o.pan = guarded(func() (tval, string, error) { return g.detokenize(l, t.ctx, t.tok) })
		return o
	}
	// 1. while enabled every token must give its original to its owner; a token that does not is the business of the
	//    reversibility oracle of the histories and is left out of the matrix so that causes stay apart
	usable := toks[:0]
	for i, t := range toks {
		o := call(t, detokLayers[i%len(detokLayers)])
		if o.pan == nil && o.err == nil && o.prob == "" && o.out.equal(t.val) {
			usable = append(usable, t)
		} else {
			r.Count("disabled_matrix_tokens_not_reversible_before_disable", 1)
		}
	}
	toks = usable
	r.Count("disabled_matrix_tokens", int64(len(toks)))
	// 2. disable everything
	step := func(name, expect string, wantDisabled func(total int) int) bool {
		spec := maintSpecs[name]
		via := "direct"
		if viaCLI {
			via = "cli"
			g.close()
			_, cerr := runTokensCLI(g.path, spec.argv)
			if oerr := g.open(); oerr != nil {
				r.Inconclusive(fmt.Sprintf("disabled-token matrix: BoltDB file could not be reopened after acra-tokens %v: %v", spec.argv, oerr))
				return false
			}
			if cerr != nil {
				r.Inconclusive(fmt.Sprintf("disabled-token matrix: acra-tokens %v did not complete: %v", spec.argv, cerr))
				return false
			}
			r.Count("disabled_matrix_steps_via_cli", 1)
		} else {
			if verr := g.store.VisitMetadata(func(_ int, md common.TokenMetadata) (common.TokenAction, error) { return spec.visit(md), nil }); verr != nil {
				r.Inconclusive(fmt.Sprintf("disabled-token matrix: metadata visit for %s failed: %v", name, verr))
				return false
			}
			r.Count("disabled_matrix_steps_direct", 1)
		}
		total, disabled, cerr := g.recordCount()
		if cerr != nil {
			r.Inconclusive(fmt.Sprintf("disabled-token matrix: metadata visit failed after %s: %v", name, cerr))
			return false
		}
		if disabled != wantDisabled(total) || total < len(toks) {
			violation(fmt.Sprintf("maintenance effect: %s via=%s must %s", name, via, expect),
				map[string]interface{}{"matrix": "disabled tokens", "store": store, "argv": spec.argv, "records_after": total, "disabled_after": disabled, "tokens_issued": len(toks)})
			return false
		}
		r.Count("disabled_matrix_maintenance_effects_checked", 1)
		return true
	}
	if !step("disable", "disable every record and remove none", func(total int) int { return total }) {
		return
	}
	nontrivial := map[string]bool{}
	var rows []interface{}
	sampled := map[common.TokenType]bool{}
	for _, t := range toks {
		for _, l := range detokLayers {
			o := call(t, l)
			if judgeDisabledDetok(r, o, "matrix", detailOf(t, l, "disabled")) && !t.tok.equal(t.val) {
				nontrivial[typeName(t.tok.typ)+"|"+detokSig[l]] = true
			}
			if !sampled[t.tok.typ] && l == detokLayers[len(rows)%len(detokLayers)] && !t.tok.equal(t.val) {
				sampled[t.tok.typ] = true // one written-out row per token type, entry points rotating
				rows = append(rows, map[string]interface{}{"entry": detokSig[l], "type": typeName(t.tok.typ), "token": t.tok.show(), "original": t.val.show(), "answer_while_disabled": renderObs(o)})
			}
		}
	}
	// 3. enable everything back
	if !step("enable", "enable every record and remove none", func(int) int { return 0 }) {
		return
	}
	for _, t := range toks {
		for _, l := range detokLayers {
			o := call(t, l)
			if judgeReenabledDetok(r, o, "matrix", detailOf(t, l, "enabled back")) && nontrivial[typeName(t.tok.typ)+"|"+detokSig[l]] {
				r.Distinct(fmt.Sprintf("disabled-matrix|%s|%s|%s", store, typeName(t.tok.typ), detokSig[l]))
			}
		}
	}
	r.SampleN("disabled-matrix", 2, map[string]interface{}{"disabled_token_matrix_on": store, "tokens": len(toks), "disabled_through": how, "rows": rows})
}

func renderObs(o detokObs) string {
	switch {
	case o.pan != nil:
		return "panic: " + o.pan.class
	case o.err != nil:
		return "error: " + o.err.Error()
	}
	return o.out.show()
}

// ---------- sweeps inside the histories ----------

const sweepTokens = 12

// sweepTargets picks up to sweepTokens published tokens that are in `set` (keys of liveKey), walking the pool in order
// (a pure function of the plan; which token of a key's list is taken does not matter to the demand).
func (h *history) sweepTargets(set map[string]bool) []pubEntry {
	h.mu.Lock()
	defer h.mu.Unlock()
	var all []pubEntry
	for vi := range h.p.pool {
		for c := 0; c < 3; c++ {
			for _, pe := range h.pub[pubKey(c, vi)] {
				if set[liveKey(pe.ctx, pe.tok)] {
					all = append(all, pe)
					break
				}
			}
		}
	}
	if len(all) <= sweepTokens {
		return all
	}
	// evenly spread over the pool (hot, unique and stream values all get their share)
	out := make([]pubEntry, 0, sweepTokens)
	for i := 0; i < sweepTokens; i++ {
		out = append(out, all[i*len(all)/sweepTokens])
	}
	return out
}

// sweep detokenizes, at quiescence and sequentially, a sample of the tokens in `set` as their owner through every
// detokenize entry point; the calls are recorded as events of a phase of their own and judged by evaluatePhase.
func (h *history) sweep(phIdx int, name string, relaxed bool, set map[string]bool) {
	targets := h.sweepTargets(set)
	if len(targets) == 0 {
		return
	}
	ph := &phase{name: name, relaxed: relaxed, sweep: true}
	from := len(h.evs)
	for _, pe := range targets {
		pe := pe
		for _, l := range detokLayers {
			h.doDetokenize(0, phIdx, ph, l, pe.ctx, "owner", pe.tok, pe.ctx, &pe.val)
		}
	}
	h.r.Count("sweep_detokenize_calls:"+name, int64(len(h.evs)-from))
	h.evaluatePhase(ph, h.evs[from:])
}
