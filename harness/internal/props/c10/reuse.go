package c10

import (
	"fmt"
	"time"

	"github.com/cossacklabs/acra/pseudonymization/common"

	"verif/harness/internal/ev"
	"verif/harness/internal/gen"
	"verif/harness/internal/rig/ksrig"
)

// Tokens used again and again. "The owning client gets the original back from the token" and "with consistent
// tokenization the same value always maps to the same token" hold for the 1st, 2nd, 3rd ... use of a token after its
// creation, whatever the store does to the record when it is read. What a store does on a read depends on its
// access-time granularity (TokenStorage.SetAccessTimeGranularity; 24 h by default): a record whose last access is older
// than the granularity gets its access time refreshed by Get - the BoltDB store then writes the whole record back in a
// second transaction. With the default granularity that branch is never taken within a run; with granularity 0 or 1ns it
// is taken by every Get (BoltDB keeps times in whole seconds, so the stored access time is always before "now"; the
// memory store keeps nanoseconds and compares against a later "now"). The granularity is configuration, not a timer: no
// verdict depends on the clock; whether a Get wrote the record back is observed through BoltDB's transaction id.
//
// reuseMatrix: deterministic, per store configuration (4 store kinds x granularity {default, 0, 1ns}); per token
// type 4 values x {consistent, random}; use 0 is the creation, then three rounds of {owner detokenize, consistent
// tokenize again} through rotating entry points - 6 uses of a consistent token, 3 of a random one. The first use of a
// token that fails is reported (later uses of the same token fail as a consequence and are only counted).
// history.reuseSweep: the same three rounds over a sample of the published tokens at the end of every history that ran
// on a store with granularity 0 / 1ns (after concurrent calls and maintenance), judged by the history oracles.

var reuseGrans = []string{"", "0", "1ns"}

func reuseValues(rng *gen.Rand, t common.TokenType) []tval {
	b := boundaryValues(rng, t)
	return []tval{b[0], b[len(b)/2], b[len(b)-1], uniqueValue(rng, t, 0, 900)}
}

func reuseSig(what, cfg string, use int, op string, typ common.TokenType) string {
	return fmt.Sprintf("reuse/%s/%s/use-%d-after-creation=%s/%s", what, cfg, use, op, typeName(typ))
}

func reuseMatrix(r *ev.Run, kind storeKind, gran string, ks ksrig.FullKeyStore) {
	violation := func(sig string, d interface{}) { r.Violation(storeSig(kind.name(), sig), d) } // Redis variants: signatures start with "redis "
	t0 := time.Now()
	defer func() { r.Count("wall_ms_in_reuse_matrix", time.Since(t0).Milliseconds()) }() // cost accounting only
	cfg := cfgName(kind, gran)
	cfgFull := kind.name() + ",access-granularity=" + granName(gran)
	g, err := newRigGran(kind, ks, true, gran)
	if err != nil {
		r.Inconclusive(fmt.Sprintf("reuse matrix: store %s could not be built: %v", cfgFull, err))
		return
	}
	defer g.discard()
	if kind.redis {
		g.srv.SetLogging(true)
	}
	rng := gen.New(r.Seed, "c10-reuse-matrix-"+kind.name()) // the same values under every granularity
	var rows []interface{}
	for ti, typ := range allTypes {
		r.Case()
		okAll := true
		for vi, v := range reuseValues(rng, typ) {
			for ci, consistent := range []bool{true, false} {
				v, consistent := v, consistent
				ctx := (vi + ci + ti) % 3
				ls := layersFor(consistent)
				tl := ls[(vi+ci+ti)%len(ls)]
				det := func(use int, op string, l layer, extra map[string]interface{}) map[string]interface{} {
					m := map[string]interface{}{"matrix": "tokens used again", "store": cfgFull, "type": typeName(typ), "mode": modeName(consistent), "value": v.full(), "client": string(clientIDs[ctx]),
						"created_through": layerNames[tl], "use_after_creation": use, "operation": op, "entry": layerNames[l],
						"uses":   "use 0 = creation; then 3 rounds of {owner detokenize, consistent tokenize again (consistent mode only)}",
						"replay": fmt.Sprintf("VERIF_SEED=%d ./check C10 %s", r.Seed, r.Tier)}
					for k, x := range extra {
						m[k] = x
					}
					return m
				}
				tok, problem, err, pan := guarded(func() (tval, string, error) { return g.tokenize(tl, consistent, ctx, v) })
				switch {
				case pan != nil:
					violation(fmt.Sprintf("panic in tokenize: layer=%s type=%s len=%s site=%s class=%s", layerNames[tl], typeName(typ), v.lenClass(), pan.site, pan.class), det(0, "tokenize", tl, map[string]interface{}{"stack": pan.stack}))
					continue
				case err != nil && tokenSpaceSmall(v):
					r.Count("reuse_matrix_small_space_tokenize_refused", 1)
					continue
				case err != nil:
					violation(fmt.Sprintf("unexpected error: op=tokenize layer=%s type=%s len=%s mode=%s encrypting-wrapper=%v class=%s", layerNames[tl], typeName(typ), v.errLenClass(), modeName(consistent), kind.enc, errClass(err)), det(0, "tokenize", tl, map[string]interface{}{"error": err.Error()}))
					continue
				case problem != "":
					violation(fmt.Sprintf("format: %s: layer=%s type=%s", problem, layerNames[tl], typeName(typ)), det(0, "tokenize", tl, nil))
					continue
				}
				checkTokenFormat(r, tl, v, tok, det(0, "tokenize", tl, map[string]interface{}{"token": tok.full()}))
				r.Count("reuse_matrix_tokens", 1)
				use, failed := 0, false
				fail := func(what, op string, l layer, extra map[string]interface{}) {
					okAll = false
					if failed { // consequence of the first failure of this token
						r.Count("reuse_matrix_later_uses_failed_after_a_first_failure", 1)
						return
					}
					failed = true
					extra["token"] = tok.full()
					violation(reuseSig(what, cfg, use, op, typ), det(use, op, l, extra))
				}
				for round := 0; round < 3; round++ {
					// owner detokenize
					use++
					dl := detokLayers[(vi+ci+ti+round)%len(detokLayers)]
					before := g.boltTxID()
					logFrom := 0
					if kind.redis {
						logFrom = g.srv.LogLen()
					}
					out, dprob, derr, dpan := guarded(func() (tval, string, error) { return g.detokenize(dl, ctx, tok) })
					if kind.bolt {
						if g.boltTxID() > before {
							r.Count("reuse_matrix_boltdb_reads_that_wrote_the_record_back:granularity="+granName(gran), 1)
						} else {
							r.Count("reuse_matrix_boltdb_reads_without_a_write:granularity="+granName(gran), 1)
						}
					}
					if kind.redis { // Redis: a Get that refreshed the access time issued SET .. XX after the GET
						if w, _, _ := redisLogStats(g.srv, logFrom); w > 0 {
							r.Count("reuse_matrix_redis_reads_that_wrote_the_record_back:granularity="+granName(gran), 1)
						} else {
							r.Count("reuse_matrix_redis_reads_without_a_write:granularity="+granName(gran), 1)
						}
					}
					r.Count("reuse_matrix_uses_judged", 1)
					r.SetAdd("reuse_matrix_config_type", cfgFull+"/"+typeName(typ))
					switch {
					case dpan != nil:
						fail("panic:"+dpan.site, "detokenize", dl, map[string]interface{}{"stack": dpan.stack, "panic": dpan.class})
					case derr != nil:
						fail("owner-detokenize-error", "detokenize", dl, map[string]interface{}{"error": derr.Error(), "error_class": errClass(derr)})
					case dprob != "" || !out.equal(v):
						fail("owner-did-not-get-original", "detokenize", dl, map[string]interface{}{"result": out.full(), "result_problem": dprob, "came_back_as_the_token_itself": out.equal(tok)})
					default:
						r.Count("reuse_matrix_owner_got_original", 1)
					}
					if len(rows) < 5 && round == 2 && ci == 0 && vi == 1 {
						rows = append(rows, map[string]interface{}{"type": typeName(typ), "value": v.show(), "token": tok.show(), "third_owner_detokenize": renderObs(detokObs{out: out, err: derr, pan: dpan})})
					}
					if !consistent {
						continue
					}
					// the same value again, consistent mode: the same token
					use++
					rl := ls[(vi+ti+round+1)%len(ls)]
					again, aprob, aerr, apan := guarded(func() (tval, string, error) { return g.tokenize(rl, true, ctx, v) })
					r.Count("reuse_matrix_uses_judged", 1)
					switch {
					case apan != nil:
						fail("panic:"+apan.site, "tokenize-again", rl, map[string]interface{}{"stack": apan.stack, "panic": apan.class})
					case aerr != nil:
						fail("consistent-tokenize-again-error", "tokenize-again", rl, map[string]interface{}{"error": aerr.Error(), "error_class": errClass(aerr)})
					case aprob != "" || !again.equal(tok):
						fail("consistent-token-changed", "tokenize-again", rl, map[string]interface{}{"token_now": again.full(), "result_problem": aprob, "length_now": again.length(), "length_of_value": v.length()})
					default:
						r.Count("reuse_matrix_same_token_again", 1)
					}
				}
			}
		}
		if okAll {
			r.Distinct(fmt.Sprintf("reuse-matrix|%s|%s", cfgFull, typeName(typ)))
		}
	}
	r.SampleN("reuse-matrix:"+granName(gran), 1, map[string]interface{}{"reuse_matrix_on": cfgFull, "rows": rows})
}

// ---------- at the end of a history on a store with granularity 0 / 1ns ----------

const reuseSweepTokens = 12

// reuseSweep uses a sample of the live published tokens three more times each (owner detokenize; consistent tokenize
// again where the value is tokenized consistently in this history), sequentially at quiescence. The calls are events of
// a phase of their own and are judged by evaluatePhase: reversibility, consistency (the token fixed earlier enters the
// linearizability check as the first operation), format, store contents.
func (h *history) reuseSweep(phIdx int) {
	type target struct {
		pe pubEntry
		vi int
	}
	var all []target
	h.mu.Lock()
	for vi := range h.p.pool {
		for c := 0; c < 3; c++ {
			if l := h.pub[pubKey(c, vi)]; len(l) > 0 {
				all = append(all, target{l[0], vi})
			}
		}
	}
	h.mu.Unlock()
	if len(all) > reuseSweepTokens {
		pick := make([]target, 0, reuseSweepTokens)
		for i := 0; i < reuseSweepTokens; i++ {
			pick = append(pick, all[i*len(all)/reuseSweepTokens])
		}
		all = pick
	}
	if len(all) == 0 {
		return
	}
	ph := &phase{name: "reuse-sweep"}
	from := len(h.evs)
	for round := 0; round < 3; round++ {
		for i, t := range all {
			t := t
			h.doDetokenize(0, phIdx, ph, detokLayers[(i+round)%len(detokLayers)], t.pe.ctx, "owner", t.pe.tok, t.pe.ctx, &t.pe.val)
			if h.p.consistentVal(t.vi) {
				ls := layersFor(true)
				h.doTokenize(0, phIdx, ph, opSpec{kind: opTok, consistent: true, ctx: t.pe.ctx, val: t.vi, layer: ls[(i+round+1)%len(ls)]})
			}
		}
	}
	h.r.Count("reuse_sweep_calls", int64(len(h.evs)-from))
	h.r.Count("reuse_sweep_histories:"+h.p.kind.name()+",access-granularity="+h.p.gran, 1)
	h.evaluatePhase(ph, h.evs[from:])
}
