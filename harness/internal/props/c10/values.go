package c10

import (
	"encoding/binary"
	"fmt"
	"math"
	"regexp"
	"strconv"
	"strings"

	"github.com/cossacklabs/acra/pseudonymization/common"

	"verif/harness/internal/ev"
	"verif/harness/internal/gen"
)

// tval is the monitor's canonical view of a value or token: a token type plus either a number or raw bytes.
type tval struct {
	typ common.TokenType
	i   int64  // Int32 / Int64
	s   string // String / Bytes / Email: the raw bytes
}

func isInt(t common.TokenType) bool {
	return t == common.TokenType_Int32 || t == common.TokenType_Int64
}

func typeName(t common.TokenType) string {
	switch t {
	case common.TokenType_Int32:
		return "int32"
	case common.TokenType_Int64:
		return "int64"
	case common.TokenType_String:
		return "str"
	case common.TokenType_Bytes:
		return "bytes"
	case common.TokenType_Email:
		return "email"
	}
	return fmt.Sprintf("type(%d)", int(t))
}

var allTypes = []common.TokenType{common.TokenType_Int32, common.TokenType_Int64, common.TokenType_String, common.TokenType_Bytes, common.TokenType_Email}

// key identifies the value inside one token type.
func (v tval) key() string {
	if isInt(v.typ) {
		return strconv.FormatInt(v.i, 10)
	}
	return v.s
}

func (v tval) equal(o tval) bool { return v.typ == o.typ && v.key() == o.key() }

// golang returns the value as the Go type the typed API expects (fresh copy for byte slices).
func (v tval) golang() interface{} {
	switch v.typ {
	case common.TokenType_Int32:
		return int32(v.i)
	case common.TokenType_Int64:
		return v.i
	case common.TokenType_String:
		return v.s
	case common.TokenType_Bytes:
		return []byte(v.s)
	case common.TokenType_Email:
		return common.Email(v.s)
	}
	return nil
}

// text is the SQL-boundary form used by DataTokenizer / TokenEncryptor / TokenProcessor.
func (v tval) text() []byte {
	if isInt(v.typ) {
		return []byte(strconv.FormatInt(v.i, 10))
	}
	return []byte(v.s)
}

// encoded is the byte form the tokenizer hashes and stores (the documented mechanism: ints little endian).
func (v tval) encoded() []byte {
	switch v.typ {
	case common.TokenType_Int32:
		d := make([]byte, 4)
		binary.LittleEndian.PutUint32(d, uint32(int32(v.i)))
		return d
	case common.TokenType_Int64:
		d := make([]byte, 8)
		binary.LittleEndian.PutUint64(d, uint64(v.i))
		return d
	}
	return []byte(v.s)
}

func (v tval) length() int {
	if isInt(v.typ) {
		return len(strconv.FormatInt(v.i, 10))
	}
	return len(v.s)
}

func (v tval) show() string {
	if isInt(v.typ) {
		return strconv.FormatInt(v.i, 10)
	}
	return "hex:" + ev.Hex([]byte(v.s))
}

func (v tval) full() string {
	if isInt(v.typ) {
		return strconv.FormatInt(v.i, 10)
	}
	return "hex:" + ev.FullHex([]byte(v.s))
}

// lenClass is the stable class used in signatures and distinct keys.
func (v tval) lenClass() string {
	if isInt(v.typ) {
		switch {
		case v.typ == common.TokenType_Int32 && (v.i == math.MaxInt32 || v.i == math.MinInt32):
			return "edge"
		case v.typ == common.TokenType_Int64 && (v.i == math.MaxInt64 || v.i == math.MinInt64):
			return "edge"
		case v.i >= -1 && v.i <= 1:
			return "small"
		}
		return "mid"
	}
	n := len(v.s)
	switch {
	case n <= 2 && v.typ == common.TokenType_Email:
		return "0-2"
	case n == 0:
		return "0"
	case n <= 3:
		return strconv.Itoa(n)
	case n <= 5:
		return "4-5"
	case n <= 7:
		return "6-7"
	case n < 256:
		return "8-255"
	}
	return "256+"
}

// errLenClass is the coarser class used in error signatures.
func (v tval) errLenClass() string {
	if isInt(v.typ) {
		return "n/a"
	}
	switch n := len(v.s); {
	case n == 0:
		return "0"
	case n <= 2:
		return "1-2"
	case n <= 5:
		return "3-5"
	}
	return "6+"
}

// fromGolang converts a typed API result; problem is non-empty when the result does not have the Go type of the token type.
func fromGolang(typ common.TokenType, x interface{}) (tval, string) {
	switch typ {
	case common.TokenType_Int32:
		if y, ok := x.(int32); ok {
			return tval{typ: typ, i: int64(y)}, ""
		}
	case common.TokenType_Int64:
		if y, ok := x.(int64); ok {
			return tval{typ: typ, i: y}, ""
		}
	case common.TokenType_String:
		if y, ok := x.(string); ok {
			return tval{typ: typ, s: y}, ""
		}
	case common.TokenType_Bytes:
		if y, ok := x.([]byte); ok {
			return tval{typ: typ, s: string(y)}, ""
		}
	case common.TokenType_Email:
		if y, ok := x.(common.Email); ok {
			return tval{typ: typ, s: string(y)}, ""
		}
	}
	return tval{typ: typ}, fmt.Sprintf("result has Go type %T", x)
}

// fromText converts a text-layer result; for integer types the text must be a canonical decimal within the type's range.
func fromText(typ common.TokenType, b []byte) (tval, string) {
	switch typ {
	case common.TokenType_Int32:
		n, err := strconv.ParseInt(string(b), 10, 32)
		if err != nil {
			return tval{typ: typ}, "text result is not a decimal within int32 range"
		}
		return tval{typ: typ, i: n}, ""
	case common.TokenType_Int64:
		n, err := strconv.ParseInt(string(b), 10, 64)
		if err != nil {
			return tval{typ: typ}, "text result is not a decimal within int64 range"
		}
		return tval{typ: typ, i: n}, ""
	}
	return tval{typ: typ, s: string(b)}, ""
}

// e-mail shape: local@domain.tld with a TLD of at least two letters (so the shortest shaped value has 6 bytes, the
// shortest the code's own test uses: "m@i.ni").
var emailShape = regexp.MustCompile(`^[^@\s]+@[^@\s.]+(\.[^@\s.]+)*\.[A-Za-z]{2,}$`)

func emailShaped(s string) bool { return emailShape.MatchString(s) }

// tokenSpaceSmall says whether the set of possible tokens for this value is so small (<= 4096) that running out of
// fresh tokens (ErrGenerationRandomValue) is legitimate behaviour. Computed from the documented generators:
// strings over a 62-character alphabet, bytes over 256 values, e-mails = alphanumerics + '@' + one of 6/11 TLDs.
func tokenSpaceSmall(v tval) bool {
	switch v.typ {
	case common.TokenType_String:
		return len(v.s) <= 2
	case common.TokenType_Bytes:
		return len(v.s) <= 1
	case common.TokenType_Email:
		return len(v.s) <= 5
	}
	return false
}

// --- value pools ---

func i32(n int64) tval { return tval{typ: common.TokenType_Int32, i: n} }
func i64(n int64) tval { return tval{typ: common.TokenType_Int64, i: n} }
func sv(t common.TokenType, s string) tval {
	return tval{typ: t, s: s}
}

const asciiAlphabet = "abcdefghijklmnopqrstuvwxyzABCDEFGHIJKLMNOPQRSTUVWXYZ0123456789 _-.,;:!?'\"/\\()[]{}<>|&%$#@=+*~^"

func asciiString(r *gen.Rand, n int) string {
	b := make([]byte, n)
	for i := range b {
		b[i] = asciiAlphabet[r.Intn(len(asciiAlphabet))]
	}
	return string(b)
}

func longEmail(r *gen.Rand, n int) string {
	tail := "@mail.example.org"
	return strings.ToLower(alnum(r, n-len(tail))) + tail
}

func alnum(r *gen.Rand, n int) string {
	const cs = "abcdefghijklmnopqrstuvwxyz0123456789"
	b := make([]byte, n)
	for i := range b {
		b[i] = cs[r.Intn(len(cs))]
	}
	return string(b)
}

// boundaryValues returns the boundary-directed candidates of one type (the "hot" values of a history are drawn from it).
func boundaryValues(r *gen.Rand, t common.TokenType) []tval {
	switch t {
	case common.TokenType_Int32:
		return []tval{i32(math.MinInt32), i32(math.MinInt32 + 1), i32(-1), i32(0), i32(1), i32(math.MaxInt32 - 1), i32(math.MaxInt32), i32(int64(int32(r.Uint32())))}
	case common.TokenType_Int64:
		return []tval{i64(math.MinInt64), i64(math.MinInt64 + 1), i64(math.MinInt32 - 1), i64(math.MinInt32), i64(-1), i64(0), i64(1), i64(math.MaxInt32), i64(math.MaxInt32 + 1),
			i64(1 << 32), i64(math.MaxInt64 - 1), i64(math.MaxInt64), i64(int64(r.Uint64()))}
	case common.TokenType_String:
		return []tval{sv(t, ""), sv(t, "a"), sv(t, "\x00"), sv(t, "\xff"), sv(t, "Z"), sv(t, "ab"), sv(t, "é"), sv(t, "abc"), sv(t, "\x00\x00\x00"), sv(t, asciiString(r, 8)), sv(t, asciiString(r, 16)),
			sv(t, "пример-значения ✓"), sv(t, asciiString(r, 40)), sv(t, asciiString(r, 1024)), sv(t, "it's \"quoted\" \\ and\nnewline")}
	case common.TokenType_Bytes:
		return []tval{sv(t, ""), sv(t, "\x00"), sv(t, "\xff"), sv(t, "\x7f"), sv(t, string(gen.Bytes(r, 2))), sv(t, string(gen.Bytes(r, 3))), sv(t, "\x00\x00\x00\x00"), sv(t, string(gen.Bytes(r, 16))),
			sv(t, string(gen.Bytes(r, 33))), sv(t, string(gen.Bytes(r, 64))), sv(t, string(gen.Bytes(r, 1024))), sv(t, "%%%\"\"\"\"\"\"\"\"")}
	case common.TokenType_Email:
		return []tval{sv(t, ""), sv(t, "a"), sv(t, "ab"), sv(t, "abc"), sv(t, "abcd"), sv(t, "a@b.c"), sv(t, "a@b.cd"), sv(t, "m@i.ni"), sv(t, "ab@c.de"), sv(t, "a@b.info"), sv(t, "x@y.zw"),
			sv(t, "john.doe@example.com"), sv(t, "UPPER.Case@Example.ORG"), sv(t, "not-an-email-value"), sv(t, "two@@signs.example.com"), sv(t, longEmail(r, 1024)),
			sv(t, "vassily.poupkine@bigco.has.long.address.net")}
	}
	return nil
}

// uniqueValue returns a value that is generated for exactly one client context (tag) so that "the owner's original"
// can be told apart from anything another context could legitimately hold.
func uniqueValue(r *gen.Rand, t common.TokenType, ctx, n int) tval {
	switch t {
	case common.TokenType_Int32:
		// residue class mod 3 = ctx keeps the three contexts' unique integers disjoint
		x := int64(int32(r.Uint32()))
		x -= ((x%3 + 3) % 3)
		x += int64(ctx)
		for x > math.MaxInt32 {
			x -= 3
		}
		for x < math.MinInt32 {
			x += 3
		}
		return i32(x)
	case common.TokenType_Int64:
		x := int64(r.Uint64() >> 2)
		if r.Intn(2) == 0 {
			x = -x
		}
		x -= ((x%3 + 3) % 3)
		x += int64(ctx)
		return i64(x)
	case common.TokenType_String:
		return sv(t, fmt.Sprintf("uniq-c%d-%d-%s", ctx, n, asciiString(r, 4+r.Intn(20))))
	case common.TokenType_Bytes:
		return sv(t, string(append([]byte{0xC0 + byte(ctx), byte(n)}, gen.Bytes(r, 6+r.Intn(30))...)))
	case common.TokenType_Email:
		return sv(t, fmt.Sprintf("c%d.%d.%s@example.com", ctx, n, alnum(r, 3+r.Intn(10))))
	}
	return tval{}
}

// unknownToken builds a token-shaped value that was never issued: strings/e-mails contain '#', which no generated
// token contains; integers and bytes are drawn at random (a chance hit is tolerated by the oracle's rule).
func unknownToken(r *gen.Rand, t common.TokenType) tval {
	switch t {
	case common.TokenType_Int32:
		return i32(int64(int32(r.Uint32())))
	case common.TokenType_Int64:
		return i64(int64(r.Uint64()))
	case common.TokenType_String:
		return sv(t, "#"+asciiString(r, 3+r.Intn(12))+"#")
	case common.TokenType_Bytes:
		return sv(t, string(gen.Bytes(r, 12+r.Intn(12))))
	case common.TokenType_Email:
		return sv(t, "no#body."+alnum(r, 4)+"@unknown.example")
	}
	return tval{}
}
