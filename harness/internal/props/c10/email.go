package c10

import (
	"fmt"

	"github.com/cossacklabs/acra/pseudonymization/common"

	"verif/harness/internal/ev"
	"verif/harness/internal/rig/ksrig"
)

// checkTokenFormat applies the format clause to one tokenization done outside the histories (the matrices): "a token
// has the type and shape of the value it replaces (... a string or byte string of the same length, an e-mail-shaped
// string)". Same signatures as the history oracle, so that one cause is one finding.
func checkTokenFormat(r *ev.Run, l layer, v, out tval, detail map[string]interface{}) bool {
	r.Count("format_checked_in_matrices", 1)
	ok := true
	if !isInt(v.typ) && len(out.s) != len(v.s) {
		r.Violation(fmt.Sprintf("format: token length differs from value length: layer=%s type=%s len=%s", layerNames[l], typeName(v.typ), v.lenClass()), detail)
		ok = false
	}
	if v.typ == common.TokenType_Email && emailShaped(v.s) {
		r.Count("email_shape_checked_in_matrices", 1)
		if !emailShaped(out.s) {
			r.Violation(fmt.Sprintf("format: e-mail-shaped value got a token that is not e-mail-shaped: layer=%s len=%s", layerNames[l], v.lenClass()), detail)
			ok = false
		}
	}
	return ok
}

// shortest e-mail-shaped values, one per length 6..12, plus two longer ones: which top-level domains fit depends on the length
var emailShapeValues = []string{"a@b.cd", "ab@c.de", "ab@cd.ef", "abc@de.fg", "ab@cde.org", "abc@def.info", "abcd@efg.info", "john.doe@example.com", "first.last@department.example.org"}

const emailShapeDraws = 96

// emailShapeMatrix: the token of an e-mail-shaped value is drawn at random (the top-level domain too), so one
// tokenization shows one of the possible shapes. Every short e-mail-shaped value is tokenized a fixed number of times in
// random mode (each call draws a fresh token) through the random-mode entry points in rotation, and every token must be
// e-mail-shaped and as long as the value. In-memory store: the generator does not depend on the store.
func emailShapeMatrix(r *ev.Run, ks ksrig.FullKeyStore) {
	kind := storeKinds[0]
	g, err := newRig(kind, ks, true)
	if err != nil {
		r.Inconclusive(fmt.Sprintf("e-mail shape matrix: store %s could not be built: %v", kind.name(), err))
		return
	}
	defer g.discard()
	ls := layersFor(false)
	for vi, s := range emailShapeValues {
		r.Case()
		v := sv(common.TokenType_Email, s)
		shapes := map[string]bool{}
		for i := 0; i < emailShapeDraws; i++ {
			l := ls[(vi+i)%len(ls)]
			ctx := i % 3
			out, problem, terr, pan := guarded(func() (tval, string, error) { return g.tokenize(l, false, ctx, v) })
			det := map[string]interface{}{"matrix": "e-mail shape", "store": kind.name(), "entry": layerNames[l], "value": v.full(), "draw": i, "client": string(clientIDs[ctx])}
			switch {
			case pan != nil:
				det["stack"] = pan.stack
				r.Violation(fmt.Sprintf("panic in tokenize: layer=%s type=%s len=%s site=%s class=%s", layerNames[l], typeName(v.typ), v.lenClass(), pan.site, pan.class), det)
			case terr != nil:
				det["error"] = terr.Error()
				r.Violation(fmt.Sprintf("unexpected error: op=tokenize layer=%s type=%s len=%s mode=%s encrypting-wrapper=%v class=%s", layerNames[l], typeName(v.typ), v.errLenClass(), modeName(false), kind.enc, errClass(terr)), det)
			case problem != "":
				r.Violation(fmt.Sprintf("format: %s: layer=%s type=%s", problem, layerNames[l], typeName(v.typ)), det)
			default:
				det["token"] = out.full()
				if checkTokenFormat(r, l, v, out, det) {
					r.Count("email_shape_matrix_tokens_shaped", 1)
					if i := lastDot(out.s); i >= 0 {
						shapes[out.s[i:]] = true
					}
				}
			}
		}
		r.Count("email_shape_matrix_distinct_tlds_seen", int64(len(shapes)))
		if len(shapes) >= 2 {
			r.Distinct(fmt.Sprintf("email-shape-matrix|len=%d", len(s)))
		}
	}
	r.SampleN("email-shape-matrix", 1, map[string]interface{}{"email_shape_matrix_values": emailShapeValues, "draws_per_value": emailShapeDraws})
}

func lastDot(s string) int {
	for i := len(s) - 1; i >= 0; i-- {
		if s[i] == '.' {
			return i
		}
	}
	return -1
}
