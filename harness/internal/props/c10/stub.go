// Package c10 will hold the monitor of property C10 (not built yet; nothing is registered).
package c10
