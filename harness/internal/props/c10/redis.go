package c10

import (
	"encoding/hex"
	"fmt"
	"sort"
	"strings"
	"sync"
	"time"

	"github.com/cossacklabs/acra/pseudonymization/common"

	"verif/harness/internal/ev"
	"verif/harness/internal/gen"
	"verif/harness/internal/rig/fakeredis"
	"verif/harness/internal/rig/ksrig"
)

// The Redis layer of C10: Acra's pseudonymization/storage.RedisStorage (go-redis v7, opened the way acra-server /
// acra-translator / acra-tokens open it: NewRedisClient + NewRedisStorage, raw and behind WrapStorageWithEncryption) on the
// in-process stand-in server rig/fakeredis, as a third store variant of every layer of the monitor:
//
//   - text boundary, disabled-token matrix, tokens-used-again matrix (rig.go / disabled.go / reuse.go with kind.redis);
//   - histories (c10.go, oracle.go): the same plans, oracles and porcupine check; goroutine g calls through connection pool
//     g mod pools (1-3 pools per history, each with a storage object, tokenizer stack and translator service of its own on the
//     one server: the check-then-insert path GET / SETNX of separate Acra processes); maintenance comes through the last pool;
//     the database also holds keys of other applications; the database is iterated directly at every quiescent point;
//   - redisBulk: maintenance over hundreds of token records among hundreds of foreign keys (SCAN pages, most of them partly or
//     wholly foreign), every step compared with the key space read straight from the server;
//   - redisFaults: every Redis command of a tokenize / detokenize / maintenance call fails, or the connection drops before /
//     after it took effect; afterwards (fault gone) the value must map to one token from every pool, agree with a token the
//     faulted call returned, and every token that existed before must still give its original.
//
// All signatures of this layer (and of the shared oracles when they run on a Redis store) start with "redis ".

const (
	redisTokenDB = 3 // database of the token store in every scenario
	redisOtherDB = 5 // another database of the same server (holds keys that look like token records)
)

// storeSig prefixes a violation signature with "redis " when it was observed on a Redis store variant.
func storeSig(store, sig string) string {
	if strings.HasPrefix(store, "redis") {
		return "redis " + sig
	}
	return sig
}

const redisPrefix = "tokens/"

// redisKey is the key the documented scheme gives a record: "tokens/" + hex(SHA-256("client"+id)) + "/" + hex(record id).
func redisKey(prefix string, data []byte, ctx int, t common.TokenType) string {
	return redisPrefix + hex.EncodeToString(ctxBucket(ctx)) + "/" + hex.EncodeToString(recordID(prefix, data, ctx, t))
}

// addPool opens another full set of entry points on the same server and database with a connection pool of its own.
func (g *rig) addPool() (*rig, error) {
	p := &rig{kind: g.kind, ks: g.ks, gran: g.gran, srv: g.srv, rdb: g.rdb}
	if err := p.open(); err != nil {
		return nil, err
	}
	g.peers = append(g.peers, p)
	return p, nil
}

// ---------- keys that do not belong to the token store ----------

// redisForeignKeys: n keys of "other applications" in the token database (none matches tokens/*; several are near misses of
// the prefix), values of every kind (hex that is not a token record, plain text, binary, empty).
func redisForeignKeys(rng *gen.Rand, n int) map[string]string {
	m := map[string]string{}
	near := []string{"token/", "tokens", "tokens:", "Tokens/", "xtokens/", "tokens\\/", " tokens/", "keys/tokens/", "acra/tokens/"}
	for i := 0; i < n; i++ {
		var k string
		switch i % 4 {
		case 0:
			k = fmt.Sprintf("%s%s/%s", near[(i/4)%len(near)], hex.EncodeToString(ctxBucket(i%3)), hex.EncodeToString(gen.Bytes(rng, 34)))
		case 1:
			k = fmt.Sprintf("session:%d:%s", i, alnum(rng, 8))
		case 2:
			k = fmt.Sprintf("client/%s/storage/key.%d", alnum(rng, 6), i)
		default:
			k = fmt.Sprintf("cache{%d}/%s", i, alnum(rng, 12))
		}
		var v string
		switch i % 5 {
		case 0:
			v = hex.EncodeToString(gen.Bytes(rng, 40))
		case 1:
			v = "plain text value " + alnum(rng, 10)
		case 2:
			v = string(gen.Bytes(rng, 24))
		case 3:
			v = ""
		default:
			v = fmt.Sprint(i)
		}
		m[k] = v
	}
	return m
}

// redisPlantForeign writes foreign keys into the token database and token-looking keys into another database.
func redisPlantForeign(g *rig, rng *gen.Rand, n int) (foreign, other map[string]string) {
	foreign = redisForeignKeys(rng, n)
	for k, v := range foreign {
		g.srv.Put(g.rdb, k, v)
	}
	other = map[string]string{}
	for i := 0; i < n/4+2; i++ {
		k := redisPrefix + hex.EncodeToString(ctxBucket(i%3)) + "/" + hex.EncodeToString(gen.Bytes(rng, 34))
		v := "not a token record " + alnum(rng, 6) // would fail hex decoding if the visitor ever saw it
		other[k] = v
		g.srv.Put(redisOtherDB, k, v)
	}
	return
}

// redisDBView is the token database read straight from the server.
type redisDBView struct {
	tokenKeys   map[string]string // tokens/* -> stored value
	perCtx      map[int]int
	alienCtx    int // tokens/* keys under no known client context
	undecodable []string
	disabled    map[string]bool
	foreign     map[string]string
}

func redisView(g *rig) redisDBView {
	d := g.srv.Snapshot().DBs[g.rdb]
	v := redisDBView{tokenKeys: map[string]string{}, perCtx: map[int]int{}, disabled: map[string]bool{}, foreign: map[string]string{}}
	ctxHex := map[string]int{}
	for c := range clientIDs {
		ctxHex[hex.EncodeToString(ctxBucket(c))] = c
	}
	for k, val := range d {
		if !strings.HasPrefix(k, redisPrefix) {
			v.foreign[k] = val
			continue
		}
		v.tokenKeys[k] = val
		f := strings.Split(k, "/")
		if c, ok := ctxHex[f[1]]; ok && len(f) == 3 {
			v.perCtx[c]++
		} else {
			v.alienCtx++
		}
		raw, err := hex.DecodeString(val)
		if err != nil {
			v.undecodable = append(v.undecodable, k)
			continue
		}
		_, md, err := common.ExtractMetadata(raw)
		if err != nil {
			v.undecodable = append(v.undecodable, k)
			continue
		}
		if md.Disabled {
			v.disabled[k] = true
		}
	}
	return v
}

func sameMap(a, b map[string]string) (missing, changed, added int) {
	for k, v := range a {
		w, ok := b[k]
		switch {
		case !ok:
			missing++
		case w != v:
			changed++
		}
	}
	for k := range b {
		if _, ok := a[k]; !ok {
			added++
		}
	}
	return
}

// ---------- histories on Redis (hooks called from c10.go / oracle.go) ----------

type redisHistoryState struct {
	foreign, other map[string]string
}

var redisHist sync.Map // *rig -> *redisHistoryState

func redisPrepareHistory(r *ev.Run, p *plan, g *rig) error {
	for i := 1; i < p.pools; i++ {
		if _, err := g.addPool(); err != nil {
			return fmt.Errorf("connection pool %d could not be opened: %v", i, err)
		}
	}
	st := &redisHistoryState{}
	if p.foreign {
		rng := gen.New(r.Seed, fmt.Sprintf("c10-redis-foreign-%d", p.idx))
		st.foreign, st.other = redisPlantForeign(g, rng, 60+rng.Intn(120))
	}
	g.srv.ScanSalt = uint64(p.idx) * 0x9E3779B97F4A7C15
	redisHist.Store(g, st)
	return nil
}

// redisContentOracle: the token database iterated directly at a quiescent point (the Redis counterpart of the direct BoltDB
// iteration): records only under the three client contexts, enough of them per context, every one decodable, the metadata
// visitor (SCAN MATCH tokens/* COUNT 10 + MGET over a database that also holds other keys) saw exactly the records there are.
func redisContentOracle(h *history, viol func(string, interface{}), visited, misses int) {
	r := h.r
	v := redisView(h.rig)
	if v.alienCtx > 0 {
		viol("store content: Redis holds token records outside the three client contexts", h.detail(nil, map[string]interface{}{"records": v.alienCtx}))
	}
	if len(v.undecodable) > 0 {
		viol("store content: a token record in Redis is not hex of (metadata, data)", h.detail(nil, map[string]interface{}{"keys": v.undecodable}))
	}
	perCtx := map[int]int{}
	for lk := range h.live {
		c, _ := parseLive(lk, common.TokenType_String)
		perCtx[c]++
	}
	for fk := range h.fixed {
		c, _ := parseFixed(fk, common.TokenType_String)
		perCtx[c]++
	}
	for c, need := range perCtx {
		if misses == 0 && v.perCtx[c] < need {
			viol("store content: a client context holds fewer records in Redis than that context's tokens", h.detail(nil, map[string]interface{}{"client": string(clientIDs[c]), "records": v.perCtx[c], "needed": need}))
		}
	}
	if visited != len(v.tokenKeys) {
		viol("store content: metadata visitor and direct iteration of the Redis database disagree on the number of records", h.detail(nil, map[string]interface{}{"visitor": visited, "redis_keys_under_tokens/": len(v.tokenKeys), "foreign_keys_in_database": len(v.foreign)}))
	}
	r.Count("redis_databases_iterated", 1)
	r.Count("redis_records_seen_by_direct_iteration", int64(len(v.tokenKeys)))
	if x, ok := redisHist.Load(h.rig); ok {
		st := x.(*redisHistoryState)
		if st.foreign != nil {
			mi, ch, ad := sameMap(st.foreign, v.foreign)
			omi, och, oad := sameMap(st.other, h.rig.srv.Snapshot().DBs[redisOtherDB])
			if mi+ch+ad+omi+och+oad == 0 {
				r.Count("redis_foreign_keys_found_intact", int64(len(st.foreign)+len(st.other)))
			} else {
				// not a clause of the property (it speaks about tokens): recorded, not judged, in the histories
				r.Count("redis_foreign_keys_not_intact_observation_only", int64(mi+ch+ad+omi+och+oad))
			}
		}
	}
}

func redisFinishHistory(h *history) {
	r := h.r
	defer redisHist.Delete(h.rig)
	if n := h.rig.srv.Unknown(); n > 0 {
		r.Inconclusive(fmt.Sprintf("fakeredis: unknown command received %d times in history %d", n, h.p.idx))
	}
	r.Count("redis_histories", 1)
	r.Count("redis_histories:"+h.p.kind.name(), 1)
	r.SetAdd("redis_history_connection_pools", fmt.Sprint(h.p.pools))
	r.Count("redis_commands_served_in_histories", int64(h.rig.srv.Seq()))
	if h.p.pools > 1 {
		r.Count("redis_histories_with_several_connection_pools", 1)
	}
	if h.contended["pools"] {
		r.Count("redis_histories_with_cross_pool_first_call_contention", 1)
		r.Distinct(fmt.Sprintf("redis-history|%s|%s|pools=%d|%s|foreign-keys=%v", h.p.kind.name(), h.p.mode, h.p.pools, h.p.maint, h.p.foreign))
	}
}

// ---------- the layer ----------

const redisHistoryBase = 10000 // history indices of the Redis histories (no overlap with the 2 000 of the other stores)

func redisLayer(r *ev.Run, ks ksrig.FullKeyStore) {
	t0 := time.Now()
	defer func() { r.Count("wall_ms_in_redis_layer", time.Since(t0).Milliseconds()) }() // cost accounting only
	for _, k := range redisKinds {
		textBoundary(r, k, ks)
		disabledMatrix(r, k, ks)
		for _, gran := range reuseGrans {
			reuseMatrix(r, k, gran, ks)
		}
		redisBulk(r, k, ks)
		redisFaults(r, k, ks)
	}
	r.Count("wall_ms_in_redis_layer_before_histories", time.Since(t0).Milliseconds())
	n := r.Pick(40, 320)
	ch := make(chan *plan)
	var wg sync.WaitGroup
	for w := 0; w < r.Pick(3, 6); w++ {
		wg.Add(1)
		go func() {
			defer wg.Done()
			for p := range ch {
				runHistory(r, p, ks)
			}
		}()
	}
	for i := 0; i < n; i++ {
		ch <- makePlanOn(r, redisHistoryBase+i, redisKinds[i%2])
	}
	close(ch)
	wg.Wait()

	// non-vacuity of the layer
	for _, k := range redisKinds {
		s := k.name()
		r.RequireAtLeast("redis_histories:"+s, int64(n/2))
		r.RequireAtLeast("consistent_keys_with_overlapping_first_calls:"+s, int64(r.Pick(10, 80)))
		r.RequireAtLeast("linearizability_partitions_checked:"+s, int64(r.Pick(60, 500)))
		r.RequireAtLeast("format_checked:store="+s, int64(r.Pick(300, 2500)))
		r.RequireAtLeast("store_records_verified:"+s, int64(r.Pick(300, 2500)))
		r.RequireAtLeast("owner_detokenize_returned_original:"+s, int64(r.Pick(100, 800)))
		r.RequireAtLeast("foreign_context_got_token_back:"+s, int64(r.Pick(20, 150)))
		r.RequireAtLeast("unknown_token_came_back:"+s, int64(r.Pick(10, 80)))
		r.RequireAtLeast("redis_bulk_steps_checked:"+s, 12)
		r.RequireAtLeast("redis_bulk_token_records:"+s, 500)
		r.RequireAtLeast("redis_bulk_scan_pages:"+s, 300)
		r.RequireAtLeast("redis_bulk_scan_pages_without_a_token_record:"+s, 100)
		r.RequireAtLeast("redis_fault_cases:"+s, 100)
		r.RequireAtLeast("redis_fault_cases_where_the_faulted_call_failed:"+s, 40)
		r.RequireAtLeast("redis_fault_later_tokenize_agreed:"+s, 60)
		r.RequireAtLeast("redis_fault_existing_tokens_still_reversible:"+s, 300)
	}
	r.RequireAtLeast("redis_consistent_keys_with_overlapping_first_calls_from_different_connection_pools", int64(r.Pick(10, 80)))
	r.RequireAtLeast("redis_databases_iterated", int64(n))
	r.RequireAtLeast("redis_foreign_keys_found_intact", 1000)
	r.RequireSetAtLeast("redis_history_connection_pools", 3)
	r.RequireSetAtLeast("redis_fault_points", 30)
	r.RequireAtLeast("reuse_matrix_redis_reads_that_wrote_the_record_back:granularity=0", 150)
	r.RequireAtLeast("reuse_matrix_redis_reads_that_wrote_the_record_back:granularity=1ns", 150)
}

// redisLogStats counts, in the commands logged since index from, the applied mutating commands and the SCAN pages.
func redisLogStats(srv *fakeredis.Server, from int) (writes, scanPages, _ int) {
	for _, c := range srv.LogSince(from) {
		if c.Mutates && c.Action != fakeredis.FailBefore && c.Action != fakeredis.DropBefore && !strings.HasPrefix(c.Reply, "err") {
			writes++
		}
		if c.Name == "SCAN" {
			scanPages++
		}
	}
	return
}

// ---------- maintenance over many records among many foreign keys ----------

type bulkTok struct {
	tok, val   tval
	ctx        int
	consistent bool
}

// redisBulk: ~560 token records (200 consistent values = 400 records, 160 random tokens) and 600 foreign keys in one database;
// two connection pools (tokenization through both, maintenance through a third). Steps: status / disable some / remove only
// disabled / disable all / enable all / date limits matching nothing / remove all, each checked against the key space read
// from the server: the records the step names, and only those, changed; every surviving token still gives its original, every
// disabled or removed one comes back as itself; nothing outside tokens/* and nothing in the other database changed.
func redisBulk(r *ev.Run, kind storeKind, ks ksrig.FullKeyStore) {
	t0 := time.Now()
	defer func() { r.Count("wall_ms_in_redis_bulk", time.Since(t0).Milliseconds()) }() // cost accounting only
	store := kind.name()
	violation := func(sig string, d map[string]interface{}) {
		d["scenario"], d["store"], d["replay"] = "redis bulk maintenance", store, fmt.Sprintf("VERIF_SEED=%d ./check C10 %s", r.Seed, r.Tier)
		if e, ok := d["error"].(string); ok && strings.Contains(e, "i/o timeout") { // go-redis' 3 s wall-clock read timeout under load: a resource verdict
			r.Inconclusive("redis bulk: go-redis client-side i/o timeout (wall clock) - " + sig)
			return
		}
		r.Violation("redis "+sig, d)
	}
	g, err := newRig(kind, ks, true)
	if err != nil {
		r.Inconclusive(fmt.Sprintf("redis bulk: store %s could not be built: %v", store, err))
		return
	}
	defer g.discard()
	g.srv.SetLogging(true)
	rng := gen.New(r.Seed, "c10-redis-bulk-"+store)
	foreign, other := redisPlantForeign(g, rng, 600)
	pb, err1 := g.addPool()
	pm, err2 := g.addPool()
	if err1 != nil || err2 != nil {
		r.Inconclusive(fmt.Sprintf("redis bulk: connection pools could not be opened: %v %v", err1, err2))
		return
	}
	pools := []*rig{g, pb}
	r.Case()

	// population
	var toks []bulkTok
	for i := 0; i < 360; i++ {
		typ := allTypes[i%5]
		ctx := (i / 5) % 3
		consistent := i < 200
		v := uniqueValue(rng, typ, ctx, 1000+i)
		ls := layersFor(consistent)
		l := ls[i%len(ls)]
		rg := pools[i%2]
		out, problem, err, pan := guarded(func() (tval, string, error) { return rg.tokenize(l, consistent, ctx, v) })
		if pan != nil || err != nil || problem != "" {
			violation(fmt.Sprintf("bulk: tokenize failed on a healthy store: layer=%s type=%s mode=%s", layerNames[l], typeName(typ), modeName(consistent)),
				map[string]interface{}{"value": v.full(), "error": fmt.Sprint(err), "problem": problem, "panic": pan != nil})
			continue
		}
		toks = append(toks, bulkTok{out, v, ctx, consistent})
	}
	tkey := func(t bulkTok) string { return redisKey("t.", t.tok.encoded(), t.ctx, t.tok.typ) }

	check := func(step string, before redisDBView, wantGone func(k string) bool, wantDisabled func(k string) bool, logFrom int) (redisDBView, bool) {
		after := redisView(g)
		ok := true
		det := func(extra map[string]interface{}) map[string]interface{} {
			m := map[string]interface{}{"step": step, "token_records_before": len(before.tokenKeys), "disabled_before": len(before.disabled), "token_records_after": len(after.tokenKeys), "disabled_after": len(after.disabled), "foreign_keys": len(foreign), "scan_salt": g.srv.ScanSalt}
			for k, v := range extra {
				m[k] = v
			}
			return m
		}
		wrongGone, wrongKept, wrongState, rewritten := 0, 0, 0, 0
		for k, val := range before.tokenKeys {
			now, there := after.tokenKeys[k]
			switch {
			case wantGone(k) && there:
				wrongKept++
			case !wantGone(k) && !there:
				wrongGone++
			case there && after.disabled[k] != wantDisabled(k):
				wrongState++
			case there && before.disabled[k] == after.disabled[k] && now != val:
				rewritten++
			}
		}
		if wrongGone+wrongKept+wrongState+rewritten > 0 || len(after.tokenKeys) > len(before.tokenKeys) || len(after.undecodable) > 0 {
			ok = false
			violation("maintenance effect: "+step+" over many records must change exactly the records it names",
				det(map[string]interface{}{"removed_but_should_stay": wrongGone, "kept_but_should_go": wrongKept, "wrong_disabled_state": wrongState, "rewritten_although_untouched": rewritten, "undecodable_after": len(after.undecodable)}))
		}
		mi, ch, ad := sameMap(foreign, after.foreign)
		omi, och, oad := sameMap(other, g.srv.Snapshot().DBs[redisOtherDB])
		if mi+ch+ad+omi+och+oad > 0 {
			ok = false
			violation("maintenance effect: "+step+" changed keys that do not belong to the token store",
				det(map[string]interface{}{"foreign_missing": mi, "foreign_changed": ch, "keys_added_outside_tokens/": ad, "other_database_missing": omi, "other_database_changed": och, "other_database_added": oad}))
		}
		_, pages, _ := redisLogStats(g.srv, logFrom)
		r.Count("redis_bulk_scan_pages:"+store, int64(pages))
		if ok {
			r.Count("redis_bulk_steps_checked:"+store, 1)
			r.Distinct("redis-bulk|" + store + "|" + step)
		}
		return after, ok
	}
	// emptyPages: SCAN calls of a visit that were not followed by an MGET (no token record on that page)
	emptyPages := func(from int) int {
		n := 0
		log := g.srv.LogSince(from)
		for i, c := range log {
			if c.Name == "SCAN" && (i+1 >= len(log) || log[i+1].Name != "MGET") {
				n++
			}
		}
		return n
	}
	visit := func(step string, f func(md common.TokenMetadata) common.TokenAction) (int, bool) {
		n := 0
		err := pm.store.VisitMetadata(func(_ int, md common.TokenMetadata) (common.TokenAction, error) { n++; return f(md), nil })
		if err != nil {
			violation("maintenance effect: "+step+": the metadata visit failed on a healthy server", map[string]interface{}{"step": step, "error": err.Error(), "records_visited": n})
			return n, false
		}
		return n, true
	}
	detok := func(step string, expect func(t bulkTok) (tval, string)) {
		bad := 0
		for i, t := range toks {
			if i%3 != 0 && step != "remove-disabled" && len(toks) > 20 { // a third of the tokens per step, all of them after the partial removal
				continue
			}
			want, what := expect(t)
			l := detokLayers[i%len(detokLayers)]
			rg := pools[(i/2)%2]
			out, problem, err, pan := guarded(func() (tval, string, error) { return rg.detokenize(l, t.ctx, t.tok) })
			r.Count("redis_bulk_detokenize_judged:"+store, 1)
			if pan != nil || err != nil || problem != "" || !out.equal(want) {
				if bad++; bad <= 3 {
					violation(fmt.Sprintf("bulk: after %s the owner's detokenize must return %s: entry=%s type=%s", step, what, detokSig[l], typeName(t.tok.typ)),
						map[string]interface{}{"token": t.tok.full(), "original": t.val.full(), "result": out.full(), "error": fmt.Sprint(err), "problem": problem, "panic": pan != nil})
				}
			}
		}
	}
	never := func(string) bool { return false }

	before := redisView(g)
	r.Count("redis_bulk_token_records:"+store, int64(len(before.tokenKeys)))
	r.Count("redis_bulk_foreign_keys:"+store, int64(len(before.foreign)))
	if len(before.tokenKeys) < len(toks) {
		violation("bulk: fewer records in Redis than tokens issued", map[string]interface{}{"records": len(before.tokenKeys), "tokens": len(toks)})
		return
	}
	salt := rng.Uint64()
	nextSalt := func() { salt = salt*6364136223846793005 + 1442695040888963407; g.srv.ScanSalt = salt }

	// 1. status: every record visited, nothing changes
	nextSalt()
	from := g.srv.LogLen()
	n, ok := visit("status", maintSpecs["status"].visit)
	if !ok {
		return
	}
	if n != len(before.tokenKeys) {
		violation("maintenance effect: status over many records must visit every token record and nothing else", map[string]interface{}{"visited": n, "token_records": len(before.tokenKeys), "foreign_keys": len(foreign)})
	}
	r.Count("redis_bulk_scan_pages_without_a_token_record:"+store, int64(emptyPages(from)))
	cur, ok := check("status", before, never, func(k string) bool { return before.disabled[k] }, from)
	if !ok {
		return
	}
	detok("status", func(t bulkTok) (tval, string) { return t.val, "the original" })

	// 2. disable some (every third record the visitor meets)
	nextSalt()
	from = g.srv.LogLen()
	met := 0
	if _, ok = visit("disable-some", func(md common.TokenMetadata) common.TokenAction {
		met++
		if !md.Disabled && met%3 == 0 {
			return common.TokenDisable
		}
		return common.TokenContinue
	}); !ok {
		return
	}
	mid := redisView(g)
	if len(mid.disabled) != met/3 {
		violation("maintenance effect: disable of selected records must disable exactly those", map[string]interface{}{"disable_actions_returned": met / 3, "disabled_after": len(mid.disabled), "visited": met})
		return
	}
	sel := mid.disabled
	if cur, ok = check("disable-some", cur, never, func(k string) bool { return sel[k] }, from); !ok {
		return
	}
	r.Count("redis_bulk_records_disabled_selectively:"+store, int64(len(sel)))
	detok("disable-some", func(t bulkTok) (tval, string) {
		if sel[tkey(t)] {
			return t.tok, "the token itself (its record is disabled)"
		}
		return t.val, "the original (its record was not disabled)"
	})

	// 3. remove only the disabled ones
	nextSalt()
	from = g.srv.LogLen()
	if _, ok = visit("remove-disabled", maintSpecs["remove-disabled"].visit); !ok {
		return
	}
	if cur, ok = check("remove-disabled", cur, func(k string) bool { return sel[k] }, never, from); !ok {
		return
	}
	detok("remove-disabled", func(t bulkTok) (tval, string) {
		if sel[tkey(t)] {
			return t.tok, "the token itself (its record was removed)"
		}
		return t.val, "the original (its record was not removed)"
	})
	// what is left: tokens whose 't.' record survived; a consistent value keeps its token only if its 'h.' record survived too
	// (records are disabled / removed one by one; a value whose 'h.' record is gone legitimately gets a new token)
	var left []bulkTok
	for _, t := range toks {
		if !sel[tkey(t)] {
			if t.consistent && sel[redisKey("h.", t.val.encoded(), t.ctx, t.val.typ)] {
				t.consistent = false
			}
			left = append(left, t)
		}
	}
	r.Count("redis_bulk_tokens_survived_partial_removal:"+store, int64(len(left)))
	toks = left

	// 4. date limits that match nothing
	for _, name := range []string{"date-noop-disable", "date-noop-remove", "dry-run"} {
		nextSalt()
		from = g.srv.LogLen()
		if _, ok = visit(name, maintSpecs[name].visit); !ok {
			return
		}
		if cur, ok = check(name, cur, never, never, from); !ok {
			return
		}
	}
	// 5. disable all, 6. enable all
	nextSalt()
	from = g.srv.LogLen()
	if _, ok = visit("disable", maintSpecs["disable"].visit); !ok {
		return
	}
	if cur, ok = check("disable", cur, never, func(string) bool { return true }, from); !ok {
		return
	}
	detok("disable", func(t bulkTok) (tval, string) { return t.tok, "the token itself (every record is disabled)" })
	nextSalt()
	from = g.srv.LogLen()
	if _, ok = visit("enable", maintSpecs["enable"].visit); !ok {
		return
	}
	if cur, ok = check("enable", cur, never, never, from); !ok {
		return
	}
	detok("enable", func(t bulkTok) (tval, string) { return t.val, "the original (every record is enabled back)" })
	// consistent values keep their tokens over all of this, from either pool
	changed := 0
	for i, t := range toks {
		if !t.consistent || i%4 != 0 {
			continue
		}
		ls := layersFor(true)
		rg := pools[i%2]
		l := ls[i%len(ls)]
		out, _, err, pan := guarded(func() (tval, string, error) { return rg.tokenize(l, true, t.ctx, t.val) })
		r.Count("redis_bulk_consistent_tokenize_again:"+store, 1)
		if pan != nil || err != nil || !out.equal(t.tok) {
			if changed++; changed <= 3 {
				violation("bulk: consistent tokenization of a value whose records survived maintenance must return the same token: type="+typeName(t.val.typ),
					map[string]interface{}{"value": t.val.full(), "token_before": t.tok.full(), "token_now": out.full(), "error": fmt.Sprint(err), "panic": pan != nil})
			}
		}
	}
	// 7. remove all
	nextSalt()
	from = g.srv.LogLen()
	if _, ok = visit("remove-all", maintSpecs["remove-all"].visit); !ok {
		return
	}
	if _, ok = check("remove-all", cur, func(string) bool { return true }, never, from); !ok {
		return
	}
	detok("remove-all", func(t bulkTok) (tval, string) { return t.tok, "the token itself (every record was removed)" })

	// 8. a handful of records among hundreds of foreign keys: most SCAN pages hold no token record at all (the cursor is
	// non-zero and the page is empty); the visitor must still meet every record, and disable / enable must reach them
	toks = toks[:0]
	for i := 0; i < 6; i++ {
		v := uniqueValue(rng, allTypes[i%5], i%3, 3000+i)
		ctx := i % 3
		out, problem, err, pan := guarded(func() (tval, string, error) { return pools[i%2].tokenize(lPseudo, true, ctx, v) })
		if pan != nil || err != nil || problem != "" {
			violation("bulk: tokenize failed on a healthy store: layer=Pseudoanonymizer type="+typeName(v.typ)+" mode=consistent", map[string]interface{}{"value": v.full(), "error": fmt.Sprint(err)})
			return
		}
		toks = append(toks, bulkTok{out, v, ctx, true})
	}
	sparse := redisView(g)
	for _, name := range []string{"status", "disable", "enable"} {
		nextSalt()
		from = g.srv.LogLen()
		n, ok := visit(name+"-sparse", maintSpecs[name].visit)
		if !ok {
			return
		}
		if n != len(sparse.tokenKeys) {
			violation("maintenance effect: "+name+" over a few records among many foreign keys must visit every token record and nothing else", map[string]interface{}{"visited": n, "token_records": len(sparse.tokenKeys), "foreign_keys": len(foreign)})
			return
		}
		r.Count("redis_bulk_scan_pages_without_a_token_record:"+store, int64(emptyPages(from)))
		if sparse, ok = check(name+"-sparse", sparse, never, func(string) bool { return name == "disable" }, from); !ok {
			return
		}
		if name == "disable" {
			detok(name+"-sparse", func(t bulkTok) (tval, string) { return t.tok, "the token itself (every record is disabled)" })
		} else {
			detok(name+"-sparse", func(t bulkTok) (tval, string) { return t.val, "the original" })
		}
	}
	if n := g.srv.Unknown(); n > 0 {
		r.Inconclusive(fmt.Sprintf("fakeredis: unknown command received %d times in the bulk maintenance scenario", n))
	}
	var names []string
	for k := range foreign {
		names = append(names, k)
	}
	sort.Strings(names)
	r.SampleN("redis-bulk", 2, map[string]interface{}{"redis_bulk_maintenance_on": store, "token_records": len(before.tokenKeys), "foreign_keys": len(foreign), "keys_in_other_database": len(other),
		"selectively_disabled_then_removed": len(sel), "tokens_left_for_the_rest": len(toks), "foreign_key_examples": names[:6], "commands_served": g.srv.Seq()})
}
