package c10

import (
	"bytes"
	"encoding/json"
	"errors"
	"fmt"
	"math/big"
	"sort"
	"strings"
	"time"

	"github.com/anishathalye/porcupine"

	trcommon "github.com/cossacklabs/acra/cmd/acra-translator/common"
	"github.com/cossacklabs/acra/pseudonymization"
	"github.com/cossacklabs/acra/pseudonymization/common"

	"verif/harness/internal/ev"
	"verif/harness/internal/rig/ksrig"
)

func fixedKey(ctx int, v tval) string { return fmt.Sprintf("f|%d|%d|%s", ctx, int(v.typ), v.key()) }
func liveKey(ctx int, t tval) string  { return fmt.Sprintf("l|%d|%d|%s", ctx, int(t.typ), t.key()) }

func modeName(c bool) string {
	if c {
		return "consistent"
	}
	return "random"
}

// errClass names an error by the documented sentinel it is (stable across runs).
func errClass(err error) string {
	switch {
	case err == nil:
		return "nil"
	case errors.Is(err, pseudonymization.ErrGenerationRandomValue):
		return "ErrGenerationRandomValue"
	case errors.Is(err, trcommon.ErrTokenize):
		return "ErrTokenize"
	case errors.Is(err, trcommon.ErrDetokenize):
		return "ErrDetokenize"
	case errors.Is(err, common.ErrTokenExists):
		return "ErrTokenExists"
	case errors.Is(err, common.ErrTokenDisabled):
		return "ErrTokenDisabled"
	case errors.Is(err, common.ErrTokenNotFound):
		return "ErrTokenNotFound"
	case errors.Is(err, pseudonymization.ErrDataTypeMismatch):
		return "ErrDataTypeMismatch"
	case errors.Is(err, common.ErrUnknownTokenType):
		return "ErrUnknownTokenType"
	}
	return fmt.Sprintf("other(%T)", err)
}

func (h *history) inPool(ctx int, v tval) bool {
	for _, q := range h.p.pool {
		if !q.v.equal(v) {
			continue
		}
		for _, c := range q.ctxs {
			if c == ctx {
				return true
			}
		}
	}
	return false
}

func (h *history) detail(e *event, extra map[string]interface{}) map[string]interface{} {
	m := map[string]interface{}{
		"history": h.p.idx, "store": cfgName(h.p.kind, h.p.gran), "access_time_granularity": granName(h.p.gran), "bolt_nosync": h.p.nosync, "mode": h.p.mode, "goroutines": h.p.G, "maintenance": h.p.maint, "maintenance_via_cli": h.p.cli,
		"replay": fmt.Sprintf("VERIF_SEED=%d ./check C10 %s (history %d)", h.r.Seed, h.r.Tier, h.p.idx),
	}
	if e != nil {
		m["event"] = renderEvent(e, true)
	}
	for k, v := range extra {
		m[k] = v
	}
	return m
}

func renderEvent(e *event, full bool) map[string]interface{} {
	show := func(v tval) string {
		if full {
			return v.full()
		}
		return v.show()
	}
	m := map[string]interface{}{"goroutine": e.g, "phase": e.phaseName, "op": e.op, "layer": layerNames[e.layer], "type": typeName(e.in.typ), "client": string(clientIDs[e.ctx]), "call": e.call, "return": e.ret, "input": show(e.in)}
	if e.op == "tokenize" {
		m["mode"] = modeName(e.consistent)
	} else {
		m["role"] = e.role
		if e.hasWant {
			m["original_known_to_issuer"] = show(e.want)
			m["token_owner"] = string(clientIDs[e.octx])
		}
	}
	switch {
	case e.pan != nil:
		m["panic"] = e.pan.class + " at " + e.pan.site
	case e.err != nil:
		m["error"] = e.err.Error()
	default:
		m["result"] = show(e.out)
		if e.problem != "" {
			m["result_problem"] = e.problem
		}
	}
	return m
}

// ---------- linearizability model: "first call fixes the token, all later calls return it" ----------

type linState struct {
	set bool
	tok string
}
type linOut struct {
	ok  bool
	tok string
}

var tokenModel = porcupine.Model{
	Init: func() interface{} { return linState{} },
	Step: func(state, input, output interface{}) (bool, interface{}) {
		st := state.(linState)
		out := output.(linOut)
		if !out.ok { // a refused call (documented error class) has no effect
			return true, st
		}
		if !st.set {
			return true, linState{true, out.tok}
		}
		return st.tok == out.tok, st
	},
	Equal: func(a, b interface{}) bool { return a.(linState) == b.(linState) },
}

// evaluatePhase runs every oracle over the events of one phase; the store is quiescent.
func (h *history) evaluatePhase(ph *phase, evs []*event) {
	r := h.r
	p := h.p
	kind := p.kind.name()
	// histories on a store with a non-default access-time granularity name that configuration in every signature
	cfg := ""
	if p.gran != "" {
		cfg = " store-config=" + cfgName(p.kind, p.gran)
	}
	viol := func(sig string, detail interface{}) { r.Violation(storeSig(kind, sig+cfg), detail) }
	r.Count("events", int64(len(evs)))
	type part struct {
		ctx int
		v   tval
		evs []*event
	}
	parts := map[string]*part{}
	var partOrder []string
	byKeyAny := map[string][]*event{}
	misses, hits := 0, 0

	for _, e := range evs {
		lname := layerNames[e.layer]
		if e.op == "tokenize" {
			r.SetAdd("layers_tokenize", lname)
		} else {
			r.SetAdd("layers_detokenize", lname)
		}
		// --- no call may panic
		if e.pan != nil {
			viol(fmt.Sprintf("panic in %s: layer=%s type=%s len=%s site=%s class=%s", e.op, lname, typeName(e.in.typ), e.in.lenClass(), e.pan.site, e.pan.class),
				h.detail(e, map[string]interface{}{"stack": e.pan.stack}))
			continue
		}
		if e.op == "tokenize" {
			k := fixedKey(e.ctx, e.in)
			byKeyAny[k] = append(byKeyAny[k], e)
			if e.consistent {
				pt := parts[k]
				if pt == nil {
					pt = &part{ctx: e.ctx, v: e.in}
					parts[k] = pt
					partOrder = append(partOrder, k)
				}
				pt.evs = append(pt.evs, e)
			}
			// --- errors only in the documented classes
			if e.err != nil {
				cl := errClass(e.err)
				switch {
				case e.relaxed && e.consistent && h.disabledK[k]:
					r.Count("disabled_phase_tokenize_refused", 1)
				case (cl == "ErrGenerationRandomValue" || (cl == "ErrTokenize" && e.layer == lTranslator)) && tokenSpaceSmall(e.in):
					r.Count("exhaustion_errors_on_small_token_space", 1)
				default:
					viol(fmt.Sprintf("unexpected error: op=tokenize layer=%s type=%s len=%s mode=%s encrypting-wrapper=%v class=%s", lname, typeName(e.in.typ), e.in.errLenClass(), modeName(e.consistent), p.kind.enc, cl), h.detail(e, nil))
				}
				continue
			}
			// --- format
			r.Count("format_checked", 1)
			r.Count("format_checked:store="+kind, 1)
			r.Count("format_checked:"+typeName(e.in.typ), 1)
			if e.problem != "" {
				viol(fmt.Sprintf("format: %s: layer=%s type=%s", e.problem, lname, typeName(e.in.typ)), h.detail(e, nil))
				continue
			}
			if !isInt(e.in.typ) && len(e.out.s) != len(e.in.s) {
				viol(fmt.Sprintf("format: token length differs from value length: layer=%s type=%s len=%s", lname, typeName(e.in.typ), e.in.lenClass()), h.detail(e, nil))
			}
			if e.in.typ == common.TokenType_Email && emailShaped(e.in.s) {
				r.Count("email_shape_checked", 1)
				if !emailShaped(e.out.s) {
					viol(fmt.Sprintf("format: e-mail-shaped value got a token that is not e-mail-shaped: layer=%s len=%s", lname, e.in.lenClass()), h.detail(e, nil))
				}
			}
			if e.out.equal(e.in) {
				r.Count("token_equal_to_value_not_an_error", 1)
			}
			// --- injectivity over everything alive in this (context, type)
			lk := liveKey(e.ctx, e.out)
			r.Count("injectivity_tokens_checked", 1)
			if prev, ok := h.live[lk]; ok && !prev.equal(e.in) {
				viol(fmt.Sprintf("injectivity: two different values share a token within one client context: type=%s len=%s", typeName(e.in.typ), e.in.lenClass()),
					h.detail(e, map[string]interface{}{"other_value_with_this_token": prev.full()}))
			} else {
				h.live[lk] = e.in
			}
			continue
		}
		// --- detokenize
		// a token whose record (in the context the call runs under) maintenance disabled is an unknown token for every
		// reader: the token itself, no error; once enabled back its owner gets the original again (disabled.go)
		if dlk := liveKey(e.ctx, e.in); (e.relaxed && h.disabledK[dlk]) || (!e.relaxed && e.role == "owner" && h.reenabled[dlk]) {
			e := e
			obs := detokObs{store: kind, cfg: cfgName(p.kind, p.gran), l: e.layer, tok: e.in, val: e.want, known: e.hasWant && e.role == "owner", out: e.out, prob: e.problem, err: e.err}
			via := "concurrent-calls"
			if ph.sweep {
				via = "sweep"
			}
			det := func(extra map[string]interface{}) map[string]interface{} { return h.detail(e, extra) }
			if e.relaxed {
				judgeDisabledDetok(r, obs, via, det)
			} else if judgeReenabledDetok(r, obs, via, det) {
				r.Count("owner_detokenize_returned_original", 1)
			}
			continue
		}
		if e.err != nil {
			// also while other tokens are disabled: a detokenize call has no documented reason to fail
			viol(fmt.Sprintf("unexpected error: op=detokenize role=%s layer=%s type=%s class=%s", e.role, lname, typeName(e.in.typ), errClass(e.err)), h.detail(e, nil))
			continue
		}
		if e.problem != "" {
			viol(fmt.Sprintf("format: detokenize %s: layer=%s type=%s", e.problem, lname, typeName(e.in.typ)), h.detail(e, nil))
			continue
		}
		switch e.role {
		case "owner":
			switch {
			case e.out.equal(e.want):
				r.Count("owner_detokenize_returned_original", 1)
				r.Count("owner_detokenize_returned_original:"+kind, 1)
			default:
				viol(fmt.Sprintf("reversibility: owner did not get the original back: layer=%s type=%s len=%s", lname, typeName(e.in.typ), e.want.lenClass()), h.detail(e, nil))
			}
		case "foreign":
			switch {
			case e.out.equal(e.in):
				r.Count("foreign_context_got_token_back", 1)
				r.Count("foreign_context_got_token_back:"+kind, 1)
			case h.inPool(e.ctx, e.out):
				r.Count("token_also_exists_in_other_context_tolerated", 1)
			case e.out.equal(e.want):
				viol(fmt.Sprintf("isolation: detokenize under another client context returned the owner's original: layer=%s type=%s", lname, typeName(e.in.typ)), h.detail(e, nil))
			default:
				viol(fmt.Sprintf("isolation: detokenize under another client context returned neither the token nor a value of that context: layer=%s type=%s", lname, typeName(e.in.typ)), h.detail(e, nil))
			}
		default: // unknown | removed
			switch {
			case e.out.equal(e.in):
				r.Count(e.role+"_token_came_back", 1)
				r.Count(e.role+"_token_came_back:"+kind, 1)
			case h.inPool(e.ctx, e.out):
				r.Count("unknown_token_hit_an_existing_one_tolerated", 1)
			default:
				viol(fmt.Sprintf("unknown token: detokenize of a %s token returned something that is neither it nor a value of the context: layer=%s type=%s", e.role, lname, typeName(e.in.typ)), h.detail(e, nil))
			}
		}
	}

	// --- overlap measurement (what makes a history non-trivial)
	for _, l := range byKeyAny {
		sort.Slice(l, func(i, j int) bool { return l[i].call < l[j].call })
		for i := 1; i < len(l); i++ {
			if l[i].call < l[i-1].ret {
				r.Count("keys_with_overlapping_tokenize_calls", 1)
				h.contended["any"] = true
				break
			}
		}
	}

	// --- consistency as linearizability, one partition per (context, type, value)
	for _, k := range partOrder {
		pt := parts[k]
		ops := []porcupine.Operation{}
		prior, hadPrior := h.fixed[k]
		if hadPrior {
			ops = append(ops, porcupine.Operation{ClientId: 0, Input: "state carried over from the previous quiescent point", Call: -2, Output: linOut{true, prior.key()}, Return: -1})
		}
		firstRet := int64(-1)
		tokens := map[string]bool{}
		for _, e := range pt.evs {
			o := linOut{ok: e.ok(), tok: e.out.key()}
			if o.ok {
				tokens[o.tok] = true
				if firstRet < 0 || e.ret < firstRet {
					firstRet = e.ret
				}
			}
			ops = append(ops, porcupine.Operation{ClientId: e.g + 1, Input: "tokenize", Call: e.call, Output: o, Return: e.ret})
		}
		if !hadPrior && firstRet > 0 {
			n := 0
			for _, e := range pt.evs {
				if e.call < firstRet {
					n++
				}
			}
			if n >= 2 {
				r.Count("consistent_keys_with_overlapping_first_calls", 1)
				r.Count("consistent_keys_with_overlapping_first_calls:"+kind, 1)
				r.SetAdd("store_kinds_with_contended_consistent_keys", kind)
				h.contended["first"] = true
				if p.kind.redis {
					// first calls for the key that overlapped AND came through different connection pools
					pools := map[int]bool{}
					for _, e := range pt.evs {
						if e.call < firstRet {
							pools[h.poolOf(e.g)] = true
						}
					}
					if len(pools) >= 2 {
						r.Count("redis_consistent_keys_with_overlapping_first_calls_from_different_connection_pools", 1)
						h.contended["pools"] = true
					}
				}
			}
		}
		res := porcupine.CheckOperationsTimeout(tokenModel, ops, 20*time.Second)
		r.Count("linearizability_partitions_checked", 1)
		r.Count("linearizability_partitions_checked:"+kind, 1)
		switch res {
		case porcupine.Ok:
			for _, e := range pt.evs {
				if e.ok() {
					h.fixed[k] = e.out
					break
				}
			}
		case porcupine.Unknown:
			r.Inconclusive(fmt.Sprintf("history %d: linearizability check of one key timed out", p.idx))
		default:
			var list []interface{}
			for _, e := range pt.evs {
				list = append(list, renderEvent(e, false))
			}
			layers := map[string]bool{}
			for _, e := range pt.evs {
				layers[layerNames[e.layer]] = true
			}
			what := "concurrent calls"
			if hadPrior {
				what = "calls after an earlier phase fixed the token"
			}
			viol(fmt.Sprintf("consistency: tokenize history of one (context,type,value) is not linearizable to 'first call fixes the token': type=%s len=%s", typeName(pt.v.typ), pt.v.lenClass()),
				h.detail(nil, map[string]interface{}{"different_tokens": len(tokens) + boolInt(hadPrior && !tokens[prior.key()]), "value": pt.v.full(), "client": string(clientIDs[pt.ctx]), "what": what, "token_fixed_earlier": map[bool]string{true: prior.show(), false: ""}[hadPrior], "calls": list}))
		}
	}

	// --- store contents at quiescence (only while tokens are enabled)
	if !ph.relaxed && !ph.sweep {
		for lk, v := range h.live {
			ctx, tok := parseLive(lk, v.typ)
			data, err := h.rig.store.Get(recordID("t.", tok.encoded(), ctx, v.typ), common.TokenContext{ClientID: clientIDs[ctx]})
			switch {
			case errors.Is(err, common.ErrTokenNotFound):
				misses++
				continue
			case err != nil:
				viol(fmt.Sprintf("store content: record of an issued token cannot be read back: type=%s class=%s", typeName(v.typ), errClass(err)), h.detail(nil, map[string]interface{}{"token": tok.full(), "error": err.Error()}))
				continue
			}
			hits++
			tv, err := common.TokenValueFromData(data)
			if err != nil || tv.Type != v.typ || !bytes.Equal(tv.Value, v.encoded()) {
				viol(fmt.Sprintf("store content: record of a token holds another value or type: type=%s", typeName(v.typ)), h.detail(nil, map[string]interface{}{"token": tok.full(), "expected_value": v.full(), "stored": ev.Hex(data)}))
				continue
			}
			r.Count("store_records_verified", 1)
			r.Count("store_records_verified:"+kind, 1)
		}
		for fk, tok := range h.fixed {
			ctx, v := parseFixed(fk, tok.typ)
			data, err := h.rig.store.Get(recordID("h.", v.encoded(), ctx, tok.typ), common.TokenContext{ClientID: clientIDs[ctx]})
			switch {
			case errors.Is(err, common.ErrTokenNotFound):
				misses++
				continue
			case err != nil:
				viol(fmt.Sprintf("store content: consistent-tokenization record cannot be read back: type=%s class=%s", typeName(tok.typ), errClass(err)), h.detail(nil, map[string]interface{}{"value": v.full(), "error": err.Error()}))
				continue
			}
			hits++
			if !bytes.Equal(data, tok.encoded()) {
				viol(fmt.Sprintf("store content: consistent-tokenization record holds another token than the calls returned: type=%s", typeName(tok.typ)), h.detail(nil, map[string]interface{}{"value": v.full(), "token_returned": tok.full(), "stored": ev.Hex(data)}))
				continue
			}
			r.Count("store_records_verified", 1)
			r.Count("store_records_verified:"+kind, 1)
		}
		r.Count("store_lookup_hit", int64(hits))
		r.Count("store_lookup_miss", int64(misses))
		if misses > 0 && hits > 0 {
			viol("store content: record of an issued token is missing", h.detail(nil, map[string]interface{}{"missing": misses, "found": hits}))
		}
		total, _, err := h.rig.recordCount()
		if err == nil {
			need := len(h.live) + len(h.fixed)
			if misses == 0 && total < need {
				viol("store content: fewer records than issued tokens and consistent values", h.detail(nil, map[string]interface{}{"records": total, "needed": need}))
			}
			r.Count("store_record_counts_checked", 1)
		}
		if bk, err := h.rig.boltBuckets(); err == nil && bk != nil {
			sum := 0
			for name, n := range bk {
				sum += n
				known := false
				for c := range clientIDs {
					if name == string(ctxBucket(c)) {
						known = true
					}
				}
				if !known && n > 0 {
					viol("store content: BoltDB holds token records outside the three client contexts' buckets", h.detail(nil, map[string]interface{}{"bucket": ev.Hex([]byte(name)), "records": n}))
				}
			}
			perCtx := map[int]int{}
			for lk := range h.live {
				c, _ := parseLive(lk, common.TokenType_String)
				perCtx[c]++
			}
			for fk := range h.fixed {
				c, _ := parseFixed(fk, common.TokenType_String)
				perCtx[c]++
			}
			for c, need := range perCtx {
				if misses == 0 && bk[string(ctxBucket(c))] < need {
					viol("store content: a client context's BoltDB bucket holds fewer records than that context's tokens", h.detail(nil, map[string]interface{}{"client": string(clientIDs[c]), "records": bk[string(ctxBucket(c))], "needed": need}))
				}
			}
			if err == nil && sum != total {
				viol("store content: metadata visitor and direct BoltDB iteration disagree on the number of records", h.detail(nil, map[string]interface{}{"visitor": total, "bolt": sum}))
			}
			r.Count("boltdb_files_iterated", 1)
		}
		if p.kind.redis && err == nil {
			redisContentOracle(h, viol, total, misses)
		}
	}
}

func boolInt(b bool) int {
	if b {
		return 1
	}
	return 0
}

// parseLive / parseFixed recover (context, token|value) from the map keys built by liveKey / fixedKey.
func parseLive(k string, typ common.TokenType) (int, tval) {
	f := strings.SplitN(k, "|", 4)
	ctx := int(f[1][0] - '0')
	return ctx, fromKey(typ, f[3])
}
func parseFixed(k string, typ common.TokenType) (int, tval) { return parseLive(k, typ) }

func fromKey(typ common.TokenType, key string) tval {
	if isInt(typ) {
		n, _ := new(big.Int).SetString(key, 10)
		return tval{typ: typ, i: n.Int64()}
	}
	return tval{typ: typ, s: key}
}

// summarize records what kind of history this was.
func (h *history) summarize() {
	r := h.r
	p := h.p
	r.SetAdd("store_kinds", p.kind.name())
	r.SetAdd("maintenance_kinds", p.maint)
	r.SetAdd("modes", p.mode)
	for _, t := range p.types {
		r.SetAdd("types", typeName(t))
	}
	r.SetAdd("goroutine_counts", fmt.Sprint(p.G))
	if h.p.bgVisitor {
		r.Count("concurrent_metadata_visits", h.visits)
	}
	if h.contended["any"] && !h.dead {
		gc := "2-3"
		if p.G >= 8 {
			gc = "8+"
		} else if p.G >= 4 {
			gc = "4-7"
		}
		r.Distinct(fmt.Sprintf("%s|%s|%s|g%s|%s|cli=%v|first-call-contention=%v", p.kind.name(), p.mode, p.typeNames(), gc, p.maint, p.cli, h.contended["first"]))
		r.Count("nontrivial_histories", 1)
	}
	tag := p.kind.name() + "/" + p.mode
	n := len(h.evs)
	if n > 10 {
		n = 10
	}
	var first []interface{}
	for _, e := range h.evs[:n] {
		first = append(first, renderEvent(e, false))
	}
	r.SampleN(tag, 1, map[string]interface{}{"history": p.idx, "store": p.kind.name(), "mode": p.mode, "types": p.typeNames(), "goroutines": p.G, "maintenance": p.maint, "via_cli": p.cli,
		"events_total": len(h.evs), "pool_values": len(p.pool), "first_events": first})
}

// ---------- text boundary of integer columns ----------

var boundaryTexts = map[common.TokenType][]string{
	common.TokenType_Int32: {"0", "-1", "1", "2147483647", "-2147483648", "2147483646", "-2147483647",
		"2147483648", "-2147483649", "4294967295", "4294967296", "4294967297", "-4294967296", "6442450944", "9223372036854775807", "-9223372036854775808", "99999999999",
		"9223372036854775808", "-9223372036854775809", "340282366920938463463374607431768211456", "", "abc", "1.5", "0x10", " 1", "1 ", "1e3", "--1"},
	common.TokenType_Int64: {"0", "-1", "1", "2147483648", "-2147483649", "9223372036854775807", "-9223372036854775808", "9223372036854775806",
		"9223372036854775808", "-9223372036854775809", "18446744073709551615", "18446744073709551616", "340282366920938463463374607431768211456", "", "abc", "1.5", "0x10", " 1", "1 ", "1e3", "--1"},
}

func textBoundary(r *ev.Run, kind storeKind, ks ksrig.FullKeyStore) {
	violation := func(sig string, d interface{}) { // Redis variants: signatures start with "redis "
		if kind.redis { // go-redis' 3 s wall-clock read timeout under load is a resource verdict, never a violation
			if b, err := json.Marshal(d); err == nil && strings.Contains(string(b), "i/o timeout") {
				r.Inconclusive("redis history: go-redis client-side i/o timeout (wall clock) - " + sig)
				return
			}
		}
		r.Violation(storeSig(kind.name(), sig), d)
	}
	g, err := newRig(kind, ks, true)
	if err != nil {
		r.Inconclusive(fmt.Sprintf("text boundary: store %s could not be built: %v", kind.name(), err))
		return
	}
	defer g.discard()
	entries := []struct {
		l      layer
		tokN   string
		detokN string
	}{{lDataTok, "DataTokenizer.Tokenize", "DataTokenizer.Detokenize"}, {lColumn, "TokenEncryptor.EncryptWithClientID", "TokenProcessor.OnColumn"}}
	lim := map[common.TokenType][2]*big.Int{
		common.TokenType_Int32: {big.NewInt(-1 << 31), big.NewInt(1<<31 - 1)},
		common.TokenType_Int64: {new(big.Int).SetInt64(-1 << 63), new(big.Int).SetInt64(1<<63 - 1)},
	}
	for _, en := range entries {
		for _, typ := range []common.TokenType{common.TokenType_Int32, common.TokenType_Int64} {
			for ci, consistent := range []bool{true, false} {
				for ti, text := range boundaryTexts[typ] {
					r.Case()
					ctx := (ti + ci) % 3
					n, isDec := new(big.Int).SetString(text, 10)
					canonical := isDec && n.String() == text
					class := "non-decimal"
					if canonical {
						class = "out-of-range decimal"
						if n.Cmp(lim[typ][0]) >= 0 && n.Cmp(lim[typ][1]) <= 0 {
							class = "in-range decimal"
						}
					}
					det := func(extra map[string]interface{}) map[string]interface{} {
						m := map[string]interface{}{"store": kind.name(), "entry": en.tokN, "column_type": typeName(typ), "mode": modeName(consistent), "text": text, "class": class, "client": string(clientIDs[ctx])}
						for k, v := range extra {
							m[k] = v
						}
						return m
					}
					var tok []byte
					var terr error
					_, _, _, pan := guarded(func() (tval, string, error) {
						tok, terr = g.tokenizeText(en.l, consistent, ctx, typ, []byte(text))
						return tval{}, "", nil
					})
					if pan != nil {
						violation(fmt.Sprintf("panic in tokenize: layer=%s type=%s text=%s site=%s class=%s", en.tokN, typeName(typ), class, pan.site, pan.class), det(map[string]interface{}{"stack": pan.stack}))
						continue
					}
					switch class {
					case "in-range decimal":
						var back []byte
						var derr error
						if terr == nil {
							back, derr = g.detokenizeText(en.l, ctx, typ, tok)
						}
						_, problem := fromText(typ, tok)
						if terr != nil || derr != nil || problem != "" || string(back) != text {
							violation(fmt.Sprintf("text boundary: %s type=%s in-range decimal refused or not restored", en.tokN, typeName(typ)), det(map[string]interface{}{"token": string(tok), "tokenize_error": fmt.Sprint(terr), "detokenized": string(back), "detokenize_error": fmt.Sprint(derr), "token_problem": problem}))
							continue
						}
						r.Count("text_boundary_in_range_roundtrips", 1)
						r.Distinct(fmt.Sprintf("text-boundary|%s|%s|%s|%s|in-range", kind.name(), en.tokN, typeName(typ), modeName(consistent)))
					default:
						r.Count("text_boundary_out_of_range_cases", 1)
						if terr == nil {
							back, derr := g.detokenizeText(en.l, ctx, typ, tok)
							violation(fmt.Sprintf("text boundary: %s type=%s accepted %s text instead of failing (a different number is stored)", en.tokN, typeName(typ), class),
								det(map[string]interface{}{"token": string(tok), "detokenized": string(back), "detokenize_error": fmt.Sprint(derr)}))
						} else {
							r.Count("text_boundary_refused", 1)
							r.Distinct(fmt.Sprintf("text-boundary|%s|%s|%s|%s|refused", kind.name(), en.tokN, typeName(typ), modeName(consistent)))
						}
						// the same text presented as a token: an error or the text itself are the only acceptable answers
						if ci == 0 && text != "" {
							var back []byte
							var derr error
							_, _, _, pan := guarded(func() (tval, string, error) {
								back, derr = g.detokenizeText(en.l, ctx, typ, []byte(text))
								return tval{}, "", nil
							})
							switch {
							case pan != nil:
								violation(fmt.Sprintf("panic in detokenize: layer=%s type=%s text=%s site=%s class=%s", en.detokN, typeName(typ), class, pan.site, pan.class), det(map[string]interface{}{"stack": pan.stack}))
							case derr == nil && string(back) != text:
								violation(fmt.Sprintf("text boundary: %s type=%s answered %s token text with a different number", en.detokN, typeName(typ), class), det(map[string]interface{}{"entry": en.detokN, "detokenized": string(back)}))
							default:
								r.Count("text_boundary_unknown_token_texts_ok", 1)
							}
						}
					}
				}
			}
		}
	}
	r.SampleN("text-boundary", 1, map[string]interface{}{"text_boundary_on": kind.name(), "int32_texts": boundaryTexts[common.TokenType_Int32], "int64_texts": boundaryTexts[common.TokenType_Int64]})
}
