// Package c10 monitors "tokens are format-preserving, reversible for the owner, and consistent":
// it drives the real tokenizer stack (Pseudoanonymizer, DataTokenizer, TokenEncryptor/TokenProcessor,
// TranslatorService) over memory and BoltDB token stores, with and without the encrypting wrapper, from
// several goroutines on overlapping values, with token maintenance in between, records every call and
// decides the property's clauses on the recorded histories and on the store contents at quiescence.
package c10

import (
	"fmt"
	"runtime"
	"runtime/debug"
	"strings"
	"sync"
	"sync/atomic"
	"time"

	"github.com/cossacklabs/acra/pseudonymization/common"

	"verif/harness/internal/ev"
	"verif/harness/internal/gen"
	"verif/harness/internal/props"
	"verif/harness/internal/rig/ksrig"
)

func init() { props.Register("C10", props.Monitor{Level: "exploration", Run: Run, Child: Child}) }

// ---------- plans (a pure function of seed and tier) ----------

type opKind int

const (
	opTok          opKind = iota // tokenize a pool value
	opTokDetok                   // tokenize, then detokenize the result as the owner
	opDetokPub                   // detokenize a token some goroutine got earlier for (ctx, value), as the owner
	opDetokForeign               // detokenize such a token under another client context
	opDetokUnknown               // detokenize a token that was never issued (or was removed by maintenance)
)

type opSpec struct {
	kind       opKind
	layer      layer
	dlayer     layer
	consistent bool
	ctx, fctx  int
	val        int
	unk        tval
	yield      int
}

type poolVal struct {
	v     tval
	ctxs  []int
	class string // hot | unique | stream
}

type phase struct {
	name    string
	relaxed bool // tokens of earlier phases are disabled while it runs
	sweep   bool // sequential owner detokenize calls at quiescence over tokens maintenance just disabled / enabled back (disabled.go)
	ops     [][]opSpec
}

type scriptItem struct {
	ph    *phase
	maint string
}

type plan struct {
	idx       int
	kind      storeKind
	nosync    bool
	gran      string // access-time granularity of the store: "" default | "0" | "1ns" (rig.go)
	mode      string // consistent | random | mixed
	types     []common.TokenType
	G         int
	pool      []poolVal
	maint     string
	cli       bool
	bgVisitor bool // a read-only metadata visitor (what "acra-tokens status" does) runs concurrently with the calls
	exhaust   bool
	script    []scriptItem
	pools     int  // Redis histories: independent connection pools on the one server (goroutine g calls through pool g mod pools)
	foreign   bool // Redis histories: the database also holds keys of other applications (redis.go)
}

var maintKinds = []string{"none", "status", "disable-enable", "remove-all", "disable-remove-disabled", "remove-disabled-none-disabled", "dry-run", "date-limits-match-nothing", "date-limits-match-all", "none"}

func (p *plan) typeNames() string {
	n := []string{}
	for _, t := range p.types {
		n = append(n, typeName(t))
	}
	return strings.Join(n, "+")
}

// consistentVal: is pool value i tokenized in consistent mode in this history?
func (p *plan) consistentVal(i int) bool {
	switch p.mode {
	case "consistent":
		return true
	case "random":
		return false
	}
	return i%3 != 2
}

func layersFor(consistent bool) []layer {
	if consistent {
		return []layer{lPseudo, lTranslator, lDataTok, lColumn}
	}
	return []layer{lPseudo, lPseudoTyp, lDataTok, lColumn}
}

var detokLayers = []layer{lPseudo, lTranslator, lDataTok, lColumn}

func makePlan(r *ev.Run, idx int) *plan { return makePlanOn(r, idx, storeKinds[idx%4]) }

// makePlanOn: the plan of history idx on the given store kind (Redis histories have indices of their own, redis.go).
func makePlanOn(r *ev.Run, idx int, kind storeKind) *plan {
	rng := gen.New(r.Seed, fmt.Sprintf("c10-history-%d", idx))
	p := &plan{idx: idx}
	p.kind = kind
	p.nosync = idx%16 >= 4 // one BoltDB history in four keeps the default fsync-per-transaction behaviour
	// two groups of four histories (one per store kind) in seven run with an access-time granularity of 0 / 1ns: every Get
	// refreshes the record's access time (BoltDB: writes the record back); no fsync there, every read is also a write
	switch (idx / 4) % 7 {
	case 1:
		p.gran, p.nosync = "0", true
	case 4:
		p.gran, p.nosync = "1ns", true
	}
	switch (idx / 4) % 5 {
	case 0, 1, 2:
		p.mode = "consistent"
	case 3:
		p.mode = "mixed"
	default:
		p.mode = "random"
	}
	// types: rotate so that every type meets every store kind; sometimes two types share a history
	p.types = []common.TokenType{allTypes[(idx/4+idx/20)%5]}
	if rng.Intn(3) == 0 {
		p.types = append(p.types, allTypes[rng.Intn(5)])
		if p.types[1] == p.types[0] {
			p.types = p.types[:1]
		}
	}
	gs := []int{2, 2, 3, 4, 4, 6, 8}
	if r.Thorough() {
		gs = []int{2, 3, 4, 6, 8, 8, 12, 16}
	}
	p.G = gs[rng.Intn(len(gs))]
	p.maint = maintKinds[(idx/4)%len(maintKinds)]
	// acra-tokens subcommands in a child process: every maintenance kind once per 40 histories (quick), alternating plain / encrypted BoltDB
	j := idx / 4
	p.cli = p.kind.bolt && p.maint != "none" && (j/10)%r.Pick(5, 8) == 0 && (idx%4 == 2+j%2)
	if (p.kind.bolt || p.kind.redis) && p.maint == "none" && rng.Intn(2) == 0 {
		p.maint = "reopen" // Redis: the connection pools are closed and opened again
	}
	if p.kind.redis {
		p.pools = 1 + (idx/2)%3
		p.foreign = (idx/2)%4 != 3
	}
	p.bgVisitor = rng.Intn(4) == 0
	p.exhaust = idx%25 == 7 && p.mode != "random"

	// value pool
	addVal := func(v tval, ctxs []int, class string) {
		for _, q := range p.pool {
			if q.v.equal(v) {
				return
			}
		}
		p.pool = append(p.pool, poolVal{v, ctxs, class})
	}
	all := []int{0, 1, 2}
	if p.exhaust {
		// more distinct 1-byte strings than the 62 one-character tokens that exist: the token space must run out
		p.types = []common.TokenType{common.TokenType_String}
		p.G = 4
		for i := 0; i < 80; i++ {
			addVal(sv(common.TokenType_String, string([]byte{byte(0x20 + i)})), []int{idx % 3}, "stream")
		}
	} else {
		for _, t := range p.types {
			b := boundaryValues(rng, t)
			nHot := 2 + rng.Intn(3)
			for i := 0; i < nHot; i++ {
				addVal(b[rng.Intn(len(b))], all, "hot")
			}
			for c := 0; c < 3; c++ {
				for i := 0; i < 1+rng.Intn(2); i++ {
					addVal(uniqueValue(rng, t, c, i), []int{c}, "unique")
				}
			}
			nStream := 3 + rng.Intn(4)
			if !p.kind.bolt { // in-memory calls are cheap: many more contended first calls per history
				nStream = 10 + rng.Intn(10)
			}
			if p.kind.redis { // a call is a few loopback round trips
				nStream = 6 + nStream/3
			}
			sc := rng.Intn(3)
			for i := 0; i < nStream; i++ {
				addVal(uniqueValue(rng, t, sc, 100+i), []int{sc}, "stream")
			}
		}
	}
	hasStream := func() []int {
		var s []int
		for i, q := range p.pool {
			if q.class == "stream" {
				s = append(s, i)
			}
		}
		return s
	}()
	var uniq []int
	for i, q := range p.pool {
		if q.class != "hot" {
			uniq = append(uniq, i)
		}
	}
	valMode := p.consistentVal
	nOps := 10 + rng.Intn(10)
	if r.Thorough() {
		nOps = 14 + rng.Intn(20)
	}
	if p.kind.bolt { // a BoltDB call costs ~20x an in-memory one under -race
		nOps = nOps * 2 / 3
	}
	mkPhase := func(name string, relaxed bool, stream bool, extra int) *phase {
		ph := &phase{name: name, relaxed: relaxed, ops: make([][]opSpec, p.G)}
		// every goroutine walks the same fresh values in the same order: the first call for each is contended
		var walk []opSpec
		if stream {
			for _, vi := range hasStream {
				c := valMode(vi)
				ls := layersFor(c)
				walk = append(walk, opSpec{kind: opTok, consistent: c, ctx: p.pool[vi].ctxs[0], val: vi, layer: ls[rng.Intn(len(ls))]})
			}
		}
		for g := 0; g < p.G; g++ {
			ops := []opSpec{}
			for _, w := range walk {
				ls := layersFor(w.consistent)
				w.layer = ls[rng.Intn(len(ls))]
				w.yield = rng.Intn(3)
				if p.exhaust && rng.Intn(2) == 0 {
					w.kind = opTokDetok
					w.dlayer = detokLayers[rng.Intn(len(detokLayers))]
				}
				ops = append(ops, w)
			}
			if p.exhaust {
				ph.ops[g] = ops
				continue
			}
			for i := 0; i < extra; i++ {
				vi := rng.Intn(len(p.pool))
				pv := p.pool[vi]
				c := valMode(vi)
				ls := layersFor(c)
				o := opSpec{consistent: c, ctx: pv.ctxs[rng.Intn(len(pv.ctxs))], val: vi, layer: ls[rng.Intn(len(ls))], dlayer: detokLayers[rng.Intn(len(detokLayers))], yield: rng.Intn(3)}
				switch x := rng.Intn(100); {
				case x < 40:
					o.kind = opTok
				case x < 55:
					o.kind = opTokDetok
				case x < 75:
					o.kind = opDetokPub
				case x < 90:
					o.kind = opDetokForeign
					if rng.Intn(5) != 0 { // prefer values that only the owner's context ever holds
						o.val = uniq[rng.Intn(len(uniq))]
						o.ctx = p.pool[o.val].ctxs[0]
					}
					o.fctx = (o.ctx + 1 + rng.Intn(2)) % 3
				default:
					o.kind = opDetokUnknown
					o.unk = unknownToken(rng, pv.v.typ)
				}
				ops = append(ops, o)
			}
			ph.ops[g] = ops
		}
		return ph
	}
	p.script = append(p.script, scriptItem{ph: mkPhase("p1", false, true, nOps)})
	switch p.maint {
	case "none":
	case "status", "dry-run", "reopen":
		p.script = append(p.script, scriptItem{maint: p.maint}, scriptItem{ph: mkPhase("p2", false, true, nOps/2)})
	case "remove-disabled-none-disabled":
		p.script = append(p.script, scriptItem{maint: "remove-disabled"}, scriptItem{ph: mkPhase("p2", false, true, nOps/2)})
	case "date-limits-match-nothing":
		p.script = append(p.script, scriptItem{maint: "date-noop-disable"}, scriptItem{maint: "date-noop-remove"}, scriptItem{ph: mkPhase("p2", false, true, nOps/2)})
	case "date-limits-match-all":
		p.script = append(p.script, scriptItem{maint: "date-all-remove"}, scriptItem{ph: mkPhase("p2", false, true, nOps/2)})
	case "remove-all":
		p.script = append(p.script, scriptItem{maint: "remove-all"}, scriptItem{ph: mkPhase("p2", false, true, nOps/2)})
	case "disable-enable":
		p.script = append(p.script, scriptItem{maint: "disable"}, scriptItem{ph: mkPhase("disabled", true, true, nOps/2)}, scriptItem{maint: "enable"}, scriptItem{ph: mkPhase("p2", false, true, nOps/2)})
	case "disable-remove-disabled":
		// new values appear while the old tokens are disabled; only the old ones may be removed
		p.script = append(p.script, scriptItem{maint: "disable"})
		for _, t := range p.types {
			sc := rng.Intn(3)
			for i := 0; i < 3; i++ {
				addVal(uniqueValue(rng, t, sc, 200+i), []int{sc}, "late")
			}
		}
		late := &phase{name: "disabled", relaxed: true, ops: make([][]opSpec, p.G)}
		for g := 0; g < p.G; g++ {
			for vi, q := range p.pool {
				if q.class != "late" && rng.Intn(4) != 0 {
					continue
				}
				c := valMode(vi)
				ls := layersFor(c)
				late.ops[g] = append(late.ops[g], opSpec{kind: opTok, consistent: c, ctx: q.ctxs[rng.Intn(len(q.ctxs))], val: vi, layer: ls[rng.Intn(len(ls))], yield: rng.Intn(3)})
			}
		}
		p.script = append(p.script, scriptItem{ph: late}, scriptItem{maint: "remove-disabled"}, scriptItem{ph: mkPhase("p2", false, true, nOps/2)})
	}
	return p
}

// ---------- recorded events ----------

type panicInfo struct {
	site  string // innermost Acra function on the panicking stack
	class string // panic message with numbers removed
	stack string
}

type event struct {
	g, phase   int
	phaseName  string
	relaxed    bool
	op         string // tokenize | detokenize
	role       string // detokenize: owner | foreign | unknown | removed
	layer      layer
	consistent bool
	ctx        int  // context the call ran under
	octx       int  // owner context of the token (detokenize)
	in         tval // tokenize: the value; detokenize: the token
	want       tval // detokenize of an issued token: the original the issuer tokenized
	hasWant    bool
	out        tval
	problem    string // result not of the token type's Go type / decimal range
	err        error
	pan        *panicInfo
	call, ret  int64
}

func (e *event) ok() bool { return e.err == nil && e.pan == nil && e.problem == "" }

type pubEntry struct {
	tok, val tval
	ctx      int
}

// history is one execution of a plan.
type history struct {
	p   *plan
	r   *ev.Run
	rig *rig

	clock int64
	mu    sync.Mutex
	evs   []*event
	pub   map[string][]pubEntry // (ctx, pool index) -> tokens obtained so far
	old   []pubEntry            // tokens whose records maintenance removed

	// oracle state carried over quiescent points (see oracle.go)
	fixed     map[string]tval // consistent key -> token fixed by the first call
	live      map[string]tval // (ctx,type,token) -> value, for tokens whose records exist
	disabledK map[string]bool // keys / tokens that were disabled by the last disable step
	reenabled map[string]bool // keys / tokens that were disabled and then enabled back by the last enable step
	visits    int64           // metadata visits done by the background visitor
	dead      bool            // a maintenance effect check failed: the rest of the script is skipped
	contended map[string]bool // consistent keys whose first calls overlapped in time
}

func pubKey(ctx, val int) string { return fmt.Sprintf("%d/%d", ctx, val) }

func (h *history) tick() int64 { return atomic.AddInt64(&h.clock, 1) }

// rigOf: the entry points goroutine g calls through. One set per history, except on Redis where goroutine g uses connection
// pool g mod pools (each pool has a token storage object, tokenizer stack and translator service of its own on the one server).
func (h *history) rigOf(g int) *rig {
	if n := len(h.rig.peers); n > 0 {
		if k := g % (n + 1); k > 0 {
			return h.rig.peers[k-1]
		}
	}
	return h.rig
}

func (h *history) poolOf(g int) int { return g % (len(h.rig.peers) + 1) }

func (h *history) record(e *event) {
	h.mu.Lock()
	h.evs = append(h.evs, e)
	h.mu.Unlock()
}

func (h *history) publish(ctx, val int, tok, v tval) {
	h.mu.Lock()
	k := pubKey(ctx, val)
	h.pub[k] = append(h.pub[k], pubEntry{tok, v, ctx})
	h.mu.Unlock()
}

func (h *history) pick(ctx, val int, salt int) (pubEntry, bool) {
	h.mu.Lock()
	defer h.mu.Unlock()
	l := h.pub[pubKey(ctx, val)]
	if len(l) == 0 {
		return pubEntry{}, false
	}
	return l[(len(l)-1+salt)%len(l)], true
}

var digits = strings.NewReplacer("0", "", "1", "", "2", "", "3", "", "4", "", "5", "", "6", "", "7", "", "8", "", "9", "")

func panicSite(stack string) string {
	lines := strings.Split(stack, "\n")
	seenPanic := false
	for _, l := range lines {
		if strings.HasPrefix(l, "panic(") {
			seenPanic = true
			continue
		}
		if !seenPanic || strings.HasPrefix(l, "\t") {
			continue
		}
		if strings.Contains(l, "github.com/cossacklabs/acra/") {
			if i := strings.LastIndex(l, "("); i > 0 {
				l = l[:i]
			}
			return strings.TrimPrefix(l, "github.com/cossacklabs/acra/")
		}
	}
	return "(no Acra frame)"
}

// guarded runs one API call and converts a panic into data.
func guarded(f func() (tval, string, error)) (out tval, problem string, err error, pan *panicInfo) {
	defer func() {
		if p := recover(); p != nil {
			st := string(debug.Stack())
			msg := fmt.Sprint(p)
			if i := strings.Index(msg, "["); i > 0 {
				msg = msg[:i]
			}
			pan = &panicInfo{site: panicSite(st), class: strings.TrimSpace(digits.Replace(msg)), stack: st}
		}
	}()
	out, problem, err = f()
	return
}

func (h *history) doTokenize(g, phIdx int, ph *phase, o opSpec) (*event, bool) {
	v := h.p.pool[o.val].v
	e := &event{g: g, phase: phIdx, phaseName: ph.name, relaxed: ph.relaxed, op: "tokenize", layer: o.layer, consistent: o.consistent, ctx: o.ctx, octx: o.ctx, in: v}
	e.call = h.tick()
	rg := h.rigOf(g)
	e.out, e.problem, e.err, e.pan = guarded(func() (tval, string, error) { return rg.tokenize(o.layer, o.consistent, o.ctx, v) })
	e.ret = h.tick()
	h.record(e)
	if e.ok() {
		h.publish(o.ctx, o.val, e.out, v)
		return e, true
	}
	return e, false
}

func (h *history) doDetokenize(g, phIdx int, ph *phase, l layer, ctx int, role string, tok tval, octx int, want *tval) {
	e := &event{g: g, phase: phIdx, phaseName: ph.name, relaxed: ph.relaxed, op: "detokenize", role: role, layer: l, ctx: ctx, octx: octx, in: tok}
	if want != nil {
		e.want, e.hasWant = *want, true
	}
	e.call = h.tick()
	rg := h.rigOf(g)
	e.out, e.problem, e.err, e.pan = guarded(func() (tval, string, error) { return rg.detokenize(l, ctx, tok) })
	e.ret = h.tick()
	h.record(e)
}

func (h *history) runOps(g, phIdx int, ph *phase, ops []opSpec) {
	for n, o := range ops {
		for i := 0; i < o.yield; i++ {
			runtime.Gosched()
		}
		switch o.kind {
		case opTok:
			h.doTokenize(g, phIdx, ph, o)
		case opTokDetok:
			if e, ok := h.doTokenize(g, phIdx, ph, o); ok {
				h.doDetokenize(g, phIdx, ph, o.dlayer, o.ctx, "owner", e.out, o.ctx, &e.in)
			}
		case opDetokPub:
			if pe, ok := h.pick(o.ctx, o.val, n); ok {
				h.doDetokenize(g, phIdx, ph, o.dlayer, o.ctx, "owner", pe.tok, o.ctx, &pe.val)
			} else {
				h.r.Count("ops_skipped_no_token_yet", 1)
			}
		case opDetokForeign:
			if pe, ok := h.pick(o.ctx, o.val, n); ok {
				h.doDetokenize(g, phIdx, ph, o.dlayer, o.fctx, "foreign", pe.tok, o.ctx, &pe.val)
			} else {
				h.r.Count("ops_skipped_no_token_yet", 1)
			}
		case opDetokUnknown:
			h.mu.Lock()
			var pe *pubEntry
			if len(h.old) > 0 && n%2 == 0 {
				x := h.old[(n+g)%len(h.old)]
				pe = &x
			}
			h.mu.Unlock()
			if pe != nil {
				h.doDetokenize(g, phIdx, ph, o.dlayer, pe.ctx, "removed", pe.tok, pe.ctx, &pe.val)
			} else {
				h.doDetokenize(g, phIdx, ph, o.dlayer, o.ctx, "unknown", o.unk, o.ctx, nil)
			}
		}
	}
}

// runPhase executes one phase: all goroutines start together, the log is complete when they have joined.
func (h *history) runPhase(phIdx int, ph *phase) bool {
	var wg sync.WaitGroup
	start := make(chan struct{})
	stopVisitor := make(chan struct{})
	visitorDone := make(chan struct{})
	if h.p.bgVisitor {
		go func() {
			defer close(visitorDone)
			for {
				select {
				case <-stopVisitor:
					return
				default:
				}
				// read-only visit, exactly what "acra-tokens status" does with the storage
				h.rig.store.VisitMetadata(func(int, common.TokenMetadata) (common.TokenAction, error) { return common.TokenContinue, nil })
				atomic.AddInt64(&h.visits, 1)
				runtime.Gosched()
			}
		}()
	} else {
		close(visitorDone)
	}
	for g := 0; g < h.p.G; g++ {
		wg.Add(1)
		go func(g int) {
			defer wg.Done()
			<-start
			h.runOps(g, phIdx, ph, ph.ops[g])
		}(g)
	}
	close(start)
	done := make(chan struct{})
	go func() { wg.Wait(); close(done) }()
	select {
	case <-done:
	case <-time.After(5 * time.Minute): // generous watchdog, never a verdict
		h.r.Inconclusive(fmt.Sprintf("history %d phase %s: calls did not return within 5 minutes (store %s)", h.p.idx, ph.name, h.p.kind.name()))
		close(stopVisitor)
		return false
	}
	close(stopVisitor)
	<-visitorDone
	return true
}

// runHistory executes a plan and evaluates its oracles.
func runHistory(r *ev.Run, p *plan, ks ksrig.FullKeyStore) {
	r.Case()
	t0 := time.Now()
	defer func() {
		r.Count(fmt.Sprintf("wall_ms_in_histories:%s:nosync=%v", p.kind.name(), p.nosync), time.Since(t0).Milliseconds())
	}() // cost accounting only
	g, err := newRigGran(p.kind, ks, p.nosync, p.gran)
	if err != nil {
		r.Inconclusive(fmt.Sprintf("history %d: store %s could not be built: %v", p.idx, cfgName(p.kind, p.gran), err))
		return
	}
	defer g.discard()
	if p.kind.redis {
		if err := redisPrepareHistory(r, p, g); err != nil {
			r.Inconclusive(fmt.Sprintf("history %d: %v", p.idx, err))
			return
		}
	}
	h := &history{p: p, r: r, rig: g, pub: map[string][]pubEntry{}, fixed: map[string]tval{}, live: map[string]tval{}, contended: map[string]bool{}}
	phIdx := 0
	for _, it := range p.script {
		if h.dead {
			break
		}
		if it.ph != nil {
			from := len(h.evs)
			if !h.runPhase(phIdx, it.ph) {
				return
			}
			h.evaluatePhase(it.ph, h.evs[from:])
			phIdx++
			if it.ph.relaxed && !h.dead {
				// quiescent again: every detokenize entry point on a sample of the tokens that are disabled right now
				h.sweep(phIdx, "disabled-sweep", true, h.disabledK)
				phIdx++
			}
			continue
		}
		h.maintenance(it.maint)
		if it.maint == "enable" && !h.dead {
			h.sweep(phIdx, "reenabled-sweep", false, h.reenabled)
			phIdx++
		}
	}
	if p.gran != "" && !h.dead {
		// every Get refreshed the record it read: use a sample of the tokens again, three times each (reuse.go)
		h.reuseSweep(phIdx)
	}
	if p.kind.redis {
		redisFinishHistory(h)
	}
	h.summarize()
}

// Run is the C10 monitor.
func Run(r *ev.Run) {
	r.Rule = "a case is one history: (store kind in {memory,BoltDB} x {plain, encrypting wrapper}) x mode {consistent, random, mixed} x 1-2 token types x value pool (boundary values shared by all 3 client contexts, values unique to one context, fresh values every goroutine tokenizes in the same order) x 2-16 goroutines x per-goroutine op lists over the entry points {Pseudoanonymizer generic/typed, TranslatorService, DataTokenizer text form, TokenEncryptor/TokenProcessor} x a maintenance script (none, status, disable..enable, remove all, disable..remove only disabled, remove only disabled with nothing disabled, dry run, date limits matching nothing/everything, BoltDB close+reopen; through the acra-tokens subcommands in a child process or through the storage visitor); all generated from (seed, history index). Plus a fixed list of decimal boundary texts per integer column, store kind and text entry point, an e-mail shape matrix (9 short e-mail-shaped values x 96 random-mode tokenizations each; distinct = value lengths for which at least two different top-level domains were drawn), a tokens-used-again matrix (4 store kinds x access-time granularity {24 h default, 0, 1ns} x 5 types x 4 values x {consistent, random}: creation, then three rounds of owner detokenize + consistent tokenize again; distinct = (store configuration, type) where every use answered correctly), and a disabled-token matrix (every boundary value of every type tokenized in both modes on every store kind, all records disabled, every token detokenized through every detokenize entry point, all enabled back, detokenized again; distinct = (store kind, type, entry point) where a token different from its value came back as itself while disabled and as the original afterwards). A history is non-trivial when at least one consistent key had two tokenize calls overlapping in logical time and every oracle saw events; distinct = (store kind, mode, types, goroutine class, maintenance kind, via cli/direct, contention seen) tuples of such histories"
	r.Assumptions = []string{
		"crypto library replaced by the pure-Go gothemis stand-in (used by the encrypting token-store wrapper through acrablock); AEAD strength is the stand-in's",
		"token stores covered: in-memory and BoltDB (go.etcd.io/bbolt file in a scratch directory), each plain and behind storage.WrapStorageWithEncryption(NewSCellEncryptor(keystore)); the Redis token store (pseudonymization/storage.RedisStorage through go-redis v7, opened with NewRedisClient + NewRedisStorage like the servers do, plain and behind the same wrapper) runs against the in-process stand-in server rig/fakeredis (RESP2, atomic totally ordered commands, SCAN paging over the whole keyspace, no real Redis in the sandbox): everything above the TCP connection is Acra's code, the server's behaviour is the stand-in's",
		"entry points driven in-process: Pseudoanonymizer (generic and typed methods), DataTokenizer, TokenEncryptor.EncryptWithClientID, TokenProcessor.OnColumn, TranslatorService.Tokenize/Detokenize; acra-tokens status/disable/enable/remove run as real subcommands (Parse+Execute) in a child process on the closed BoltDB file, and as the same visitor actions through TokenStorage.VisitMetadata for in-memory stores; SQL-statement rewriting (query tokenizers) and the wire are other properties' (C04/C19)",
		"maintenance happens at quiescence (between phases of concurrent calls), as the property text says 'in between'; only a read-only metadata visitor runs concurrently with calls",
		"the access-time granularity of a token store (TokenStorage.SetAccessTimeGranularity, default 24 h) is driven as configuration: default, 0 and 1ns; with 0 / 1ns every Get refreshes the record's access time (BoltDB: writes the record back in a second transaction - observed through BoltDB's transaction id, not through the clock), which is what a Get does in production to a record idle for more than a day; no command-line option of the pinned tree sets the granularity, the idle-for-a-day path itself cannot be driven without a clock",
		"a token whose record maintenance disabled is an unknown token for every reader (the stores document ErrTokenDisabled as 'pretend that it's not there'): detokenize must answer with the token itself and no error, and with the original again after enable",
		"interleavings are whatever the Go scheduler and the race detector's instrumentation produce for 2-16 goroutines released together on the same keys; they are not enumerated",
		"the store-content oracle recomputes record ids with the documented scheme ('t.'/'h.' + SHA-256 over value, client id, type) and reads them back through TokenStorage.Get; BoltDB files are additionally iterated directly",
	}
	ks, err := ksrig.V2Mem(ksrig.NewV2Keys())
	if err != nil {
		panic(err)
	}
	for _, id := range clientIDs {
		if err := ks.GenerateClientIDSymmetricKey(id); err != nil {
			panic(fmt.Sprintf("c10: keygen: %v", err))
		}
	}

	// text boundary of integer columns, on every store kind
	for _, k := range storeKinds {
		textBoundary(r, k, ks)
	}

	// disabled tokens answer like unknown ones, enabled back they give the original again: every store kind x type x detokenize entry point
	for _, k := range storeKinds {
		disabledMatrix(r, k, ks)
	}

	// e-mail shape over a fixed number of random draws per short e-mail-shaped value
	emailShapeMatrix(r, ks)

	// tokens used again and again (6 uses of a consistent token, 3 of a random one) under every access-time granularity: with 0 / 1ns every Get refreshes the record
	for _, k := range storeKinds {
		for _, gran := range reuseGrans {
			reuseMatrix(r, k, gran, ks)
		}
	}

	// thorough: 2 000 histories (DESIGN planned 5 000; measured cost under -race is ~0.7 CPU-s per BoltDB history, so 5 000 do not fit the 10-minute tier)
	n := r.Pick(200, 2000)
	plans := make([]*plan, n)
	for i := range plans {
		plans[i] = makePlan(r, i)
	}
	workers := r.Pick(3, 6)
	ch := make(chan *plan)
	var wg sync.WaitGroup
	for w := 0; w < workers; w++ {
		wg.Add(1)
		go func() {
			defer wg.Done()
			for p := range ch {
				runHistory(r, p, ks)
			}
		}()
	}
	for _, p := range plans {
		ch <- p
	}
	close(ch)
	wg.Wait()

	// the same layers and what only Redis has, over Acra's Redis token store (redis.go)
	redisLayer(r, ks)

	// non-vacuity: every oracle must have seen events, on every store kind
	r.RequireSetAtLeast("store_kinds_with_contended_consistent_keys", 6)
	r.RequireAtLeast("consistent_keys_with_overlapping_first_calls", int64(r.Pick(40, 400)))
	r.RequireAtLeast("linearizability_partitions_checked", int64(r.Pick(300, 3000)))
	r.RequireAtLeast("format_checked", int64(r.Pick(1500, 15000)))
	for _, t := range allTypes {
		r.RequireAtLeast("format_checked:"+typeName(t), 100)
	}
	r.RequireAtLeast("email_shape_checked", 30)
	r.RequireAtLeast("email_shape_checked_in_matrices", 800)
	r.RequireAtLeast("owner_detokenize_returned_original", int64(r.Pick(500, 5000)))
	r.RequireAtLeast("foreign_context_got_token_back", int64(r.Pick(100, 1000)))
	r.RequireAtLeast("unknown_token_came_back", int64(r.Pick(50, 500)))
	r.RequireAtLeast("removed_token_came_back", 5)
	r.RequireAtLeast("store_records_verified", int64(r.Pick(1000, 10000)))
	r.RequireAtLeast("injectivity_tokens_checked", int64(r.Pick(1000, 10000)))
	r.RequireAtLeast("exhaustion_errors_on_small_token_space", 1)
	r.RequireAtLeast("text_boundary_out_of_range_cases", 40)
	r.RequireAtLeast("text_boundary_in_range_roundtrips", 40)
	r.RequireAtLeast("maintenance_steps_via_cli", int64(r.Pick(8, 30)))
	r.RequireAtLeast("maintenance_steps_direct", int64(r.Pick(40, 400)))
	r.RequireAtLeast("disabled_phase_tokenize_refused", 5)
	// disabled tokens: every (store kind, type, detokenize entry point) was observed with a disabled token that differs from its value, and again after enable
	r.RequireSetAtLeast("disabled_token_judged_distinguishable_store_type_entry", 120)
	r.RequireSetAtLeast("reenabled_token_judged_store_type_entry", 120)
	r.RequireAtLeast("disabled_token_detokenize_judged:matrix", 1500)
	r.RequireAtLeast("reenabled_token_detokenize_judged:matrix", 1500)
	r.RequireAtLeast("disabled_token_detokenize_judged:sweep", int64(r.Pick(400, 4000)))
	r.RequireAtLeast("reenabled_token_detokenize_judged:sweep", int64(r.Pick(200, 2000)))
	r.RequireAtLeast("disabled_token_detokenize_judged:concurrent-calls", int64(r.Pick(15, 150)))
	r.RequireAtLeast("tokens_survived_partial_removal", 3)
	// tokens used again: every (store kind, granularity, type) was driven, and with granularity 0 / 1ns the BoltDB reads really wrote the record back
	r.RequireSetAtLeast("reuse_matrix_config_type", 90)
	r.RequireAtLeast("reuse_matrix_uses_judged", 1500)
	r.RequireAtLeast("reuse_matrix_boltdb_reads_that_wrote_the_record_back:granularity=0", 150)
	r.RequireAtLeast("reuse_matrix_boltdb_reads_that_wrote_the_record_back:granularity=1ns", 150)
	r.RequireAtLeast("reuse_sweep_calls", int64(r.Pick(1000, 10000)))
	r.RequireSetAtLeast("layers_tokenize", 5)
	r.RequireSetAtLeast("layers_detokenize", 4)
	if r.Counter("store_lookup_hit") == 0 && r.Counter("store_lookup_miss") > 0 {
		r.Inconclusive("no issued token was found under the record id the monitor computes: the storage id scheme differs from the documented one; store-content oracle undecided")
	}
	r.CollectRaces("github.com/cossacklabs/acra")
}
