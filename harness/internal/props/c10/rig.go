package c10

import (
	"context"
	"crypto/sha256"
	"fmt"
	"os"
	"path/filepath"
	"strconv"
	"sync"
	"time"

	"github.com/go-redis/redis/v7"
	bolt "go.etcd.io/bbolt"

	trcommon "github.com/cossacklabs/acra/cmd/acra-translator/common"
	"github.com/cossacklabs/acra/decryptor/base"
	encryptor "github.com/cossacklabs/acra/encryptor/base"
	"github.com/cossacklabs/acra/encryptor/base/config"
	"github.com/cossacklabs/acra/pseudonymization"
	"github.com/cossacklabs/acra/pseudonymization/common"
	"github.com/cossacklabs/acra/pseudonymization/storage"

	"verif/harness/internal/rig/fakeredis"
	"verif/harness/internal/rig/ksrig"
)

// the three client contexts of every history
var clientIDs = [][]byte{[]byte("client_alpha"), []byte("client-bravo-2"), []byte("charlie 3")}

// storeKind is one of the six supported token store configurations that can run here (the Redis ones on rig/fakeredis).
type storeKind struct{ bolt, enc, redis bool }

func (k storeKind) name() string {
	n := "memory"
	if k.bolt {
		n = "boltdb"
	}
	if k.redis {
		n = "redis"
	}
	if k.enc {
		return n + "+encrypting-wrapper"
	}
	return n + "+plain"
}

var storeKinds = []storeKind{{false, false, false}, {false, true, false}, {true, false, false}, {true, true, false}}

// redisKinds: Acra's RedisStorage as acra-server / acra-translator open it (NewRedisClient + NewRedisStorage), raw and behind the
// encrypting wrapper (redis.go drives them through every layer of the monitor).
var redisKinds = []storeKind{{redis: true}, {redis: true, enc: true}}

// column settings (read through Acra's own YAML loader): <type>_c consistent, <type>_r random
const tokenColumnsYAML = `
schemas:
  - table: tok
    columns: [id, int32_c, int32_r, int64_c, int64_r, str_c, str_r, bytes_c, bytes_r, email_c, email_r]
    encrypted:
      - column: int32_c
        token_type: int32
        consistent_tokenization: true
      - column: int32_r
        token_type: int32
      - column: int64_c
        token_type: int64
        consistent_tokenization: true
      - column: int64_r
        token_type: int64
      - column: str_c
        token_type: str
        consistent_tokenization: true
      - column: str_r
        token_type: str
      - column: bytes_c
        token_type: bytes
        consistent_tokenization: true
      - column: bytes_r
        token_type: bytes
      - column: email_c
        token_type: email
        consistent_tokenization: true
      - column: email_r
        token_type: email
`

var (
	schemaOnce sync.Once
	schema     *config.MapTableSchemaStore
)

func setting(t common.TokenType, consistent bool) config.ColumnEncryptionSetting {
	schemaOnce.Do(func() {
		s, err := config.MapTableSchemaStoreFromConfig([]byte(tokenColumnsYAML), false)
		if err != nil {
			panic(fmt.Sprintf("c10: token column configuration rejected: %v", err))
		}
		schema = s
	})
	n := typeName(t) + "_r"
	if consistent {
		n = typeName(t) + "_c"
	}
	st := schema.GetTableSchema("tok").GetColumnEncryptionSettings(n)
	if st == nil || !st.IsTokenized() || st.IsConsistentTokenization() != consistent || st.GetTokenType() != t {
		panic("c10: column setting " + n + " not as configured")
	}
	return st
}

// rig is one token store with every entry point of the property on top of it.
type rig struct {
	kind   storeKind
	nosync bool
	gran   string // access-time granularity configured on the store: "" (default, 24 h) | "0" | "1ns"
	path   string // BoltDB file
	db     *bolt.DB
	ks     ksrig.FullKeyStore
	inner  common.TokenStorage // memory or BoltDB storage
	store  common.TokenStorage // what the tokenizer uses (inner or the encrypting wrapper)
	pseudo common.Pseudoanonymizer
	ts     *trcommon.TranslatorService
	dt     *pseudonymization.DataTokenizer
	te     *pseudonymization.TokenEncryptor
	tp     *pseudonymization.TokenProcessor

	// Redis variants (redis.go): the stand-in server, the database the token store lives in, this rig's connection pool, and
	// further rigs on the same server and database, each with a connection pool of its own (like separate Acra processes)
	srv    *fakeredis.Server
	ownSrv bool
	rdb    int
	rcli   *redis.Client
	peers  []*rig
}

func newRig(kind storeKind, ks ksrig.FullKeyStore, nosync bool) (*rig, error) {
	return newRigGran(kind, ks, nosync, "")
}

// granularities: the access-time granularity settings driven (TokenStorage.SetAccessTimeGranularity). A record whose
// last access is older than the granularity gets its access time refreshed by Get; with 0 or 1ns that is every Get
// (BoltDB keeps times in whole seconds: the stored access time is always before "now"), with the default never in a run.
var granularities = map[string]time.Duration{"0": 0, "1ns": time.Nanosecond}

func granName(gran string) string {
	if gran == "" {
		return "24h(default)"
	}
	return gran
}

// cfgName is the store configuration as it appears in signatures: kind, plus the granularity when it is not the default.
func cfgName(kind storeKind, gran string) string {
	if gran == "" {
		return kind.name()
	}
	return kind.name() + ",access-granularity=" + gran
}

func newRigGran(kind storeKind, ks ksrig.FullKeyStore, nosync bool, gran string) (*rig, error) {
	g := &rig{kind: kind, ks: ks, nosync: nosync, gran: gran}
	if kind.bolt {
		g.path = filepath.Join(ksrig.ScratchDir("c10-bolt"), "tokens.db")
	}
	if kind.redis {
		g.srv, g.ownSrv, g.rdb = fakeredis.Start(), true, redisTokenDB
		g.srv.SetLogging(false) // scenarios that read the command log switch it on
	}
	return g, g.open()
}

// open (re)builds the services the way acra-server / acra-translator do: storage, optional
// WrapStorageWithEncryption(NewSCellEncryptor(keystore)), NewPseudoanonymizer, DataTokenizer, TokenEncryptor/TokenProcessor, TranslatorService.
func (g *rig) open() error {
	if g.kind.bolt {
		db, err := bolt.Open(g.path, 0600, nil)
		if err != nil {
			return err
		}
		db.NoSync = g.nosync
		g.db = db
		g.inner = storage.NewBoltDBTokenStorage(db)
	} else if g.kind.redis {
		st, c, err := ksrig.TokenRedis(g.srv, g.rdb) // NewRedisClient (PING) + NewRedisStorage, as the servers do
		if err != nil {
			return err
		}
		g.inner, g.rcli = st, c
	} else if g.inner == nil {
		m, err := storage.NewMemoryTokenStorage()
		if err != nil {
			return err
		}
		g.inner = m
	}
	g.store = g.inner
	if g.kind.enc {
		enc, err := storage.NewSCellEncryptor(g.ks)
		if err != nil {
			return err
		}
		g.store = storage.WrapStorageWithEncryption(g.inner, enc)
	}
	if g.gran != "" {
		// configuration of the store object (set through the wrapper when there is one, as a server would)
		if err := g.store.SetAccessTimeGranularity(granularities[g.gran]); err != nil {
			return err
		}
	}
	var err error
	if g.pseudo, err = pseudonymization.NewPseudoanonymizer(g.store); err != nil {
		return err
	}
	if g.dt, err = pseudonymization.NewDataTokenizer(g.pseudo); err != nil {
		return err
	}
	if g.te, err = pseudonymization.NewTokenEncryptor(g.dt); err != nil {
		return err
	}
	if g.tp, err = pseudonymization.NewTokenProcessor(g.dt); err != nil {
		return err
	}
	g.ts, err = trcommon.NewTranslatorService(&trcommon.TranslatorData{Keystorage: g.ks, Tokenizer: g.pseudo})
	return err
}

func (g *rig) close() {
	if g.db != nil {
		g.db.Close()
		g.db = nil
	}
	if g.rcli != nil {
		g.rcli.Close()
		g.rcli = nil
	}
}

// discard closes the store and removes its scratch files.
func (g *rig) discard() {
	g.close()
	if g.path != "" {
		os.RemoveAll(filepath.Dir(g.path))
	}
	for _, p := range g.peers {
		p.close()
	}
	if g.srv != nil && g.ownSrv {
		g.srv.Close()
	}
}

// --- the entry points ("layers") ---

type layer int

const (
	lPseudo     layer = iota // Pseudoanonymizer.Anonymize / AnonymizeConsistently / Deanonymize (generic, typed values)
	lPseudoTyp               // Pseudoanonymizer.AnonymizeInt32/Int64/Str/Bytes/Email (random mode only) / Deanonymize
	lTranslator              // TranslatorService.Tokenize / Detokenize (always consistent)
	lDataTok                 // DataTokenizer.Tokenize / Detokenize (text form)
	lColumn                  // TokenEncryptor.EncryptWithClientID / TokenProcessor.OnColumn (text form)
)

var layerNames = map[layer]string{lPseudo: "Pseudoanonymizer", lPseudoTyp: "Pseudoanonymizer.typed", lTranslator: "TranslatorService", lDataTok: "DataTokenizer", lColumn: "TokenEncryptor/TokenProcessor"}

var bg = context.Background()

// tokenize performs one tokenization through the given layer. raw is what the API returned.
func (g *rig) tokenize(l layer, consistent bool, ctx int, v tval) (tval, string, error) {
	id := clientIDs[ctx]
	tc := common.TokenContext{ClientID: id}
	switch l {
	case lPseudo:
		var out interface{}
		var err error
		if consistent {
			out, err = g.pseudo.AnonymizeConsistently(v.golang(), tc, v.typ)
		} else {
			out, err = g.pseudo.Anonymize(v.golang(), tc, v.typ)
		}
		if err != nil {
			return tval{}, "", err
		}
		t, p := fromGolang(v.typ, out)
		return t, p, nil
	case lPseudoTyp:
		var out interface{}
		var err error
		switch v.typ {
		case common.TokenType_Int32:
			out, err = g.pseudo.AnonymizeInt32(int32(v.i), tc)
		case common.TokenType_Int64:
			out, err = g.pseudo.AnonymizeInt64(v.i, tc)
		case common.TokenType_String:
			out, err = g.pseudo.AnonymizeStr(v.s, tc)
		case common.TokenType_Bytes:
			out, err = g.pseudo.AnonymizeBytes([]byte(v.s), tc)
		case common.TokenType_Email:
			out, err = g.pseudo.AnonymizeEmail(common.Email(v.s), tc)
		}
		if err != nil {
			return tval{}, "", err
		}
		t, p := fromGolang(v.typ, out)
		return t, p, nil
	case lTranslator:
		out, err := g.ts.Tokenize(bg, v.golang(), v.typ, id, nil)
		if err != nil {
			return tval{}, "", err
		}
		t, p := fromGolang(v.typ, out)
		return t, p, nil
	case lDataTok, lColumn:
		out, err := g.tokenizeText(l, consistent, ctx, v.typ, v.text())
		if err != nil {
			return tval{}, "", err
		}
		t, p := fromText(v.typ, out)
		return t, p, nil
	}
	panic("layer")
}

// tokenizeText hands a text-form value to one of the two text entry points.
func (g *rig) tokenizeText(l layer, consistent bool, ctx int, typ common.TokenType, text []byte) ([]byte, error) {
	id := clientIDs[ctx]
	in := append([]byte{}, text...)
	if l == lDataTok {
		return g.dt.Tokenize(in, common.TokenContext{ClientID: id}, setting(typ, consistent))
	}
	return g.te.EncryptWithClientID(id, in, setting(typ, consistent))
}

// detokenizeText hands a text-form token to one of the two text entry points.
func (g *rig) detokenizeText(l layer, ctx int, typ common.TokenType, text []byte) ([]byte, error) {
	id := clientIDs[ctx]
	in := append([]byte{}, text...)
	if l == lDataTok {
		return g.dt.Detokenize(in, common.TokenContext{ClientID: id}, setting(typ, true))
	}
	c := base.SetAccessContextToContext(bg, base.NewAccessContext(base.WithClientID(id)))
	c = encryptor.NewContextWithEncryptionSetting(c, setting(typ, true))
	_, out, err := g.tp.OnColumn(c, in)
	return out, err
}

// detokenize asks for the original of token t under client context ctx through the given layer.
func (g *rig) detokenize(l layer, ctx int, t tval) (tval, string, error) {
	id := clientIDs[ctx]
	tc := common.TokenContext{ClientID: id}
	switch l {
	case lPseudo, lPseudoTyp:
		out, err := g.pseudo.Deanonymize(t.golang(), tc, t.typ)
		if err != nil {
			return tval{}, "", err
		}
		v, p := fromGolang(t.typ, out)
		return v, p, nil
	case lTranslator:
		out, err := g.ts.Detokenize(bg, t.golang(), t.typ, id, nil)
		if err != nil {
			return tval{}, "", err
		}
		v, p := fromGolang(t.typ, out)
		return v, p, nil
	case lDataTok, lColumn:
		out, err := g.detokenizeText(l, ctx, t.typ, t.text())
		if err != nil {
			return tval{}, "", err
		}
		v, p := fromText(t.typ, out)
		return v, p, nil
	}
	panic("layer")
}

// --- the monitor's own computation of storage record ids (the documented mechanism of the property's anchors:
// 't.'+H(token,ctx,type) -> original, 'h.'+H(value,ctx,type) -> token) ---

var idDelim = []byte(`tokenizator hash delimiter`)

func recordID(prefix string, data []byte, ctx int, t common.TokenType) []byte {
	h := sha256.New()
	h.Write(idDelim)
	h.Write(data)
	h.Write([]byte(`client`))
	h.Write(clientIDs[ctx])
	h.Write(idDelim)
	h.Write([]byte(strconv.Itoa(int(t))))
	return append([]byte(prefix), h.Sum(nil)...)
}

func ctxBucket(ctx int) []byte {
	h := sha256.New()
	h.Write([]byte(`client`))
	h.Write(clientIDs[ctx])
	return h.Sum(nil)
}

// recordCount counts the records of the store through the public metadata visitor (enabled, disabled).
func (g *rig) recordCount() (total, disabled int, err error) {
	err = g.store.VisitMetadata(func(_ int, md common.TokenMetadata) (common.TokenAction, error) {
		total++
		if md.Disabled {
			disabled++
		}
		return common.TokenContinue, nil
	})
	return
}

// boltTxID is the id of BoltDB's last committed write transaction (0 for memory stores): it grows by one with every
// write transaction, which is how a Get that wrote the record back is observed.
func (g *rig) boltTxID() int {
	if g.db == nil {
		return 0
	}
	id := 0
	g.db.View(func(tx *bolt.Tx) error { id = tx.ID(); return nil })
	return id
}

// boltBuckets iterates the BoltDB file directly: records per context bucket (nil for memory stores).
func (g *rig) boltBuckets() (map[string]int, error) {
	if g.db == nil {
		return nil, nil
	}
	res := map[string]int{}
	err := g.db.View(func(tx *bolt.Tx) error {
		b := tx.Bucket([]byte("tokens"))
		if b == nil {
			return nil
		}
		return b.ForEach(func(k, v []byte) error {
			if v != nil {
				res["(record outside a context bucket)"]++
				return nil
			}
			n := 0
			cb := b.Bucket(k)
			cb.ForEach(func(_, _ []byte) error { n++; return nil })
			res[string(k)] = n
			return nil
		})
	})
	return res, err
}
