package c10

import (
	"fmt"
	"strings"
	"time"

	"github.com/cossacklabs/acra/pseudonymization/common"

	"verif/harness/internal/ev"
	"verif/harness/internal/gen"
	"verif/harness/internal/rig/fakeredis"
	"verif/harness/internal/rig/ksrig"
)

// Command-level faults on the Redis token store. One call (tokenize of a fresh value, tokenize of a value that has a token,
// random tokenize, owner detokenize, a maintenance visit) runs through connection pool A while exactly one of the Redis
// commands it issues - every position of the fault-free command sequence in turn - is answered with an error without being
// applied (FailBefore), or the connection is closed before it is applied (DropBefore), or after it was applied (DropAfter:
// the effect took place, the client sees an error). The faulted call may fail. Demanded afterwards, with the fault gone:
//   - "with consistent tokenization the same value always maps to the same token": the value tokenizes to ONE token from
//     pool B and pool A, equal to the token the faulted call returned if it returned one; the 'h.' record holds that token;
//   - "the owning client gets the original back from the token": that token, a token the faulted call returned, and every
//     token that existed before the fault still give their originals, from both pools; no call panics;
//   - maintenance: a failed visit removed / disabled no record the step does not name, left every record decodable, and the
//     same step run again completes with the promised effect; afterwards every surviving token gives its original.
// What the faulted call itself answers is not judged (an error, or for detokenize the token itself: Deanonymize documents
// "storage error -> return the token as is"), only counted.

var faultActions = []struct {
	a    fakeredis.Action
	name string
}{{fakeredis.FailBefore, "error-reply-not-applied"}, {fakeredis.DropBefore, "connection-dropped-before"}, {fakeredis.DropAfter, "connection-dropped-after-applied"}}

func connCmd(name string) bool {
	switch name {
	case "PING", "SELECT", "AUTH", "ECHO", "HELLO", "CLIENT":
		return true
	}
	return false
}

// oneShotFault makes the k-th data command from now on suffer action a (once); fired reports which command it hit.
func oneShotFault(srv *fakeredis.Server, k int, a fakeredis.Action) (fired func() string) {
	n, hit := 0, ""
	srv.SetHook(func(c *fakeredis.Cmd) fakeredis.Action {
		if connCmd(c.Name) || hit != "" {
			return fakeredis.Proceed
		}
		if n == k {
			hit = c.Name
			return a
		}
		n++
		return fakeredis.Proceed
	})
	return func() string { srv.SetHook(nil); return hit }
}

// dataCommands lists the data commands logged since index from.
func dataCommands(srv *fakeredis.Server, from int) []string {
	var out []string
	for _, c := range srv.LogSince(from) {
		if !connCmd(c.Name) {
			out = append(out, c.Name)
		}
	}
	return out
}

type faultEnv struct {
	r        *ev.Run
	store    string
	gran     string
	a, b     *rig
	existing []bulkTok
	rng      *gen.Rand
	nVal     int
}

func (f *faultEnv) violation(point, what string, d map[string]interface{}) {
	d["scenario"], d["store"], d["access_time_granularity"], d["fault_point"] = "redis command fault", f.store, granName(f.gran), point
	d["replay"] = fmt.Sprintf("VERIF_SEED=%d ./check C10 %s", f.r.Seed, f.r.Tier)
	// go-redis gives up a read after 3 s of WALL clock (Acra builds the client with the default options): on a saturated
	// machine a healthy stand-in server can miss that. A client-side timeout is a resource verdict, never a violation.
	if e, ok := d["error"].(string); ok && strings.Contains(e, "i/o timeout") {
		f.r.Inconclusive("redis fault/" + point + ": go-redis client-side i/o timeout (wall clock) - " + what)
		return
	}
	f.r.Violation("redis fault/"+point+"/"+what, d)
}

// checkExisting: every token that existed before the fault still gives its original, through both pools.
func (f *faultEnv) checkExisting(point string, turn int) {
	for j := 0; j < 6; j++ { // six of the existing tokens per case, rotating: every token is looked at every third case
		i := (turn*6 + j) % len(f.existing)
		t := f.existing[i]
		rg := f.a
		if (i+turn)%2 == 0 {
			rg = f.b
		}
		l := detokLayers[(i+turn)%len(detokLayers)]
		_ = i
		out, problem, err, pan := guarded(func() (tval, string, error) { return rg.detokenize(l, t.ctx, t.tok) })
		if pan != nil || err != nil || problem != "" || !out.equal(t.val) {
			f.violation(point, "a token that existed before the fault no longer gives its original: type="+typeName(t.tok.typ),
				map[string]interface{}{"token": t.tok.full(), "original": t.val.full(), "result": out.full(), "error": fmt.Sprint(err), "problem": problem, "panic": pan != nil, "entry": detokSig[l]})
			continue
		}
		f.r.Count("redis_fault_existing_tokens_still_reversible:"+f.store, 1)
	}
}

func (f *faultEnv) fresh(typ common.TokenType, ctx int) tval {
	f.nVal++
	return uniqueValue(f.rng, typ, ctx, 5000+f.nVal)
}

// tokenizeFaults enumerates the fault points of one tokenize scenario.
func (f *faultEnv) tokenizeFaults(scenario string, l layer, consistent bool, existingValue bool) {
	r := f.r
	pick := func(n int) (tval, int, *bulkTok) {
		if existingValue {
			for i := range f.existing {
				t := &f.existing[(i+n)%len(f.existing)]
				if t.consistent {
					return t.val, t.ctx, t
				}
			}
		}
		typ := allTypes[n%5]
		ctx := n % 3
		return f.fresh(typ, ctx), ctx, nil
	}
	// fault-free dry run: the command sequence of this call
	v0, c0, _ := pick(0)
	from := f.a.srv.LogLen()
	if _, _, err, pan := guarded(func() (tval, string, error) { return f.a.tokenize(l, consistent, c0, v0) }); err != nil || pan != nil {
		f.violation(scenario+"/"+layerNames[l]+"/no-fault", "tokenize failed on a healthy server", map[string]interface{}{"value": v0.full(), "error": fmt.Sprint(err), "panic": pan != nil})
		return
	}
	seq := dataCommands(f.a.srv, from)
	r.SetAdd("redis_fault_command_sequences", fmt.Sprintf("%s,granularity=%s: %v", scenario, granName(f.gran), seq))
	n := 0
	for k := range seq {
		for _, act := range faultActions {
			n++
			r.Case()
			v, ctx, ex := pick(n)
			stop := oneShotFault(f.a.srv, k, act.a)
			t0, prob0, err0, pan0 := guarded(func() (tval, string, error) { return f.a.tokenize(l, consistent, ctx, v) })
			hit := stop()
			if hit == "" {
				r.Count("redis_fault_point_not_reached", 1)
				continue
			}
			point := fmt.Sprintf("%s/%s/command-%d=%s/%s", scenario, layerNames[l], k, hit, act.name)
			r.SetAdd("redis_fault_points", fmt.Sprintf("%s/command-%d=%s/%s", scenario, k, hit, act.name))
			r.Count("redis_fault_cases:"+f.store, 1)
			det := func(extra map[string]interface{}) map[string]interface{} {
				m := map[string]interface{}{"value": v.full(), "type": typeName(v.typ), "client": string(clientIDs[ctx]), "mode": modeName(consistent), "fault_free_command_sequence": seq,
					"faulted_call_error": fmt.Sprint(err0), "faulted_call_token": t0.full()}
				for k, x := range extra {
					m[k] = x
				}
				return m
			}
			if pan0 != nil {
				f.violation(point, "panic in the faulted call at "+pan0.site, det(map[string]interface{}{"stack": pan0.stack}))
				continue
			}
			ok0 := err0 == nil && prob0 == ""
			if ok0 {
				r.Count("redis_fault_cases_where_the_faulted_call_succeeded:"+f.store, 1)
			} else {
				r.Count("redis_fault_cases_where_the_faulted_call_failed:"+f.store, 1)
			}
			holds := true
			if consistent {
				t1, p1, err1, pan1 := guarded(func() (tval, string, error) { return f.b.tokenize(l, true, ctx, v) })
				t2, p2, err2, pan2 := guarded(func() (tval, string, error) { return f.a.tokenize(layersFor(true)[n%4], true, ctx, v) })
				switch {
				case pan1 != nil || pan2 != nil:
					holds = false
					f.violation(point, "panic in a later tokenize of the value", det(nil))
				case err1 != nil || err2 != nil || p1 != "" || p2 != "":
					holds = false
					f.violation(point, "later tokenize of the value fails although the server is healthy again", det(map[string]interface{}{"error_other_pool": fmt.Sprint(err1), "error_same_pool": fmt.Sprint(err2)}))
				case !t1.equal(t2):
					holds = false
					f.violation(point, "the same value maps to two different tokens afterwards", det(map[string]interface{}{"token_other_pool": t1.full(), "token_same_pool": t2.full()}))
				case ok0 && !t0.equal(t1):
					holds = false
					f.violation(point, "the faulted call returned a token and later calls return another one for the same value", det(map[string]interface{}{"token_later": t1.full()}))
				case ex != nil && !t1.equal(ex.tok):
					holds = false
					f.violation(point, "a value that had a token before the fault maps to another token afterwards", det(map[string]interface{}{"token_before": ex.tok.full(), "token_later": t1.full()}))
				}
				if holds {
					r.Count("redis_fault_later_tokenize_agreed:"+f.store, 1)
					out, p3, err3, pan3 := guarded(func() (tval, string, error) { return f.a.detokenize(detokLayers[n%4], ctx, t1) })
					if pan3 != nil || err3 != nil || p3 != "" || !out.equal(v) {
						holds = false
						f.violation(point, "the owner does not get the original back from the token the value maps to", det(map[string]interface{}{"token": t1.full(), "result": out.full(), "error": fmt.Sprint(err3)}))
					}
				}
			}
			if ok0 && holds {
				out, p3, err3, pan3 := guarded(func() (tval, string, error) { return f.b.detokenize(detokLayers[(n+1)%4], ctx, t0) })
				if pan3 != nil || err3 != nil || p3 != "" || !out.equal(v) {
					holds = false
					f.violation(point, "the faulted call returned a token from which the owner does not get the original", det(map[string]interface{}{"result": out.full(), "error": fmt.Sprint(err3)}))
				} else {
					r.Count("redis_fault_token_of_faulted_call_reversible:"+f.store, 1)
				}
			}
			f.checkExisting(point, n)
			if holds {
				r.Distinct(fmt.Sprintf("redis-fault|%s|granularity=%s|%s/command-%d=%s/%s", f.store, granName(f.gran), scenario, k, hit, act.name))
			}
		}
	}
}

// detokenizeFaults: owner detokenize of an existing token with one faulted command.
func (f *faultEnv) detokenizeFaults(l layer) {
	r := f.r
	scenario := "detokenize-existing-token"
	t := f.existing[int(l)%len(f.existing)]
	from := f.a.srv.LogLen()
	guarded(func() (tval, string, error) { return f.a.detokenize(l, t.ctx, t.tok) })
	seq := dataCommands(f.a.srv, from)
	r.SetAdd("redis_fault_command_sequences", fmt.Sprintf("%s,granularity=%s: %v", scenario, granName(f.gran), seq))
	n := 0
	for k := range seq {
		for _, act := range faultActions {
			n++
			r.Case()
			t := f.existing[(n+int(l))%len(f.existing)]
			stop := oneShotFault(f.a.srv, k, act.a)
			out, _, err, pan := guarded(func() (tval, string, error) { return f.a.detokenize(l, t.ctx, t.tok) })
			hit := stop()
			if hit == "" {
				r.Count("redis_fault_point_not_reached", 1)
				continue
			}
			point := fmt.Sprintf("%s/%s/command-%d=%s/%s", scenario, detokSig[l], k, hit, act.name)
			r.SetAdd("redis_fault_points", fmt.Sprintf("%s/command-%d=%s/%s", scenario, k, hit, act.name))
			r.Count("redis_fault_cases:"+f.store, 1)
			switch {
			case pan != nil:
				f.violation(point, "panic in the faulted call at "+pan.site, map[string]interface{}{"token": t.tok.full(), "stack": pan.stack})
			case err != nil:
				r.Count("redis_fault_cases_where_the_faulted_call_failed:"+f.store, 1)
			case out.equal(t.val):
				r.Count("redis_fault_cases_where_the_faulted_call_succeeded:"+f.store, 1)
			case out.equal(t.tok):
				r.Count("redis_fault_detokenize_answered_the_token_itself_on_a_store_failure_not_judged", 1)
				r.Count("redis_fault_cases_where_the_faulted_call_failed:"+f.store, 1)
			default:
				f.violation(point, "the faulted detokenize answered neither the original nor the token nor an error", map[string]interface{}{"token": t.tok.full(), "original": t.val.full(), "result": out.full()})
			}
			f.checkExisting(point, n)
			r.Distinct(fmt.Sprintf("redis-fault|%s|granularity=%s|%s/command-%d=%s/%s", f.store, granName(f.gran), scenario, k, hit, act.name))
		}
	}
}

// maintenanceFaults: a maintenance visit over a few SCAN pages with one faulted command.
func (f *faultEnv) maintenanceFaults(pm *rig) {
	r := f.r
	srv := f.a.srv
	// two starting states: everything enabled; every second record disabled
	s0 := srv.Snapshot()
	met := 0
	if err := pm.store.VisitMetadata(func(_ int, md common.TokenMetadata) (common.TokenAction, error) {
		if met++; met%2 == 0 {
			return common.TokenDisable, nil
		}
		return common.TokenContinue, nil
	}); err != nil {
		r.Inconclusive(fmt.Sprintf("redis faults: preparation visit failed: %v", err))
		return
	}
	s1 := srv.Snapshot()
	defer srv.Restore(s0)
	steps := []struct {
		name  string
		start fakeredis.Data
	}{{"status", s1}, {"disable", s0}, {"enable", s1}, {"remove-disabled", s1}}
	for _, st := range steps {
		spec := maintSpecs[st.name]
		visit := func() error {
			return pm.store.VisitMetadata(func(_ int, md common.TokenMetadata) (common.TokenAction, error) { return spec.visit(md), nil })
		}
		srv.Restore(st.start)
		start := redisView(f.a)
		from := f.a.srv.LogLen()
		if err := visit(); err != nil {
			f.violation("maintenance-"+st.name+"/no-fault", "the visit failed on a healthy server", map[string]interface{}{"error": err.Error()})
			continue
		}
		seq := dataCommands(f.a.srv, from)
		r.SetAdd("redis_fault_command_sequences", fmt.Sprintf("maintenance-%s: %d commands", st.name, len(seq)))
		// what the completed step must have done, per record of the starting state
		gone := func(k string) bool { return st.name == "remove-disabled" && start.disabled[k] }
		disabledAfter := func(k string) bool {
			switch st.name {
			case "disable":
				return true
			case "enable":
				return false
			}
			return start.disabled[k]
		}
		for k := range seq {
			for ai, act := range faultActions {
				if len(seq) > 12 && (k+ai)%3 != 0 && !r.Thorough() { // quick: every third (position, action) pair of long sequences
					continue
				}
				r.Case()
				srv.Restore(st.start)
				stop := oneShotFault(f.a.srv, k, act.a)
				var verr error
				_, _, _, pan := guarded(func() (tval, string, error) { verr = visit(); return tval{}, "", nil })
				hit := stop()
				if hit == "" {
					r.Count("redis_fault_point_not_reached", 1)
					continue
				}
				point := fmt.Sprintf("maintenance-%s/command-%d=%s/%s", st.name, k, hit, act.name)
				r.SetAdd("redis_fault_points", fmt.Sprintf("maintenance-%s/%s/%s", st.name, hit, act.name))
				r.Count("redis_fault_cases:"+f.store, 1)
				r.Count("redis_fault_maintenance_cases:"+f.store, 1)
				if pan != nil {
					f.violation(point, "panic in the faulted visit at "+pan.site, map[string]interface{}{"stack": pan.stack})
					continue
				}
				if verr != nil {
					r.Count("redis_fault_cases_where_the_faulted_call_failed:"+f.store, 1)
				} else {
					r.Count("redis_fault_cases_where_the_faulted_call_succeeded:"+f.store, 1)
				}
				// after the (possibly failed) visit: only records the step names may have changed, towards what the step does
				after := redisView(f.a)
				lost, wrong := 0, 0
				for key := range start.tokenKeys {
					_, there := after.tokenKeys[key]
					switch {
					case !there && !gone(key):
						lost++
					case there && after.disabled[key] != start.disabled[key] && after.disabled[key] != disabledAfter(key):
						wrong++
					}
				}
				mi, ch, ad := sameMap(start.foreign, after.foreign)
				holds := true
				if lost+wrong+len(after.undecodable) > 0 || ad > 0 || mi+ch > 0 {
					holds = false
					f.violation(point, "a failed visit removed, disabled or damaged records the step does not name",
						map[string]interface{}{"visit_error": fmt.Sprint(verr), "records_lost": lost, "records_in_a_state_the_step_never_produces": wrong, "undecodable": len(after.undecodable), "foreign_keys_missing_changed_added": []int{mi, ch, ad}})
				}
				// the same step again, no fault: completes with the promised effect
				if err := visit(); err != nil {
					holds = false
					f.violation(point, "the same maintenance step run again fails although the server is healthy", map[string]interface{}{"error": err.Error()})
				} else {
					fin := redisView(f.a)
					bad := 0
					for key := range start.tokenKeys {
						_, there := fin.tokenKeys[key]
						if there == gone(key) || (there && fin.disabled[key] != disabledAfter(key)) {
							bad++
						}
					}
					if bad > 0 || len(fin.undecodable) > 0 {
						holds = false
						f.violation(point, "the maintenance step run again after the failed one does not reach the promised state", map[string]interface{}{"records_in_wrong_state": bad, "records": len(start.tokenKeys), "first_visit_error": fmt.Sprint(verr)})
					}
				}
				// enable what is left; every surviving token gives its original
				en := maintSpecs["enable"]
				if err := pm.store.VisitMetadata(func(_ int, md common.TokenMetadata) (common.TokenAction, error) { return en.visit(md), nil }); err == nil {
					fin := redisView(f.a)
					for i, t := range f.existing {
						if _, there := fin.tokenKeys[redisKey("t.", t.tok.encoded(), t.ctx, t.tok.typ)]; !there {
							if !gone(redisKey("t.", t.tok.encoded(), t.ctx, t.tok.typ)) {
								holds = false // reported above as lost
							}
							continue
						}
						rg := []*rig{f.a, f.b}[i%2]
						l := detokLayers[(i+k)%len(detokLayers)]
						t := t
						out, problem, err, pan := guarded(func() (tval, string, error) { return rg.detokenize(l, t.ctx, t.tok) })
						if pan != nil || err != nil || problem != "" || !out.equal(t.val) {
							holds = false
							f.violation(point, "a token whose record survived the failed maintenance no longer gives its original: type="+typeName(t.tok.typ),
								map[string]interface{}{"token": t.tok.full(), "original": t.val.full(), "result": out.full(), "error": fmt.Sprint(err)})
							continue
						}
						r.Count("redis_fault_existing_tokens_still_reversible:"+f.store, 1)
					}
				}
				if holds {
					r.Distinct(fmt.Sprintf("redis-fault|%s|maintenance-%s/%s/%s", f.store, st.name, hit, act.name))
				}
			}
		}
	}
}

func redisFaults(r *ev.Run, kind storeKind, ks ksrig.FullKeyStore) {
	t0 := time.Now()
	defer func() { r.Count("wall_ms_in_redis_faults", time.Since(t0).Milliseconds()) }() // cost accounting only
	store := kind.name()
	for _, gran := range []string{"", "0"} {
		a, err := newRigGran(kind, ks, true, gran)
		if err != nil {
			r.Inconclusive(fmt.Sprintf("redis faults: store %s could not be built: %v", store, err))
			return
		}
		func() {
			defer a.discard()
			a.srv.SetLogging(true)
			b, err1 := a.addPool()
			pm, err2 := a.addPool()
			if err1 != nil || err2 != nil {
				r.Inconclusive(fmt.Sprintf("redis faults: connection pools could not be opened: %v %v", err1, err2))
				return
			}
			f := &faultEnv{r: r, store: store, gran: gran, a: a, b: b, rng: gen.New(r.Seed, "c10-redis-faults-"+store+"-"+gran)}
			redisPlantForeign(a, f.rng, 40)
			// tokens that exist before any fault: one consistent and one random per type, plus a few more
			for i := 0; i < 14; i++ {
				typ, ctx, consistent := allTypes[i%5], i%3, i%2 == 0
				v := f.fresh(typ, ctx)
				ls := layersFor(consistent)
				rg := []*rig{a, b}[i%2]
				tok, problem, err, pan := guarded(func() (tval, string, error) { return rg.tokenize(ls[i%len(ls)], consistent, ctx, v) })
				if pan != nil || err != nil || problem != "" {
					f.violation("setup", "tokenize failed on a healthy server", map[string]interface{}{"value": v.full(), "error": fmt.Sprint(err)})
					return
				}
				f.existing = append(f.existing, bulkTok{tok, v, ctx, consistent})
			}
			if gran == "" { // first: the population is small (a few SCAN pages), every command position is a case
				f.maintenanceFaults(pm)
			}
			for _, l := range layersFor(true) {
				f.tokenizeFaults("tokenize-consistent-fresh-value", l, true, false)
			}
			for _, l := range []layer{lPseudo, lColumn} {
				f.tokenizeFaults("tokenize-consistent-value-that-has-a-token", l, true, true)
			}
			for _, l := range []layer{lPseudo, lPseudoTyp, lDataTok} {
				f.tokenizeFaults("tokenize-random", l, false, false)
			}
			for _, l := range detokLayers {
				f.detokenizeFaults(l)
			}
			if n := a.srv.Unknown(); n > 0 {
				r.Inconclusive(fmt.Sprintf("fakeredis: unknown command received %d times in the fault scenarios", n))
			}
		}()
	}
}
