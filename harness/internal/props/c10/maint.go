package c10

import (
	"bytes"
	"context"
	"fmt"
	"io"
	"os"
	"os/exec"
	"path/filepath"
	"regexp"
	"strconv"
	"time"

	"github.com/sirupsen/logrus"

	"github.com/cossacklabs/acra/cmd/acra-tokens/tokens"
	"github.com/cossacklabs/acra/pseudonymization/common"
)

// maintenance steps: the acra-tokens command line of each and the same action as a storage visitor.
type maintSpec struct {
	argv   []string
	effect string // same | all-disabled | all-enabled | all-removed | disabled-removed
	visit  func(md common.TokenMetadata) common.TokenAction
}

var y2001 = time.Date(2001, 1, 1, 0, 0, 0, 0, time.Local)

var maintSpecs = map[string]maintSpec{
	"status":  {[]string{"status"}, "same", func(common.TokenMetadata) common.TokenAction { return common.TokenContinue }},
	"dry-run": {[]string{"remove", "--all", "--dry_run"}, "same", func(common.TokenMetadata) common.TokenAction { return common.TokenContinue }},
	"disable": {[]string{"disable"}, "all-disabled", func(md common.TokenMetadata) common.TokenAction {
		if !md.Disabled {
			return common.TokenDisable
		}
		return common.TokenContinue
	}},
	"enable": {[]string{"enable"}, "all-enabled", func(md common.TokenMetadata) common.TokenAction {
		if md.Disabled {
			return common.TokenEnable
		}
		return common.TokenContinue
	}},
	"remove-all": {[]string{"remove", "--all"}, "all-removed", func(common.TokenMetadata) common.TokenAction { return common.TokenRemove }},
	"remove-disabled": {[]string{"remove", "--only_disabled"}, "disabled-removed", func(md common.TokenMetadata) common.TokenAction {
		if md.Disabled {
			return common.TokenRemove
		}
		return common.TokenContinue
	}},
	"date-noop-disable": {[]string{"disable", "--created_before", "2001-01-01"}, "same", func(md common.TokenMetadata) common.TokenAction {
		if md.Created.After(y2001) {
			return common.TokenContinue
		}
		return common.TokenDisable
	}},
	"date-noop-remove": {[]string{"remove", "--all", "--accessed_before", "2001-01-01 00:00"}, "same", func(md common.TokenMetadata) common.TokenAction {
		if md.Accessed.After(y2001) {
			return common.TokenContinue
		}
		return common.TokenRemove
	}},
	"date-all-remove": {[]string{"remove", "--all", "--created_after", "Jan 2001"}, "all-removed", func(md common.TokenMetadata) common.TokenAction {
		if md.Created.Before(y2001) {
			return common.TokenContinue
		}
		return common.TokenRemove
	}},
	"reopen": {nil, "same", nil},
}

var tokenCountRe = regexp.MustCompile(`(?m)^TokenCount: (\d+)$`)

// maintenance performs one step at quiescence, checks its effect on the record population and moves the oracle's state.
func (h *history) maintenance(name string) {
	violation := func(sig string, d interface{}) { h.r.Violation(storeSig(h.p.kind.name(), sig), d) } // Redis variants: signatures start with "redis "
	r := h.r
	spec := maintSpecs[name]
	beforeTotal, beforeDisabled, err := h.rig.recordCount()
	if err != nil {
		r.Inconclusive(fmt.Sprintf("history %d: metadata visit failed before %s: %v", h.p.idx, name, err))
		h.dead = true
		return
	}
	via := "direct"
	switch {
	case name == "reopen":
		via = "reopen"
		h.rig.close()
		err := h.rig.open()
		for _, pr := range h.rig.peers { // Redis: every connection pool is closed and opened again
			pr.close()
			if err == nil {
				err = pr.open()
			}
		}
		if err != nil {
			r.Inconclusive(fmt.Sprintf("history %d: %s store could not be reopened: %v", h.p.idx, h.p.kind.name(), err))
			h.dead = true
			return
		}
		if h.p.kind.redis {
			r.Count("redis_connection_pools_reopened", int64(1+len(h.rig.peers)))
		} else {
			r.Count("boltdb_reopened", 1)
		}
	case h.p.cli:
		via = "cli"
		h.rig.close()
		t0 := time.Now()
		out, err := runTokensCLI(h.rig.path, spec.argv)
		r.Count("wall_ms_in_cli_children", time.Since(t0).Milliseconds()) // cost accounting only
		if oerr := h.rig.open(); oerr != nil {
			r.Inconclusive(fmt.Sprintf("history %d: BoltDB file could not be reopened after acra-tokens %v: %v", h.p.idx, spec.argv, oerr))
			h.dead = true
			return
		}
		if err != nil {
			r.Inconclusive(fmt.Sprintf("history %d: acra-tokens %v did not complete: %v", h.p.idx, spec.argv, err))
			h.dead = true
			return
		}
		r.Count("maintenance_steps_via_cli", 1)
		if name == "status" {
			if m := tokenCountRe.FindStringSubmatch(out); m != nil {
				if n, _ := strconv.Atoi(m[1]); n == beforeTotal {
					r.Count("cli_status_token_count_matches_visitor", 1)
				} else {
					r.Count("cli_status_token_count_differs_from_visitor", 1)
				}
			}
		}
	default:
		// Redis histories: maintenance comes through the last connection pool (acra-tokens is a process of its own)
		err := h.rigOf(len(h.rig.peers)).store.VisitMetadata(func(_ int, md common.TokenMetadata) (common.TokenAction, error) { return spec.visit(md), nil })
		if err != nil {
			r.Inconclusive(fmt.Sprintf("history %d: metadata visit for %s failed: %v", h.p.idx, name, err))
			h.dead = true
			return
		}
		r.Count("maintenance_steps_direct", 1)
	}
	r.SetAdd("maintenance_steps", name+"/"+via)
	total, disabled, err := h.rig.recordCount()
	if err != nil {
		r.Inconclusive(fmt.Sprintf("history %d: metadata visit failed after %s: %v", h.p.idx, name, err))
		h.dead = true
		return
	}
	wantTotal, wantDisabled, expect := beforeTotal, beforeDisabled, "leave every record as it was"
	switch spec.effect {
	case "all-disabled":
		wantDisabled, expect = beforeTotal, "disable every record and remove none"
	case "all-enabled":
		wantDisabled, expect = 0, "enable every record and remove none"
	case "all-removed":
		wantTotal, wantDisabled, expect = 0, 0, "remove every record"
	case "disabled-removed":
		wantTotal, wantDisabled, expect = beforeTotal-beforeDisabled, 0, "remove exactly the disabled records"
	}
	if total != wantTotal || disabled != wantDisabled {
		violation(fmt.Sprintf("maintenance effect: %s via=%s must %s", name, via, expect),
			h.detail(nil, map[string]interface{}{"argv": spec.argv, "records_before": beforeTotal, "disabled_before": beforeDisabled, "records_after": total, "disabled_after": disabled, "expected_records": wantTotal, "expected_disabled": wantDisabled}))
		h.dead = true
		return
	}
	r.Count("maintenance_effects_checked", 1)
	// move the oracle's state
	h.mu.Lock()
	defer h.mu.Unlock()
	switch spec.effect {
	case "all-disabled":
		h.reenabled = nil
		h.disabledK = map[string]bool{}
		for k := range h.fixed {
			h.disabledK[k] = true
		}
		for k := range h.live {
			h.disabledK[k] = true
		}
	case "all-enabled":
		h.reenabled = h.disabledK
		h.disabledK = nil
	case "all-removed":
		for _, l := range h.pub {
			h.old = append(h.old, l...)
		}
		h.pub = map[string][]pubEntry{}
		h.fixed = map[string]tval{}
		h.live = map[string]tval{}
		h.disabledK = nil
		h.reenabled = nil
	case "disabled-removed":
		if len(h.disabledK) == 0 {
			break
		}
		for k := range h.disabledK {
			delete(h.fixed, k)
			delete(h.live, k)
		}
		for k, l := range h.pub {
			var keep []pubEntry
			for _, pe := range l {
				if h.disabledK[liveKey(pe.ctx, pe.tok)] {
					h.old = append(h.old, pe)
				} else {
					keep = append(keep, pe)
				}
			}
			h.pub[k] = keep
		}
		h.disabledK = nil
		h.reenabled = nil
		r.Count("tokens_survived_partial_removal", int64(len(h.live)))
	}
}

// runTokensCLI runs one acra-tokens subcommand (the library's Parse + Execute) in a child process of the monitor binary.
func runTokensCLI(dbPath string, argv []string) (string, error) {
	bin := os.Getenv("VERIF_MON_BIN")
	if bin == "" {
		var err error
		if bin, err = os.Executable(); err != nil {
			return "", err
		}
	}
	ctx, cancel := context.WithTimeout(context.Background(), 3*time.Minute) // watchdog only
	defer cancel()
	args := append([]string{"C10", "child", "tokens", dbPath}, argv...)
	c := exec.CommandContext(ctx, bin, args...)
	var out, errb bytes.Buffer
	c.Stdout, c.Stderr = &out, &errb
	if err := c.Run(); err != nil {
		return out.String(), fmt.Errorf("%v: %s", err, errb.String())
	}
	return out.String(), nil
}

// Child is "mon C10 child tokens <db> <subcommand> [flags...]": the body of cmd/acra-tokens/acra-tokens.go for one subcommand.
func Child(args []string) int {
	if len(args) < 3 || args[0] != "tokens" {
		fmt.Fprintln(os.Stderr, "usage: mon C10 child tokens <boltdb file> <status|disable|enable|remove> [flags]")
		return 2
	}
	if os.Getenv("VERIF_LOGS") == "" {
		logrus.SetOutput(io.Discard)
	}
	db := args[1]
	if err := os.Chdir(filepath.Dir(db)); err != nil { // no configs/acra-tokens.yaml there
		fmt.Fprintln(os.Stderr, err)
		return 2
	}
	var sub tokens.Subcommand
	switch args[2] {
	case tokens.CmdTokenStatus:
		sub = &tokens.StatusSubcommand{}
	case tokens.CmdTokenDisable:
		sub = &tokens.DisableSubcommand{}
	case tokens.CmdTokenEnable:
		sub = &tokens.EnableSubcommand{}
	case tokens.CmdTokenRemove:
		sub = &tokens.RemoveSubcommand{}
	default:
		return 2
	}
	sub.RegisterFlags()
	if err := sub.Parse(append([]string{"--token_db", db}, args[3:]...)); err != nil {
		fmt.Fprintln(os.Stderr, "parse:", err)
		return 3
	}
	sub.Execute()
	return 0
}
