package c07

// Oracle (c) "any byte change to a stored key ring is detected when it is read" (fault enumeration: every byte of
// every stored v2 key ring, one bit per byte in the quick tier and all eight in the thorough tier; plus, at every
// offset, the byte VALUES that matter to a DER reader (quick) / all 255 other values (thorough): runByteValuesV2,
// der.go), and its v1 counterpart "a flipped private/symmetric key file fails to load".

import (
	"bytes"
	encasn1 "encoding/asn1"
	"fmt"
	"os"
	"path/filepath"
	"strings"

	"github.com/cossacklabs/acra/keystore/filesystem"
	"github.com/cossacklabs/acra/keystore/v2/keystore/filesystem/backend"

	"verif/harness/internal/ev"
	"verif/harness/internal/rig/ksrig"
)

// regions of a signed key ring file: outer SEQUENCE header | payload (signed span) | signatures.
func ringRegion(data []byte, off int) string {
	var outer encasn1.RawValue
	if _, err := encasn1.Unmarshal(data, &outer); err != nil {
		return "unknown"
	}
	hdr := len(outer.FullBytes) - len(outer.Bytes)
	if off < hdr {
		return "container-header"
	}
	var payload encasn1.RawValue
	if _, err := encasn1.Unmarshal(outer.Bytes, &payload); err != nil {
		return "unknown"
	}
	if off < hdr+len(payload.FullBytes) {
		return "signed-payload"
	}
	return "signatures"
}

func bitsFor(r *ev.Run, off int) []uint {
	if r.Thorough() {
		return []uint{0, 1, 2, 3, 4, 5, 6, 7}
	}
	return []uint{uint((int64(off) + r.Seed) % 8)}
}

func runTamperV2(r *ev.Run, cfg config, realFiles bool) {
	g := newRig(cfg, "")
	defer g.destroy()
	ks, err := g.open(0)
	if err == nil {
		err = populate(ks, 3)
	}
	if err == nil {
		// some destroyed keys, so that rings with all key states are enumerated
		ksrig.ModelDestroyRotated(ks, ksrig.ModelStorageSym, clientA, 2)
		ksrig.ModelDestroyCurrent(ks, ksrig.ModelPoisonPair, nil)
	}
	if err != nil {
		r.Inconclusive("tamper v2: cannot populate: " + err.Error())
		return
	}
	content := map[string][]byte{}
	for _, c := range g.log.Calls() {
		if c.Op == "Put" && c.Err == "" {
			content[strings.TrimSuffix(c.Path, ".new")] = c.Data
		}
	}
	slots := v2Slots(owners())
	var flipped []byte
	var target string
	g.getHook = func(path string, data []byte) []byte {
		if path == target {
			return append([]byte{}, flipped...)
		}
		return data
	}
	if realFiles {
		g.getHook = nil
	}
	fresh, err := g.open(0)
	if err != nil {
		r.Inconclusive("tamper v2: " + err.Error())
		return
	}
	opener := fresh.(ringOpener)
	for _, s := range slots {
		file := s.path + ".keyring"
		orig := content[file]
		if len(orig) == 0 {
			r.Inconclusive("tamper v2: no stored bytes for " + file)
			continue
		}
		// reference view of the untouched ring
		refCur, _, refErr := ksrig.ModelCurrent(fresh, s.kind, s.id)
		if _, err := opener.OpenKeyRing(s.path); err != nil {
			r.Inconclusive(fmt.Sprintf("tamper v2: untouched ring %s does not open: %v", s.path, err))
			continue
		}
		r.SetAdd("c_rings_enumerated", cfg.name+"|"+s.path)
		for off := range orig {
			for _, bit := range bitsFor(r, off) {
				flipped = append(flipped[:0], orig...)
				flipped[off] ^= 1 << bit
				target = file
				if realFiles {
					if err := os.WriteFile(filepath.Join(g.dir, file), flipped, 0o600); err != nil {
						r.Inconclusive("tamper v2: " + err.Error())
						return
					}
				}
				var openErr, getErr error
				var cur []byte
				checkGetter := off%8 == 0
				site, stack := guard(func() {
					_, openErr = opener.OpenKeyRing(s.path)
					if checkGetter || openErr == nil {
						cur, _, getErr = ksrig.ModelCurrent(fresh, s.kind, s.id)
					}
				})
				region := ringRegion(orig, off)
				r.Case()
				r.Count("c_flips_checked_v2", 1)
				r.Distinct(fmt.Sprintf("%s|c|%s|%s", cfg.name, s.kind, region))
				detail := map[string]interface{}{"config": cfg.name, "seed": r.Seed, "ring": s.path, "offset": off, "bit": bit, "region": region, "file_len": len(orig),
					"original": ev.FullHex(orig), "stack": stack, "open_error": fmt.Sprint(openErr), "getter_error": fmt.Sprint(getErr)}
				switch {
				case site != "":
					r.Violation(fmt.Sprintf("v2 flipped key ring: read panics at %s (region=%s)", site, region), detail)
				case openErr == nil:
					class := "same-content"
					if getErr != nil != (refErr != nil) || !bytes.Equal(cur, refCur) {
						class = "different-content"
					}
					r.Violation(fmt.Sprintf("v2 key ring accepted after a single-bit flip: region=%s result=%s", region, class), detail)
				case checkGetter && getErr == nil:
					r.Violation(fmt.Sprintf("v2 getter succeeds on a flipped key ring: region=%s kind=%s", region, s.kind), detail)
				default:
					r.Count("c_flips_rejected_v2", 1)
				}
			}
		}
		target = ""
		if realFiles {
			os.WriteFile(filepath.Join(g.dir, file), orig, 0o600)
		}
	}
	// byte values: the tier's full value set with the changed bytes presented by the back end; where this store is
	// tampered with by real file rewrites (thorough, directory), once more with the quick value set through real
	// rewrites (a rewrite costs about a millisecond: 255 values x every offset would take twenty minutes)
	runByteValuesV2(r, cfg, g, slots, content, false, r.Thorough())
	if realFiles {
		runByteValuesV2(r, cfg, g, slots, content, true, false)
	}
	r.SampleN("c/"+cfg.name, 1, map[string]interface{}{"oracle": "c", "config": cfg.name, "real_files": realFiles, "rings": len(slots),
		"example": fmt.Sprintf("%s.keyring (%d bytes): each byte flipped, OpenKeyRing + getter on a fresh handle", slots[1].path, len(content[slots[1].path+".keyring"]))})
}

// tamperBackend presents one stored v2 object with altered content (no call log: the byte-value sweep makes
// millions of reads).
type tamperBackend struct {
	backend.Backend
	path    string
	data    []byte
	noClose bool
}

func (t *tamperBackend) Get(path string) ([]byte, error) {
	if t.path != "" && path == t.path {
		return append([]byte{}, t.data...), nil
	}
	return t.Backend.Get(path)
}

func (t *tamperBackend) Close() error {
	if t.noClose {
		return nil
	}
	return t.Backend.Close()
}

// runByteValuesV2 is the byte-VALUE sweep of oracle (c): "any byte change to a stored key ring is detected when it
// is read" (quantifier: "every single-byte modification of every stored file"). Single-bit flips do not reach
// every value that matters to a DER reader (a length octet 0x20 becomes 0x10..0x1f only by changing two bits), so at
// EVERY offset of every stored ring the byte is replaced by the values of byteValuesFor (quick: value-1, value+1,
// value/2, 0x10..0x1f for 0x20, 0, 0x7f, 0x80, 0x81, 0xff; thorough: all 255 other values). Same oracle as the
// bit-flip sweep: OpenKeyRing on a fresh handle must fail (every 8th offset also the getter), success is a violation
// whether the readable content changed or not, a panic too. The changed byte is classified with classifyDER, the
// signature names the DER element, the role of the byte in it (tag / length / content) and the direction of the change.
func runByteValuesV2(r *ev.Run, cfg config, g *rig, slots []slot, content map[string][]byte, realFiles, allValues bool) {
	tb := &tamperBackend{}
	if cfg.dir {
		b, err := backend.CreateDirectoryBackend(g.dir)
		if err != nil {
			r.Inconclusive("tamper v2 byte values: " + err.Error())
			return
		}
		tb.Backend = b
	} else {
		tb.Backend, tb.noClose = g.mem, true
	}
	ks, err := ksrig.V2OnBackend(tb, g.v2keys)
	if err != nil {
		r.Inconclusive("tamper v2 byte values: " + err.Error())
		return
	}
	defer ks.Close()
	var fresh ksrig.FullKeyStore = ks
	opener := fresh.(ringOpener)
	var changed []byte
	for si, s := range slots {
		file := s.path + ".keyring"
		orig := content[file]
		if len(orig) == 0 {
			r.Inconclusive("tamper v2 byte values: no stored bytes for " + file)
			continue
		}
		tb.path = ""
		refCur, _, refErr := ksrig.ModelCurrent(fresh, s.kind, s.id)
		if _, err := opener.OpenKeyRing(s.path); err != nil {
			r.Inconclusive(fmt.Sprintf("tamper v2 byte values: untouched ring %s does not open: %v", s.path, err))
			continue
		}
		fields := classifyDER(orig, ringSchema)
		r.SetAdd("c_byte_value_rings_enumerated", cfg.name+"|"+s.path)
		// the length octet of the signature value: the byte whose lowering turns the tail of the MAC into trailing bytes
		sigLenOff := -1
		for off, f := range fields {
			if f.field == fieldSignatureValue && f.part == "length" {
				sigLenOff = off
			}
		}
		if sigLenOff < 0 || orig[sigLenOff] != 0x20 {
			r.Inconclusive(fmt.Sprintf("tamper v2 byte values: ring %s: no 32-byte %s found by the DER classifier", s.path, fieldSignatureValue))
		}
		var sigLenTried []string
		sigLenRejected := 0
		fieldBytes := map[string]int{}
		for off := range orig {
			f := fields[off]
			region := ringRegion(orig, off)
			fieldBytes[shortField(f.field)+" "+f.part]++
			r.SetAdd("c_byte_value_fields_v2", shortField(f.field)+" "+f.part)
			checkGetter := off%8 == 0
			for _, bv := range byteValuesFor(orig[off], allValues) {
				changed = append(changed[:0], orig...)
				changed[off] = bv.v
				if realFiles {
					if err := os.WriteFile(filepath.Join(g.dir, file), changed, 0o600); err != nil {
						r.Inconclusive("tamper v2 byte values: " + err.Error())
						return
					}
				} else {
					tb.path, tb.data = file, changed
				}
				var openErr, getErr error
				var cur []byte
				site, stack := guard(func() {
					_, openErr = opener.OpenKeyRing(s.path)
					if checkGetter || openErr == nil {
						cur, _, getErr = ksrig.ModelCurrent(fresh, s.kind, s.id)
					}
				})
				dir := changeDirection(orig[off], bv.v)
				r.Case()
				r.Count("c_byte_values_checked_v2", 1)
				if realFiles {
					r.Count("c_byte_values_checked_v2_by_real_file_rewrite", 1)
				}
				r.Count("c_byte_values_checked_v2_"+f.part+"_bytes", 1)
				r.Count("c_byte_values_checked_v2_rule="+bv.rule, 1)
				if f.part == "length" && orig[off] == 0x20 && bv.v >= 0x10 && bv.v <= 0x1f {
					r.Count("c_length_bytes_0x20_lowered_to_0x10..0x1f_v2", 1)
				}
				detail := func() map[string]interface{} {
					return map[string]interface{}{"config": cfg.name, "seed": r.Seed, "ring": s.path, "offset": off, "file_len": len(orig),
						"from": fmt.Sprintf("0x%02x", orig[off]), "to": fmt.Sprintf("0x%02x", bv.v), "value_rule": bv.rule, "field": f.field, "byte": f.part, "region": region,
						"real_files": realFiles, "original": ev.FullHex(orig), "stack": stack, "open_error": fmt.Sprint(openErr), "getter_error": fmt.Sprint(getErr)}
				}
				rejected := false
				switch {
				case site != "":
					r.Violation(fmt.Sprintf("v2 byte-changed key ring: read panics at %s (field=%s byte=%s)", site, f.field, f.part), detail())
				case openErr == nil:
					class := "same-content"
					if getErr != nil != (refErr != nil) || !bytes.Equal(cur, refCur) {
						class = "different-content"
					}
					r.Violation(fmt.Sprintf("v2 key ring accepted after a single-byte change: field=%s byte=%s change=%s result=%s", f.field, f.part, dir, class), detail())
				case checkGetter && getErr == nil:
					r.Violation(fmt.Sprintf("v2 getter succeeds on a byte-changed key ring: field=%s byte=%s change=%s kind=%s", f.field, f.part, dir, s.kind), detail())
				default:
					rejected = true
					r.Count("c_byte_values_rejected_v2", 1)
				}
				if off == sigLenOff {
					r.Count("c_byte_values_checked_v2_signature_value_length_byte", 1)
					res := "ACCEPTED"
					if rejected {
						sigLenRejected++
						res = "rejected"
					}
					if len(sigLenTried) < 24 {
						sigLenTried = append(sigLenTried, fmt.Sprintf("0x%02x:%s", bv.v, res))
					}
				}
			}
			r.Distinct(fmt.Sprintf("%s|c-bytes|%s|%s|%s", cfg.name, s.kind, shortField(f.field), f.part))
		}
		tb.path = ""
		if realFiles {
			os.WriteFile(filepath.Join(g.dir, file), orig, 0o600)
		}
		// the ring must read as before once the stored bytes are back
		if _, err := opener.OpenKeyRing(s.path); err != nil {
			r.Inconclusive(fmt.Sprintf("tamper v2 byte values: ring %s does not open after the sweep: %v", s.path, err))
		}
		if si < 2 {
			r.SampleN(fmt.Sprintf("c-bytes/%s/%v", cfg.name, realFiles), 2, map[string]interface{}{"oracle": "c (byte values)", "config": cfg.name, "real_files": realFiles, "ring": s.path + ".keyring",
				"file_len": len(orig), "tier_values": map[bool]string{false: "value-1, value+1, value/2, 0x10..0x1f for 0x20, 0, 0x7f, 0x80, 0x81, 0xff", true: "all 255 other values"}[allValues],
				"bytes_per_der_field":         fieldBytes,
				"signature_value_length_byte": map[string]interface{}{"offset": sigLenOff, "original": "0x20", "first_values_tried": sigLenTried, "rejected": sigLenRejected}})
		}
	}
}

// tamperStorage presents one file with altered content.
type tamperStorage struct {
	filesystem.Storage
	path string
	data []byte
}

func (t *tamperStorage) ReadFile(path string) ([]byte, error) {
	if t.path != "" && filepath.Clean(path) == t.path {
		return append([]byte{}, t.data...), nil
	}
	return t.Storage.ReadFile(path)
}

func runTamperV1(r *ev.Run, cfg config) {
	g := newRig(cfg, "")
	defer g.destroy()
	ks, err := g.open(cfg.cache)
	if err == nil {
		err = populate(ks, 2)
	}
	if err != nil {
		r.Inconclusive("tamper v1: cannot populate: " + err.Error())
		return
	}
	ts := &tamperStorage{Storage: &filesystem.DummyStorage{}}
	fresh, err := ksrig.V1WithStorage(g.dir, g.master, -1, ts)
	if err != nil {
		r.Inconclusive("tamper v1: " + err.Error())
		return
	}
	for _, s := range v1Slots(g.dir, owners()) {
		if s.rotated && !s.kind.HasGetAll() {
			continue
		}
		orig, err := os.ReadFile(s.path)
		if err != nil {
			continue
		}
		load := func() (err error) {
			if s.rotated {
				_, err = ksrig.ModelAll(fresh, s.kind, s.id)
			} else {
				_, _, err = ksrig.ModelCurrent(fresh, s.kind, s.id)
			}
			return
		}
		ts.path = ""
		if err := load(); err != nil {
			r.Inconclusive(fmt.Sprintf("tamper v1: untouched %s does not load: %v", s.role(), err))
			continue
		}
		r.SetAdd("c_v1_files_enumerated", s.role()+"|"+s.owner)
		for off := range orig {
			for _, bit := range bitsFor(r, off) {
				ts.data = append(ts.data[:0], orig...)
				ts.data[off] ^= 1 << bit
				ts.path = filepath.Clean(s.path)
				var lerr error
				site, stack := guard(func() { lerr = load() })
				r.Case()
				r.Count("c_flips_checked_v1", 1)
				r.Distinct(fmt.Sprintf("%s|c|%s", cfg.name, s.role()))
				detail := map[string]interface{}{"config": cfg.name, "seed": r.Seed, "file": s.path, "offset": off, "bit": bit, "file_len": len(orig), "original": ev.FullHex(orig), "stack": stack}
				switch {
				case site != "":
					r.Violation(fmt.Sprintf("v1 flipped key file: load panics at %s (%s)", site, s.role()), detail)
				case lerr == nil:
					r.Violation(fmt.Sprintf("v1 key file accepted after a single-bit flip: %s", s.role()), detail)
				default:
					r.Count("c_flips_rejected_v1", 1)
				}
			}
		}
		ts.path = ""
	}
	r.SampleN("c/v1", 1, map[string]interface{}{"oracle": "c", "config": cfg.name, "example": "alice_storage_sym: each byte flipped, GetClientIDSymmetricKey on a cache-less handle"})
}

func runTamper(r *ev.Run) {
	runTamperV2(r, configs[3], false)
	runTamperV2(r, configs[4], r.Thorough())
	runTamperV1(r, configs[0])
	if r.Thorough() {
		// a second, independently populated pair of stores
		runTamperV2(r, configs[3], false)
		runTamperV1(r, configs[0])
	}
	r.RequireSetAtLeast("c_rings_enumerated", 18)
	r.RequireSetAtLeast("c_byte_value_rings_enumerated", 18)
	r.RequireSetAtLeast("c_v1_files_enumerated", 10)
}
