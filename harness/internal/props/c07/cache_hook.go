//go:build verif_hook_ks_cache

package c07

// Key-cache part of oracle (a): "no private or symmetric key ever reaches ... the key cache ... in clear".
// Needs the add-only hook /verif/fixes/hook-ks-cache.diff (keystore/filesystem/verif_hooks.go, build tag verif):
// (*filesystem.KeyStore).VerifWrapCache lets the harness put a recorder around the store's own cache object.
// Every Add is copied into the rig's call log as op "cache.Add" (Path = cache key, Data = value) and scanned
// like a storage write by secrets.go. Not installed for cache-less stores: their NoCache discards whatever it is
// given, nothing "reaches" a cache there.

import (
	"github.com/cossacklabs/acra/keystore"
	"github.com/cossacklabs/acra/keystore/filesystem"

	"verif/harness/internal/rig/ksrig"
)

type recCache struct {
	inner  keystore.Cache
	log    *ksrig.RecLog
	handle string
}

func (c *recCache) Add(keyID string, keyValue []byte) {
	c.log.RecAppend(ksrig.RecCall{Handle: c.handle, Op: "cache.Add", Path: keyID, Data: append([]byte{}, keyValue...)})
	c.inner.Add(keyID, keyValue)
}

func (c *recCache) Get(keyID string) ([]byte, bool) {
	v, ok := c.inner.Get(keyID)
	c.log.RecAppend(ksrig.RecCall{Handle: c.handle, Op: "cache.Get", Path: keyID, Out: append([]byte{}, v...)})
	return v, ok
}

func (c *recCache) Clear() {
	c.log.RecAppend(ksrig.RecCall{Handle: c.handle, Op: "cache.Clear"})
	c.inner.Clear()
}

func init() {
	wrapV1Cache = func(ks interface{}, log *ksrig.RecLog, handle string) {
		if v1, ok := ks.(*filesystem.KeyStore); ok {
			v1.VerifWrapCache(func(inner keystore.Cache) keystore.Cache {
				return &recCache{inner: inner, log: log, handle: handle}
			})
		}
	}
}
