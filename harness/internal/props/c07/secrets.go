package c07

// Oracle (a) "no private or symmetric key ever reaches keystore storage, the key cache or an export bundle in
// clear" and oracle (e) "0600/0700 permission discipline".

import (
	"bytes"
	"encoding/base64"
	"encoding/hex"
	"fmt"
	"os"
	"path/filepath"
	"strings"
	"sync"

	"github.com/cossacklabs/acra/keystore"
	"github.com/cossacklabs/acra/keystore/filesystem"
	keystoreV2 "github.com/cossacklabs/acra/keystore/v2/keystore"
	"github.com/cossacklabs/themis/gothemis/keys"

	"verif/harness/internal/ev"
	"verif/harness/internal/gen"
	"verif/harness/internal/rig/ksrig"
)

const window = 16

// secretSet is the set of secret key values the harness learned (through public getters, or supplied itself).
type secretSet struct {
	win   map[string]int // every 16-byte window of every secret core -> index into names
	names []string
	kinds []string
	seen  map[string]bool
	pubs  map[string]bool // 16-byte windows of public keys (positive control only)
}

func newSecretSet() *secretSet {
	return &secretSet{win: map[string]int{}, seen: map[string]bool{}, pubs: map[string]bool{}}
}

// core strips the public container header of an EC private key (tag, size, crc: 12 bytes); the remaining
// bytes are the secret scalar. Symmetric keys are secret as a whole.
func core(v []byte) []byte {
	if len(v) == 45 && bytes.HasPrefix(v, []byte("REC2")) {
		return v[12:]
	}
	return v
}

func (s *secretSet) add(kind, name string, v []byte) {
	c := core(v)
	if len(c) < window || s.seen[string(c)] {
		return
	}
	s.seen[string(c)] = true
	idx := len(s.names)
	s.names = append(s.names, name)
	s.kinds = append(s.kinds, kind)
	for i := 0; i+window <= len(c); i++ {
		s.win[string(c[i:i+window])] = idx
	}
}

func (s *secretSet) addPublic(v []byte) {
	if len(v) == 45 {
		v = v[12:]
	}
	for i := 0; i+window <= len(v); i++ {
		s.pubs[string(v[i:i+window])] = true
	}
}

type hit struct {
	secret   int
	encoding string
	offset   int
}

func (s *secretSet) scanRaw(b []byte) (int, int) {
	for i := 0; i+window <= len(b); i++ {
		if idx, ok := s.win[string(b[i:i+window])]; ok {
			return idx, i
		}
	}
	return -1, 0
}

func (s *secretSet) hasPublic(b []byte) bool {
	for i := 0; i+window <= len(b); i++ {
		if s.pubs[string(b[i:i+window])] {
			return true
		}
	}
	return false
}

func isHex(c byte) bool {
	return c >= '0' && c <= '9' || c >= 'a' && c <= 'f' || c >= 'A' && c <= 'F'
}

func isB64(c byte) bool {
	return c >= '0' && c <= '9' || c >= 'a' && c <= 'z' || c >= 'A' && c <= 'Z' || c == '+' || c == '/' || c == '-' || c == '_'
}

func runs(b []byte, ok func(byte) bool, minLen int) [][2]int {
	var out [][2]int
	start := -1
	for i := 0; i <= len(b); i++ {
		if i < len(b) && ok(b[i]) {
			if start < 0 {
				start = i
			}
			continue
		}
		if start >= 0 && i-start >= minLen {
			out = append(out, [2]int{start, i})
		}
		start = -1
	}
	return out
}

// scan looks for any 16-byte window of any known secret in b: as is, inside hex text, inside base64 text.
func (s *secretSet) scan(b []byte) *hit {
	if idx, off := s.scanRaw(b); idx >= 0 {
		return &hit{idx, "raw", off}
	}
	for _, rn := range runs(b, isHex, 2*window) {
		for phase := 0; phase < 2; phase++ {
			t := b[rn[0]+phase : rn[1]]
			t = t[:len(t)&^1]
			d := make([]byte, len(t)/2)
			if _, err := hex.Decode(d, t); err == nil {
				if idx, _ := s.scanRaw(d); idx >= 0 {
					return &hit{idx, "hex", rn[0] + phase}
				}
			}
		}
	}
	for _, rn := range runs(b, isB64, 22) {
		for phase := 0; phase < 4; phase++ {
			if rn[0]+phase >= rn[1] {
				break
			}
			t := append([]byte{}, b[rn[0]+phase:rn[1]]...)
			for i := range t {
				switch t[i] {
				case '-':
					t[i] = '+'
				case '_':
					t[i] = '/'
				}
			}
			t = t[:len(t)&^3]
			d := make([]byte, base64.RawStdEncoding.DecodedLen(len(t)))
			if n, err := base64.RawStdEncoding.Decode(d, t); err == nil {
				if idx, _ := s.scanRaw(d[:n]); idx >= 0 {
					return &hit{idx, "base64", rn[0] + phase}
				}
			}
		}
	}
	return nil
}

func scannerSelfTest() bool {
	s := newSecretSet()
	k := ksrig.RandBytes(32)
	kp, err := keys.New(keys.TypeEC)
	if err != nil {
		return false
	}
	s.add("t", "sym", k)
	s.add("t", "priv", kp.Private.Value)
	pad := func(b []byte) []byte { return gen.Cat(ksrig.RandBytes(37), b, ksrig.RandBytes(11)) }
	for _, v := range [][]byte{k, kp.Private.Value} {
		c := core(v)
		forms := [][]byte{
			pad(c[7:29]),
			pad([]byte(hex.EncodeToString(c))), pad([]byte("x" + strings.ToUpper(hex.EncodeToString(c[3:])))),
			pad([]byte(base64.StdEncoding.EncodeToString(gen.Cat([]byte("ab"), c)))),
			pad([]byte(base64.URLEncoding.EncodeToString(gen.Cat([]byte("a"), c)))),
			pad([]byte(base64.RawStdEncoding.EncodeToString(c))),
		}
		for _, f := range forms {
			if s.scan(f) == nil {
				return false
			}
		}
	}
	// and it must stay silent on the encrypted form and on unrelated bytes
	if s.scan(ksrig.RandBytes(4096)) != nil || s.scan(kp.Public.Value) != nil {
		return false
	}
	return true
}

// ---------------------------------------------------------------------------------------------

type secretsRun struct {
	r   *ev.Run
	g   *rig
	H   ksrig.FullKeyStore
	set *secretSet
	// bundles produced by exports during the history
	bundles []struct {
		via  string
		data []byte
	}
	trace []string
	nGen  map[string]int
	pfx   string // counter prefix
}

func (sr *secretsRun) learn(k ksrig.ModelKind, id []byte) {
	name := fmt.Sprintf("%s/%s", k, id)
	site, _ := guard(func() {
		if cur, pub, err := ksrig.ModelCurrent(sr.H, k, id); err == nil {
			sr.set.add(k.String(), name, cur)
			if len(pub) > 0 {
				sr.set.addPublic(pub)
			}
		}
		if k.HasGetAll() {
			if all, err := ksrig.ModelAll(sr.H, k, id); err == nil {
				for _, v := range all {
					sr.set.add(k.String(), name, v)
				}
			}
		}
		if k.IsPair() {
			if pub, err := ksrig.ModelCurrentPublic(sr.H, k, id); err == nil && len(pub) > 0 {
				sr.set.addPublic(pub)
			}
		}
	})
	_ = site
}

func (sr *secretsRun) export(rng *gen.Rand) {
	g := sr.g
	add := func(via string, b *keystore.KeysBackup, err error) {
		if err != nil || b == nil {
			sr.r.Count(sr.pfx+"export_errors(not decided here)", 1)
			sr.r.SetAdd(sr.pfx+"export_error_texts", via+": "+fmt.Sprint(err))
			if os.Getenv("C07_DEBUG") != "" {
				fmt.Println("EXPORT-ERR", via, err)
			}
			return
		}
		sr.bundles = append(sr.bundles, struct {
			via  string
			data []byte
		}{via, append([]byte{}, b.Data...)})
	}
	// ask only for keys that exist: client keys of every client that has them, poison keys if generated
	var ids, idsV1 []keystore.ExportID
	has := func(k ksrig.ModelKind, id []byte) bool { return sr.nGen[fmt.Sprintf("%s/%s", k, id)] > 0 }
	for _, id := range clientIDs {
		if has(ksrig.ModelStoragePair, id) {
			ids = append(ids, keystore.ExportID{KeyKind: keystore.KeyStoragePrivate, ContextID: id})
		}
		if has(ksrig.ModelStorageSym, id) {
			ids = append(ids, keystore.ExportID{KeyKind: keystore.KeySymmetric, ContextID: id})
		}
		if has(ksrig.ModelSearchHMAC, id) {
			ids = append(ids, keystore.ExportID{KeyKind: keystore.KeySearch, ContextID: id})
		}
	}
	anyID := clientIDs[0]
	if has(ksrig.ModelPoisonPair, anyID) || has(ksrig.ModelPoisonPair, clientIDs[1]) || has(ksrig.ModelPoisonPair, clientIDs[2]) {
		ids = append(ids, keystore.ExportID{KeyKind: keystore.KeyPoisonPrivate})
	}
	idsV1 = append(idsV1, ids...) // v1 accepts exactly these kinds in an id list
	if has(ksrig.ModelPoisonSym, anyID) || has(ksrig.ModelPoisonSym, clientIDs[1]) || has(ksrig.ModelPoisonSym, clientIDs[2]) {
		ids = append(ids, keystore.ExportID{KeyKind: keystore.KeyPoisonSymmetric})
	}
	byIDs := rng.Intn(2) == 0
	site, _ := guard(func() {
		if !g.cfg.v2 {
			enc, err := keystore.NewSCellKeyEncryptor(g.master)
			if err != nil {
				return
			}
			var st filesystem.Storage = &filesystem.DummyStorage{}
			if g.redis != nil {
				if st, err = g.redis.v1Storage(); err != nil {
					return
				}
			}
			bk, err := filesystem.NewKeyBackuper(g.dir, "", st, enc, sr.H)
			if err != nil {
				return
			}
			if byIDs {
				if len(idsV1) == 0 {
					return
				}
				b, err := bk.Export(idsV1, keystore.ExportPrivateKeys)
				add("v1.KeyBackuper.Export(ids)", b, err)
			} else {
				b, err := bk.Export(nil, keystore.ExportAllKeys)
				add("v1.KeyBackuper.Export(all)", b, err)
			}
			return
		}
		ks2, ok := sr.H.(*keystoreV2.ServerKeyStore)
		if !ok {
			return
		}
		bk, err := keystoreV2.NewKeyBackuper(g.dir, "", ks2)
		if err != nil {
			return
		}
		if byIDs {
			if len(ids) == 0 {
				return
			}
			b, err := bk.Export(ids, keystore.ExportPrivateKeys)
			add("v2.KeyBackuper.Export(ids)", b, err)
		} else {
			b, err := bk.Export(nil, keystore.ExportAllKeys)
			add("v2.KeyBackuper.Export(all)", b, err)
		}
	})
	if site != "" {
		sr.r.Count(sr.pfx+"export_panics(not decided here)", 1)
	}
}

func runSecretsHistory(r *ev.Run, idx int) {
	cfg := configs[idx%len(configs)]
	runSecretsHistoryOn(r, idx, cfg, newRig(cfg, ""), "a_", "", nil)
}

// runSecretsHistoryOn is one history of oracle (a) on the given rig. pfx is the counter prefix ("a_", the Redis layer:
// "ra_"), sigPfx the signature prefix ("" / "redis "); after, if set, runs once the history and its scan are over (the
// Redis layer looks at the server's command log and dataset there).
func runSecretsHistoryOn(r *ev.Run, idx int, cfg config, g *rig, pfx, sigPfx string, after func(sr *secretsRun)) {
	rng := gen.New(r.Seed, fmt.Sprintf("c07/secrets/%s%d", sigPfx, idx))
	defer g.destroy()
	H, err := g.open(cfg.cache)
	if err != nil {
		r.Inconclusive(fmt.Sprintf("secrets history %d: open: %v", idx, err))
		return
	}
	sr := &secretsRun{r: r, g: g, H: H, set: newSecretSet(), nGen: map[string]int{}, pfx: pfx}
	n := 8 + rng.Intn(25)
	for step := 0; step < n; step++ {
		k := ksrig.ModelKinds[rng.Intn(len(ksrig.ModelKinds))]
		id := clientIDs[rng.Intn(len(clientIDs))]
		x := rng.Intn(100)
		key := fmt.Sprintf("%s/%s", k, id)
		switch {
		case x < 45 || sr.nGen[key] == 0 && x < 70:
			site, _ := guard(func() { err = ksrig.ModelGenerate(sr.H, k, id) })
			sr.trace = append(sr.trace, fmt.Sprintf("generate %s err=%v panic=%s", key, err, site))
			sr.nGen[key]++
			sr.learn(k, id)
		case x < 50:
			kp, e := keys.New(keys.TypeEC)
			if e != nil {
				continue
			}
			sr.set.add(ksrig.ModelStoragePair.String(), "supplied/"+string(id), kp.Private.Value)
			sr.set.addPublic(kp.Public.Value)
			cp := &keys.Keypair{Private: &keys.PrivateKey{Value: append([]byte{}, kp.Private.Value...)}, Public: &keys.PublicKey{Value: append([]byte{}, kp.Public.Value...)}}
			site, _ := guard(func() { err = sr.H.SaveDataEncryptionKeys(id, cp) })
			sr.trace = append(sr.trace, fmt.Sprintf("save-supplied-pair %s err=%v panic=%s", id, err, site))
			sr.nGen[fmt.Sprintf("%s/%s", ksrig.ModelStoragePair, id)]++
		case x < 58:
			if k.HasDestroy() {
				sr.learn(k, id)
				guard(func() { err = ksrig.ModelDestroyCurrent(sr.H, k, id) })
				sr.trace = append(sr.trace, fmt.Sprintf("destroy-current %s err=%v", key, err))
			}
		case x < 64:
			if k.HasDestroy() {
				sr.learn(k, id)
				guard(func() { err = ksrig.ModelDestroyRotated(sr.H, k, id, 2) })
				sr.trace = append(sr.trace, fmt.Sprintf("destroy-rotated(2) %s err=%v", key, err))
			}
		case x < 78:
			sr.learn(k, id)
			sr.trace = append(sr.trace, "read "+key)
		case x < 83:
			sr.H.Reset()
			sr.trace = append(sr.trace, "reset-cache")
		case x < 88:
			if h, e := g.open(cfg.cache); e == nil {
				sr.H = h
				sr.trace = append(sr.trace, "reopen")
			}
		default:
			sr.export(rng)
			sr.trace = append(sr.trace, "export")
		}
	}
	// one export at the end so that every history contributes a bundle
	sr.export(rng)
	// everything that exists is read once more: the secrets of every key that can still be read are known
	for _, k := range ksrig.ModelKinds {
		for _, id := range clientIDs {
			if sr.nGen[fmt.Sprintf("%s/%s", k, id)] > 0 {
				sr.learn(k, id)
			}
		}
	}
	r.Count(pfx+"secrets_known", int64(len(sr.set.names)))
	r.Count(pfx+"histories", 1)
	r.SetAdd(pfx+"configs", cfg.name)

	report := func(sink string, via string, path string, blob []byte, h *hit) {
		kind := sr.set.kinds[h.secret]
		r.Violation(fmt.Sprintf("%s%s clear key material at rest: sink=%s key-kind=%s encoding=%s", sigPfx, cfg.fmtName(), sink, kind, h.encoding),
			map[string]interface{}{"config": cfg.name, "history": idx, "seed": r.Seed, "secret": sr.set.names[h.secret], "via": via, "path": path, "offset": h.offset,
				"blob": ev.FullHex(blob), "trace": sr.trace})
	}
	for _, c := range g.log.Calls() {
		switch {
		case c.RecIsWrite():
			r.Case()
			r.Count(pfx+"blobs_scanned_storage_writes", 1)
			r.Distinct(fmt.Sprintf("%s|a|storage.%s|%s", cfg.name, c.Op, fileRole(cfg, c.Path, c.Path2)))
			if h := sr.set.scan(c.Data); h != nil {
				report("storage."+c.Op, c.Op, c.Path+" "+c.Path2, c.Data, h)
			}
			if sr.set.hasPublic(c.Data) {
				r.Count(pfx+"public_keys_seen_in_written_blobs(positive control)", 1)
			}
		case c.Op == "ReadFile" || c.Op == "Get":
			if len(c.Out) == 0 {
				continue
			}
			r.Case()
			r.Count(pfx+"blobs_scanned_storage_reads", 1)
			if h := sr.set.scan(c.Out); h != nil {
				report("storage(read back)."+c.Op, c.Op, c.Path, c.Out, h)
			}
		case c.Op == "cache.Add":
			if len(c.Data) == 0 {
				continue
			}
			r.Case()
			r.Count(pfx+"blobs_scanned_cache_entries", 1)
			r.Distinct(fmt.Sprintf("%s|a|cache.Add|%s", cfg.name, cacheRole(c.Path)))
			if h := sr.set.scan(c.Data); h != nil {
				report("key-cache", "cache.Add", c.Path, c.Data, h)
			}
		}
	}
	for _, b := range sr.bundles {
		r.Case()
		r.Count(pfx+"blobs_scanned_export_bundles", 1)
		r.Distinct(fmt.Sprintf("%s|a|bundle|%s", cfg.name, b.via))
		if h := sr.set.scan(b.data); h != nil {
			report("export-bundle", b.via, "", b.data, h)
		}
	}
	// (e) permissions of everything this history created on the real filesystem
	if g.dir != "" && g.redis == nil {
		checkModes(r, cfg, g.dir, idx, sr.trace)
	}
	if after != nil {
		after(sr)
	}
	r.SampleN("a/"+cfg.name, 1, map[string]interface{}{"oracle": "a", "config": cfg.name, "history": idx, "steps": sr.trace,
		"secrets_known": len(sr.set.names), "storage_calls": g.log.Len(), "bundles": len(sr.bundles)})
}

func fileRole(cfg config, p, p2 string) string {
	if p2 != "" {
		p = p2
	}
	b := filepath.Base(p)
	switch {
	case cfg.v2:
		switch {
		case strings.HasSuffix(b, ".keyring.new"):
			return strings.TrimSuffix(b, ".keyring.new") + ".keyring.new"
		default:
			return b
		}
	case strings.Contains(p, ".old/"):
		return "rotated:" + roleOfV1Name(filepath.Base(filepath.Dir(p)))
	default:
		return roleOfV1Name(b)
	}
}

func roleOfV1Name(b string) string {
	b = strings.TrimSuffix(b, ".old")
	sufs := []string{"_storage_sym", "_storage.pub", "_storage", "_hmac", "poison_key_sym", "poison_key.pub", "poison_key", "secure_log_key"}
	for _, suf := range sufs {
		if strings.HasSuffix(b, suf) {
			return suf
		}
	}
	// temporary files are named <final name><random digits>
	t := strings.TrimRight(b, "0123456789")
	if t != b {
		for _, suf := range sufs {
			if strings.HasSuffix(t, suf) {
				return suf + "(temp)"
			}
		}
	}
	return "other"
}

func cacheRole(key string) string {
	if strings.HasPrefix(key, ".historical.") {
		return "historical-list"
	}
	if strings.Contains(key, ".old/") {
		return "rotated:" + roleOfV1Name(filepath.Base(filepath.Dir(key)))
	}
	return roleOfV1Name(filepath.Base(key))
}

// checkModes: "created key files are 0600 and directories 0700". Public key files of v1 (created 0644 by design)
// and the v2 bookkeeping files "version" / ".lock" are not key files.
func checkModes(r *ev.Run, cfg config, root string, idx int, trace []string) {
	filepath.Walk(root, func(p string, fi os.FileInfo, err error) error {
		if err != nil || fi == nil {
			return nil
		}
		rel, _ := filepath.Rel(root, p)
		mode := fi.Mode().Perm()
		if fi.IsDir() {
			r.Case()
			r.Count("e_dir_modes_checked", 1)
			cls := "root"
			if rel != "." {
				cls = "sub"
				if strings.HasSuffix(rel, ".old") {
					cls = "history-dir"
				}
			}
			r.Distinct(fmt.Sprintf("%s|e|dir|%s", cfg.name, cls))
			if mode != 0o700 {
				r.Violation(fmt.Sprintf("%s directory mode %04o (want 0700) class=%s", cfg.fmtName(), mode, cls),
					map[string]interface{}{"config": cfg.name, "history": idx, "seed": r.Seed, "path": rel, "trace": trace})
			}
			return nil
		}
		if !fi.Mode().IsRegular() {
			return nil
		}
		role := ""
		if cfg.v2 {
			if rel == "version" || rel == ".lock" {
				return nil
			}
			role = fileRole(cfg, rel, "")
			if strings.Contains(role, "/") {
				role = filepath.Base(role)
			}
		} else {
			role = fileRole(cfg, rel, "")
			if strings.Contains(role, ".pub") {
				r.Count("e_public_key_files_skipped", 1)
				return nil
			}
		}
		r.Case()
		r.Count("e_file_modes_checked", 1)
		r.Distinct(fmt.Sprintf("%s|e|file|%s", cfg.name, role))
		if mode != 0o600 {
			r.Violation(fmt.Sprintf("%s key file mode %04o (want 0600) role=%s", cfg.fmtName(), mode, role),
				map[string]interface{}{"config": cfg.name, "history": idx, "seed": r.Seed, "path": rel, "trace": trace})
		}
		return nil
	})
}

func runSecrets(r *ev.Run) {
	n := r.Pick(100, 2000)
	workers := r.Pick(4, 8)
	var wg sync.WaitGroup
	jobs := make(chan int)
	for w := 0; w < workers; w++ {
		wg.Add(1)
		go func() {
			defer wg.Done()
			for i := range jobs {
				runSecretsHistory(r, i)
			}
		}()
	}
	for i := 0; i < n; i++ {
		jobs <- i
	}
	close(jobs)
	wg.Wait()
	r.RequireSetAtLeast("a_configs", len(configs))
}
