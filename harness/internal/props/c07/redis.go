package c07

// Redis layer: the oracles of this monitor over the Redis-backed keystores — v1 filesystem.KeyStore over
// filesystem.RedisStorage, v2 ServerKeyStore over backend.RedisBackend — against the in-process stand-in server
// rig/fakeredis. Everything above the TCP connection is Acra's code (and go-redis v7).
//
//	ra  at rest      every argument of every command that reached the server (srv.Log) and every value of the final
//	                 dataset (srv.Snapshot), as is and base64-decoded, searched for the keys the history generated,
//	                 was given or rotated (plus the master keys); the recording wrappers above the Redis storage are
//	                 scanned by the shared code of secrets.go. Ordinary histories are also held to the confinement
//	                 clause: every mutating command names a key under the keystore prefix, foreign keys stay as they were.
//	rb  binding      stored values copied / renamed / swapped between identities, purposes and key rings directly in
//	                 the dataset (srv.Get/Put/Delete), also from a sibling keystore with other master keys; then read.
//	rc  tampering    stored values changed in place: bit flips of the stored bytes (re-encoded), and changes of the
//	                 base64 text itself (characters replaced / made invalid / deleted / inserted, truncation, padding,
//	                 raw bytes instead of base64); a change whose text still decodes to the identical bytes is not judged.
//	rd  confinement  hostile client ids / ring paths (those of confine.go plus glob characters, CR LF): every key written,
//	                 renamed or deleted lies under the configured prefix, pre-populated foreign keys (other
//	                 applications, a sibling keystore under <prefix>2, keys one level up, another database) are neither
//	                 changed nor read.
//
// All violation signatures of this file start with "redis ".

import (
	"bytes"
	"encoding/base64"
	"fmt"
	"os"
	"path/filepath"
	"sort"
	"strings"

	"github.com/cossacklabs/acra/keystore"
	"github.com/cossacklabs/acra/keystore/filesystem"

	"verif/harness/internal/ev"
	"verif/harness/internal/rig/fakeredis"
	"verif/harness/internal/rig/ksrig"
)

const (
	// the prefix sits four levels deep so that the hostile ids of confine.go ("../x", "../../../evil3", "../root2/k")
	// land on key names that exist as foreign keys
	redisRoot    = "l1/l2/l3/root"
	redisSibling = "l1/l2/l3/root2" // a sibling keystore whose prefix starts with the text of ours ("keys" vs "keys2")
	redisDB      = 2
)

var redisConfigs = []config{
	{name: "v1/redis/cache=off", cache: -1, redis: true},
	{name: "v1/redis/cache=unbounded", cache: 0, redis: true},
	{name: "v2/redis", v2: true, redis: true},
}

type redisLoc struct {
	srv    *fakeredis.Server
	db     int
	root   string
	shared bool // the server belongs to another rig
}

func (l *redisLoc) v1Storage() (filesystem.Storage, error) { return ksrig.V1RedisStorage(l.srv, l.db) }

func newRedisRig(cfg config, root string, srv *fakeredis.Server) *rig {
	g := &rig{cfg: cfg, log: ksrig.NewRecLog(), dir: root}
	g.redis = &redisLoc{srv: srv, db: redisDB, root: root, shared: srv != nil}
	if srv == nil {
		g.redis.srv = fakeredis.Start()
	}
	if cfg.v2 {
		g.v2keys = ksrig.NewV2Keys()
	} else {
		g.master = ksrig.RandBytes(32)
	}
	return g
}

func (g *rig) openRedis(cache int, handle string) (ksrig.FullKeyStore, error) {
	l := g.redis
	if !g.cfg.v2 {
		st, err := l.v1Storage()
		if err != nil {
			return nil, err
		}
		return ksrig.V1WithStorage(l.root, g.master, cache, ksrig.NewRecStorage(st, g.log, handle))
	}
	b, err := ksrig.V2RedisBackend(l.srv, l.db, l.root)
	if err != nil {
		return nil, err
	}
	rb := ksrig.NewRecBackend(b, g.log, handle)
	rb.GetHook = g.getHook
	ks, err := ksrig.V2OnBackend(rb, g.v2keys)
	if err != nil {
		b.Close()
		return nil, err
	}
	g.closers = append(g.closers, func() { ks.Close() })
	return ks, nil
}

func b64(s string) string { return base64.StdEncoding.EncodeToString([]byte(s)) }

// insidePrefix: Redis has no directories; a key belongs to the keystore iff its name literally starts with "<prefix>/".
// The key named exactly like the prefix is the keystore's own name too (RedisStorage.Stat / RemoveAll look at it).
func insidePrefix(root, key string) bool { return key == root || strings.HasPrefix(key, root+"/") }

// plantForeign writes keys that do not belong to the keystore under root: other applications, keys that look like
// keystore files one and more levels up, keys of sibling prefixes sharing the root's text, a key in another database,
// and fillers (so that SCAN needs several pages). Existing keys are left alone.
func plantForeign(srv *fakeredis.Server, db int, root string) int {
	parent := filepath.Dir(root)
	names := []string{
		"session:42", "app:cache:user:1", "l1/other-app/config", ".lock", "version", "lock", "alice_storage_sym", "client/alice/storage-sym.keyring",
		root + "2/version", root + "2/.lock", root + "2/alice_storage_sym", root + "2/alice_storage_sym.old/2020-01-01T00:00:00.000000", root + "2/client/alice/storage-sym.keyring", root + "2/k_storage",
		root + ".bak/k_storage", root + ".bak/k_storage_sym", root + "-old/deep/k_storage", root + "x_storage", root + "alice_storage",
		parent + "/alice_storage_sym", parent + "/alice_storage", parent + "/alice_hmac", parent + "/.lock", parent + "/version", parent + "/x_storage_sym.old/2020-01-01T00:00:00.000000",
		parent + "/client/alice/storage.keyring", parent + ".bak/k_hmac", filepath.Dir(parent) + "/evil_storage_sym",
	}
	for i := 0; i < 40; i++ {
		names = append(names, fmt.Sprintf("filler:%02d", i))
	}
	n := 0
	for _, k := range names {
		if _, ok := srv.Get(db, k); !ok {
			srv.Put(db, k, b64("FOREIGN-"+k))
			n++
		}
	}
	srv.Put(db+1, root+"/alice_storage_sym", b64("FOREIGN-other-database"))
	srv.Put(0, "other-database-key", b64("FOREIGN-db0"))
	return n + 2
}

// outsideView is everything in the dataset that does not belong to the keystore under root in database db.
func outsideView(d fakeredis.Data, db int, root string) map[string]string {
	out := map[string]string{}
	for n, m := range d.DBs {
		for k, v := range m {
			if n == db && insidePrefix(root, k) {
				continue
			}
			out[fmt.Sprintf("db%d:%s", n, k)] = v
		}
	}
	return out
}

func diffOutside(before, after map[string]string) []string {
	var out []string
	for k, v := range after {
		if old, ok := before[k]; !ok {
			out = append(out, "created "+fmt.Sprintf("%q", k))
		} else if old != v {
			out = append(out, "modified "+fmt.Sprintf("%q", k))
		}
	}
	for k := range before {
		if _, ok := after[k]; !ok {
			out = append(out, "removed "+fmt.Sprintf("%q", k))
		}
	}
	sort.Strings(out)
	return out
}

// cmdKeys returns the key-name arguments of a command.
func cmdKeys(c fakeredis.Cmd) []string {
	if len(c.Args) == 0 {
		return nil
	}
	switch c.Name {
	case "DEL", "UNLINK", "EXISTS", "MGET":
		return c.Args
	case "RENAME", "RENAMENX":
		if len(c.Args) >= 2 {
			return c.Args[:2]
		}
		return c.Args
	case "GET", "SET", "SETNX", "SETEX", "PSETEX", "STRLEN", "TTL", "PTTL", "EXPIRE", "PEXPIRE", "PERSIST", "TYPE":
		return c.Args[:1]
	}
	return nil
}

// keyNameClass names a key by what it looks like (for signatures: never the raw name).
func keyNameClass(cfg config, key string) string {
	b := filepath.Base(key)
	switch {
	case b == ".lock" || b == "version":
		return b
	case strings.HasSuffix(b, ".keyring") || strings.HasSuffix(b, ".keyring.new"):
		return "key-ring"
	}
	return fileRole(config{}, key, "")
}

type redisEffects struct {
	callsOutside []string // commands naming a key outside the prefix
	readsOutside []string // GET-like commands that returned the value of a key outside the prefix
	scans        []string
}

func redisCommandEffects(cmds []fakeredis.Cmd, db int, root string) redisEffects {
	var e redisEffects
	for _, c := range cmds {
		if c.Name == "SCAN" {
			e.scans = append(e.scans, strings.Join(c.Args, " "))
		}
		for _, k := range cmdKeys(c) {
			if c.DB == db && insidePrefix(root, k) {
				continue
			}
			e.callsOutside = append(e.callsOutside, fmt.Sprintf("%s %q -> %s", c.Name, k, c.Reply))
			if (c.Name == "GET" || c.Name == "MGET") && (c.Reply == "bulk" || strings.HasPrefix(c.Reply, "array")) {
				e.readsOutside = append(e.readsOutside, fmt.Sprintf("%s %q", c.Name, k))
			}
		}
	}
	return e
}

func redisUnknown(r *ev.Run, srv *fakeredis.Server, where string) {
	if n := srv.Unknown(); n > 0 {
		r.Inconclusive(fmt.Sprintf("fakeredis: unknown command (%d) during %s", n, where))
	}
}

// ---- ra: at rest ------------------------------------------------------------------------------------------------

func runRedisSecrets(r *ev.Run) {
	n := r.Pick(12, 150)
	for i := 0; i < n; i++ {
		cfg := redisConfigs[i%len(redisConfigs)]
		g := newRedisRig(cfg, redisRoot, nil)
		planted := plantForeign(g.redis.srv, redisDB, redisRoot)
		before := outsideView(g.redis.srv.Snapshot(), redisDB, redisRoot)
		runSecretsHistoryOn(r, 1000+i, cfg, g, "ra_", "redis ", func(sr *secretsRun) { redisAfterHistory(r, sr, before, planted) })
	}
}

// redisAfterHistory: the server's view of one history.
func redisAfterHistory(r *ev.Run, sr *secretsRun, before map[string]string, planted int) {
	g, cfg := sr.g, sr.g.cfg
	srv := g.redis.srv
	// the master keys are symmetric keys too: they must not reach the server either
	if cfg.v2 {
		sr.set.add("master-key", "v2 encryption master key", g.v2keys.Enc)
		sr.set.add("master-key", "v2 signature master key", g.v2keys.Sig)
	} else {
		sr.set.add("master-key", "v1 master key", g.master)
	}
	scan := func(s string) (*hit, bool) {
		blob := []byte(s)
		if h := sr.set.scan(blob); h != nil {
			return h, false
		}
		d, err := base64.StdEncoding.DecodeString(s)
		if err != nil || len(d) == 0 {
			return nil, false
		}
		r.Count("ra_redis_values_base64_decoded", 1)
		if h := sr.set.scan(d); h != nil {
			h.encoding = "base64(" + h.encoding + ")"
			return h, true
		}
		return nil, sr.set.hasPublic(d)
	}
	log := srv.Log()
	for _, c := range log {
		for ai, a := range c.Args {
			r.Case()
			r.Count("ra_redis_command_arguments_scanned", 1)
			arg := "value-or-option"
			if ai == 0 || (c.Name == "RENAME" || c.Name == "RENAMENX" || c.Name == "DEL" || c.Name == "EXISTS") {
				arg = "key-name"
			}
			r.Distinct(fmt.Sprintf("%s|ra|command|%s|%s", cfg.name, c.Name, arg))
			h, pub := scan(a)
			if pub && h == nil {
				r.Count("ra_public_keys_seen_in_command_arguments(positive control)", 1)
			}
			if h != nil {
				r.Violation(fmt.Sprintf("redis %s clear key material in a command sent to the server: command=%s argument=%s key-kind=%s encoding=%s", cfg.fmtName(), c.Name, arg, sr.set.kinds[h.secret], h.encoding),
					map[string]interface{}{"config": cfg.name, "seed": r.Seed, "secret": sr.set.names[h.secret], "command": c.Name, "key": fmt.Sprintf("%q", c.Args[0]), "argument_index": ai, "argument": ev.FullHex([]byte(a)), "trace": sr.trace})
			}
		}
		if c.Mutates {
			r.Case()
			r.Count("ra_redis_mutating_commands_checked_for_prefix", 1)
			for _, k := range cmdKeys(c) {
				if c.DB != redisDB || !insidePrefix(redisRoot, k) {
					r.Violation(fmt.Sprintf("redis %s ordinary keystore operations send %s for a key outside the keystore prefix: key=%s", cfg.fmtName(), c.Name, keyNameClass(cfg, k)),
						map[string]interface{}{"config": cfg.name, "seed": r.Seed, "command": c.Name, "key": fmt.Sprintf("%q", k), "db": c.DB, "prefix": redisRoot, "trace": sr.trace})
				}
			}
		}
	}
	snap := srv.Snapshot()
	for n, m := range snap.DBs {
		for k, v := range m {
			if n != redisDB || !insidePrefix(redisRoot, k) {
				continue
			}
			r.Case()
			r.Count("ra_redis_dataset_values_scanned", 1)
			r.Distinct(fmt.Sprintf("%s|ra|dataset|%s", cfg.name, keyNameClass(cfg, k)))
			h, pub := scan(v)
			if pub && h == nil {
				r.Count("ra_public_keys_seen_in_dataset_values(positive control)", 1)
			}
			if h != nil {
				r.Violation(fmt.Sprintf("redis %s clear key material in the dataset: key=%s key-kind=%s encoding=%s", cfg.fmtName(), keyNameClass(cfg, k), sr.set.kinds[h.secret], h.encoding),
					map[string]interface{}{"config": cfg.name, "seed": r.Seed, "secret": sr.set.names[h.secret], "key": fmt.Sprintf("%q", k), "value": ev.FullHex([]byte(v)), "trace": sr.trace})
			}
		}
	}
	r.Count("ra_foreign_keys_compared", int64(planted))
	if d := diffOutside(before, outsideView(snap, redisDB, redisRoot)); len(d) > 0 {
		r.Violation(fmt.Sprintf("redis %s ordinary keystore operations change keys outside the keystore prefix", cfg.fmtName()),
			map[string]interface{}{"config": cfg.name, "seed": r.Seed, "changes": d, "prefix": redisRoot, "trace": sr.trace})
	} else {
		r.Count("ra_histories_leaving_foreign_keys_alone", 1)
	}
	redisUnknown(r, srv, "a history")
	r.SampleN("ra/"+cfg.name, 1, map[string]interface{}{"oracle": "ra (at rest, Redis)", "config": cfg.name, "steps": sr.trace, "commands": len(log), "dataset_keys_under_prefix": len(snap.DBs[redisDB]) - planted + 2,
		"secrets_known": len(sr.set.names), "foreign_keys": planted})
}

// ---- shared by rb / rc --------------------------------------------------------------------------------------------

type rslot struct {
	slot
	key string // Redis key name
}

func redisV1Slots(srv *fakeredis.Server, root string, own []owner, ownerTag string) []rslot {
	var out []rslot
	all := srv.Keys(redisDB)
	for _, o := range own {
		for _, k := range ksrig.ModelKinds {
			if k.PerClient() != (o.id != nil) {
				continue
			}
			cur := filepath.Join(root, ksrig.ModelV1FileName(k, o.id))
			if _, ok := srv.Get(redisDB, cur); ok {
				out = append(out, rslot{slot{o.name + ownerTag, k, o.id, cur, false}, cur})
			}
			for _, key := range all {
				if strings.HasPrefix(key, cur+".old/") {
					out = append(out, rslot{slot{o.name + ownerTag, k, o.id, key, true}, key})
				}
			}
		}
	}
	return out
}

func redisV2Slots(root string, own []owner) []rslot {
	var out []rslot
	for _, s := range v2Slots(own) {
		out = append(out, rslot{s, root + "/" + s.path + ".keyring"})
	}
	return out
}

// readV1 loads the key a v1 slot holds: the current-key getter, or the all-keys getter for a rotated file.
func readV1(ks ksrig.FullKeyStore, s rslot) (got [][]byte, err error, site, stack string) {
	site, stack = guard(func() {
		if s.rotated {
			got, err = ksrig.ModelAll(ks, s.kind, s.id)
		} else {
			var v []byte
			v, _, err = ksrig.ModelCurrent(ks, s.kind, s.id)
			got = [][]byte{v}
		}
	})
	return
}

func (s rslot) readable() bool { return !s.rotated || s.kind.HasGetAll() }

// readV2 opens the ring and asks the getter; both must fail for a rejected ring.
func readV2(ks ksrig.FullKeyStore, s rslot) (got []byte, openErr, getErr error, site, stack string) {
	site, stack = guard(func() {
		_, openErr = ks.(ringOpener).OpenKeyRing(s.path)
		got, _, getErr = ksrig.ModelCurrent(ks, s.kind, s.id)
	})
	return
}

// ---- rb: owner binding --------------------------------------------------------------------------------------------

var redisMoves = []string{"copy", "rename", "swap"}

func runRedisBindingV1(r *ev.Run, own []owner, near string) {
	cfg := redisConfigs[0]
	g := newRedisRig(cfg, redisRoot, nil)
	defer g.destroy()
	srv := g.redis.srv
	ks, err := g.open(-1)
	if err == nil {
		err = populateOwners(ks, 2, own)
	}
	if err != nil {
		r.Inconclusive("redis binding v1: cannot populate: " + err.Error())
		return
	}
	slots := redisV1Slots(srv, redisRoot, own, "")
	if near != "" && len(slots) < 12 {
		r.Inconclusive(fmt.Sprintf("redis binding v1: ids %q / %q gave only %d stored keys", own[0].id, own[1].id, len(slots)))
		return
	}
	val := map[string]string{}
	for _, s := range slots {
		val[s.key], _ = srv.Get(redisDB, s.key)
	}
	rd, err := g.open(-1) // no cache: every read goes to the server
	if err != nil {
		r.Inconclusive("redis binding v1: " + err.Error())
		return
	}
	for _, s := range slots {
		if s.readable() {
			if _, err, _, _ := readV1(rd, s); err != nil {
				r.Inconclusive(fmt.Sprintf("redis binding v1: untouched %s does not load: %v", s.role(), err))
				return
			}
		}
	}
	judge := func(how string, src, dst rslot, rel string, got [][]byte, lerr error, site, stack string) {
		r.Case()
		r.Count("rb_relocations_checked_v1", 1)
		r.Count("rb_relocations_checked_v1_how="+how, 1)
		if near != "" {
			r.Count("rb_relocations_checked_v1_near_identical_ids", 1)
			r.SetAdd("rb_near_identical_id_pairs_v1", near)
		}
		r.Distinct(fmt.Sprintf("%s|rb|%s|%s->%s|%s%s", cfg.name, how, src.role(), dst.role(), rel, nearTag(near)))
		detail := map[string]interface{}{"config": cfg.name, "seed": r.Seed, "how": how, "src_key": src.key, "dst_key": dst.key, "src_id": string(src.id), "dst_id": string(dst.id), "relation": rel, "stack": stack, "returned": hexAll(got)}
		switch {
		case site != "":
			r.Violation(fmt.Sprintf("redis v1 relocated key value: load panics at %s (how=%s src=%s dst=%s %s)%s", site, how, src.role(), dst.role(), rel, nearTag(near)), detail)
		case lerr == nil:
			r.Violation(fmt.Sprintf("redis v1 relocated key value loads under another owner: how=%s src=%s dst=%s relation=%s%s", how, src.role(), dst.role(), rel, nearTag(near)), detail)
		default:
			r.Count("rb_relocations_rejected_v1", 1)
		}
	}
	for _, src := range slots {
		for _, dst := range slots {
			if src.key == dst.key {
				continue
			}
			if src.owner == dst.owner {
				r.Count("rb_v1_same_owner_pairs_not_demanded", 1)
				continue
			}
			if !dst.readable() {
				continue
			}
			rel := relation(src.slot, dst.slot)
			for _, how := range redisMoves {
				switch how {
				case "copy":
					srv.Put(redisDB, dst.key, val[src.key])
				case "rename":
					srv.Delete(redisDB, src.key)
					srv.Put(redisDB, dst.key, val[src.key])
				case "swap":
					srv.Put(redisDB, dst.key, val[src.key])
					srv.Put(redisDB, src.key, val[dst.key])
				}
				got, lerr, site, stack := readV1(rd, dst)
				judge(how, src, dst, rel, got, lerr, site, stack)
				if how == "swap" && src.readable() {
					got, lerr, site, stack = readV1(rd, src)
					judge("swap(other side)", dst, src, relation(dst.slot, src.slot), got, lerr, site, stack)
				}
				srv.Put(redisDB, dst.key, val[dst.key])
				srv.Put(redisDB, src.key, val[src.key])
			}
		}
	}
	if near == "" {
		// the same identities in a sibling keystore (other master key) of the same server: its values moved over ours
		g2 := newRedisRig(cfg, redisSibling, srv)
		ks2, err := g2.open(-1)
		if err == nil {
			err = populateOwners(ks2, 2, own)
		}
		if err != nil {
			r.Inconclusive("redis binding v1: sibling keystore: " + err.Error())
			return
		}
		for _, src := range redisV1Slots(srv, redisSibling, own, "(sibling keystore)") {
			for _, dst := range slots {
				if dst.rotated || src.rotated || src.kind != dst.kind || string(src.id) != string(dst.id) {
					continue
				}
				v, _ := srv.Get(redisDB, src.key)
				srv.Put(redisDB, dst.key, v)
				got, lerr, site, stack := readV1(rd, dst)
				judge("copy", src, dst, "same-identity-in-a-keystore-with-another-master-key", got, lerr, site, stack)
				r.Count("rb_relocations_from_sibling_keystore", 1)
				srv.Put(redisDB, dst.key, val[dst.key])
			}
		}
	}
	for _, s := range slots {
		if s.readable() {
			if _, err, _, _ := readV1(rd, s); err != nil {
				r.Inconclusive(fmt.Sprintf("redis binding v1: restored %s does not load: %v", s.role(), err))
			}
		}
	}
	redisUnknown(r, srv, "binding v1")
	r.SampleN("rb/v1"+nearTag(near), 1, map[string]interface{}{"oracle": "rb (binding, Redis)", "config": cfg.name, "stored_keys": len(slots), "ids_differ_by": near,
		"example": fmt.Sprintf("value of %q written over %q in the dataset (copy / rename / swap), then the getter of the destination's owner on a cache-less handle", slots[0].key, slots[len(slots)-1].key)})
}

func runRedisBindingV2(r *ev.Run, own []owner, near string) {
	cfg := redisConfigs[2]
	g := newRedisRig(cfg, redisRoot, nil)
	defer g.destroy()
	srv := g.redis.srv
	ks, err := g.open(0)
	if err == nil {
		err = populateOwners(ks, 2, own)
	}
	if err != nil {
		r.Inconclusive("redis binding v2: cannot populate: " + err.Error())
		return
	}
	slots := redisV2Slots(redisRoot, own)
	val := map[string]string{}
	for _, s := range slots {
		v, ok := srv.Get(redisDB, s.key)
		if !ok {
			r.Inconclusive("redis binding v2: no stored value for " + s.key)
			return
		}
		val[s.key] = v
	}
	judge := func(how string, src, dst rslot, rel string) {
		fresh, err := g.open(0)
		if err != nil {
			r.Inconclusive("redis binding v2: " + err.Error())
			return
		}
		got, openErr, getErr, site, stack := readV2(fresh, dst)
		g.close()
		r.Case()
		r.Count("rb_relocations_checked_v2", 1)
		r.Count("rb_relocations_checked_v2_how="+how, 1)
		if near != "" {
			r.Count("rb_relocations_checked_v2_near_identical_ids", 1)
			r.SetAdd("rb_near_identical_id_pairs_v2", near)
		}
		r.Distinct(fmt.Sprintf("%s|rb|%s|%s->%s|%s%s", cfg.name, how, src.kind, dst.kind, rel, nearTag(near)))
		detail := map[string]interface{}{"config": cfg.name, "seed": r.Seed, "how": how, "src_key": src.key, "dst_key": dst.key, "relation": rel, "stack": stack, "returned": ev.Hex(got), "open_error": fmt.Sprint(openErr), "getter_error": fmt.Sprint(getErr)}
		switch {
		case site != "":
			r.Violation(fmt.Sprintf("redis v2 relocated key ring: load panics at %s (how=%s relation=%s)%s", site, how, rel, nearTag(near)), detail)
		case openErr == nil || getErr == nil:
			r.Violation(fmt.Sprintf("redis v2 relocated key ring loads under another path: how=%s relation=%s%s", how, rel, nearTag(near)), detail)
		default:
			r.Count("rb_relocations_rejected_v2", 1)
		}
	}
	g.close()
	for _, src := range slots {
		for _, dst := range slots {
			if src.key == dst.key {
				continue
			}
			rel := relation(src.slot, dst.slot)
			for _, how := range redisMoves {
				switch how {
				case "copy":
					srv.Put(redisDB, dst.key, val[src.key])
				case "rename":
					srv.Delete(redisDB, src.key)
					srv.Put(redisDB, dst.key, val[src.key])
				case "swap":
					srv.Put(redisDB, dst.key, val[src.key])
					srv.Put(redisDB, src.key, val[dst.key])
				}
				judge(how, src, dst, rel)
				if how == "swap" {
					judge("swap(other side)", dst, src, relation(dst.slot, src.slot))
				}
				srv.Put(redisDB, dst.key, val[dst.key])
				srv.Put(redisDB, src.key, val[src.key])
			}
		}
	}
	if near == "" {
		g2 := newRedisRig(cfg, redisSibling, srv)
		ks2, err := g2.open(0)
		if err == nil {
			err = populateOwners(ks2, 2, own)
		}
		g2.close()
		if err != nil {
			r.Inconclusive("redis binding v2: sibling keystore: " + err.Error())
			return
		}
		for _, src := range redisV2Slots(redisSibling, own) {
			for _, dst := range slots {
				if src.path != dst.path {
					continue
				}
				v, ok := srv.Get(redisDB, src.key)
				if !ok {
					r.Inconclusive("redis binding v2: sibling keystore has no " + src.key)
					continue
				}
				srv.Put(redisDB, dst.key, v)
				src.owner += "(sibling keystore)"
				judge("copy", src, dst, "same-path-in-a-keystore-with-other-master-keys")
				r.Count("rb_relocations_from_sibling_keystore", 1)
				srv.Put(redisDB, dst.key, val[dst.key])
			}
		}
	}
	fresh, err := g.open(0)
	if err == nil {
		for _, s := range slots {
			if _, err := fresh.(ringOpener).OpenKeyRing(s.path); err != nil {
				r.Inconclusive(fmt.Sprintf("redis binding v2: untouched ring %s does not load: %v", s.path, err))
			}
		}
	}
	g.close()
	redisUnknown(r, srv, "binding v2")
	r.SampleN("rb/v2"+nearTag(near), 1, map[string]interface{}{"oracle": "rb (binding, Redis)", "config": cfg.name, "rings": len(slots), "ids_differ_by": near,
		"example": fmt.Sprintf("value of %q written over %q in the dataset (copy / rename / swap), then OpenKeyRing + getter on a fresh handle", slots[0].key, slots[len(slots)-1].key)})
}

func runRedisBinding(r *ev.Run) {
	runRedisBindingV1(r, owners(), "")
	runRedisBindingV2(r, owners(), "")
	for _, p := range nearPairs {
		runRedisBindingV1(r, p.owners(), p.how)
		runRedisBindingV2(r, p.owners(), p.how)
	}
}

// ---- rc: tampering with stored values ---------------------------------------------------------------------------

type redisMut struct {
	class string
	val   string
	off   int // offset of the changed byte in the decoded object (-1: not a single place)
}

const b64Alphabet = "ABCDEFGHIJKLMNOPQRSTUVWXYZabcdefghijklmnopqrstuvwxyz0123456789+/"

// redisMutations lists the modified values of one stored value (base64 text val of the bytes orig).
func redisMutations(r *ev.Run, val string, orig []byte, byteStep, charStep int) []redisMut {
	var out []redisMut
	enc := base64.StdEncoding.EncodeToString
	for off := int(r.Seed) % byteStep; off < len(orig); off += byteStep {
		b := append([]byte{}, orig...)
		b[off] ^= 1 << uint((off+int(r.Seed))%8)
		out = append(out, redisMut{"bit-flip-of-a-stored-byte", enc(b), off})
	}
	body := strings.TrimRight(val, "=")
	for p := int(r.Seed) % charStep; p < len(body); p += charStep {
		i := strings.IndexByte(b64Alphabet, val[p])
		c := b64Alphabet[(i+1)%64]
		out = append(out, redisMut{"base64-character-replaced", val[:p] + string(c) + val[p+1:], p * 3 / 4})
	}
	if len(body) > 8 {
		places := []int{0, len(body) / 2, len(body) - 1}
		for _, p := range places {
			out = append(out, redisMut{"base64-character-made-invalid", val[:p] + "!" + val[p+1:], p * 3 / 4})
			out = append(out, redisMut{"character-deleted", val[:p] + val[p+1:], -1})
			out = append(out, redisMut{"character-inserted", val[:p] + "A" + val[p:], -1})
			out = append(out, redisMut{"newline-inserted", val[:p] + "\n" + val[p:], -1})
		}
		// the last character before the padding carries bits the decoder may ignore
		last := len(body) - 1
		i := strings.IndexByte(b64Alphabet, val[last])
		out = append(out, redisMut{"last-character-unused-bits-changed", val[:last] + string(b64Alphabet[i^1]) + val[last+1:], -1})
		for _, n := range []int{1, 2, 3, 4, 8, len(val) / 2} {
			out = append(out, redisMut{"truncated", val[:len(val)-n], -1})
		}
		out = append(out, redisMut{"padding-removed-or-added", body, -1}, redisMut{"padding-removed-or-added", val + "=", -1}, redisMut{"padding-removed-or-added", body + "====", -1})
		out = append(out, redisMut{"extended", val + "AAAA", -1}, redisMut{"extended", "AAAA" + val, -1}, redisMut{"extended", val + val, -1})
		out = append(out, redisMut{"empty-value", "", -1})
		out = append(out, redisMut{"raw-bytes-instead-of-base64", string(orig), -1})
		out = append(out, redisMut{"url-alphabet", strings.NewReplacer("+", "-", "/", "_").Replace(val), -1})
	}
	// keep only values that differ from the stored one
	kept := out[:0]
	for _, m := range out {
		if m.val != val {
			kept = append(kept, m)
		}
	}
	return kept
}

// sameObject: the modified text still decodes (standard decoder, as Acra uses it) to the identical bytes: the stored
// key ring itself is unchanged, only its transport encoding differs. Not judged.
func sameObject(m redisMut, orig []byte) bool {
	d, err := base64.StdEncoding.DecodeString(m.val)
	return err == nil && bytes.Equal(d, orig)
}

func runRedisTamperV2(r *ev.Run) {
	cfg := redisConfigs[2]
	g := newRedisRig(cfg, redisRoot, nil)
	defer g.destroy()
	srv := g.redis.srv
	ks, err := g.open(0)
	if err == nil {
		err = populate(ks, 2)
	}
	if err == nil {
		ksrig.ModelDestroyRotated(ks, ksrig.ModelStorageSym, clientA, 2)
		ksrig.ModelDestroyCurrent(ks, ksrig.ModelPoisonPair, nil)
	}
	if err != nil {
		r.Inconclusive("redis tamper v2: cannot populate: " + err.Error())
		return
	}
	fresh, err := g.open(0)
	if err != nil {
		r.Inconclusive("redis tamper v2: " + err.Error())
		return
	}
	for _, s := range redisV2Slots(redisRoot, owners()) {
		val, ok := srv.Get(redisDB, s.key)
		orig, derr := base64.StdEncoding.DecodeString(val)
		if !ok || derr != nil || len(orig) == 0 {
			r.Inconclusive("redis tamper v2: no stored ring at " + s.key)
			continue
		}
		refCur, _, refErr := ksrig.ModelCurrent(fresh, s.kind, s.id)
		if _, err := fresh.(ringOpener).OpenKeyRing(s.path); err != nil {
			r.Inconclusive(fmt.Sprintf("redis tamper v2: untouched ring %s does not open: %v", s.path, err))
			continue
		}
		r.SetAdd("rc_rings_enumerated", s.path)
		for _, m := range redisMutations(r, val, orig, r.Pick(3, 1), r.Pick(5, 1)) {
			srv.Put(redisDB, s.key, m.val)
			cur, openErr, getErr, site, stack := readV2(fresh, s)
			region := "whole-value"
			if m.off >= 0 {
				region = ringRegion(orig, m.off)
			}
			r.Case()
			r.Count("rc_changes_checked_v2", 1)
			r.Count("rc_changes_checked_v2_change="+m.class, 1)
			r.SetAdd("rc_change_classes", m.class)
			r.Distinct(fmt.Sprintf("%s|rc|%s|%s|%s", cfg.name, s.kind, m.class, region))
			detail := map[string]interface{}{"config": cfg.name, "seed": r.Seed, "key": s.key, "change": m.class, "offset": m.off, "region": region, "stored_value": val, "modified_value": m.val,
				"stack": stack, "open_error": fmt.Sprint(openErr), "getter_error": fmt.Sprint(getErr)}
			switch {
			case site != "":
				r.Violation(fmt.Sprintf("redis v2 changed stored value: read panics at %s (change=%s region=%s)", site, m.class, region), detail)
			case sameObject(m, orig):
				r.Count("rc_changes_decoding_to_the_identical_object(not judged)", 1)
			case openErr == nil || getErr == nil:
				class := "same-content"
				if getErr != nil != (refErr != nil) || !bytes.Equal(cur, refCur) {
					class = "different-content"
				}
				r.Violation(fmt.Sprintf("redis v2 key ring accepted after a change of the stored value: change=%s region=%s result=%s", m.class, region, class), detail)
			default:
				r.Count("rc_changes_rejected_v2", 1)
			}
		}
		srv.Put(redisDB, s.key, val)
		if _, err := fresh.(ringOpener).OpenKeyRing(s.path); err != nil {
			r.Inconclusive(fmt.Sprintf("redis tamper v2: restored ring %s does not open: %v", s.path, err))
		}
	}
	redisUnknown(r, srv, "tamper v2")
	r.SampleN("rc/v2", 1, map[string]interface{}{"oracle": "rc (tampering, Redis)", "config": cfg.name,
		"example": "value of l1/l2/l3/root/client/alice/storage-sym.keyring: bits of the stored bytes flipped (re-encoded), base64 characters replaced / deleted / inserted, truncated, padding changed; OpenKeyRing + getter"})
}

func runRedisTamperV1(r *ev.Run) {
	cfg := redisConfigs[0]
	g := newRedisRig(cfg, redisRoot, nil)
	defer g.destroy()
	srv := g.redis.srv
	ks, err := g.open(-1)
	if err == nil {
		err = populate(ks, 2)
	}
	if err != nil {
		r.Inconclusive("redis tamper v1: cannot populate: " + err.Error())
		return
	}
	rd, err := g.open(-1)
	if err != nil {
		r.Inconclusive("redis tamper v1: " + err.Error())
		return
	}
	for _, s := range redisV1Slots(srv, redisRoot, owners(), "") {
		if !s.readable() {
			continue
		}
		val, _ := srv.Get(redisDB, s.key)
		orig, derr := base64.StdEncoding.DecodeString(val)
		if derr != nil || len(orig) == 0 {
			r.Inconclusive("redis tamper v1: no stored key at " + s.key)
			continue
		}
		if _, err, _, _ := readV1(rd, s); err != nil {
			r.Inconclusive(fmt.Sprintf("redis tamper v1: untouched %s does not load: %v", s.role(), err))
			continue
		}
		r.SetAdd("rc_v1_values_enumerated", s.owner+"|"+s.role())
		for _, m := range redisMutations(r, val, orig, 1, r.Pick(2, 1)) {
			srv.Put(redisDB, s.key, m.val)
			got, lerr, site, stack := readV1(rd, s)
			r.Case()
			r.Count("rc_changes_checked_v1", 1)
			r.Count("rc_changes_checked_v1_change="+m.class, 1)
			r.SetAdd("rc_change_classes", m.class)
			r.Distinct(fmt.Sprintf("%s|rc|%s|%s", cfg.name, s.role(), m.class))
			detail := map[string]interface{}{"config": cfg.name, "seed": r.Seed, "key": s.key, "change": m.class, "offset": m.off, "stored_value": val, "modified_value": m.val, "stack": stack, "error": fmt.Sprint(lerr), "returned": hexAll(got)}
			switch {
			case site != "":
				r.Violation(fmt.Sprintf("redis v1 changed stored value: read panics at %s (change=%s file=%s)", site, m.class, s.role()), detail)
			case sameObject(m, orig):
				r.Count("rc_changes_decoding_to_the_identical_object(not judged)", 1)
			case lerr == nil:
				r.Violation(fmt.Sprintf("redis v1 key accepted after a change of the stored value: change=%s file=%s", m.class, s.role()), detail)
			default:
				r.Count("rc_changes_rejected_v1", 1)
			}
		}
		srv.Put(redisDB, s.key, val)
	}
	redisUnknown(r, srv, "tamper v1")
}

// ---- rd: confinement ----------------------------------------------------------------------------------------------

// redisHostileIDs: the list of confine.go (its "root" siblings exist here as key prefixes) plus what only a Redis key
// space has: glob characters (SCAN MATCH patterns are built from paths), CR LF, and glob characters behind "../".
func redisHostileIDs() []hostile {
	return append(hostileIDs(),
		hostile{"glob-star", "*"}, hostile{"glob-star", "al*"}, hostile{"glob-star", "*_storage"}, hostile{"glob-star", "alice*"},
		hostile{"glob-question", "?lice"}, hostile{"glob-question", "alic?"},
		hostile{"glob-bracket", "[a]lice"}, hostile{"glob-bracket", "[a-z]lice"}, hostile{"glob-bracket", "alice["}, hostile{"glob-bracket", "[^b]lice"},
		hostile{"glob-escape", "al\\*ce"},
		hostile{"slash-subdir", "alice/x"}, hostile{"slash-subdir", "alice/"},
		hostile{"crlf", "x\r\nFLUSHALL\r\n"}, hostile{"space", "alice "},
		hostile{"glob-dotdot", "../*"}, hostile{"glob-dotdot", "../root2/*"}, hostile{"glob-dotdot", "../root?/alice"},
	)
}

type redisConfine struct {
	r    *ev.Run
	cfg  config
	srv  *fakeredis.Server
	base fakeredis.Data
	view map[string]string
}

func (c *redisConfine) rebase() {
	c.base = c.srv.Snapshot()
	c.view = outsideView(c.base, redisDB, redisRoot)
}

// verdict judges one call: what (e.g. "generate with hostile client id"), class, the commands it sent.
func (c *redisConfine) verdict(counter, what, class string, mark int, result []byte, site string, judgeCalls bool, detail map[string]interface{}) {
	r := c.r
	r.Case()
	r.Count(counter, 1)
	v := c.cfg.fmtName()
	if site != "" {
		r.Violation(fmt.Sprintf("redis %s %s (%s) panics at %s", v, what, class, site), detail)
	}
	eff := redisCommandEffects(c.srv.LogSince(mark), redisDB, redisRoot)
	changes := diffOutside(c.view, outsideView(c.srv.Snapshot(), redisDB, redisRoot))
	detail["changes_outside_prefix"] = changes
	detail["commands_for_keys_outside_prefix"] = eff.callsOutside
	detail["scan_patterns"] = eff.scans
	detail["prefix"] = redisRoot
	readDecoy := len(eff.readsOutside) > 0 || bytes.HasPrefix(result, []byte("DECOY-")) || bytes.HasPrefix(result, []byte("FOREIGN-"))
	switch {
	case len(changes) > 0:
		r.Violation(fmt.Sprintf("redis %s %s (%s) changes keys outside the keystore prefix", v, what, class), detail)
		c.srv.Restore(c.base)
	case readDecoy:
		r.Violation(fmt.Sprintf("redis %s %s (%s) reads a key outside the keystore prefix", v, what, class), detail)
	case judgeCalls && len(eff.callsOutside) > 0:
		r.Violation(fmt.Sprintf("redis %s %s (%s) sends commands for keys outside the keystore prefix", v, what, class), detail)
	default:
		r.Count(counter+"_confined", 1)
	}
	if len(eff.scans) > 0 {
		r.Count("rd_calls_that_scanned", 1)
	}
}

func runRedisConfineV1(r *ev.Run) {
	cfg := redisConfigs[0]
	g := newRedisRig(cfg, redisRoot, nil)
	defer g.destroy()
	srv := g.redis.srv
	// a sibling keystore (own master key) under <prefix>2 in the same database
	g2 := newRedisRig(cfg, redisSibling, srv)
	ks2, err := g2.open(-1)
	for i := 0; i < 2 && err == nil; i++ {
		err = ksrig.GenClient(ks2, clientA)
	}
	var ks ksrig.FullKeyStore
	if err == nil {
		ks, err = g.open(-1)
	}
	for i := 0; i < 2 && err == nil; i++ {
		err = ksrig.GenClient(ks, clientA)
	}
	if err != nil {
		r.Inconclusive("redis confine v1: " + err.Error())
		return
	}
	planted := plantForeign(srv, redisDB, redisRoot)
	// decoys where escaping names land
	for _, h := range redisHostileIDs() {
		for _, k := range []ksrig.ModelKind{ksrig.ModelStoragePair, ksrig.ModelStorageSym, ksrig.ModelSearchHMAC} {
			p := filepath.Join(redisRoot, ksrig.ModelV1FileName(k, []byte(h.id)))
			if _, ok := srv.Get(redisDB, p); !ok && !insidePrefix(redisRoot, p) && len(p) < 200 {
				srv.Put(redisDB, p, b64("DECOY-"+h.class))
				planted++
			}
		}
	}
	c := &redisConfine{r: r, cfg: cfg, srv: srv}
	c.rebase()
	r.Count("rd_foreign_keys_watched_v1", int64(len(c.view)))
	for _, h := range redisHostileIDs() {
		for _, op := range keystoreOps() {
			mark := srv.LogLen()
			var err error
			site, stack := guard(func() { err = op.f(ks, []byte(h.id)) })
			if err != nil {
				r.Count("rd_hostile_ids_rejected_v1", 1)
			}
			if os.Getenv("C07_DEBUG") != "" && h.id == "../x" {
				fmt.Println("DBG", op.name, err)
				for _, c := range srv.LogSince(mark) {
					fmt.Println("   ", c.Name, fmt.Sprintf("%.60q", c.Args), c.Reply)
				}
			}
			r.Distinct(fmt.Sprintf("%s|rd|%s|%s", cfg.name, op.name, h.class))
			r.SetAdd("rd_hostile_classes", h.class)
			c.verdict("rd_hostile_calls_checked_v1", opClass(op.name)+" with hostile client id", h.class, mark, nil, site, true,
				map[string]interface{}{"seed": r.Seed, "operation": op.name, "client_id": fmt.Sprintf("%q", h.id), "error": fmt.Sprint(err), "stack": stack})
		}
	}
	// ordinary use beside the sibling keystore and the foreign keys: nothing outside the prefix is touched or read
	c.srv.Restore(c.base)
	type nop struct {
		name string
		f    func() error
	}
	st, err := g.redis.v1Storage()
	if err != nil {
		r.Inconclusive("redis confine v1: " + err.Error())
		return
	}
	enc, _ := keystore.NewSCellKeyEncryptor(g.master)
	for _, o := range []nop{
		{"generate-and-rotate", func() error {
			if err := ksrig.GenClient(ks, clientB); err != nil {
				return err
			}
			return ksrig.GenClient(ks, clientA)
		}},
		{"read-all", func() error { _, err := ks.GetClientIDSymmetricKeys(clientA); return err }},
		{"ListKeys", func() error { _, err := ks.(*filesystem.KeyStore).ListKeys(); return err }},
		{"ListRotatedKeys", func() error { _, err := ks.(*filesystem.KeyStore).ListRotatedKeys(); return err }},
		{"Export(all)", func() error {
			bk, err := filesystem.NewKeyBackuper(redisRoot, "", st, enc, ks)
			if err != nil {
				return err
			}
			_, err = bk.Export(nil, keystore.ExportAllKeys)
			return err
		}},
		{"destroy-rotated", func() error { return ks.DestroyRotatedClientIDSymmetricKey(clientA, 2) }},
		{"destroy-current", func() error { return ks.DestroyClientIDSymmetricKey(clientB) }},
		{"Storage.ReadDir(prefix)", func() error { _, err := st.ReadDir(redisRoot); return err }},
		{"Storage.Stat(prefix)", func() error { _, err := st.Stat(redisRoot); return err }},
		{"Storage.RemoveAll(history directory)", func() error {
			return st.RemoveAll(filepath.Join(redisRoot, ksrig.ModelV1FileName(ksrig.ModelStoragePair, clientA)) + ".old")
		}},
		{"Storage.RemoveAll(prefix)", func() error { return st.RemoveAll(redisRoot) }},
	} {
		mark := srv.LogLen()
		var err error
		site, stack := guard(func() { err = o.f() })
		r.Distinct(fmt.Sprintf("%s|rd|ordinary|%s", cfg.name, o.name))
		c.verdict("rd_ordinary_calls_beside_foreign_keys_checked", "ordinary use beside a sibling keystore: "+o.name, "valid-ids", mark, nil, site, true,
			map[string]interface{}{"seed": r.Seed, "operation": o.name, "error": fmt.Sprint(err), "stack": stack})
	}
	left := 0
	for _, k := range srv.Keys(redisDB) {
		if insidePrefix(redisRoot, k) {
			left++
		}
	}
	r.Count("rd_keys_left_under_prefix_after_RemoveAll(prefix)(not judged)", int64(left))
	redisUnknown(r, srv, "confinement v1")
	r.SampleN("rd/v1", 1, map[string]interface{}{"oracle": "rd (confinement, Redis)", "format": "v1", "prefix": redisRoot, "hostile_ids": len(redisHostileIDs()), "operations": len(keystoreOps()), "foreign_keys": len(c.view),
		"example": "GenerateClientIDSymmetricKey(\"../root2/k\") and DestroyRotatedHmacSecretKey(\"*\", 2) on a keystore under l1/l2/l3/root beside a sibling keystore under l1/l2/l3/root2"})
}

func runRedisConfineV2(r *ev.Run) {
	cfg := redisConfigs[2]
	g := newRedisRig(cfg, redisRoot, nil)
	defer g.destroy()
	srv := g.redis.srv
	g2 := newRedisRig(cfg, redisSibling, srv)
	ks2, err := g2.open(0)
	for i := 0; i < 2 && err == nil; i++ {
		err = ksrig.GenClient(ks2, clientA)
	}
	g2.close()
	var ks ksrig.FullKeyStore
	if err == nil {
		ks, err = g.open(0)
	}
	for i := 0; i < 2 && err == nil; i++ {
		err = ksrig.GenClient(ks, clientA)
	}
	if err != nil {
		r.Inconclusive("redis confine v2: " + err.Error())
		return
	}
	defer g.close()
	plantForeign(srv, redisDB, redisRoot)
	sep := strings.NewReplacer("\\", "/")
	landing := func(keyPath string) string { return filepath.Join(redisRoot, sep.Replace(keyPath)) }
	c := &redisConfine{r: r, cfg: cfg, srv: srv}
	c.rebase()
	noDecoys := c.base
	var decoys []string
	for _, h := range redisHostileIDs() {
		for _, k := range []ksrig.ModelKind{ksrig.ModelStoragePair, ksrig.ModelStorageSym, ksrig.ModelSearchHMAC} {
			p := landing(ksrig.ModelV2RingPath(k, []byte(h.id)) + ".keyring")
			if _, ok := srv.Get(redisDB, p); !ok && !insidePrefix(redisRoot, p) && len(p) < 300 {
				decoys = append(decoys, p)
			}
		}
		if p := landing(h.id); h.id != "" && !insidePrefix(redisRoot, p) && len(p) < 300 {
			if _, ok := srv.Get(redisDB, p); !ok {
				decoys = append(decoys, p)
			}
		}
	}
	for pass := 0; pass < 2; pass++ {
		if pass == 1 {
			srv.Restore(noDecoys)
			for _, p := range decoys {
				srv.Put(redisDB, p, b64("DECOY-"+filepath.Base(p)))
			}
			c.rebase()
		}
		r.Count("rd_foreign_keys_watched_v2", int64(len(c.view)))
		for _, h := range redisHostileIDs() {
			for _, op := range keystoreOps() {
				mark := srv.LogLen()
				var err error
				site, stack := guard(func() { err = op.f(ks, []byte(h.id)) })
				if err != nil {
					r.Count("rd_hostile_ids_rejected_v2", 1)
				}
				r.Distinct(fmt.Sprintf("%s|rd|%s|%s|decoys=%v", cfg.name, op.name, h.class, pass == 1))
				r.SetAdd("rd_hostile_classes", h.class)
				c.verdict("rd_hostile_calls_checked_v2_keystore", opClass(op.name)+" with hostile client id", h.class, mark, nil, site, false,
					map[string]interface{}{"seed": r.Seed, "operation": op.name, "client_id": fmt.Sprintf("%q", h.id), "error": fmt.Sprint(err), "stack": stack, "decoys_planted": pass == 1})
			}
			mark := srv.LogLen()
			var err error
			site, stack := guard(func() { _, err = ks.(ringOpenerRW).OpenKeyRingRW(h.id) })
			r.Distinct(fmt.Sprintf("%s|rd|OpenKeyRingRW|%s|decoys=%v", cfg.name, h.class, pass == 1))
			c.verdict("rd_hostile_calls_checked_v2_keystore", "OpenKeyRingRW with hostile ring path", h.class, mark, nil, site, false,
				map[string]interface{}{"seed": r.Seed, "operation": "OpenKeyRingRW", "ring_path": fmt.Sprintf("%q", h.id), "error": fmt.Sprint(err), "stack": stack, "decoys_planted": pass == 1})
		}
	}
	// the Redis back end itself with hostile key paths
	rb, err := ksrig.V2RedisBackend(srv, redisDB, redisRoot)
	if err != nil {
		r.Inconclusive("redis confine v2: " + err.Error())
		return
	}
	defer rb.Close()
	type bop struct {
		name string
		f    func(p string) ([]byte, error)
	}
	writes := []bop{
		{"Put", func(p string) ([]byte, error) { return nil, rb.Put(p, []byte("written-by-put")) }},
		{"Rename(to)", func(p string) ([]byte, error) {
			rb.Put("tmp-rename", []byte("renamed"))
			return nil, rb.Rename("tmp-rename", p)
		}},
		{"RenameNX(to)", func(p string) ([]byte, error) {
			rb.Put("tmp-renamenx", []byte("renamed-nx"))
			return nil, rb.RenameNX("tmp-renamenx", p)
		}},
	}
	reads := []bop{
		{"Get", func(p string) ([]byte, error) { return rb.Get(p) }},
		{"Rename(from)", func(p string) ([]byte, error) { return nil, rb.Rename(p, "stolen") }},
		{"RenameNX(from)", func(p string) ([]byte, error) { return nil, rb.RenameNX(p, "stolen-nx") }},
	}
	for pass, ops := range [][]bop{writes, reads} {
		srv.Restore(noDecoys)
		if pass == 1 {
			for _, p := range decoys {
				srv.Put(redisDB, p, b64("DECOY-"+filepath.Base(p)))
			}
		}
		c.rebase()
		for _, h := range redisHostileIDs() {
			if h.id == "" {
				continue
			}
			for _, o := range ops {
				mark := srv.LogLen()
				var res []byte
				var err error
				site, stack := guard(func() { res, err = o.f(h.id) })
				r.Distinct(fmt.Sprintf("%s|rd|backend.%s|%s", cfg.name, o.name, h.class))
				c.verdict("rd_hostile_calls_checked_v2_backend", "RedisBackend."+o.name+" with hostile key path", h.class, mark, res, site, false,
					map[string]interface{}{"seed": r.Seed, "operation": o.name, "key_path": fmt.Sprintf("%q", h.id), "error": fmt.Sprint(err), "stack": stack})
				for _, k := range []string{"tmp-rename", "tmp-renamenx", "stolen", "stolen-nx"} {
					srv.Delete(redisDB, redisRoot+"/"+k)
				}
			}
		}
	}
	// ordinary use beside the sibling keystore: nothing outside the prefix is touched, read or listed
	srv.Restore(noDecoys)
	c.rebase()
	type nop struct {
		name string
		f    func() error
	}
	var listed []string
	for _, o := range []nop{
		{"generate-and-rotate", func() error {
			if err := ksrig.GenClient(ks, clientB); err != nil {
				return err
			}
			return ksrig.GenClient(ks, clientA)
		}},
		{"read-all", func() error { _, err := ks.GetClientIDSymmetricKeys(clientA); return err }},
		{"ListKeys", func() error {
			d, err := ks.(interface {
				ListKeys() ([]keystore.KeyDescription, error)
			}).ListKeys()
			for _, k := range d {
				listed = append(listed, "ListKeys:"+k.KeyID)
			}
			return err
		}},
		{"destroy-rotated", func() error { return ks.DestroyRotatedClientIDSymmetricKey(clientA, 2) }},
		{"destroy-current", func() error { return ks.DestroyClientIDSymmetricKey(clientB) }},
		{"RedisBackend.ListAll", func() error {
			l, err := rb.ListAll()
			for _, p := range l {
				listed = append(listed, "ListAll:"+p)
				if _, ok := srv.Get(redisDB, redisRoot+"/"+p); !ok {
					return fmt.Errorf("LISTED-OUTSIDE %q", p)
				}
			}
			return err
		}},
	} {
		mark := srv.LogLen()
		var err error
		site, stack := guard(func() { err = o.f() })
		r.Distinct(fmt.Sprintf("%s|rd|ordinary|%s", cfg.name, o.name))
		detail := map[string]interface{}{"seed": r.Seed, "operation": o.name, "error": fmt.Sprint(err), "stack": stack, "listed": listed}
		if err != nil && strings.HasPrefix(err.Error(), "LISTED-OUTSIDE") {
			r.Violation("redis v2 RedisBackend.ListAll lists a path that is no key under the keystore prefix", detail)
		}
		c.verdict("rd_ordinary_calls_beside_foreign_keys_checked", "ordinary use beside a sibling keystore: "+o.name, "valid-ids", mark, nil, site, true, detail)
	}
	r.Count("rd_paths_listed_beside_a_sibling_keystore_v2", int64(len(listed)))
	redisUnknown(r, srv, "confinement v2")
	r.SampleN("rd/v2", 1, map[string]interface{}{"oracle": "rd (confinement, Redis)", "format": "v2", "prefix": redisRoot, "hostile_ids": len(redisHostileIDs()), "decoys": len(decoys), "foreign_keys": len(c.view),
		"example": "RedisBackend.Put(\"../root2/k\"), OpenKeyRingRW(\"../x\"), GenerateHmacKey(\"../../evil\") on a keystore under l1/l2/l3/root beside a sibling keystore under l1/l2/l3/root2"})
}

// ---- driver ---------------------------------------------------------------------------------------------------------

func runRedis(r *ev.Run) {
	runRedisSecrets(r)
	runRedisBinding(r)
	runRedisTamperV2(r)
	runRedisTamperV1(r)
	runRedisConfineV1(r)
	runRedisConfineV2(r)
}

func redisGuards(r *ev.Run, q func(quick, thorough int64) int64) {
	r.RequireAtLeast("ra_histories", q(12, 150))
	r.RequireSetAtLeast("ra_configs", len(redisConfigs))
	r.RequireAtLeast("ra_secrets_known", q(60, 750))
	r.RequireAtLeast("ra_blobs_scanned_storage_writes", q(200, 2500))
	r.RequireAtLeast("ra_blobs_scanned_export_bundles", q(6, 75))
	r.RequireAtLeast("ra_redis_command_arguments_scanned", q(3000, 40000))
	r.RequireAtLeast("ra_redis_values_base64_decoded", q(300, 4000))
	r.RequireAtLeast("ra_redis_dataset_values_scanned", q(100, 1200))
	r.RequireAtLeast("ra_redis_mutating_commands_checked_for_prefix", q(500, 6000))
	r.RequireAtLeast("ra_public_keys_seen_in_command_arguments(positive control)", q(20, 250))
	r.RequireAtLeast("ra_public_keys_seen_in_dataset_values(positive control)", q(10, 120))
	r.RequireAtLeast("ra_histories_leaving_foreign_keys_alone", q(12, 150))
	r.RequireAtLeast("rb_relocations_checked_v1", q(600, 600))
	r.RequireAtLeast("rb_relocations_checked_v2", q(300, 300))
	for _, how := range []string{"copy", "rename", "swap", "swap(other side)"} {
		r.RequireAtLeast("rb_relocations_checked_v1_how="+how, q(100, 100))
		r.RequireAtLeast("rb_relocations_checked_v2_how="+how, q(60, 60))
	}
	r.RequireAtLeast("rb_relocations_checked_v1_near_identical_ids", q(200, 200))
	r.RequireAtLeast("rb_relocations_checked_v2_near_identical_ids", q(100, 100))
	r.RequireSetAtLeast("rb_near_identical_id_pairs_v1", len(nearPairs))
	r.RequireSetAtLeast("rb_near_identical_id_pairs_v2", len(nearPairs))
	r.RequireAtLeast("rb_relocations_from_sibling_keystore", q(15, 15))
	r.RequireAtLeast("rc_changes_checked_v2", q(2000, 8000))
	r.RequireAtLeast("rc_changes_rejected_v2", q(1900, 7500))
	r.RequireAtLeast("rc_changes_checked_v1", q(1500, 2500))
	r.RequireAtLeast("rc_changes_rejected_v1", q(1400, 2300))
	r.RequireSetAtLeast("rc_rings_enumerated", 9)
	r.RequireSetAtLeast("rc_v1_values_enumerated", 10)
	r.RequireSetAtLeast("rc_change_classes", 12)
	r.RequireAtLeast("rd_hostile_calls_checked_v1", q(500, 500))
	r.RequireAtLeast("rd_hostile_calls_checked_v2_keystore", q(1000, 1000))
	r.RequireAtLeast("rd_hostile_calls_checked_v2_backend", q(200, 200))
	r.RequireAtLeast("rd_ordinary_calls_beside_foreign_keys_checked", q(15, 15))
	r.RequireAtLeast("rd_foreign_keys_watched_v1", q(60, 60))
	r.RequireAtLeast("rd_foreign_keys_watched_v2", q(120, 120))
	r.RequireSetAtLeast("rd_hostile_classes", 20)
}
