// Package c07 will hold the monitor of property C07 (not built yet; nothing is registered).
package c07
