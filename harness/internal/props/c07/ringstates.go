package c07

// Oracle (a), ring-level key-state histories of the v2 format:
// "No private or symmetric key ever reaches keystore storage ... or an export bundle in clear."
//
// The histories of secrets.go drive the ServerKeyStore methods, which only ever produce keys that are active, rotated
// or destroyed with DestroyKey. The other write API of the v2 format, api.MutableKeyRing (OpenKeyRingRW), can put a key
// into EVERY state of the key life cycle, and the state decides which code path a key takes through export and import.
// So here key rings are built through that API from material the harness supplies (hence knows): every key is walked
// along a legal path (api.KeyStateTransitionValid) to one of the states, "destroyed" both ways — SetState(KeyDestroyed),
// which changes the state only and leaves the encrypted key data in the ring, and DestroyKey, which removes the data.
// Then the rings travel: ExportKeyRings (with private keys; public only) → ImportKeyRings into another, empty keystore
// with other master keys, → ImportKeyRings back into the same keystore with an overwrite delegate, and
// KeyBackuper.Export → KeyBackuper.Import into a third keystore. Everything the back ends were handed (every Put), what
// they return afterwards (every Get, a final dump of the destination), and every export bundle is scanned with the
// scanner of secrets.go for the material of ALL keys of the history whatever their state: the material of a key that is
// marked destroyed is still a key that decrypts old data, it must not be written in clear either.

import (
	"bytes"
	"context"
	"fmt"
	"sort"
	"strings"
	"sync"
	"time"

	"github.com/cossacklabs/themis/gothemis/keys"

	"github.com/cossacklabs/acra/keystore"
	keystoreV2 "github.com/cossacklabs/acra/keystore/v2/keystore"
	"github.com/cossacklabs/acra/keystore/v2/keystore/api"
	"github.com/cossacklabs/acra/keystore/v2/keystore/asn1"
	"github.com/cossacklabs/acra/keystore/v2/keystore/crypto"

	"verif/harness/internal/ev"
	"verif/harness/internal/gen"
	"verif/harness/internal/rig/ksrig"
)

var rsStates = []api.KeyState{api.KeyPreActive, api.KeyActive, api.KeySuspended, api.KeyDeactivated, api.KeyCompromised, api.KeyDestroyed}

// rsPaths lists every legal walk PreActive -> ... -> target of at most maxSteps transitions (states may repeat:
// active -> suspended -> active), taken from api.KeyStateTransitionValid, not from a table of our own.
func rsPaths(target api.KeyState, maxSteps int) [][]api.KeyState {
	var out [][]api.KeyState
	var walk func(cur api.KeyState, path []api.KeyState)
	walk = func(cur api.KeyState, path []api.KeyState) {
		if cur == target {
			out = append(out, append([]api.KeyState{}, path...))
		}
		if len(path) == maxSteps {
			return
		}
		for _, next := range rsStates {
			if api.KeyStateTransitionValid(cur, next) {
				walk(next, append(path, next))
			}
		}
	}
	walk(api.KeyPreActive, nil)
	return out
}

// rsKey is one key of a history.
type rsKey struct {
	ring    string
	format  string // "pair" | "symmetric" | "pair+symmetric"
	class   string // state at export time: pre-active, active, ..., destroyed-by-SetState, destroyed-by-DestroyKey
	final   api.KeyState
	path    []api.KeyState // SetState transitions from pre-active (the last one by DestroyKey if class says so)
	destroy bool           // last step is DestroyKey
	seq     int
	priv    []byte
	pub     []byte
	sym     []byte
}

func (k *rsKey) walk() string {
	s := []string{"pre-active"}
	for i, st := range k.path {
		if k.destroy && i == len(k.path)-1 {
			s = append(s, "DestroyKey")
		} else {
			s = append(s, st.String())
		}
	}
	return strings.Join(s, ">")
}

type rsOverwrite struct{}

func (rsOverwrite) DecideKeyRingOverwrite(currentData, newData *asn1.KeyRing) (api.ImportDecision, error) {
	return api.ImportOverwrite, nil
}

type ringPorter interface {
	ExportKeyRings(paths []string, cryptosuite *crypto.KeyStoreSuite, mode keystore.ExportMode) ([]byte, error)
	ImportKeyRings(exportData []byte, cryptosuite *crypto.KeyStoreSuite, delegate api.KeyRingImportDelegate) ([]string, error)
}

var rsTime = time.Unix(1700000000, 0).UTC()

type rsRun struct {
	r     *ev.Run
	cfg   config
	idx   int
	set   *secretSet
	keyOf []*rsKey // secret index -> key
	kind  []string // secret index -> "private" | "symmetric"
	trace []string
}

func (h *rsRun) addSecret(kind string, k *rsKey, v []byte) {
	before := len(h.set.names)
	h.set.add(kind, fmt.Sprintf("%s#%d", k.ring, k.seq), v)
	if len(h.set.names) > before {
		h.keyOf = append(h.keyOf, k)
		h.kind = append(h.kind, kind)
		h.r.Count("a2_secrets_searched", 1)
		if k.final == api.KeyDestroyed {
			h.r.Count("a2_secrets_searched_of_destroyed_keys", 1)
		}
	}
}

func (h *rsRun) report(step, sink, path string, blob []byte, ht *hit) {
	k := h.keyOf[ht.secret]
	h.r.Violation(fmt.Sprintf("v2 clear key material at rest after a ring-level key-state history: step=%s sink=%s key=%s state-at-export=%s encoding=%s",
		step, sink, h.kind[ht.secret], k.class, ht.encoding),
		map[string]interface{}{"config": h.cfg.name, "history": h.idx, "seed": h.r.Seed, "ring": k.ring, "seqnum": k.seq, "key_formats": k.format, "state_walk": k.walk(),
			"path": path, "offset": ht.offset, "blob": ev.FullHex(blob), "trace": h.trace})
}

// scanCalls scans what a back end was handed / returned during one step.
func (h *rsRun) scanCalls(step string, calls []ksrig.RecCall) {
	r := h.r
	for i := range calls {
		c := &calls[i]
		switch {
		case c.RecIsWrite():
			r.Case()
			r.Count("a2_puts_scanned", 1)
			r.Count("a2_puts_scanned_step="+step, 1)
			if step != "build-rings" {
				r.Count("a2_puts_scanned_during_imports", 1)
			}
			r.Distinct(fmt.Sprintf("%s|a2|%s|storage.%s", h.cfg.name, step, c.Op))
			if ht := h.set.scan(c.Data); ht != nil {
				h.report(step, "storage."+c.Op, c.Path, c.Data, ht)
			}
			if h.set.hasPublic(c.Data) {
				r.Count("a2_public_keys_seen_in_puts(positive control)", 1)
			}
		case c.Op == "Get" && len(c.Out) > 0:
			r.Case()
			r.Count("a2_gets_scanned", 1)
			if ht := h.set.scan(c.Out); ht != nil {
				h.report(step, "storage(read back).Get", c.Path, c.Out, ht)
			}
		}
	}
}

func (h *rsRun) scanBundle(step string, data []byte) {
	h.r.Case()
	h.r.Count("a2_export_bundles_scanned", 1)
	h.r.Distinct(fmt.Sprintf("%s|a2|%s|bundle", h.cfg.name, step))
	if ht := h.set.scan(data); ht != nil {
		h.report(step, "export-bundle", "", data, ht)
	}
}

// dump scans everything the back end of g holds now.
func (h *rsRun) dump(step string, g *rig, H ksrig.FullKeyStore) {
	n := g.log.Len()
	if lister, ok := H.(interface{ ListKeyRings() ([]string, error) }); ok {
		if rings, err := lister.ListKeyRings(); err == nil {
			for _, p := range rings {
				H.(ringOpener).OpenKeyRing(p) // read through the recording back end
			}
			h.r.Count("a2_rings_dumped", int64(len(rings)))
		}
	}
	calls := g.log.Since(n)
	for i := range calls {
		c := &calls[i]
		if c.Op == "Get" && len(c.Out) > 0 {
			h.r.Case()
			h.r.Count("a2_stored_objects_dumped", 1)
			if ht := h.set.scan(c.Out); ht != nil {
				h.report(step, "storage-dump", c.Path, c.Out, ht)
			}
		}
	}
}

// readBack counts the keys whose material the ring getters return (positive control: the material really is in
// the store; for destroyed keys the getters refuse, nothing is demanded of them).
func (h *rsRun) readBack(counter string, H ksrig.FullKeyStore, keysOf map[string][]*rsKey) {
	for path, ks := range keysOf {
		ring, err := H.(ringOpener).OpenKeyRing(path)
		if err != nil {
			continue
		}
		for _, k := range ks {
			if k.final == api.KeyDestroyed {
				continue
			}
			ok := true
			if k.priv != nil {
				v, err := ring.PrivateKey(k.seq, api.ThemisKeyPairFormat)
				ok = ok && err == nil && bytes.Equal(v, k.priv)
			}
			if k.sym != nil {
				v, err := ring.SymmetricKey(k.seq, api.ThemisSymmetricKeyFormat)
				ok = ok && err == nil && bytes.Equal(v, k.sym)
			}
			if ok {
				h.r.Count(counter, 1)
			}
		}
	}
}

// bundleContent opens an export bundle with the export suite the harness chose (soft positive control: how many
// keys travel in which state, and how many destroyed ones still carry data).
func (h *rsRun) bundleContent(bundle []byte, suite *crypto.KeyStoreSuite) {
	defer func() { recover() }()
	container, err := asn1.UnmarshalVerifiedContainer(bundle)
	if err != nil {
		return
	}
	ctx := []byte("AKSv2 keystore: exported key rings")
	plain, err := suite.KeyEncryptor.Decrypt(context.Background(), container.Payload.Data.Bytes, keystore.NewEmptyKeyContext(ctx))
	if err != nil {
		return
	}
	rings, err := asn1.UnmarshalEncryptedKeys(plain)
	if err != nil {
		return
	}
	for _, ring := range rings.KeyRings {
		for _, k := range ring.Keys {
			if api.KeyState(k.State) == api.KeyDestroyed && len(k.Data) > 0 {
				h.r.Count("a2_destroyed_keys_travelling_with_data_in_private_export(soft positive control)", 1)
			}
		}
	}
}

func runRingStateHistory(r *ev.Run, idx int) {
	cfg := configs[3+idx%2] // v2/memory, v2/directory
	rng := gen.New(r.Seed, fmt.Sprintf("c07/ringstates/%d", idx))
	h := &rsRun{r: r, cfg: cfg, idx: idx, set: newSecretSet()}
	src := newRig(cfg, "")
	defer src.destroy()
	H, err := src.open(0)
	if err != nil {
		r.Inconclusive(fmt.Sprintf("ring-state history %d: open: %v", idx, err))
		return
	}
	id := string(clientIDs[rng.Intn(len(clientIDs))])
	ringFormats := map[string]string{
		"client/" + id + "/storage":     "pair",
		"client/" + id + "/storage-sym": "symmetric",
		"client/" + id + "/hmac-sym":    "pair+symmetric", // a key with two KeyData entries; a purpose KeyBackuper.Import can describe
	}
	var ringPaths []string
	for p := range ringFormats {
		ringPaths = append(ringPaths, p)
	}
	sort.Strings(ringPaths)

	// the states a key can be in when the ring is exported, and how it got there
	preds := []api.KeyState{} // states from which a key can be destroyed
	for _, s := range rsStates {
		if api.KeyStateTransitionValid(s, api.KeyDestroyed) {
			preds = append(preds, s)
		}
	}
	type target struct {
		final   api.KeyState
		via     api.KeyState // for destroyed keys: the state before; 0 = any
		destroy bool
		resume  bool // active reached through suspended
	}
	var targets []target
	for _, s := range rsStates {
		if s != api.KeyDestroyed {
			targets = append(targets, target{final: s})
		}
	}
	targets = append(targets, target{final: api.KeyActive, resume: true})
	for _, p := range preds {
		targets = append(targets, target{final: api.KeyDestroyed, via: p})
	}
	targets = append(targets, target{final: api.KeyDestroyed, via: preds[rng.Intn(len(preds))], destroy: true})

	keysOf := map[string][]*rsKey{}
	var all []*rsKey
	for _, path := range ringPaths {
		order := rng.Perm(len(targets))
		for _, ti := range order {
			t := targets[ti]
			k := &rsKey{ring: path, format: ringFormats[path], final: t.final, destroy: t.destroy}
			to := t.final
			if to == api.KeyDestroyed {
				to = t.via
			}
			paths := rsPaths(to, 4)
			if t.resume {
				var p2 [][]api.KeyState
				for _, p := range paths {
					for _, s := range p {
						if s == api.KeySuspended {
							p2 = append(p2, p)
							break
						}
					}
				}
				paths = p2
			}
			if len(paths) == 0 {
				r.Inconclusive(fmt.Sprintf("ring-state history: no legal walk to %s", to))
				return
			}
			k.path = append([]api.KeyState{}, paths[rng.Intn(len(paths))]...)
			k.class = t.final.String()
			if t.final == api.KeyDestroyed {
				k.path = append(k.path, api.KeyDestroyed)
				k.class = "destroyed-by-SetState"
				if t.destroy {
					k.class = "destroyed-by-DestroyKey"
				}
			}
			if strings.Contains(k.format, "pair") {
				kp, err := keys.New(keys.TypeEC)
				if err != nil {
					r.Inconclusive("ring-state history: " + err.Error())
					return
				}
				k.priv, k.pub = kp.Private.Value, kp.Public.Value
			}
			if strings.Contains(k.format, "symmetric") {
				k.sym = ksrig.RandBytes(32)
			}
			keysOf[path] = append(keysOf[path], k)
			all = append(all, k)
		}
	}

	// 1. build the rings through api.MutableKeyRing
	fail := func(what string, err error) {
		r.Inconclusive(fmt.Sprintf("ring-state history %d (%s): %s: %v", idx, cfg.name, what, err))
	}
	for _, path := range ringPaths {
		ring, err := H.(ringOpenerRW).OpenKeyRingRW(path)
		if err != nil {
			fail("OpenKeyRingRW "+path, err)
			return
		}
		for _, k := range keysOf[path] {
			var data []api.KeyData
			if k.priv != nil {
				data = append(data, api.KeyData{Format: api.ThemisKeyPairFormat, PublicKey: append([]byte{}, k.pub...), PrivateKey: append([]byte{}, k.priv...)})
			}
			if k.sym != nil {
				data = append(data, api.KeyData{Format: api.ThemisSymmetricKeyFormat, SymmetricKey: append([]byte{}, k.sym...)})
			}
			k.seq, err = ring.AddKey(api.KeyDescription{ValidSince: rsTime, ValidUntil: rsTime.Add(24 * time.Hour), Data: data})
			if err != nil {
				fail("AddKey "+path, err)
				return
			}
			if k.priv != nil {
				h.addSecret("private", k, k.priv)
				h.set.addPublic(k.pub)
			}
			if k.sym != nil {
				h.addSecret("symmetric", k, k.sym)
			}
		}
		// state walks, interleaved over the keys of the ring
		pos := make([]int, len(keysOf[path]))
		for {
			var open []int
			for i, k := range keysOf[path] {
				if pos[i] < len(k.path) {
					open = append(open, i)
				}
			}
			if len(open) == 0 {
				break
			}
			i := open[rng.Intn(len(open))]
			k := keysOf[path][i]
			st := k.path[pos[i]]
			pos[i]++
			if k.destroy && pos[i] == len(k.path) {
				err = ring.DestroyKey(k.seq)
			} else {
				err = ring.SetState(k.seq, st)
			}
			if err != nil {
				fail(fmt.Sprintf("%s key %d of %s -> %s", k.walk(), k.seq, path, st), err)
				return
			}
			r.Count("a2_state_transitions_made", 1)
		}
		for _, k := range keysOf[path] {
			if k.final == api.KeyActive {
				if err := ring.SetCurrent(k.seq); err != nil {
					fail("SetCurrent", err)
					return
				}
				break
			}
		}
		for _, k := range keysOf[path] {
			st, err := ring.State(k.seq)
			if err != nil || st != k.final {
				fail(fmt.Sprintf("key %d of %s is %v, expected %v", k.seq, path, st, k.final), err)
				return
			}
			r.Count("a2_keys_at_export_state="+k.class, 1)
			r.SetAdd("a2_key_classes_at_export", k.format+"|"+k.class)
			r.SetAdd("a2_state_walks", k.walk())
			if k.final == api.KeyDestroyed {
				from := api.KeyPreActive
				if len(k.path) > 1 {
					from = k.path[len(k.path)-2]
				}
				r.SetAdd("a2_states_destroyed_from", k.class+" from "+from.String())
			}
		}
		h.trace = append(h.trace, fmt.Sprintf("ring %s (%s): %d keys", path, ringFormats[path], len(keysOf[path])))
	}
	for _, k := range all {
		h.trace = append(h.trace, fmt.Sprintf("%s#%d %s", k.ring, k.seq, k.walk()))
	}
	h.readBack("a2_source_keys_read_back_equal(positive control)", H, keysOf)
	h.scanCalls("build-rings", src.log.Since(0))

	porter, ok := H.(ringPorter)
	if !ok {
		r.Inconclusive("ring-state history: the v2 handle has no ExportKeyRings/ImportKeyRings")
		return
	}
	newSuite := func() *crypto.KeyStoreSuite {
		s, err := crypto.NewSCellSuite(ksrig.RandBytes(32), ksrig.RandBytes(32))
		if err != nil {
			return nil
		}
		return s
	}

	// 2. export / import, every step under a panic guard
	importInto := func(step string, bundle []byte, suite *crypto.KeyStoreSuite, wantReadable bool) {
		dst := newRig(cfg, "")
		defer dst.destroy()
		D, err := dst.open(0)
		if err != nil {
			fail("open destination", err)
			return
		}
		var imported []string
		site, _ := guard(func() { imported, err = D.(ringPorter).ImportKeyRings(bundle, suite, nil) })
		h.trace = append(h.trace, fmt.Sprintf("%s: imported=%d err=%v panic=%s", step, len(imported), err, site))
		if site != "" || err != nil {
			r.Count("a2_import_errors(not decided here)", 1)
			r.SetAdd("a2_import_error_texts", fmt.Sprintf("%s: %v %s", step, err, site))
		} else {
			r.Count("a2_imports_done", 1)
			r.Count("a2_imports_done_step="+step, 1)
			r.Count("a2_rings_imported", int64(len(imported)))
		}
		h.scanCalls(step, dst.log.Since(0))
		if wantReadable {
			h.readBack("a2_imported_keys_read_back_equal(positive control)", D, keysOf)
		}
		h.dump(step, dst, D)
	}

	var privBundle []byte
	var privSuite *crypto.KeyStoreSuite
	for _, mode := range []struct {
		name string
		mode keystore.ExportMode
	}{{"private", keystore.ExportPrivateKeys}, {"public-only", keystore.ExportPublicOnly}} {
		suite := newSuite()
		var bundle []byte
		site, _ := guard(func() { bundle, err = porter.ExportKeyRings(ringPaths, suite, mode.mode) })
		h.trace = append(h.trace, fmt.Sprintf("ExportKeyRings(%s): %d bytes err=%v panic=%s", mode.name, len(bundle), err, site))
		if site != "" || err != nil || len(bundle) == 0 {
			r.Count("a2_export_errors(not decided here)", 1)
			r.SetAdd("a2_export_error_texts", fmt.Sprintf("ExportKeyRings(%s): %v %s", mode.name, err, site))
			continue
		}
		r.Count("a2_exports_done", 1)
		h.scanBundle("ExportKeyRings("+mode.name+")", bundle)
		if mode.name == "private" {
			h.bundleContent(bundle, suite)
		}
		importInto("ImportKeyRings("+mode.name+" export)-into-empty-keystore", bundle, suite, mode.name == "private")
		if mode.name == "private" {
			privBundle, privSuite = bundle, suite
		}
	}

	// 3. the acra-keys level: KeyBackuper.Export (all rings, private keys) -> KeyBackuper.Import into an empty keystore
	if ks2, ok := H.(*keystoreV2.ServerKeyStore); ok {
		var backup *keystore.KeysBackup
		site, _ := guard(func() {
			var bk *keystoreV2.KeyBackuper
			if bk, err = keystoreV2.NewKeyBackuper(src.dir, "", ks2); err == nil {
				backup, err = bk.Export(nil, keystore.ExportPrivateKeys)
			}
		})
		h.trace = append(h.trace, fmt.Sprintf("KeyBackuper.Export(all, private): err=%v panic=%s", err, site))
		if site != "" || err != nil || backup == nil {
			r.Count("a2_export_errors(not decided here)", 1)
			r.SetAdd("a2_export_error_texts", fmt.Sprintf("KeyBackuper.Export: %v %s", err, site))
		} else {
			r.Count("a2_exports_done", 1)
			h.scanBundle("KeyBackuper.Export(all,private)", backup.Data)
			dst := newRig(cfg, "")
			D, err := dst.open(0)
			if err == nil {
				step := "KeyBackuper.Import-into-empty-keystore"
				site, _ := guard(func() {
					var bk *keystoreV2.KeyBackuper
					if bk, err = keystoreV2.NewKeyBackuper(dst.dir, "", D.(*keystoreV2.ServerKeyStore)); err == nil {
						_, err = bk.Import(backup)
					}
				})
				h.trace = append(h.trace, fmt.Sprintf("%s: err=%v panic=%s", step, err, site))
				if site != "" || err != nil {
					r.Count("a2_import_errors(not decided here)", 1)
					r.SetAdd("a2_import_error_texts", fmt.Sprintf("%s: %v %s", step, err, site))
				} else {
					r.Count("a2_imports_done", 1)
					r.Count("a2_imports_done_step="+step, 1)
				}
				h.scanCalls(step, dst.log.Since(0))
				h.dump(step, dst, D)
			}
			dst.destroy()
		}
	}
	// 4. last (an import that stored clear material would also spoil the later exports of this keystore):
	if privBundle != nil {
		bundle, suite := privBundle, privSuite
		// back into the keystore it came from: every ring exists, the delegate says overwrite
		n := src.log.Len()
		var imported []string
		site, _ := guard(func() { imported, err = porter.ImportKeyRings(bundle, suite, rsOverwrite{}) })
		step := "ImportKeyRings(private export)-overwrite-same-keystore"
		h.trace = append(h.trace, fmt.Sprintf("%s: imported=%d err=%v panic=%s", step, len(imported), err, site))
		if site != "" || err != nil {
			r.Count("a2_import_errors(not decided here)", 1)
			r.SetAdd("a2_import_error_texts", fmt.Sprintf("%s: %v %s", step, err, site))
		} else {
			r.Count("a2_imports_done", 1)
			r.Count("a2_imports_done_step="+step, 1)
			r.Count("a2_rings_imported", int64(len(imported)))
		}
		h.scanCalls(step, src.log.Since(n))
		h.dump(step, src, H)
	}
	r.Count("a2_histories", 1)
	r.SetAdd("a2_configs", cfg.name)
	r.SampleN("a2/"+cfg.name, 1, map[string]interface{}{"oracle": "a (ring-level key-state histories)", "config": cfg.name, "history": idx,
		"keys": len(all), "secrets_searched": len(h.set.names), "steps": h.trace})
}

func runRingStates(r *ev.Run) {
	n := r.Pick(12, 120)
	var wg sync.WaitGroup
	jobs := make(chan int)
	for w := 0; w < 4; w++ {
		wg.Add(1)
		go func() {
			defer wg.Done()
			for i := range jobs {
				runRingStateHistory(r, i)
			}
		}()
	}
	for i := 0; i < n; i++ {
		jobs <- i
	}
	close(jobs)
	wg.Wait()
	r.RequireSetAtLeast("a2_configs", 2)
}
