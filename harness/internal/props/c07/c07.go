// Package c07 monitors "keys at rest are encrypted, bound to their owner, tamper-evident and confined".
//
// Five oracles over real keystores (v1 over a recording filesystem.Storage, v2 over recording back ends):
//
//	(a) secrets.go  — no private/symmetric key value the harness learned through public getters (nor any 16-byte
//	                  window of it, raw / hex / base64) occurs in bytes handed to storage, in export bundles or
//	                  (with the VerifWrapCache hook, cache_hook.go) in key-cache entries;
//	(b) binding.go  — a stored key file / key ring copied over another owner's file fails to load;
//	(c) tamper.go   — every single-bit flip of every stored v2 key ring (v1 key file) is rejected on read, and so is
//	                  every byte-VALUE change of every stored v2 key ring (der.go: the values that matter to a DER
//	                  reader in the quick tier, all 255 other values in the thorough tier);
//	                  the same modifications (plus truncation / extension / swap / replay of an older version) made
//	                  behind handles that are already open and warm, which then go on being used (warm.go, warm_v1.go);
//	(d) confine.go  — hostile client ids / ring paths never make a keystore touch anything outside its root;
//	(e) secrets.go  — created key files are 0600, directories 0700.
//
// See /verif/notes/c07.md.
package c07

import (
	"fmt"
	"os"
	"runtime/debug"
	"strings"
	"syscall"

	"github.com/cossacklabs/acra/keystore/v2/keystore/filesystem/backend"

	"verif/harness/internal/ev"
	"verif/harness/internal/props"
	"verif/harness/internal/rig/ksrig"
)

func init() { props.Register("C07", props.Monitor{Level: "fault_enumeration", Run: Run}) }

type config struct {
	name  string
	v2    bool
	dir   bool
	cache int
	redis bool // key storage in the fake Redis server (redis.go); the rig's dir is then the key prefix
}

var configs = []config{
	{name: "v1/cache=off", cache: -1},
	{name: "v1/cache=lru1", cache: 1},
	{name: "v1/cache=unbounded", cache: 0},
	{name: "v2/memory", v2: true},
	{name: "v2/directory", v2: true, dir: true},
}

func (c config) fmtName() string {
	if c.v2 {
		return "v2"
	}
	return "v1"
}

var clientA, clientB = []byte("alice"), []byte("bob-2_old")
var clientIDs = [][]byte{clientA, []byte("alice_storage"), clientB}

// rig is one keystore location (directory or in-memory back end) plus the means to open handles on it.
type rig struct {
	cfg    config
	dir    string
	master []byte
	v2keys ksrig.V2Keys
	mem    *backend.InMemory
	log    *ksrig.RecLog
	nOpen  int
	// getHook is installed on every v2 handle opened afterwards (tampering / relocation of stored rings).
	getHook func(path string, data []byte) []byte
	closers []func()
	// redis, if set, is where the keys live instead of a directory / in-memory back end (redis.go)
	redis *redisLoc
}

func newRig(cfg config, dir string) *rig {
	g := &rig{cfg: cfg, log: ksrig.NewRecLog(), dir: dir}
	if cfg.v2 {
		g.v2keys = ksrig.NewV2Keys()
		if !cfg.dir {
			g.mem = backend.NewInMemory()
		} else if dir == "" {
			g.dir = ksrig.ScratchDir("c07v2")
		}
	} else {
		g.master = ksrig.RandBytes(32)
		if dir == "" {
			g.dir = ksrig.ScratchDir("c07v1")
		}
	}
	return g
}

// open returns a fresh handle (cache applies to v1 only).
func (g *rig) open(cache int) (ksrig.FullKeyStore, error) {
	g.nOpen++
	handle := fmt.Sprintf("h%d", g.nOpen)
	if g.redis != nil {
		return g.openRedis(cache, handle)
	}
	if !g.cfg.v2 {
		rs := ksrig.NewRecStorage(nil, g.log, handle)
		ks, err := ksrig.V1WithStorage(g.dir, g.master, cache, rs)
		if err != nil {
			return nil, err
		}
		if wrapV1Cache != nil && cache != -1 {
			wrapV1Cache(ks, g.log, handle)
		}
		return ks, nil
	}
	var rb *ksrig.RecBackend
	if g.cfg.dir {
		b, err := backend.CreateDirectoryBackend(g.dir)
		if err != nil {
			return nil, err
		}
		rb = ksrig.NewRecBackend(b, g.log, handle)
	} else {
		rb = ksrig.NewRecBackend(g.mem, g.log, handle)
		rb.KeepOpen = true
	}
	rb.GetHook = g.getHook
	ks, err := ksrig.V2OnBackend(rb, g.v2keys)
	if err != nil {
		return nil, err
	}
	g.closers = append(g.closers, func() { ks.Close() })
	return ks, nil
}

func (g *rig) close() {
	for _, c := range g.closers {
		c()
	}
	g.closers = nil
}

func (g *rig) destroy() {
	g.close()
	if g.redis != nil {
		if !g.redis.shared {
			g.redis.srv.Close()
		}
		return
	}
	if g.dir != "" {
		os.RemoveAll(g.dir)
	}
}

// wrapV1Cache is set by cache_hook.go (build tag verif_hook_ks_cache): it installs a recorder around the key
// cache of a v1 keystore; every Add is appended to the log as op "cache.Add".
var wrapV1Cache func(ks interface{}, log *ksrig.RecLog, handle string)

// guard runs f and reports a panic as (site, stack).
func guard(f func()) (site string, stack string) {
	defer func() {
		if p := recover(); p != nil {
			st := string(debug.Stack())
			site = panicSite(st)
			stack = fmt.Sprintf("panic: %v\n%s", p, st)
		}
	}()
	f()
	return "", ""
}

func panicSite(stack string) string {
	seenPanic := false
	for _, l := range strings.Split(stack, "\n") {
		if strings.HasPrefix(l, "panic(") {
			seenPanic = true
			continue
		}
		if !seenPanic || strings.HasPrefix(l, "\t") {
			continue
		}
		if i := strings.Index(l, "github.com/cossacklabs/acra/"); i >= 0 {
			fn := l[i+len("github.com/cossacklabs/acra/"):]
			if j := strings.LastIndex(fn, "("); j > 0 {
				fn = fn[:j]
			}
			return fn
		}
	}
	return "?"
}

// populate generates `gens` keys of every kind for clients A and B (so that gens-1 rotated versions exist).
func populate(ks ksrig.FullKeyStore, gens int) error {
	for g := 0; g < gens; g++ {
		for _, k := range ksrig.ModelKinds {
			ids := [][]byte{nil}
			if k.PerClient() {
				ids = [][]byte{clientA, clientB}
			}
			for _, id := range ids {
				if err := ksrig.ModelGenerate(ks, k, id); err != nil {
					return fmt.Errorf("generate %s/%s: %w", k, id, err)
				}
			}
		}
	}
	return nil
}

// Run is the C07 monitor.
func Run(r *ev.Run) {
	r.Rule = "one evaluation = one oracle evaluation: one blob scanned for known secrets, one relocated file loaded, one single-bit flip or single-byte value change read back, one keystore/back-end call with a hostile id or path checked for effects outside the root, one created file/directory mode checked. " +
		"Ring-level key-state histories (v2, oracle a): per history three rings (key pairs, symmetric keys, keys with both) of ten harness-supplied keys each, every key walked along a random legal path (api.KeyStateTransitionValid) to one of the states pre-active, active (directly and through suspended), suspended, deactivated, compromised, destroyed by SetState from each state that allows it, destroyed by DestroyKey; then ExportKeyRings (private / public-only), ImportKeyRings into an empty keystore and back into the same one (overwrite), KeyBackuper.Export/Import; every Put / Get / stored object / bundle scanned for the material of all keys. " +
		"Distinct classes: (format/configuration, oracle, key kind or storage operation, sink / file role / flipped region / hostile-id class). " +
		"Flips: quick = every byte of every stored key ring and v1 key file, one bit per byte (bit index = (offset+seed) mod 8); thorough = all 8 bits. Byte values (v2 key rings, every offset): quick = value-1, value+1, value/2, each of 0x10..0x1f where the stored byte is 0x20, 0, 0x7f, 0x80, 0x81, 0xff (values equal to the stored byte skipped, duplicates removed, so the count depends on the stored bytes); thorough = all 255 other values (the directory store once more with the quick set through real file rewrites); classes of this sweep: (configuration, key kind, DER element of the changed byte, tag/length/content). Tampering under handles that are already open (warm): per v2 back end a keystore handle that generated, read and destroyed keys, and per ring a read-write and a read-only ring handle that have been read and used for AddKey/SetState/SetCurrent/DestroyKey; then the stored ring is modified behind them (bit flips and DER-relevant byte values at one position per DER element plus every 29th/97th offset (thorough: every / every 4th offset), 8 truncations, 7 extensions, the stored bytes of 3 (thorough: all) other rings swapped in, 4 older valid versions replayed) and the same handles are used on: key reads, the four ring updates (order rotating), keystore getters / export / generate / destroy, then a handle opened afterwards; a positive-control update through the warm handle on restored storage every 12 cases. v1: per cache configuration a handle that generated and read every key, then current and newest rotated private-side files modified on disk (every 9th offset, cache off every 19th; thorough every offset; 4 truncations, 3 extensions, another owner's file, the other version of the same key), reads of current / all keys / export by id through the warm and a later handle, and update cases (rotate, destroy rotated, destroy current through the warm handle while a file is modified, then the reads again). Classes of this layer: (configuration, key kind or file role, mutation, region). Redis layer (keystores over RedisStorage / RedisBackend on the in-process stand-in server; counters ra_/rb_/rc_/rd_): 12 (thorough 150) histories of the same generator with 70 foreign keys in the database, every command argument and dataset value scanned (as is and base64-decoded), every mutating command checked for the key prefix; stored values copied / renamed / swapped in the dataset between all pairs of stored keys of different owners (v2: all pairs of rings), the five near-identical id pairs and a sibling keystore with other master keys; stored values changed in place (bit of every 3rd stored byte (v1, thorough: every byte) re-encoded, every 5th (v1 2nd, thorough every) base64 character replaced, 30 text-level changes per value; changes that still decode to the identical bytes are not judged); 44 hostile ids (those of the filesystem layer plus glob characters, CR LF, glob behind ../) x 16 keystore methods, OpenKeyRingRW, RedisBackend.Put/Get/Rename/RenameNX, judged by the dataset outside the prefix before/after, GETs of outside keys and (v1) commands naming outside keys; ordinary use beside a sibling keystore under <prefix>2. Classes: (configuration, layer, operation or move or change class, key role / relation / hostile-id class). Everything is a pure function of VERIF_SEED except key values, which are only compared after reading them back."
	r.Assumptions = []string{
		"crypto library replaced by the pure-Go gothemis stand-in (contract level: Secure Cell Seal authenticates data and context)",
		"Redis storage / Redis back end driven against the in-process stand-in server rig/fakeredis (RESP2, documented Redis semantics), not a real Redis server",
		"the key cache is observed only when built with tag verif_hook_ks_cache (hook fixes/hook-ks-cache.diff); see coverage.extra.cache_hook",
		"owner binding in v1 is demanded across owners only (client ids; server-global keys count as one owner), not across purposes of one identity",
	}
	old := syscall.Umask(0)
	defer syscall.Umask(old)
	r.Extra("cache_hook", wrapV1Cache != nil)
	if !scannerSelfTest() {
		r.Violation("non-vacuity:secret-scanner-selftest", "the secret scanner does not find a planted key in raw/hex/base64 form")
		return
	}
	if os.Getenv("C07_ONLY") == "warm" { // development aid: only the warm-handle layer (the guards of the other layers then fail)
		runWarm(r)
		return
	}
	if os.Getenv("C07_ONLY") == "redis" { // development aid: only the Redis layer
		runRedis(r)
		redisGuards(r, func(quick, thorough int64) int64 {
			if r.Thorough() {
				return thorough
			}
			return quick
		})
		return
	}
	// the Redis layer (redis.go) works on servers of its own: one more goroutine
	redisDone := make(chan struct{})
	go func() {
		defer close(redisDone)
		runRedis(r)
	}()
	// the warm-handle layer of oracle (c) works on stores of its own: it runs beside the other layers (one more goroutine)
	warmDone := make(chan struct{})
	go func() {
		defer close(warmDone)
		runWarm(r)
	}()
	runSecrets(r)
	runRingStates(r)
	runBinding(r)
	runTamper(r)
	runConfinement(r)
	<-warmDone
	<-redisDone

	q := func(quick, thorough int64) int64 {
		if r.Thorough() {
			return thorough
		}
		return quick
	}
	r.RequireAtLeast("a_blobs_scanned_storage_writes", q(2000, 40000))
	r.RequireAtLeast("a_blobs_scanned_export_bundles", q(20, 400))
	r.RequireAtLeast("a_secrets_known", q(500, 10000))
	r.RequireAtLeast("a_public_keys_seen_in_written_blobs(positive control)", q(100, 2000))
	r.RequireAtLeast("a2_histories", q(12, 120))
	r.RequireAtLeast("a2_exports_done", q(30, 300))
	r.RequireAtLeast("a2_export_bundles_scanned", q(30, 300))
	r.RequireAtLeast("a2_imports_done", q(40, 400))
	r.RequireAtLeast("a2_puts_scanned", q(1000, 10000))
	r.RequireAtLeast("a2_puts_scanned_during_imports", q(150, 1500))
	r.RequireAtLeast("a2_stored_objects_dumped", q(100, 1000))
	r.RequireAtLeast("a2_secrets_searched", q(400, 4000))
	r.RequireAtLeast("a2_secrets_searched_of_destroyed_keys", q(150, 1500))
	for _, class := range []string{"pre-active", "active", "suspended", "deactivated", "compromised", "destroyed-by-SetState", "destroyed-by-DestroyKey"} {
		r.RequireAtLeast("a2_keys_at_export_state="+class, q(30, 300))
	}
	r.RequireSetAtLeast("a2_key_classes_at_export", 21) // 3 key formats x 7 state classes
	r.RequireSetAtLeast("a2_states_destroyed_from", 4)  // SetState from each of the 3 states that allow it + DestroyKey
	r.RequireAtLeast("a2_source_keys_read_back_equal(positive control)", q(150, 1500))
	r.RequireAtLeast("a2_imported_keys_read_back_equal(positive control)", q(150, 1500))
	r.RequireAtLeast("a2_public_keys_seen_in_puts(positive control)", q(100, 1000))
	r.RequireAtLeast("b_relocations_checked_v1", q(100, 100))
	r.RequireAtLeast("b_relocations_checked_v2", q(100, 100))
	r.RequireAtLeast("b_relocations_checked_v1_near_identical_ids", q(200, 200))
	r.RequireAtLeast("b_relocations_checked_v2_near_identical_ids", q(100, 100))
	r.RequireSetAtLeast("b_near_identical_id_pairs_v1", len(nearPairs))
	r.RequireSetAtLeast("b_near_identical_id_pairs_v2", len(nearPairs))
	r.RequireAtLeast("c_flips_checked_v2", q(3000, 30000))
	r.RequireAtLeast("c_flips_checked_v1", q(1000, 8000))
	r.RequireAtLeast("c_byte_values_checked_v2", q(50000, 2500000))
	r.RequireAtLeast("c_byte_values_checked_v2_tag_bytes", q(3000, 150000))
	r.RequireAtLeast("c_byte_values_checked_v2_length_bytes", q(3000, 150000))
	r.RequireAtLeast("c_byte_values_checked_v2_content_bytes", q(40000, 2000000))
	r.RequireAtLeast("c_byte_values_checked_v2_signature_value_length_byte", q(18*20, 27*250))
	r.RequireAtLeast("c_length_bytes_0x20_lowered_to_0x10..0x1f_v2", q(16*18, 16*27))
	r.RequireSetAtLeast("c_byte_value_fields_v2", 30)
	// warm handles (warm.go, warm_v1.go)
	r.RequireAtLeast("w_v2_cases", q(1000, 15000))
	r.RequireAtLeast("w_v2_ops_checked", q(25000, 400000))
	for _, op := range []string{"AddKey", "SetState", "SetCurrent", "DestroyKey"} {
		r.RequireAtLeast("w_v2_updates_failed_op="+op+" handle=ring-rw", q(800, 15000))
	}
	r.RequireAtLeast("w_v2_updates_failed_op=generate(rotate) handle=keystore", q(800, 15000))
	r.RequireAtLeast("w_v2_positive_controls(update through the warm handle on untampered storage succeeds)", q(150, 1500))
	r.RequireAtLeast("w_v2_reads_served_from_the_handle's_own_data(genuine material, not judged)", q(5000, 100000))
	r.RequireAtLeast("w_v2_cases_region=signed-payload", q(500, 10000))
	r.RequireAtLeast("w_v2_cases_region=signatures", q(100, 1000))
	r.RequireAtLeast("w_v2_cases_region=container-header", q(10, 80))
	r.RequireAtLeast("w_v2_cases_mutation=truncate", q(100, 100))
	r.RequireAtLeast("w_v2_cases_mutation=extend", q(100, 100))
	r.RequireAtLeast("w_v2_cases_mutation=swap-with-another-ring", q(50, 100))
	r.RequireAtLeast("w_v2_cases_mutation=replay-older-version", q(30, 30))
	r.RequireSetAtLeast("w_v2_rings", 18)
	r.RequireSetAtLeast("w_v2_mutations", 20)
	r.RequireSetAtLeast("w_v2_fields_modified", 30)
	r.RequireAtLeast("w_v1_cases", q(600, 5000))
	r.RequireAtLeast("w_v1_ops_checked", q(2500, 20000))
	r.RequireAtLeast("w_v1_reads_served_without_reading_the_modified_file handle=keystore", q(300, 2000)) // the cached handles really serve from their cache
	r.RequireAtLeast("w_v1_update_cases", q(60, 60))
	r.RequireSetAtLeast("w_v1_files", 30)
	r.RequireSetAtLeast("w_v1_mutations", 12)
	r.RequireAtLeast("d_hostile_calls_checked_v1", q(100, 100))
	r.RequireAtLeast("d_hostile_calls_through_validating_entry_points_v1", q(100, 100))
	r.RequireAtLeast("d_hostile_calls_checked_v2_keystore", q(100, 100))
	r.RequireAtLeast("d_hostile_calls_checked_v2_backend", q(50, 50))
	r.RequireAtLeast("e_file_modes_checked", q(500, 10000))
	r.RequireAtLeast("e_dir_modes_checked", q(100, 2000))
	if wrapV1Cache != nil {
		r.RequireAtLeast("a_blobs_scanned_cache_entries", q(500, 10000))
	}
	redisGuards(r, q)
}
