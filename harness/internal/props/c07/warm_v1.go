package c07

// Oracle (c), workload class "tampering under handles that are already open (warm)", v1 key files (see warm.go).
//
// One keystore handle per cache configuration (off / LRU / unbounded) generates every key three times, reads every key
// (current, all, export by id) so that its cache is as full as it gets, THEN stored private-side key files (current and
// rotated) are modified on disk and the same handle goes on being used: reads of the current key, of all keys, export by
// id, and — in the update cases — rotation / destruction through the warm handle followed by the reads again; every read
// also through a cache-less handle opened after the modification.
//
// Judged (warmObs sees what Storage.ReadFile returns to the handles):
//
//	O1  an operation during which the storage handed the modified bytes to the keystore must fail ("detected when it is
//	    read");
//	O2  a read that succeeds without having been handed modified bytes (the cache served it: legitimate, nothing was read)
//	    must return exactly the genuine pre-modification material; after an update through the warm handle (a new key
//	    exists) every key returned must be one of the genuine keys or the new one, and the warm and the later handle
//	    must agree on the new current key;
//	a panic is a violation.
//
// NOT judged: the outcome of the v1 updates themselves — rotation moves the current file to <key>.old/ by link/copy and
// destruction removes it, neither reads the key, so there is nothing to detect at that point (the modified file stays
// where the next read finds it); replay of an older valid file of the same key (same owner and purpose: it decrypts; v1
// has no version binding) — counted only.

import (
	"bytes"
	"context"
	"encoding/gob"
	"fmt"
	"os"
	"sort"

	"github.com/cossacklabs/acra/keystore"
	"github.com/cossacklabs/acra/keystore/filesystem"

	"verif/harness/internal/ev"
	"verif/harness/internal/rig/ksrig"
)

// warmStorage is a pass-through v1 storage that tells warmObs what ReadFile returns.
type warmStorage struct {
	filesystem.Storage
	obs *warmObs
}

func (s *warmStorage) ReadFile(path string) ([]byte, error) {
	data, err := s.Storage.ReadFile(path)
	if err == nil {
		s.obs.sawRead(data)
	}
	return data, err
}

// warmGroup is the keys of one (kind, owner).
type warmGroup struct {
	kind  ksrig.ModelKind
	owner owner
	cur   []byte   // genuine current key
	all   [][]byte // genuine keys newest first (kinds with a get-all reader)
}

type warmV1 struct {
	r      *ev.Run
	cfg    config
	g      *rig
	obs    *warmObs
	W      *filesystem.KeyStore
	cnt    map[string]int64
	seen   map[string]bool
	n      int
	groups []*warmGroup
}

func (w *warmV1) count(name string) { w.cnt[name]++ }

func (w *warmV1) open(cache int) (*filesystem.KeyStore, error) {
	return ksrig.V1WithStorage(w.g.dir, w.g.master, cache, &warmStorage{Storage: &filesystem.DummyStorage{}, obs: w.obs})
}

func warmExportID(k ksrig.ModelKind, id []byte) (keystore.ExportID, bool) {
	switch k {
	case ksrig.ModelStoragePair:
		return keystore.ExportID{KeyKind: keystore.KeyStoragePrivate, ContextID: id}, true
	case ksrig.ModelStorageSym:
		return keystore.ExportID{KeyKind: keystore.KeySymmetric, ContextID: id}, true
	case ksrig.ModelSearchHMAC:
		return keystore.ExportID{KeyKind: keystore.KeySearch, ContextID: id}, true
	case ksrig.ModelPoisonPair:
		return keystore.ExportID{KeyKind: keystore.KeyPoisonPrivate}, true
	}
	return keystore.ExportID{}, false
}

// export asks the key backuper built on the warm handle for one key and opens the bundle.
func (w *warmV1) export(gr *warmGroup) ([]byte, error) {
	id, ok := warmExportID(gr.kind, gr.owner.id)
	if !ok {
		return nil, fmt.Errorf("kind cannot be exported by id")
	}
	enc, err := keystore.NewSCellKeyEncryptor(w.g.master)
	if err != nil {
		return nil, err
	}
	bk, err := filesystem.NewKeyBackuper(w.g.dir, "", &warmStorage{Storage: &filesystem.DummyStorage{}, obs: w.obs}, enc, w.W)
	if err != nil {
		return nil, err
	}
	b, err := bk.Export([]keystore.ExportID{id}, keystore.ExportPrivateKeys)
	if err != nil {
		return nil, err
	}
	dec, err := keystore.NewSCellKeyEncryptor(b.Keys)
	if err != nil {
		return nil, err
	}
	plain, err := dec.Decrypt(context.Background(), b.Data, keystore.NewEmptyKeyContext(nil))
	if err != nil {
		return nil, fmt.Errorf("bundle does not open: %w", err)
	}
	var exported []*keystore.Key
	if err := gob.NewDecoder(bytes.NewReader(plain)).Decode(&exported); err != nil || len(exported) != 1 {
		return nil, fmt.Errorf("bundle does not decode to one key: %v", err)
	}
	return exported[0].Content, nil
}

// baseline reads the genuine keys of a group through the warm handle (filling its cache) and through a cache-less
// handle; both must agree.
func (w *warmV1) baseline(gr *warmGroup) error {
	fresh, err := w.open(-1)
	if err != nil {
		return err
	}
	cur, _, err := ksrig.ModelCurrent(w.W, gr.kind, gr.owner.id)
	if err != nil {
		return fmt.Errorf("current key: %w", err)
	}
	cur2, _, err := ksrig.ModelCurrent(fresh, gr.kind, gr.owner.id)
	if err != nil || !bytes.Equal(cur, cur2) {
		return fmt.Errorf("current key through a cache-less handle: %v / differs", err)
	}
	gr.cur, gr.all = cur, nil
	if gr.kind.HasGetAll() {
		all, err := ksrig.ModelAll(w.W, gr.kind, gr.owner.id)
		if err != nil {
			return fmt.Errorf("all keys: %w", err)
		}
		all2, err := ksrig.ModelAll(fresh, gr.kind, gr.owner.id)
		if err != nil || !sameSecrets(all, all2) {
			return fmt.Errorf("all keys through a cache-less handle: %v / differ", err)
		}
		gr.all = all
	}
	if _, ok := warmExportID(gr.kind, gr.owner.id); ok {
		exp, err := w.export(gr)
		if err != nil || !bytes.Equal(exp, cur) {
			return fmt.Errorf("export by id on the untampered store: %v / not the current key", err)
		}
	}
	return nil
}

// files lists the private-side files of a group: the current one first, then <key>.old/* by name.
func (w *warmV1) files(gr *warmGroup) []slot {
	var out []slot
	for _, s := range v1Slots(w.g.dir, []owner{gr.owner}) {
		if s.kind == gr.kind {
			out = append(out, s)
		}
	}
	sort.SliceStable(out, func(i, j int) bool { return !out[i].rotated && out[j].rotated })
	return out
}

type warmV1Mutation struct {
	class, variant string
	off            int
	bit            uint
	valIdx         int
	other          *slot // swap partner / source of the replayed version
}

var warmV1TruncExt = []struct {
	class, variant string
	f              func(b []byte) []byte
}{
	{"truncate", "to-0-bytes", func(b []byte) []byte { return []byte{} }},
	{"truncate", "last-byte-dropped", func(b []byte) []byte { return b[:len(b)-1] }},
	{"truncate", "second-half-dropped", func(b []byte) []byte { return b[:len(b)/2] }},
	{"truncate", "first-byte-dropped", func(b []byte) []byte { return b[1:] }},
	{"extend", "00-appended", func(b []byte) []byte { return append(append([]byte{}, b...), 0) }},
	{"extend", "00-prepended", func(b []byte) []byte { return append([]byte{0}, b...) }},
	{"extend", "whole-file-appended-again", func(b []byte) []byte { return append(append([]byte{}, b...), b...) }},
}

func (m *warmV1Mutation) name() string {
	if m.variant != "" && m.class != "byte-value" {
		return m.class + "/" + m.variant
	}
	return m.class
}

// mutations of one file: a pure function of tier, seed, file length and the other files.
func (w *warmV1) mutations(gr *warmGroup, f slot, fi int, n int, group []slot) []warmV1Mutation {
	var out []warmV1Mutation
	stride := 13
	if w.r.Thorough() {
		stride = 1
	} else if w.cfg.cache == -1 {
		stride = 29 // a handle without a cache holds nothing: tamper.go already reads every flipped byte through such handles
	}
	for off := 0; off < n; off++ {
		if off == 0 || off == n-1 || (off+int(w.r.Seed)+fi)%stride == 0 {
			out = append(out, warmV1Mutation{class: "bit-flip", off: off, bit: uint((int64(off) + w.r.Seed) % 8)})
			if off%3 == 0 {
				out = append(out, warmV1Mutation{class: "byte-value", off: off, valIdx: off + int(w.r.Seed)})
			}
		}
	}
	for _, te := range warmV1TruncExt {
		out = append(out, warmV1Mutation{class: te.class, variant: te.variant})
	}
	// swap with the file of the same role of another owner (another client, or client <-> server key)
	for _, og := range w.groups {
		if og.owner.name == gr.owner.name || og.kind.IsPair() != gr.kind.IsPair() {
			continue
		}
		if og.kind != gr.kind && (og.owner.id != nil) == (gr.owner.id != nil) {
			continue
		}
		for _, of := range w.files(og) {
			if of.rotated == f.rotated {
				of := of
				out = append(out, warmV1Mutation{class: "swap-with-another-owner's-file", variant: relation(of, f), other: &of})
				break
			}
		}
	}
	// an older (resp. newer) valid file of the same key
	for _, of := range group {
		if of.path != f.path && of.rotated != f.rotated {
			of := of
			v := "rotated-file-over-the-current-one"
			if f.rotated {
				v = "current-file-over-a-rotated-one"
			}
			out = append(out, warmV1Mutation{class: "replay-other-version-of-the-same-key", variant: v, other: &of})
			break
		}
	}
	return out
}

func (w *warmV1) violation(sig string, detail func() map[string]interface{}) {
	if w.seen[sig] {
		w.r.Violation(sig, nil)
		return
	}
	w.seen[sig] = true
	w.r.Violation(sig, detail())
}

type warmV1Op struct {
	handle, name string
	run          func() (got, want [][]byte, err error)
}

func (w *warmV1) readOps(gr *warmGroup, fresh *filesystem.KeyStore, withExport bool) []warmV1Op {
	var ops []warmV1Op
	for _, h := range []struct {
		name string
		ks   *filesystem.KeyStore
	}{{"keystore", w.W}, {"keystore-opened-afterwards", fresh}} {
		h := h
		if h.ks == nil {
			continue
		}
		ops = append(ops, warmV1Op{h.name, "get-current-key", func() ([][]byte, [][]byte, error) {
			cur, _, err := ksrig.ModelCurrent(h.ks, gr.kind, gr.owner.id)
			return warmSecrets(cur), warmSecrets(gr.cur), err
		}})
		if gr.kind.HasGetAll() {
			ops = append(ops, warmV1Op{h.name, "get-all-keys", func() ([][]byte, [][]byte, error) {
				all, err := ksrig.ModelAll(h.ks, gr.kind, gr.owner.id)
				return all, gr.all, err
			}})
		}
		if _, ok := warmExportID(gr.kind, gr.owner.id); ok && h.ks == w.W && withExport {
			ops = append(ops, warmV1Op{h.name, "export-by-id", func() ([][]byte, [][]byte, error) {
				exp, err := w.export(gr)
				return warmSecrets(exp), warmSecrets(gr.cur), err
			}})
		}
	}
	return ops
}

// judge runs the read operations; member != nil switches O2 to "every returned key is one of these".
func (w *warmV1) judge(gr *warmGroup, f slot, m *warmV1Mutation, what string, ops []warmV1Op, tampered, genuine []byte, after string, member func(got [][]byte) bool) (trace []string) {
	r := w.r
	notJudged := m.class == "replay-other-version-of-the-same-key"
	n := 0
	for i := range ops {
		op := &ops[i]
		w.obs.reset()
		var got, want [][]byte
		var err error
		site, stack := guard(func() { got, want, err = op.run() })
		readMod := w.obs.readsTampered > 0
		trace = append(trace, fmt.Sprintf("%s%s %s: err=%v read-modified-bytes=%v", after, op.handle, op.name, err, readMod))
		detail := func() map[string]interface{} {
			return map[string]interface{}{"config": w.cfg.name, "seed": r.Seed, "file": f.path, "role": f.role(), "owner": f.owner, "mutation": m.name(), "modification": what,
				"handle": op.handle, "operation": after + op.name, "error": fmt.Sprint(err), "storage_returned_modified_bytes_during_operation": readMod,
				"returned": hexAll(got), "genuine": hexAll(want), "genuine_file": ev.FullHex(genuine), "modified_file": ev.FullHex(tampered), "operations_so_far": trace, "stack": stack}
		}
		tag := fmt.Sprintf("op=%s%s file=%s mutation=%s", after, op.name, f.role(), m.name())
		if site != "" {
			w.violation(fmt.Sprintf("v1 tampering under an open handle: %s through %s panics at %s (file=%s mutation=%s)", op.name, op.handle, site, f.role(), m.name()), detail)
			continue
		}
		if notJudged {
			w.count("w_v1_replay_ops(not judged)")
			if err == nil {
				w.count("w_v1_replay_accepted(not judged) handle=" + op.handle)
			}
			continue
		}
		n++
		w.count("w_v1_ops_checked")
		w.count("w_v1_ops_checked_handle=" + op.handle)
		switch {
		case err != nil:
			w.count("w_v1_reads_failed")
		case readMod:
			w.violation(fmt.Sprintf("v1 tampering under an open handle: read through %s succeeds on modified key file bytes: %s", op.handle, tag), detail)
		case member != nil && !member(got):
			w.violation(fmt.Sprintf("v1 tampering under an open handle: read through %s returns a key that is neither genuine nor new: %s", op.handle, tag), detail)
		case member == nil && !sameSecrets(got, want):
			w.violation(fmt.Sprintf("v1 tampering under an open handle: read through %s returns other key material than the genuine one: %s", op.handle, tag), detail)
		default:
			w.count("w_v1_reads_served_without_reading_the_modified_file(genuine material, not judged)")
			w.count("w_v1_reads_served_without_reading_the_modified_file handle=" + op.handle)
		}
	}
	r.Cases(n)
	return trace
}

func (w *warmV1) apply(m *warmV1Mutation, genuine []byte) (tampered []byte, what string, ok bool) {
	switch m.class {
	case "bit-flip":
		t := append([]byte{}, genuine...)
		t[m.off] ^= 1 << m.bit
		return t, fmt.Sprintf("offset %d bit %d", m.off, m.bit), true
	case "byte-value":
		vals := byteValuesFor(genuine[m.off], false)
		v := vals[m.valIdx%len(vals)]
		t := append([]byte{}, genuine...)
		t[m.off] = v.v
		return t, fmt.Sprintf("offset %d 0x%02x -> 0x%02x (%s)", m.off, genuine[m.off], v.v, v.rule), true
	case "truncate", "extend":
		for _, te := range warmV1TruncExt {
			if te.variant == m.variant {
				t := te.f(genuine)
				return t, fmt.Sprintf("%d -> %d bytes", len(genuine), len(t)), true
			}
		}
	default:
		b, err := os.ReadFile(m.other.path)
		if err != nil {
			return nil, "", false
		}
		return b, "content of " + m.other.role() + " of " + m.other.owner, true
	}
	return nil, "", false
}

// readOnlyCase: modify one file, read through the warm and a later handle, put the genuine bytes back.
func (w *warmV1) readOnlyCase(gr *warmGroup, f slot, m *warmV1Mutation) bool {
	r := w.r
	genuine, err := os.ReadFile(f.path)
	if err != nil {
		r.Inconclusive("warm v1: " + err.Error())
		return false
	}
	tampered, what, ok := w.apply(m, genuine)
	if !ok || bytes.Equal(tampered, genuine) {
		return true
	}
	var otherGenuine []byte
	if m.class == "swap-with-another-owner's-file" {
		otherGenuine, _ = os.ReadFile(m.other.path)
		os.WriteFile(m.other.path, genuine, 0o600)
		w.obs.set(tampered, genuine)
	} else {
		w.obs.set(tampered)
	}
	if err := warmWriteFile(f.path, tampered); err != nil {
		r.Inconclusive("warm v1: " + err.Error())
		return false
	}
	// the handle opened afterwards: in every second case at quick (tamper.go reads every flipped byte through such handles)
	var fresh *filesystem.KeyStore
	if w.n%2 == 0 || r.Thorough() {
		if fresh, err = w.open(-1); err != nil {
			r.Inconclusive("warm v1: " + err.Error())
			return false
		}
	}
	w.n++
	w.count("w_v1_cases")
	w.count("w_v1_cases_mutation=" + m.class)
	r.SetAdd("w_v1_mutations", m.name())
	r.SetAdd("w_v1_files", w.cfg.name+"|"+f.role()+"|"+f.owner)
	r.Distinct(fmt.Sprintf("%s|c-warm|%s|%s", w.cfg.name, f.role(), m.name()))
	trace := w.judge(gr, f, m, what, w.readOps(gr, fresh, w.n%4 == 0 || r.Thorough()), tampered, genuine, "", nil)
	w.obs.set()
	warmWriteFile(f.path, genuine)
	if otherGenuine != nil {
		os.WriteFile(m.other.path, otherGenuine, 0o600)
	}
	if m.class == "replay-other-version-of-the-same-key" {
		// the replayed file is a valid key of the same owner and purpose: a handle that read it has cached it under the
		// current key's name. That is the harness' doing; empty the cache and warm it again.
		w.W.Reset()
		if err := w.baseline(gr); err != nil {
			r.Inconclusive(fmt.Sprintf("warm v1 (%s): %s of %s after a replay case: %v", w.cfg.name, gr.kind, gr.owner.name, err))
			return false
		}
	}
	if m.class != "bit-flip" && m.class != "byte-value" || w.n <= 2 {
		r.SampleN("c-warm/"+w.cfg.name+"/"+m.class, 1, map[string]interface{}{"oracle": "c (warm handles)", "config": w.cfg.name, "file": f.path, "mutation": m.name(), "modification": what, "operations": trace})
	}
	return true
}

// updateCase: modify one file, make an update through the warm handle (not judged), read again, restore, re-baseline.
func (w *warmV1) updateCase(gr *warmGroup, f slot, update string) bool {
	r := w.r
	fail := func(err error) bool {
		r.Inconclusive(fmt.Sprintf("warm v1 (%s, %s of %s, %s): %v", w.cfg.name, f.role(), f.owner, update, err))
		return false
	}
	genuine, err := os.ReadFile(f.path)
	if err != nil {
		return fail(err)
	}
	m := &warmV1Mutation{class: "bit-flip", off: len(genuine) / 2, bit: uint(w.r.Seed % 8)}
	tampered, what, _ := w.apply(m, genuine)
	if err := os.WriteFile(f.path, tampered, 0o600); err != nil {
		return fail(err)
	}
	w.obs.set(tampered)
	w.count("w_v1_update_cases")
	w.count("w_v1_update_cases_update=" + update)
	r.Distinct(fmt.Sprintf("%s|c-warm-update|%s|%s", w.cfg.name, f.role(), update))
	var uerr error
	site, stack := guard(func() {
		switch update {
		case "rotate":
			uerr = ksrig.ModelGenerate(w.W, gr.kind, gr.owner.id)
		case "destroy-rotated":
			uerr = ksrig.ModelDestroyRotated(w.W, gr.kind, gr.owner.id, 2)
		case "destroy-current":
			uerr = ksrig.ModelDestroyCurrent(w.W, gr.kind, gr.owner.id)
		}
	})
	if site != "" {
		w.violation(fmt.Sprintf("v1 tampering under an open handle: %s through keystore panics at %s (file=%s)", update, site, f.role()),
			func() map[string]interface{} {
				return map[string]interface{}{"config": w.cfg.name, "file": f.path, "modification": what, "stack": stack}
			})
	}
	if uerr == nil {
		w.count("w_v1_updates_succeeded_over_a_modified_file(not judged: v1 updates do not read the key) update=" + update)
	} else {
		w.count("w_v1_updates_failed(not judged) update=" + update)
	}
	fresh, err := w.open(-1)
	if err != nil {
		return fail(err)
	}
	// the new current key, if the rotation made one: what the later handle reads from the new (unmodified) file
	var newKey []byte
	if update == "rotate" && uerr == nil {
		w.obs.reset()
		if k, _, err := ksrig.ModelCurrent(fresh, gr.kind, gr.owner.id); err == nil && w.obs.readsTampered == 0 {
			newKey = k
		}
	}
	member := func(got [][]byte) bool {
		for _, k := range got {
			ok := bytes.Equal(k, gr.cur) || (newKey != nil && bytes.Equal(k, newKey))
			for _, g := range gr.all {
				ok = ok || bytes.Equal(k, g)
			}
			if !ok {
				return false
			}
		}
		return true
	}
	trace := w.judge(gr, f, m, what, w.readOps(gr, fresh, true), tampered, genuine, "after-"+update+":", member)
	// both handles must agree on the current key after a rotation that reached the storage
	if newKey != nil {
		if k, _, err := ksrig.ModelCurrent(w.W, gr.kind, gr.owner.id); err == nil && !bytes.Equal(k, newKey) && !bytes.Equal(k, gr.cur) {
			w.violation(fmt.Sprintf("v1 tampering under an open handle: warm handle returns a current key that is neither the old nor the new one after %s (file=%s)", update, f.role()),
				func() map[string]interface{} {
					return map[string]interface{}{"config": w.cfg.name, "file": f.path, "returned": ev.Hex(k), "new": ev.Hex(newKey), "operations": trace}
				})
		}
	}
	// put the genuine bytes back wherever the modified ones are now
	w.obs.set()
	for _, s := range w.files(gr) {
		if b, err := os.ReadFile(s.path); err == nil && bytes.Equal(b, tampered) {
			if err := os.WriteFile(s.path, genuine, 0o600); err != nil {
				return fail(err)
			}
		}
	}
	r.SampleN("c-warm-update/"+w.cfg.name+"/"+update, 1, map[string]interface{}{"oracle": "c (warm handles, update cases)", "config": w.cfg.name, "file": f.path, "modification": what,
		"update": update, "update_error": fmt.Sprint(uerr), "operations": trace})
	if update == "destroy-current" {
		return true // the group has no current key any more; it is not used again
	}
	w.W.Reset() // v1 handles keep keys they cached before a rotation (C06's subject): start the group's cache afresh
	if err := w.baseline(gr); err != nil {
		return fail(fmt.Errorf("re-reading the group after restoring: %w", err))
	}
	return true
}

func runWarmV1(r *ev.Run, cfg config) {
	g := newRig(cfg, "")
	defer g.destroy()
	w := &warmV1{r: r, cfg: cfg, g: g, obs: &warmObs{}, cnt: map[string]int64{}, seen: map[string]bool{}}
	defer func() {
		for k, v := range w.cnt {
			r.Count(k, v)
		}
	}()
	var err error
	if w.W, err = w.open(cfg.cache); err == nil {
		err = populate(w.W, 3)
	}
	if err != nil {
		r.Inconclusive("warm v1: cannot populate: " + err.Error())
		return
	}
	for _, o := range owners() {
		for _, k := range ksrig.ModelKinds {
			if k.PerClient() == (o.id != nil) {
				w.groups = append(w.groups, &warmGroup{kind: k, owner: o})
			}
		}
	}
	for _, gr := range w.groups {
		if err := w.baseline(gr); err != nil {
			r.Inconclusive(fmt.Sprintf("warm v1 (%s): %s of %s: %v", cfg.name, gr.kind, gr.owner.name, err))
			return
		}
	}
	for gi, gr := range w.groups {
		group := w.files(gr)
		for fi, f := range group {
			if f.rotated && (!gr.kind.HasGetAll() || (fi > 1 && !r.Thorough())) {
				continue // nothing reads the rotated files of this kind / quick: the newest rotated file only
			}
			st, err := os.Stat(f.path)
			if err != nil {
				r.Inconclusive("warm v1: " + err.Error())
				return
			}
			for _, m := range w.mutations(gr, f, gi+fi, int(st.Size()), group) {
				m := m
				if !w.readOnlyCase(gr, f, &m) {
					return
				}
			}
		}
		// the warm handle still serves the genuine keys
		if err := w.baseline(gr); err != nil {
			r.Inconclusive(fmt.Sprintf("warm v1 (%s): %s of %s after the sweep: %v", cfg.name, gr.kind, gr.owner.name, err))
			return
		}
	}
	// update cases: rotation over a modified current file, over a modified rotated file, destruction of a rotated key while
	// another file is modified, destruction of the modified current key
	for _, gr := range w.groups {
		type uc struct {
			rotated bool
			update  string
		}
		list := []uc{{false, "rotate"}, {true, "rotate"}, {false, "destroy-rotated"}, {true, "destroy-rotated"}, {false, "destroy-current"}}
		for _, u := range list {
			if (u.update != "rotate" && !gr.kind.HasDestroy()) || (u.rotated && !gr.kind.HasGetAll()) {
				continue
			}
			var target *slot
			for _, f := range w.files(gr) {
				if f.rotated == u.rotated {
					f := f
					target = &f // current: the only one; rotated: the last listed
				}
			}
			if target == nil {
				continue
			}
			if !w.updateCase(gr, *target, u.update) {
				return
			}
		}
	}
}
