package c07

// Oracle (b) "each stored key is bound to its owner and purpose, so a key file copied or renamed to another
// identity fails to load".

import (
	"fmt"
	"os"
	"path/filepath"

	"github.com/cossacklabs/acra/keystore/v2/keystore/api"

	"verif/harness/internal/ev"
	"verif/harness/internal/rig/ksrig"
)

type slot struct {
	owner   string // "alice", "bob-2_old", "server"
	kind    ksrig.ModelKind
	id      []byte
	path    string // v1: absolute file path; v2: ring path
	rotated bool
}

func (s slot) role() string {
	if s.rotated {
		return "rotated:" + s.kind.String()
	}
	return "current:" + s.kind.String()
}

func relation(src, dst slot) string {
	switch {
	case src.owner == dst.owner && src.kind == dst.kind:
		return "same-owner-same-purpose"
	case src.owner == dst.owner:
		return "same-owner-other-purpose"
	case src.owner == "server" || dst.owner == "server":
		return "client<->server-key"
	case src.kind == dst.kind:
		return "other-client-same-purpose"
	}
	return "other-client-other-purpose"
}

func owners() []struct {
	name string
	id   []byte
} {
	return []struct {
		name string
		id   []byte
	}{{string(clientA), clientA}, {string(clientB), clientB}, {"server", nil}}
}

func v1Slots(dir string) []slot {
	var out []slot
	for _, o := range owners() {
		for _, k := range ksrig.ModelKinds {
			if k.PerClient() != (o.id != nil) {
				continue
			}
			cur := filepath.Join(dir, ksrig.ModelV1FileName(k, o.id))
			if _, err := os.Stat(cur); err == nil {
				out = append(out, slot{o.name, k, o.id, cur, false})
			}
			olds, _ := os.ReadDir(cur + ".old")
			for _, e := range olds {
				out = append(out, slot{o.name, k, o.id, filepath.Join(cur+".old", e.Name()), true})
			}
		}
	}
	return out
}

func runBindingV1(r *ev.Run, cfg config) {
	g := newRig(cfg, "")
	defer g.destroy()
	ks, err := g.open(cfg.cache)
	if err == nil {
		err = populate(ks, 2)
	}
	if err != nil {
		r.Inconclusive("binding v1: cannot populate: " + err.Error())
		return
	}
	slots := v1Slots(g.dir)
	content := map[string][]byte{}
	for _, s := range slots {
		b, err := os.ReadFile(s.path)
		if err != nil {
			r.Inconclusive("binding v1: " + err.Error())
			return
		}
		content[s.path] = b
	}
	// sanity of the rig: every untouched slot loads
	for _, dst := range slots {
		if !dst.rotated {
			fresh, _ := g.open(-1)
			if _, _, err := ksrig.ModelCurrent(fresh, dst.kind, dst.id); err != nil {
				r.Inconclusive(fmt.Sprintf("binding v1: untouched %s does not load: %v", dst.role(), err))
				return
			}
		}
	}
	for _, src := range slots {
		for _, dst := range slots {
			if src.path == dst.path {
				continue
			}
			rel := relation(src, dst)
			if src.owner == dst.owner {
				// purpose binding inside one v1 identity is deliberately not demanded
				r.Count("b_v1_same_owner_pairs_not_demanded", 1)
				continue
			}
			if dst.rotated && !dst.kind.HasGetAll() {
				r.Count("b_v1_rotated_destinations_without_reader_skipped", 1)
				continue
			}
			if err := os.WriteFile(dst.path, content[src.path], 0o600); err != nil {
				r.Inconclusive("binding v1: " + err.Error())
				return
			}
			fresh, err := g.open(-1)
			if err != nil {
				r.Inconclusive("binding v1: " + err.Error())
				return
			}
			var got [][]byte
			var lerr error
			site, stack := guard(func() {
				if dst.rotated {
					got, lerr = ksrig.ModelAll(fresh, dst.kind, dst.id)
				} else {
					var v []byte
					v, _, lerr = ksrig.ModelCurrent(fresh, dst.kind, dst.id)
					got = [][]byte{v}
				}
			})
			os.WriteFile(dst.path, content[dst.path], 0o600)
			r.Case()
			r.Count("b_relocations_checked_v1", 1)
			r.Distinct(fmt.Sprintf("%s|b|%s->%s|%s", cfg.name, src.role(), dst.role(), rel))
			detail := map[string]interface{}{"config": cfg.name, "seed": r.Seed, "src": src.path, "dst": dst.path, "relation": rel, "stack": stack, "returned": hexAll(got)}
			switch {
			case site != "":
				r.Violation(fmt.Sprintf("v1 relocated key file: load panics at %s (src=%s dst=%s %s)", site, src.role(), dst.role(), rel), detail)
			case lerr == nil:
				r.Violation(fmt.Sprintf("v1 relocated key file loads under another owner: src=%s dst=%s relation=%s", src.role(), dst.role(), rel), detail)
			default:
				r.Count("b_relocations_rejected_v1", 1)
			}
		}
	}
	r.SampleN("b/v1", 1, map[string]interface{}{"oracle": "b", "config": cfg.name, "slots": len(slots), "example": "content of alice_storage_sym written over bob-2_old_storage_sym, then GetClientIDSymmetricKey(bob-2_old) on a fresh handle"})
}

func hexAll(l [][]byte) []string {
	var out []string
	for _, b := range l {
		out = append(out, ev.Hex(b))
	}
	return out
}

type ringOpener interface {
	OpenKeyRing(path string) (api.KeyRing, error)
}

type ringOpenerRW interface {
	OpenKeyRingRW(path string) (api.MutableKeyRing, error)
}

func v2Slots() []slot {
	var out []slot
	for _, o := range owners() {
		for _, k := range ksrig.ModelKinds {
			if k.PerClient() != (o.id != nil) {
				continue
			}
			out = append(out, slot{o.name, k, o.id, ksrig.ModelV2RingPath(k, o.id), false})
		}
	}
	return out
}

func runBindingV2(r *ev.Run, cfg config) {
	g := newRig(cfg, "")
	defer g.destroy()
	ks, err := g.open(0)
	if err == nil {
		err = populate(ks, 2)
	}
	if err != nil {
		r.Inconclusive("binding v2: cannot populate: " + err.Error())
		return
	}
	slots := v2Slots()
	content := map[string][]byte{}
	// stored bytes of every ring, as the back end returns them
	for _, c := range g.log.Calls() {
		if c.Op == "Put" && c.Err == "" {
			content[c.Path] = c.Data
		}
	}
	ringFile := func(s slot) string { return s.path + ".keyring" }
	stored := func(s slot) []byte { return content[ringFile(s)+".new"] }
	for _, s := range slots {
		if len(stored(s)) == 0 {
			r.Inconclusive("binding v2: no stored bytes for " + s.path)
			return
		}
	}
	for _, src := range slots {
		for _, dst := range slots {
			if src.path == dst.path {
				continue
			}
			rel := relation(src, dst)
			srcBytes, dstFile := stored(src), ringFile(dst)
			if cfg.dir {
				// really copy the file on disk
				if err := os.WriteFile(filepath.Join(g.dir, dstFile), srcBytes, 0o600); err != nil {
					r.Inconclusive("binding v2: " + err.Error())
					return
				}
				g.getHook = nil
			} else {
				g.getHook = func(path string, data []byte) []byte {
					if path == dstFile {
						return append([]byte{}, srcBytes...)
					}
					return data
				}
			}
			fresh, err := g.open(0)
			if err != nil {
				r.Inconclusive("binding v2: " + err.Error())
				return
			}
			var openErr, getErr error
			var got []byte
			site, stack := guard(func() {
				_, openErr = fresh.(ringOpener).OpenKeyRing(dst.path)
				got, _, getErr = ksrig.ModelCurrent(fresh, dst.kind, dst.id)
			})
			if cfg.dir {
				os.WriteFile(filepath.Join(g.dir, dstFile), stored(dst), 0o600)
			}
			g.getHook = nil
			g.close()
			r.Case()
			r.Count("b_relocations_checked_v2", 1)
			r.Distinct(fmt.Sprintf("%s|b|%s->%s|%s", cfg.name, src.kind, dst.kind, rel))
			detail := map[string]interface{}{"config": cfg.name, "seed": r.Seed, "src": src.path, "dst": dst.path, "relation": rel, "stack": stack, "returned": ev.Hex(got)}
			switch {
			case site != "":
				r.Violation(fmt.Sprintf("v2 relocated key ring: load panics at %s (relation=%s)", site, rel), detail)
			case openErr == nil || getErr == nil:
				r.Violation(fmt.Sprintf("v2 relocated key ring loads under another path: relation=%s", rel), detail)
			default:
				r.Count("b_relocations_rejected_v2", 1)
			}
		}
	}
	// sanity: untouched rings still load (the rig itself did not break them)
	fresh, _ := g.open(0)
	for _, s := range slots {
		if _, err := fresh.(ringOpener).OpenKeyRing(s.path); err != nil {
			r.Inconclusive(fmt.Sprintf("binding v2: untouched ring %s does not load: %v", s.path, err))
		}
	}
	r.SampleN("b/"+cfg.name, 1, map[string]interface{}{"oracle": "b", "config": cfg.name, "rings": len(slots), "example": "bytes of client/alice/storage-sym.keyring presented as client/bob-2_old/storage-sym.keyring, then OpenKeyRing + GetClientIDSymmetricKey(bob-2_old) on a fresh handle"})
}

func runBinding(r *ev.Run) {
	runBindingV1(r, configs[0])
	runBindingV2(r, configs[3])
	runBindingV2(r, configs[4])
}
