package c07

// Oracle (b) "each stored key is bound to its owner and purpose, so a key file copied or renamed to another
// identity fails to load".

import (
	"fmt"
	"os"
	"path/filepath"

	"github.com/cossacklabs/acra/keystore/v2/keystore/api"

	"verif/harness/internal/ev"
	"verif/harness/internal/rig/ksrig"
)

type slot struct {
	owner   string // "alice", "bob-2_old", "server"
	kind    ksrig.ModelKind
	id      []byte
	path    string // v1: absolute file path; v2: ring path
	rotated bool
}

func (s slot) role() string {
	if s.rotated {
		return "rotated:" + s.kind.String()
	}
	return "current:" + s.kind.String()
}

func relation(src, dst slot) string {
	switch {
	case src.owner == dst.owner && src.kind == dst.kind:
		return "same-owner-same-purpose"
	case src.owner == dst.owner:
		return "same-owner-other-purpose"
	case src.owner == "server" || dst.owner == "server":
		return "client<->server-key"
	case src.kind == dst.kind:
		return "other-client-same-purpose"
	}
	return "other-client-other-purpose"
}

type owner struct {
	name string
	id   []byte // nil: the server-global keys
}

func owners() []owner {
	return []owner{{string(clientA), clientA}, {string(clientB), clientB}, {"server", nil}}
}

// nearPair is two valid client ids (keystore.ValidateID: letters, digits, '-', '_', ' ', 5..256 bytes) that are distinct
// identities but nearly the same text. A key stored for one of them must not load as the other's
// ("bound to its owner ... a key file copied or renamed to another identity fails to load"), however the owner binding
// normalises, truncates or compares the id.
type nearPair struct {
	how  string
	a, b []byte
}

var nearPairs = []nearPair{
	{"trailing-space", []byte("alice"), []byte("alice ")},
	{"leading-space", []byte("alice"), []byte(" alice")},
	{"letter-case", []byte("alice"), []byte("Alice")},
	{"one-id-prefix-of-the-other", []byte("alice"), []byte("alice2")},
	{"dash-vs-underscore", []byte("bob-2"), []byte("bob_2")},
}

func (p nearPair) owners() []owner {
	return []owner{{string(p.a), p.a}, {string(p.b), p.b}}
}

// populateOwners generates `gens` keys of every kind each owner can have.
func populateOwners(ks ksrig.FullKeyStore, gens int, own []owner) error {
	for g := 0; g < gens; g++ {
		for _, k := range ksrig.ModelKinds {
			for _, o := range own {
				if k.PerClient() != (o.id != nil) {
					continue
				}
				if err := ksrig.ModelGenerate(ks, k, o.id); err != nil {
					return fmt.Errorf("generate %s/%q: %w", k, o.id, err)
				}
			}
		}
	}
	return nil
}

// nearTag is appended to signatures and class keys of the near-identical-id matrix ("" for the far-apart owners).
func nearTag(near string) string {
	if near == "" {
		return ""
	}
	return " ids-differ-by=" + near
}

func v1Slots(dir string, own []owner) []slot {
	var out []slot
	for _, o := range own {
		for _, k := range ksrig.ModelKinds {
			if k.PerClient() != (o.id != nil) {
				continue
			}
			cur := filepath.Join(dir, ksrig.ModelV1FileName(k, o.id))
			if _, err := os.Stat(cur); err == nil {
				out = append(out, slot{o.name, k, o.id, cur, false})
			}
			olds, _ := os.ReadDir(cur + ".old")
			for _, e := range olds {
				out = append(out, slot{o.name, k, o.id, filepath.Join(cur+".old", e.Name()), true})
			}
		}
	}
	return out
}

// runBindingV1: own = the identities whose stored files are exchanged; near = how their ids differ ("" = far apart).
func runBindingV1(r *ev.Run, cfg config, own []owner, near string) {
	g := newRig(cfg, "")
	defer g.destroy()
	ks, err := g.open(cfg.cache)
	if err == nil {
		err = populateOwners(ks, 2, own)
	}
	if err != nil {
		r.Inconclusive("binding v1: cannot populate: " + err.Error())
		return
	}
	slots := v1Slots(g.dir, own)
	if near != "" && len(slots) < 2*3*2 {
		// two clients x three kinds x (current + one rotated): the near ids must really have produced distinct files
		r.Inconclusive(fmt.Sprintf("binding v1: ids %q / %q gave only %d key files", own[0].id, own[1].id, len(slots)))
		return
	}
	content := map[string][]byte{}
	for _, s := range slots {
		b, err := os.ReadFile(s.path)
		if err != nil {
			r.Inconclusive("binding v1: " + err.Error())
			return
		}
		content[s.path] = b
	}
	// sanity of the rig: every untouched slot loads
	for _, dst := range slots {
		if !dst.rotated {
			fresh, _ := g.open(-1)
			if _, _, err := ksrig.ModelCurrent(fresh, dst.kind, dst.id); err != nil {
				r.Inconclusive(fmt.Sprintf("binding v1: untouched %s does not load: %v", dst.role(), err))
				return
			}
		}
	}
	for _, src := range slots {
		for _, dst := range slots {
			if src.path == dst.path {
				continue
			}
			rel := relation(src, dst)
			if src.owner == dst.owner {
				// purpose binding inside one v1 identity is deliberately not demanded
				r.Count("b_v1_same_owner_pairs_not_demanded", 1)
				continue
			}
			if dst.rotated && !dst.kind.HasGetAll() {
				r.Count("b_v1_rotated_destinations_without_reader_skipped", 1)
				continue
			}
			if err := os.WriteFile(dst.path, content[src.path], 0o600); err != nil {
				r.Inconclusive("binding v1: " + err.Error())
				return
			}
			fresh, err := g.open(-1)
			if err != nil {
				r.Inconclusive("binding v1: " + err.Error())
				return
			}
			var got [][]byte
			var lerr error
			site, stack := guard(func() {
				if dst.rotated {
					got, lerr = ksrig.ModelAll(fresh, dst.kind, dst.id)
				} else {
					var v []byte
					v, _, lerr = ksrig.ModelCurrent(fresh, dst.kind, dst.id)
					got = [][]byte{v}
				}
			})
			os.WriteFile(dst.path, content[dst.path], 0o600)
			r.Case()
			r.Count("b_relocations_checked_v1", 1)
			if near != "" {
				r.Count("b_relocations_checked_v1_near_identical_ids", 1)
				r.SetAdd("b_near_identical_id_pairs_v1", near)
			}
			r.Distinct(fmt.Sprintf("%s|b|%s->%s|%s%s", cfg.name, src.role(), dst.role(), rel, nearTag(near)))
			detail := map[string]interface{}{"config": cfg.name, "seed": r.Seed, "src": src.path, "dst": dst.path, "src_id": string(src.id), "dst_id": string(dst.id), "relation": rel, "stack": stack, "returned": hexAll(got)}
			switch {
			case site != "":
				r.Violation(fmt.Sprintf("v1 relocated key file: load panics at %s (src=%s dst=%s %s)%s", site, src.role(), dst.role(), rel, nearTag(near)), detail)
			case lerr == nil:
				r.Violation(fmt.Sprintf("v1 relocated key file loads under another owner: src=%s dst=%s relation=%s%s", src.role(), dst.role(), rel, nearTag(near)), detail)
			default:
				r.Count("b_relocations_rejected_v1", 1)
			}
		}
	}
	if near != "" {
		r.SampleN("b/v1/near", 5, map[string]interface{}{"oracle": "b", "config": cfg.name, "slots": len(slots), "ids": []string{fmt.Sprintf("%q", own[0].id), fmt.Sprintf("%q", own[1].id)}, "ids_differ_by": near,
			"example": fmt.Sprintf("content of %q written over %q, then GetClientIDSymmetricKey(%q) on a fresh handle", ksrig.ModelV1FileName(ksrig.ModelStorageSym, own[0].id), ksrig.ModelV1FileName(ksrig.ModelStorageSym, own[1].id), own[1].id)})
		return
	}
	r.SampleN("b/v1", 1, map[string]interface{}{"oracle": "b", "config": cfg.name, "slots": len(slots), "example": "content of alice_storage_sym written over bob-2_old_storage_sym, then GetClientIDSymmetricKey(bob-2_old) on a fresh handle"})
}

func hexAll(l [][]byte) []string {
	var out []string
	for _, b := range l {
		out = append(out, ev.Hex(b))
	}
	return out
}

type ringOpener interface {
	OpenKeyRing(path string) (api.KeyRing, error)
}

type ringOpenerRW interface {
	OpenKeyRingRW(path string) (api.MutableKeyRing, error)
}

func v2Slots(own []owner) []slot {
	var out []slot
	for _, o := range own {
		for _, k := range ksrig.ModelKinds {
			if k.PerClient() != (o.id != nil) {
				continue
			}
			out = append(out, slot{o.name, k, o.id, ksrig.ModelV2RingPath(k, o.id), false})
		}
	}
	return out
}

func runBindingV2(r *ev.Run, cfg config, own []owner, near string) {
	g := newRig(cfg, "")
	defer g.destroy()
	ks, err := g.open(0)
	if err == nil {
		err = populateOwners(ks, 2, own)
	}
	if err != nil {
		r.Inconclusive("binding v2: cannot populate: " + err.Error())
		return
	}
	slots := v2Slots(own)
	content := map[string][]byte{}
	// stored bytes of every ring, as the back end returns them
	for _, c := range g.log.Calls() {
		if c.Op == "Put" && c.Err == "" {
			content[c.Path] = c.Data
		}
	}
	ringFile := func(s slot) string { return s.path + ".keyring" }
	stored := func(s slot) []byte { return content[ringFile(s)+".new"] }
	for _, s := range slots {
		if len(stored(s)) == 0 {
			r.Inconclusive("binding v2: no stored bytes for " + s.path)
			return
		}
	}
	for _, src := range slots {
		for _, dst := range slots {
			if src.path == dst.path {
				continue
			}
			rel := relation(src, dst)
			srcBytes, dstFile := stored(src), ringFile(dst)
			if cfg.dir {
				// really copy the file on disk
				if err := os.WriteFile(filepath.Join(g.dir, dstFile), srcBytes, 0o600); err != nil {
					r.Inconclusive("binding v2: " + err.Error())
					return
				}
				g.getHook = nil
			} else {
				g.getHook = func(path string, data []byte) []byte {
					if path == dstFile {
						return append([]byte{}, srcBytes...)
					}
					return data
				}
			}
			fresh, err := g.open(0)
			if err != nil {
				r.Inconclusive("binding v2: " + err.Error())
				return
			}
			var openErr, getErr error
			var got []byte
			site, stack := guard(func() {
				_, openErr = fresh.(ringOpener).OpenKeyRing(dst.path)
				got, _, getErr = ksrig.ModelCurrent(fresh, dst.kind, dst.id)
			})
			if cfg.dir {
				os.WriteFile(filepath.Join(g.dir, dstFile), stored(dst), 0o600)
			}
			g.getHook = nil
			g.close()
			r.Case()
			r.Count("b_relocations_checked_v2", 1)
			if near != "" {
				r.Count("b_relocations_checked_v2_near_identical_ids", 1)
				r.SetAdd("b_near_identical_id_pairs_v2", near)
			}
			r.Distinct(fmt.Sprintf("%s|b|%s->%s|%s%s", cfg.name, src.kind, dst.kind, rel, nearTag(near)))
			detail := map[string]interface{}{"config": cfg.name, "seed": r.Seed, "src": src.path, "dst": dst.path, "relation": rel, "stack": stack, "returned": ev.Hex(got)}
			switch {
			case site != "":
				r.Violation(fmt.Sprintf("v2 relocated key ring: load panics at %s (relation=%s)%s", site, rel, nearTag(near)), detail)
			case openErr == nil || getErr == nil:
				r.Violation(fmt.Sprintf("v2 relocated key ring loads under another path: relation=%s%s", rel, nearTag(near)), detail)
			default:
				r.Count("b_relocations_rejected_v2", 1)
			}
		}
	}
	// sanity: untouched rings still load (the rig itself did not break them)
	fresh, _ := g.open(0)
	for _, s := range slots {
		if _, err := fresh.(ringOpener).OpenKeyRing(s.path); err != nil {
			r.Inconclusive(fmt.Sprintf("binding v2: untouched ring %s does not load: %v", s.path, err))
		}
	}
	if near != "" {
		r.SampleN("b/"+cfg.name+"/near", 5, map[string]interface{}{"oracle": "b", "config": cfg.name, "rings": len(slots), "ids": []string{fmt.Sprintf("%q", own[0].id), fmt.Sprintf("%q", own[1].id)}, "ids_differ_by": near,
			"example": fmt.Sprintf("bytes of %q presented as %q, then OpenKeyRing + GetClientIDSymmetricKey(%q) on a fresh handle", slots[1].path+".keyring", slots[len(slots)/2+1].path+".keyring", own[1].id)})
		return
	}
	r.SampleN("b/"+cfg.name, 1, map[string]interface{}{"oracle": "b", "config": cfg.name, "rings": len(slots), "example": "bytes of client/alice/storage-sym.keyring presented as client/bob-2_old/storage-sym.keyring, then OpenKeyRing + GetClientIDSymmetricKey(bob-2_old) on a fresh handle"})
}

func runBinding(r *ev.Run) {
	runBindingV1(r, configs[0], owners(), "")
	runBindingV2(r, configs[3], owners(), "")
	runBindingV2(r, configs[4], owners(), "")
	// the same matrix between identities whose ids are nearly the same text
	for _, p := range nearPairs {
		runBindingV1(r, configs[0], p.owners(), p.how)
		runBindingV2(r, configs[3], p.owners(), p.how)
		runBindingV2(r, configs[4], p.owners(), p.how)
	}
}
