package c07

// Oracle (d) "no keystore operation reads or writes outside the keystore root, whatever client id or key path it
// is given". The keystore root sits four levels deep inside a sandbox directory; everything in the sandbox outside
// the root is snapshotted before and compared after every call (writes, renames, removals), decoy files are planted
// where an escaping path would land (reads), and for v1 — whose Storage is the raw OS interface with no
// containment of its own — every path handed to a storage call must lie inside the root.

import (
	"bytes"
	"crypto/sha256"
	"fmt"
	"os"
	"path/filepath"
	"sort"
	"strings"

	"github.com/cossacklabs/acra/keystore/v2/keystore/filesystem/backend"
	"github.com/cossacklabs/themis/gothemis/keys"

	"verif/harness/internal/ev"
	"verif/harness/internal/rig/ksrig"
)

type hostile struct {
	class string
	id    string
}

// hostileIDs: at most three ".." levels so that every landing place stays inside the sandbox.
func hostileIDs() []hostile {
	long := strings.Repeat("a", 300)
	return []hostile{
		{"dotdot-prefix", "../x"},
		{"dotdot-prefix", "../../evil"},
		{"dotdot-prefix", "../../../evil3"},
		{"dotdot-inside", "a/../../b"},
		{"dotdot-inside", "ok/../../../c"},
		{"dotdot-only", ".."},
		{"dotdot-only", "../.."},
		{"absolute", "/abs_target"},
		{"absolute", "//abs2"},
		{"backslash", "..\\x"},
		{"backslash", "..\\..\\winevil"},
		{"nul", "nul\x00byte"},
		{"nul", "../\x00"},
		{"long", long},
		{"long-dotdot", "../../" + long},
		{"unicode-separator", "..∕..∕u1"},
		{"unicode-separator", "..／..／u2"},
		{"slash-subdir", "sub/dir"},
		{"dot", "./."},
		{"empty", ""},
		{"trailing-slash", "../../t/"},
		// sibling directories whose names start with the root directory's name ("root", see newSandbox): a containment
		// test done on strings instead of path components lets these through
		{"sibling-sharing-root-name-prefix", "../root.bak/k"},
		{"sibling-sharing-root-name-prefix", "../root2/k"},
		{"sibling-sharing-root-name-prefix", "../rootx"},
		{"sibling-sharing-root-name-prefix", "a/../../root-old/deep/k"},
		{"sibling-sharing-root-name-prefix", "../../l3.bak/k"},
		// ids that START like a valid client id (five or more characters of the accepted alphabet) and only then carry path
		// components: a validation that looks at a prefix of the id, or stops at the first separator, lets these through.
		// "alice_storage.old" is the history directory of the legitimate client (rotated twice in runConfineV1), so the
		// first component exists and the operating system resolves the path.
		{"valid-id-then-path", "alice_storage.old/../../escaped"},
		{"valid-id-then-path", "alice_storage_sym.old/../../../esc2"},
		{"valid-id-then-path", "validid/../../x5"},
		{"valid-id-then-path", "client_one/.."},
		{"valid-id-then-path", "client-two/../../../root.bak/k"},
		{"valid-id-then-path", "abcde/"},
		{"valid-id-then-path", "abcde\x00/../../z"},
	}
}

type snapshot map[string]string

func takeSnapshot(sandbox, root string) snapshot {
	s := snapshot{}
	filepath.Walk(sandbox, func(p string, fi os.FileInfo, err error) error {
		if err != nil || fi == nil {
			return nil
		}
		if p == root {
			return filepath.SkipDir
		}
		rel, _ := filepath.Rel(sandbox, p)
		if fi.IsDir() {
			s[rel] = "dir"
			return nil
		}
		b, _ := os.ReadFile(p)
		s[rel] = fmt.Sprintf("file:%d:%x", fi.Size(), sha256.Sum256(b))
		return nil
	})
	return s
}

func (s snapshot) diff(after snapshot) []string {
	var out []string
	for k, v := range after {
		if old, ok := s[k]; !ok {
			out = append(out, "created "+k)
		} else if old != v {
			out = append(out, "modified "+k)
		}
	}
	for k := range s {
		if _, ok := after[k]; !ok {
			out = append(out, "removed "+k)
		}
	}
	sort.Strings(out)
	return out
}

// restore brings the outside of the root back to the snapshot (removes what was created).
func restoreOutside(sandbox, root string, before snapshot, decoys map[string][]byte) {
	after := takeSnapshot(sandbox, root)
	var created []string
	for k := range after {
		if _, ok := before[k]; !ok {
			created = append(created, k)
		}
	}
	sort.Sort(sort.Reverse(sort.StringSlice(created)))
	for _, k := range created {
		os.RemoveAll(filepath.Join(sandbox, k))
	}
	for p, b := range decoys {
		os.MkdirAll(filepath.Dir(p), 0o700)
		os.WriteFile(p, b, 0o600)
	}
}

func outsideRoot(root, p string) bool {
	if p == "" || strings.ContainsRune(p, 0) {
		return false // the OS refuses such a path; nothing is touched
	}
	c := filepath.Clean(p)
	if !filepath.IsAbs(c) {
		wd, _ := os.Getwd()
		c = filepath.Join(wd, c)
	}
	rel, err := filepath.Rel(root, c)
	return err != nil || rel == ".." || strings.HasPrefix(rel, "../")
}

type ksOp struct {
	name string
	f    func(ks ksrig.FullKeyStore, id []byte) error
}

// v1 entry points that validate the client id themselves (keystore.ValidateID) on the pinned tree: an escape through
// one of them is not the recorded finding about the unvalidated ones (known_findings.d/c07.json) and gets its own signature class.
type validatedEntryPoints interface {
	GenerateConnectorKeys(id []byte) error
	GenerateServerKeys(id []byte) error
	GenerateTranslatorKeys(id []byte) error
	GetPeerPublicKey(id []byte) (*keys.PublicKey, error)
}

var validatedOps = map[string]bool{"GenerateDataEncryptionKeys": true, "GenerateConnectorKeys": true, "GenerateServerKeys": true,
	"GenerateTranslatorKeys": true, "GetPeerPublicKey": true}

func validatedKeystoreOps() []ksOp {
	call := func(f func(v validatedEntryPoints, id []byte) error) func(ks ksrig.FullKeyStore, id []byte) error {
		return func(ks ksrig.FullKeyStore, id []byte) error {
			v, ok := ks.(validatedEntryPoints)
			if !ok {
				return errNotOffered
			}
			return f(v, id)
		}
	}
	return []ksOp{
		{"GenerateConnectorKeys", call(func(v validatedEntryPoints, id []byte) error { return v.GenerateConnectorKeys(id) })},
		{"GenerateServerKeys", call(func(v validatedEntryPoints, id []byte) error { return v.GenerateServerKeys(id) })},
		{"GenerateTranslatorKeys", call(func(v validatedEntryPoints, id []byte) error { return v.GenerateTranslatorKeys(id) })},
		{"GetPeerPublicKey", call(func(v validatedEntryPoints, id []byte) error { _, e := v.GetPeerPublicKey(id); return e })},
	}
}

var errNotOffered = fmt.Errorf("entry point not offered by this keystore")

func keystoreOps() []ksOp {
	return []ksOp{
		{"GenerateDataEncryptionKeys", func(ks ksrig.FullKeyStore, id []byte) error { return ks.GenerateDataEncryptionKeys(id) }},
		{"SaveDataEncryptionKeys", func(ks ksrig.FullKeyStore, id []byte) error {
			kp, err := keys.New(keys.TypeEC)
			if err != nil {
				return err
			}
			return ks.SaveDataEncryptionKeys(id, kp)
		}},
		{"GenerateClientIDSymmetricKey", func(ks ksrig.FullKeyStore, id []byte) error { return ks.GenerateClientIDSymmetricKey(id) }},
		{"GenerateHmacKey", func(ks ksrig.FullKeyStore, id []byte) error { return ks.GenerateHmacKey(id) }},
		{"GetClientIDEncryptionPublicKey", func(ks ksrig.FullKeyStore, id []byte) error { _, e := ks.GetClientIDEncryptionPublicKey(id); return e }},
		{"GetServerDecryptionPrivateKey", func(ks ksrig.FullKeyStore, id []byte) error { _, e := ks.GetServerDecryptionPrivateKey(id); return e }},
		{"GetServerDecryptionPrivateKeys", func(ks ksrig.FullKeyStore, id []byte) error { _, e := ks.GetServerDecryptionPrivateKeys(id); return e }},
		{"GetClientIDSymmetricKey", func(ks ksrig.FullKeyStore, id []byte) error { _, e := ks.GetClientIDSymmetricKey(id); return e }},
		{"GetClientIDSymmetricKeys", func(ks ksrig.FullKeyStore, id []byte) error { _, e := ks.GetClientIDSymmetricKeys(id); return e }},
		{"GetHMACSecretKey", func(ks ksrig.FullKeyStore, id []byte) error { _, e := ks.GetHMACSecretKey(id); return e }},
		{"DestroyClientIDEncryptionKeyPair", func(ks ksrig.FullKeyStore, id []byte) error { return ks.DestroyClientIDEncryptionKeyPair(id) }},
		{"DestroyClientIDSymmetricKey", func(ks ksrig.FullKeyStore, id []byte) error { return ks.DestroyClientIDSymmetricKey(id) }},
		{"DestroyHmacSecretKey", func(ks ksrig.FullKeyStore, id []byte) error { return ks.DestroyHmacSecretKey(id) }},
		{"DestroyRotatedClientIDEncryptionKeyPair", func(ks ksrig.FullKeyStore, id []byte) error { return ks.DestroyRotatedClientIDEncryptionKeyPair(id, 2) }},
		{"DestroyRotatedClientIDSymmetricKey", func(ks ksrig.FullKeyStore, id []byte) error { return ks.DestroyRotatedClientIDSymmetricKey(id, 2) }},
		{"DestroyRotatedHmacSecretKey", func(ks ksrig.FullKeyStore, id []byte) error { return ks.DestroyRotatedHmacSecretKey(id, 2) }},
	}
}

func opClass(name string) string {
	switch {
	case validatedOps[name] && strings.HasPrefix(name, "Get"):
		return "read-through-validating-entry-point"
	case validatedOps[name]:
		return "generate-through-validating-entry-point"
	case strings.HasPrefix(name, "Generate") || strings.HasPrefix(name, "Save"):
		return "generate"
	case strings.HasPrefix(name, "Get"):
		return "read"
	}
	return "destroy"
}

type sandbox struct {
	dir, root string
}

func newSandbox(tag string) sandbox {
	d := ksrig.ScratchDir(tag)
	root := filepath.Join(d, "l1", "l2", "l3", "root")
	os.MkdirAll(filepath.Dir(root), 0o700)
	// existing siblings an escaping path could land in (see hostileIDs)
	for _, sib := range []string{"l1/l2/l3/root.bak", "l1/l2/l3/root2", "l1/l2/l3/root-old/deep", "l1/l2/l3.bak"} {
		os.MkdirAll(filepath.Join(d, sib), 0o700)
	}
	return sandbox{d, root}
}

// ---- v1 -------------------------------------------------------------------------------------------------------

func runConfineV1(r *ev.Run) {
	sb := newSandbox("c07conf1")
	defer os.RemoveAll(sb.dir)
	if err := os.MkdirAll(sb.root, 0o700); err != nil {
		r.Inconclusive("confine v1: " + err.Error())
		return
	}
	cfg := configs[0]
	g := newRig(cfg, sb.root)
	ks, err := g.open(-1)
	if err == nil {
		// a legitimate client so that the store is not empty (rotated twice: history dirs exist)
		for i := 0; i < 2 && err == nil; i++ {
			err = ksrig.GenClient(ks, clientA)
		}
	}
	if err != nil {
		r.Inconclusive("confine v1: " + err.Error())
		return
	}
	// decoys where escaping names would land: readable key-like files just outside the root
	decoys := map[string][]byte{}
	for _, h := range hostileIDs() {
		for _, k := range []ksrig.ModelKind{ksrig.ModelStoragePair, ksrig.ModelStorageSym, ksrig.ModelSearchHMAC} {
			p := filepath.Join(sb.root, ksrig.ModelV1FileName(k, []byte(h.id)))
			if outsideRoot(sb.root, p) && !outsideRoot(sb.dir, p) && len(p) < 200 {
				decoys[p] = []byte("DECOY-" + h.class)
			}
		}
	}
	restoreOutside(sb.dir, sb.root, snapshot{}, decoys)
	before := takeSnapshot(sb.dir, sb.root)
	for _, h := range hostileIDs() {
		for _, op := range append(keystoreOps(), validatedKeystoreOps()...) {
			mark := g.log.Len()
			var err error
			site, stack := guard(func() { err = op.f(ks, []byte(h.id)) })
			calls := g.log.Since(mark)
			if err == errNotOffered {
				continue
			}
			r.Case()
			r.Count("d_hostile_calls_checked_v1", 1)
			if validatedOps[op.name] {
				r.Count("d_hostile_calls_through_validating_entry_points_v1", 1)
			}
			r.Distinct(fmt.Sprintf("v1|d|%s|%s", op.name, h.class))
			if err != nil {
				r.Count("d_hostile_ids_rejected_v1", 1)
			}
			detail := map[string]interface{}{"seed": r.Seed, "operation": op.name, "client_id": fmt.Sprintf("%q", h.id), "error": fmt.Sprint(err), "stack": stack, "root": sb.root}
			if site != "" {
				r.Violation(fmt.Sprintf("v1 %s with hostile client id (%s) panics at %s", opClass(op.name), h.class, site), detail)
			}
			var escaped []string
			readDecoy := false
			for _, c := range calls {
				for _, p := range []string{c.Path, c.Path2} {
					if outsideRoot(sb.root, p) {
						escaped = append(escaped, c.Op+" "+p)
					}
				}
				if (c.Op == "ReadFile") && bytes.HasPrefix(c.Out, []byte("DECOY-")) {
					readDecoy = true
				}
			}
			after := takeSnapshot(sb.dir, sb.root)
			changes := before.diff(after)
			detail["storage_calls_outside_root"] = escaped
			detail["changes_outside_root"] = changes
			switch {
			case len(changes) > 0:
				r.Violation(fmt.Sprintf("v1 %s with hostile client id (%s) changes files outside the keystore root", opClass(op.name), h.class), detail)
			case readDecoy:
				r.Violation(fmt.Sprintf("v1 %s with hostile client id (%s) reads a file outside the keystore root", opClass(op.name), h.class), detail)
			case len(escaped) > 0:
				r.Violation(fmt.Sprintf("v1 %s with hostile client id (%s) makes storage calls outside the keystore root", opClass(op.name), h.class), detail)
			default:
				r.Count("d_hostile_calls_confined_v1", 1)
			}
			if len(changes) > 0 {
				restoreOutside(sb.dir, sb.root, before, decoys)
			}
		}
	}
	r.SampleN("d/v1", 1, map[string]interface{}{"oracle": "d", "format": "v1", "hostile_ids": len(hostileIDs()), "operations": len(keystoreOps()),
		"example": "GenerateClientIDSymmetricKey(\"../../evil\") on a keystore rooted at <sandbox>/l1/l2/l3/root"})
}

// ---- v2 -------------------------------------------------------------------------------------------------------

func runConfineV2(r *ev.Run) {
	sb := newSandbox("c07conf2")
	defer os.RemoveAll(sb.dir)
	cfg := configs[4]
	g := newRig(cfg, sb.root)
	ks, err := g.open(0)
	if err == nil {
		for i := 0; i < 2 && err == nil; i++ {
			err = ksrig.GenClient(ks, clientA)
		}
	}
	if err != nil {
		r.Inconclusive("confine v2: " + err.Error())
		return
	}
	defer g.close()
	sep := strings.NewReplacer("\\", "/")
	landing := func(keyPath string) string { return filepath.Join(sb.root, sep.Replace(keyPath)) }
	decoys := map[string][]byte{}
	plant := func(keyPath string) {
		p := landing(keyPath)
		if !strings.ContainsRune(p, 0) && outsideRoot(sb.root, p) && !outsideRoot(sb.dir, p) && len(filepath.Base(p)) < 200 {
			decoys[p] = []byte("DECOY-" + filepath.Base(p))
		}
	}
	for _, h := range hostileIDs() {
		for _, k := range []ksrig.ModelKind{ksrig.ModelStoragePair, ksrig.ModelStorageSym, ksrig.ModelSearchHMAC} {
			plant(ksrig.ModelV2RingPath(k, []byte(h.id)) + ".keyring")
		}
	}

	check := func(counter, what, class string, before snapshot, plantAgain map[string][]byte, calls []ksrig.RecCall, result []byte, site string, detail map[string]interface{}) {
		r.Case()
		r.Count(counter, 1)
		if site != "" {
			r.Violation(fmt.Sprintf("v2 %s (%s) panics at %s", what, class, site), detail)
		}
		readDecoy := bytes.HasPrefix(result, []byte("DECOY-"))
		for _, c := range calls {
			if c.Op == "Get" && bytes.HasPrefix(c.Out, []byte("DECOY-")) {
				readDecoy = true
			}
		}
		changes := before.diff(takeSnapshot(sb.dir, sb.root))
		detail["changes_outside_root"] = changes
		switch {
		case len(changes) > 0:
			r.Violation(fmt.Sprintf("v2 %s (%s) changes files outside the keystore root", what, class), detail)
			restoreOutside(sb.dir, sb.root, before, plantAgain)
		case readDecoy:
			r.Violation(fmt.Sprintf("v2 %s (%s) reads a file outside the keystore root", what, class), detail)
		default:
			r.Count(counter+"_confined", 1)
		}
	}

	// (1) keystore operations with hostile client ids; once without decoys (creation), once with decoys (reads)
	for pass := 0; pass < 2; pass++ {
		if pass == 1 {
			restoreOutside(sb.dir, sb.root, takeSnapshot(sb.dir, sb.root), decoys)
		}
		before := takeSnapshot(sb.dir, sb.root)
		var planted map[string][]byte
		if pass == 1 {
			planted = decoys
		}
		for _, h := range hostileIDs() {
			for _, op := range keystoreOps() {
				mark := g.log.Len()
				var err error
				site, stack := guard(func() { err = op.f(ks, []byte(h.id)) })
				if err != nil {
					r.Count("d_hostile_ids_rejected_v2", 1)
				}
				r.Distinct(fmt.Sprintf("v2|d|%s|%s|decoys=%v", op.name, h.class, pass == 1))
				check("d_hostile_calls_checked_v2_keystore", opClass(op.name)+" with hostile client id", h.class, before, planted, g.log.Since(mark), nil, site,
					map[string]interface{}{"seed": r.Seed, "operation": op.name, "client_id": fmt.Sprintf("%q", h.id), "error": fmt.Sprint(err), "stack": stack, "root": sb.root, "decoys_planted": pass == 1})
			}
			// hostile key ring path given to the generic key store API
			ringPath := h.id
			mark := g.log.Len()
			var err error
			site, stack := guard(func() { _, err = ks.(ringOpenerRW).OpenKeyRingRW(ringPath) })
			r.Distinct(fmt.Sprintf("v2|d|OpenKeyRingRW|%s|decoys=%v", h.class, pass == 1))
			check("d_hostile_calls_checked_v2_keystore", "OpenKeyRingRW with hostile ring path", h.class, before, planted, g.log.Since(mark), nil, site,
				map[string]interface{}{"seed": r.Seed, "operation": "OpenKeyRingRW", "ring_path": fmt.Sprintf("%q", ringPath), "error": fmt.Sprint(err), "stack": stack, "root": sb.root})
		}
		restoreOutside(sb.dir, sb.root, before, nil)
	}

	// (2) the directory back end itself with hostile key paths
	db, err := backend.CreateDirectoryBackend(sb.root)
	if err != nil {
		r.Inconclusive("confine v2: " + err.Error())
		return
	}
	defer db.Close()
	db.Put("inside-src", []byte("inside"))
	for _, h := range hostileIDs() {
		if h.id == "" {
			continue
		}
		p := h.id
		// writes: no decoy at the landing place
		restoreOutside(sb.dir, sb.root, takeSnapshot(sb.dir, sb.root), nil)
		os.Remove(landing(p))
		before := takeSnapshot(sb.dir, sb.root)
		type bop struct {
			name string
			f    func() ([]byte, error)
		}
		for _, o := range []bop{
			{"Put", func() ([]byte, error) { return nil, db.Put(p, []byte("written-by-put")) }},
			{"Rename(to)", func() ([]byte, error) {
				db.Put("tmp-rename", []byte("renamed"))
				return nil, db.Rename("tmp-rename", p)
			}},
			{"RenameNX(to)", func() ([]byte, error) {
				db.Put("tmp-renamenx", []byte("renamed-nx"))
				return nil, db.RenameNX("tmp-renamenx", p)
			}},
		} {
			var res []byte
			var err error
			site, stack := guard(func() { res, err = o.f() })
			r.Distinct(fmt.Sprintf("v2|d|backend.%s|%s", o.name, h.class))
			check("d_hostile_calls_checked_v2_backend", "DirectoryBackend."+o.name+" with hostile key path", h.class, before, nil, nil, res, site,
				map[string]interface{}{"seed": r.Seed, "operation": o.name, "key_path": fmt.Sprintf("%q", p), "error": fmt.Sprint(err), "stack": stack, "root": sb.root})
			os.Remove(filepath.Join(sb.root, "tmp-rename"))
			os.Remove(filepath.Join(sb.root, "tmp-renamenx"))
		}
		// reads / moves of an existing outside file: decoy at the landing place
		lp := landing(p)
		if strings.ContainsRune(lp, 0) || !outsideRoot(sb.root, lp) || outsideRoot(sb.dir, lp) || len(filepath.Base(lp)) > 200 {
			continue
		}
		one := map[string][]byte{lp: []byte("DECOY-backend")}
		restoreOutside(sb.dir, sb.root, takeSnapshot(sb.dir, sb.root), one)
		before = takeSnapshot(sb.dir, sb.root)
		for _, o := range []bop{
			{"Get", func() ([]byte, error) { return db.Get(p) }},
			{"Rename(from)", func() ([]byte, error) { return nil, db.Rename(p, "stolen") }},
			{"RenameNX(from)", func() ([]byte, error) { return nil, db.RenameNX(p, "stolen-nx") }},
		} {
			var res []byte
			var err error
			site, stack := guard(func() { res, err = o.f() })
			r.Distinct(fmt.Sprintf("v2|d|backend.%s|%s", o.name, h.class))
			check("d_hostile_calls_checked_v2_backend", "DirectoryBackend."+o.name+" with hostile key path", h.class, before, one, nil, res, site,
				map[string]interface{}{"seed": r.Seed, "operation": o.name, "key_path": fmt.Sprintf("%q", p), "error": fmt.Sprint(err), "stack": stack, "root": sb.root})
			os.Remove(filepath.Join(sb.root, "stolen"))
			os.Remove(filepath.Join(sb.root, "stolen-nx"))
			restoreOutside(sb.dir, sb.root, before, one)
		}
		os.Remove(lp)
	}
	r.SampleN("d/v2", 1, map[string]interface{}{"oracle": "d", "format": "v2/directory", "hostile_ids": len(hostileIDs()),
		"example": "DirectoryBackend.Put(\"../x\") and GenerateClientIDSymmetricKey(\"../../evil\") on a keystore rooted at <sandbox>/l1/l2/l3/root"})
}

func runConfinement(r *ev.Run) {
	runConfineV1(r)
	runConfineV2(r)
}
