package c07

// Oracle (c), workload class "tampering under handles that are already open (warm)", v2 key rings:
// "any byte change to a stored key ring is detected when it is read".
//
// tamper.go modifies stored bytes and reads them through keystore handles that have never seen the ring. Here the handles
// exist BEFORE the modification and have state of their own: a keystore handle that has generated, read and destroyed keys,
// and for every ring a read-write key ring handle (OpenKeyRingRW) and a read-only one (OpenKeyRing) that have been read and —
// the read-write one — used for AddKey / SetState / SetCurrent / DestroyKey, so that whatever a handle remembers about the
// stored ring (parsed data, anything derived from the container it loaded or stored last) is populated. Then the stored
// bytes are modified behind their back (in-memory back end: the stored object is replaced; directory back end: the file is
// rewritten) and the SAME handles go on being used: reads of the keys, every kind of update, export; afterwards a handle
// opened after the modification.
//
// What is judged, at the API boundary (warmObs sees what the back end returns to the handles):
//
//	O1  an operation during which the back end handed the modified bytes to the keystore must fail ("detected when it is
//	    read"), whatever it returns;
//	O2  a read that succeeds without having been handed the modified bytes (served from what the handle holds) must return
//	    exactly the genuine pre-modification key material — never different material;
//	O3  an update (AddKey, SetState, SetCurrent, DestroyKey, generate, destroy) of a ring whose stored bytes are modified must
//	    fail: an update reads the stored ring under the lock and rewrites it; one that succeeds has either relied on the
//	    modified object or silently replaced it with a freshly signed one, and the modification is never reported to anybody
//	    (on the unchanged tree KeyStore.pullRingUpdates verifies the fetched container on every update);
//	a panic is a violation.
//
// Not judged: reads served from a handle's own data (legitimate: nothing is read from storage); replay of an OLDER VALID
// version of the same ring (the format has no rollback protection: lastModified is signed but never compared, the unchanged
// tree accepts it, the property text does not speak of it) — counted only.

import (
	"bytes"
	"fmt"
	"os"
	"path/filepath"
	"runtime/pprof"
	"sort"
	"strings"
	"time"

	"github.com/cossacklabs/themis/gothemis/keys"

	"github.com/cossacklabs/acra/keystore"
	keystoreV2 "github.com/cossacklabs/acra/keystore/v2/keystore"
	"github.com/cossacklabs/acra/keystore/v2/keystore/api"
	"github.com/cossacklabs/acra/keystore/v2/keystore/crypto"
	"github.com/cossacklabs/acra/keystore/v2/keystore/filesystem/backend"

	"verif/harness/internal/ev"
	"verif/harness/internal/rig/ksrig"
)

// warmObs is what the harness knows about the object it has modified and what the storage layer handed out since the
// last reset. Shared by all storage wrappers of one rig. Single goroutine.
type warmObs struct {
	tampered      [][]byte // the modified bytes now stored behind the handles' back
	readsTampered int      // storage reads that returned exactly such bytes
}

func (o *warmObs) set(tampered ...[]byte) { o.tampered, o.readsTampered = tampered, 0 }
func (o *warmObs) reset()                 { o.readsTampered = 0 }
func (o *warmObs) sawRead(data []byte) {
	for _, t := range o.tampered {
		if bytes.Equal(data, t) {
			o.readsTampered++
			return
		}
	}
}

// warmBackend is a pass-through v2 back end that tells warmObs what Get returns.
type warmBackend struct {
	backend.Backend
	obs     *warmObs
	noClose bool
}

func (b *warmBackend) Get(path string) ([]byte, error) {
	data, err := b.Backend.Get(path)
	if err == nil {
		b.obs.sawRead(data)
	}
	return data, err
}

func (b *warmBackend) Close() error {
	if b.noClose {
		return nil
	}
	return b.Backend.Close()
}

// warmKeyMat is the genuine material of one key of a ring (by seqnum; it never changes once the key exists).
type warmKeyMat struct{ priv, pub, sym []byte }

// warmRing is one key ring with its warm handles and the harness' knowledge of the genuine state.
type warmRing struct {
	s        slot
	file     string
	rw       api.MutableKeyRing
	ro       api.KeyRing
	roSeqs   []int
	mat      map[int]warmKeyMat // genuine material by seqnum (harness-supplied or read before any modification)
	seqs     []int              // view after the last successful update, newest first
	state    map[int]api.KeyState
	current  int
	a, b, d  int      // keys added by the harness: a, b active (SetCurrent / SetState targets), d pre-active (DestroyKey target)
	genuine  []byte   // stored bytes now (untampered)
	versions [][]byte // older genuine versions, oldest first
	nPC      int
	fields   []derByte
}

type warmV2 struct {
	cnt  map[string]int64 // counters, flushed into the run at the end
	seen map[string]bool  // violation signatures already reported with their detail
	r    *ev.Run
	cfg  config
	g    *rig
	obs  *warmObs
	W    *keystoreV2.ServerKeyStore // the warm keystore handle
	ring map[string]*warmRing
	n    int
}

func (w *warmV2) openKS() (*keystoreV2.ServerKeyStore, error) {
	wb := &warmBackend{obs: w.obs}
	if w.cfg.dir {
		b, err := backend.CreateDirectoryBackend(w.g.dir)
		if err != nil {
			return nil, err
		}
		wb.Backend = b
	} else {
		wb.Backend, wb.noClose = w.g.mem, true
	}
	return ksrig.V2OnBackend(wb, w.g.v2keys)
}

func (w *warmV2) count(name string) { w.cnt[name]++ }

func (w *warmV2) flush() {
	for k, v := range w.cnt {
		w.r.Count(k, v)
	}
	w.cnt = map[string]int64{}
}

// stored returns the bytes the storage holds for a ring file now; store replaces them behind the handles' back.
func (w *warmV2) stored(file string) ([]byte, error) {
	if w.cfg.dir {
		return os.ReadFile(filepath.Join(w.g.dir, file))
	}
	b, err := w.g.mem.Get(file)
	return append([]byte{}, b...), err
}

func (w *warmV2) store(file string, data []byte) error {
	if w.cfg.dir {
		return warmWriteFile(filepath.Join(w.g.dir, file), data)
	}
	tmp := file + ".harness"
	if err := w.g.mem.Put(tmp, append([]byte{}, data...)); err != nil {
		return err
	}
	return w.g.mem.Rename(tmp, file)
}

// warmWriteFile modifies a stored file: a change of a few single bytes is written in place (the cheapest real modification
// of a stored file: no truncation, no new blocks), anything else rewrites the file.
func warmWriteFile(p string, data []byte) error {
	if old, err := os.ReadFile(p); err == nil && len(old) == len(data) {
		var diff []int
		for i := range old {
			if old[i] != data[i] {
				diff = append(diff, i)
			}
		}
		if len(diff) <= 4 {
			f, err := os.OpenFile(p, os.O_WRONLY, 0)
			if err != nil {
				return err
			}
			for _, i := range diff {
				if _, err := f.WriteAt(data[i:i+1], int64(i)); err != nil {
					f.Close()
					return err
				}
			}
			return f.Close()
		}
	}
	return os.WriteFile(p, data, 0o600)
}

func warmKeyDescription(pair bool) (api.KeyDescription, warmKeyMat, error) {
	var m warmKeyMat
	d := api.KeyDescription{ValidSince: rsTime, ValidUntil: rsTime.Add(24 * time.Hour)}
	if pair {
		kp, err := keys.New(keys.TypeEC)
		if err != nil {
			return d, m, err
		}
		m.priv, m.pub = kp.Private.Value, kp.Public.Value
		d.Data = []api.KeyData{{Format: api.ThemisKeyPairFormat, PublicKey: append([]byte{}, m.pub...), PrivateKey: append([]byte{}, m.priv...)}}
	} else {
		m.sym = ksrig.RandBytes(32)
		d.Data = []api.KeyData{{Format: api.ThemisSymmetricKeyFormat, SymmetricKey: append([]byte{}, m.sym...)}}
	}
	return d, m, nil
}

// readMat reads the material of key seq through a ring handle; ok=false if the handle refuses (destroyed, unknown).
func warmReadMat(ring api.KeyRing, seq int, pair bool) (m warmKeyMat, err error) {
	if pair {
		if m.priv, err = ring.PrivateKey(seq, api.ThemisKeyPairFormat); err != nil {
			return
		}
		m.pub, err = ring.PublicKey(seq, api.ThemisKeyPairFormat)
		m.priv, m.pub = append([]byte{}, m.priv...), append([]byte{}, m.pub...)
		return
	}
	m.sym, err = ring.SymmetricKey(seq, api.ThemisSymmetricKeyFormat)
	m.sym = append([]byte{}, m.sym...)
	return
}

func (m warmKeyMat) equal(o warmKeyMat) bool {
	return bytes.Equal(m.priv, o.priv) && bytes.Equal(m.pub, o.pub) && bytes.Equal(m.sym, o.sym)
}

func (m warmKeyMat) secret() []byte {
	if m.priv != nil {
		return m.priv
	}
	return m.sym
}

// refresh re-reads the view of the read-write handle (in sync with the storage after a successful update) and the
// stored bytes; new keys' material is recorded.
func (w *warmV2) refresh(x *warmRing) error {
	seqs, err := x.rw.AllKeys()
	if err != nil {
		return err
	}
	x.seqs, x.state = seqs, map[int]api.KeyState{}
	for _, q := range seqs {
		st, err := x.rw.State(q)
		if err != nil {
			return err
		}
		x.state[q] = st
		if _, known := x.mat[q]; !known && st != api.KeyDestroyed {
			m, err := warmReadMat(x.rw, q, x.s.kind.IsPair())
			if err != nil {
				return fmt.Errorf("key %d: %w", q, err)
			}
			x.mat[q] = m
		}
	}
	x.current, err = x.rw.CurrentKey()
	if err != nil {
		x.current = -1
	}
	now, err := w.stored(x.file)
	if err != nil {
		return err
	}
	if x.genuine != nil && !bytes.Equal(now, x.genuine) {
		x.versions = append(x.versions, x.genuine)
		if len(x.versions) > 6 {
			x.versions = x.versions[len(x.versions)-6:]
		}
	}
	if len(now) != len(x.genuine) {
		x.fields = classifyDER(now, ringSchema)
	}
	x.genuine = now
	return nil
}

// positiveControl makes one update through the warm read-write handle on the untampered storage: it must succeed, the
// stored ring must change and must open on a fresh handle. Keeps the handle's memory of "what I stored last" current.
func (w *warmV2) positiveControl(x *warmRing) error {
	before := x.genuine
	var err error
	var what string
	switch x.nPC % 2 {
	case 0:
		to := api.KeySuspended
		if x.state[x.b] == api.KeySuspended {
			to = api.KeyActive
		}
		what = fmt.Sprintf("SetState(%d,%s)", x.b, to)
		err = x.rw.SetState(x.b, to)
	case 1:
		to := x.a
		if x.current == x.a {
			to = x.b
		}
		what = fmt.Sprintf("SetCurrent(%d)", to)
		err = x.rw.SetCurrent(to)
	}
	x.nPC++
	if err != nil {
		return fmt.Errorf("%s on the untampered ring: %w", what, err)
	}
	if err := w.refresh(x); err != nil {
		return err
	}
	if bytes.Equal(before, x.genuine) {
		return fmt.Errorf("%s did not change the stored ring", what)
	}
	w.r.Count("w_v2_positive_controls(update through the warm handle on untampered storage succeeds)", 1)
	return nil
}

// warmUp opens the ring handles of a slot and uses them.
func (w *warmV2) warmUp(s slot) (*warmRing, error) {
	x := &warmRing{s: s, file: s.path + ".keyring", mat: map[int]warmKeyMat{}}
	var err error
	if x.rw, err = w.W.OpenKeyRingRW(s.path); err != nil {
		return nil, err
	}
	pair := s.kind.IsPair()
	add := func() (int, error) {
		d, m, err := warmKeyDescription(pair)
		if err != nil {
			return 0, err
		}
		seq, err := x.rw.AddKey(d)
		if err == nil {
			x.mat[seq] = m
		}
		return seq, err
	}
	if x.a, err = add(); err == nil {
		err = x.rw.SetState(x.a, api.KeyActive)
	}
	if err == nil {
		if x.b, err = add(); err == nil {
			err = x.rw.SetState(x.b, api.KeyActive)
		}
	}
	if err == nil {
		var c int
		if c, err = add(); err == nil {
			err = x.rw.DestroyKey(c)
		}
	}
	if err == nil {
		x.d, err = add()
	}
	if err == nil {
		err = x.rw.SetCurrent(x.a)
	}
	if err != nil {
		return nil, fmt.Errorf("warm-up updates: %w", err)
	}
	if x.ro, err = w.W.OpenKeyRing(s.path); err != nil {
		return nil, err
	}
	if err = w.refresh(x); err != nil {
		return nil, err
	}
	x.roSeqs = append([]int{}, x.seqs...)
	// the read-only handle and the keystore handle are used too
	for _, q := range x.roSeqs {
		if x.state[q] == api.KeyDestroyed {
			continue
		}
		m, err := warmReadMat(x.ro, q, pair)
		if err != nil || !m.equal(x.mat[q]) {
			return nil, fmt.Errorf("read-only handle, key %d: %v / material differs from the read-write handle's", q, err)
		}
	}
	cur, _, err := ksrig.ModelCurrent(w.W, s.kind, s.id)
	if err != nil || !bytes.Equal(cur, x.mat[x.current].secret()) {
		return nil, fmt.Errorf("keystore getter on the untampered ring: %v / not the current key's material", err)
	}
	return x, nil
}

// warmMutation is one modification of the stored bytes.
type warmMutation struct {
	class   string // bit-flip | byte-value | truncate | extend | swap-with-another-ring | replay-older-version
	variant string // truncate/extend: which; swap: partner ring path; byte-value: rule
	off     int
	bit     uint
	valIdx  int
	partner *warmRing
	age     int
}

// warmTruncExt lists the truncations / extensions (a pure function of the stored bytes).
var warmTruncExt = []struct {
	class, variant string
	f              func(b []byte, payloadEnd int) []byte
}{
	{"truncate", "to-0-bytes", func(b []byte, _ int) []byte { return []byte{} }},
	{"truncate", "to-1-byte", func(b []byte, _ int) []byte { return b[:1] }},
	{"truncate", "last-byte-dropped", func(b []byte, _ int) []byte { return b[:len(b)-1] }},
	{"truncate", "signature-value-dropped", func(b []byte, _ int) []byte { return b[:len(b)-32] }},
	{"truncate", "signatures-dropped", func(b []byte, pe int) []byte { return b[:pe] }},
	{"truncate", "second-half-dropped", func(b []byte, _ int) []byte { return b[:len(b)/2] }},
	{"truncate", "first-byte-dropped", func(b []byte, _ int) []byte { return b[1:] }},
	{"truncate", "one-byte-of-the-payload-dropped", func(b []byte, pe int) []byte { return append(append([]byte{}, b[:pe/2]...), b[pe/2+1:]...) }},
	{"extend", "00-appended", func(b []byte, _ int) []byte { return append(append([]byte{}, b...), 0) }},
	{"extend", "signature-value-appended-again", func(b []byte, _ int) []byte { return append(append([]byte{}, b...), b[len(b)-32:]...) }},
	{"extend", "whole-file-appended-again", func(b []byte, _ int) []byte { return append(append([]byte{}, b...), b...) }},
	{"extend", "00-prepended", func(b []byte, _ int) []byte { return append([]byte{0}, b...) }},
	{"extend", "00-inserted-into-the-payload", func(b []byte, pe int) []byte {
		return append(append(append([]byte{}, b[:pe/2]...), 0), b[pe/2:]...)
	}},
	{"extend", "00-inserted-before-the-signatures", func(b []byte, pe int) []byte {
		return append(append(append([]byte{}, b[:pe]...), 0), b[pe:]...)
	}},
	{"extend", "32-bytes-inserted-before-the-signature-value", func(b []byte, _ int) []byte {
		return append(append(append([]byte{}, b[:len(b)-32]...), make([]byte, 32)...), b[len(b)-32:]...)
	}},
}

// payloadEnd is the offset of the first byte after the signed payload.
func warmPayloadEnd(fields []derByte) int {
	for i, f := range fields {
		if strings.HasPrefix(f.field, "container/signatures") {
			return i
		}
	}
	return len(fields)
}

// mutations lists the modifications tried on one ring: a pure function of tier, seed, the ring's DER layout (constant
// during the sweep: the positive controls only change state / current-key bytes) and the other rings.
func (w *warmV2) mutations(x *warmRing, idx int, all []*warmRing) []warmMutation {
	r := w.r
	var out []warmMutation
	n := len(x.genuine)
	// positions: one per (DER element, tag/length/content) plus a stride through the file (thorough: every offset; the
	// directory back end, where every case costs two file rewrites, gets a coarser stride)
	stride := 29
	if r.Thorough() {
		stride = 1
		if w.cfg.dir {
			stride = 4
		}
	} else if w.cfg.dir {
		stride = 151
	}
	fieldShare := 2
	if w.cfg.dir {
		fieldShare = 9
	}
	pos := map[int]bool{}
	seen := map[string]bool{}
	for off := 0; off < n; off++ {
		k := x.fields[off].field + " " + x.fields[off].part
		if !seen[k] && (r.Thorough() || (len(seen)+idx)%fieldShare == 0) {
			// quick: every ring takes its share of the DER elements, the rings together cover all of them
			pos[off] = true
		}
		seen[k] = true
		if (off+int(r.Seed)+idx)%stride == 0 {
			pos[off] = true
		}
	}
	// the bytes around the signature value: its last length octet, its first and last byte
	pos[n-33], pos[n-32], pos[n-1] = true, true, true
	offs := make([]int, 0, len(pos))
	for off := range pos {
		offs = append(offs, off)
	}
	sort.Ints(offs)
	for i, off := range offs {
		out = append(out, warmMutation{class: "bit-flip", off: off, bit: uint((int64(off) + r.Seed) % 8)})
		if x.fields[off].part != "content" || i%4 == 0 || r.Thorough() {
			// byte values that matter to a DER reader (der.go), one per position, walking through the list
			out = append(out, warmMutation{class: "byte-value", off: off, valIdx: i + int(r.Seed)})
		}
	}
	for _, te := range warmTruncExt {
		out = append(out, warmMutation{class: te.class, variant: te.variant})
	}
	partners := 3
	if r.Thorough() {
		partners = len(all) - 1
	}
	for k := 1; k <= partners; k++ {
		p := all[(idx+k)%len(all)]
		out = append(out, warmMutation{class: "swap-with-another-ring", variant: relation(p.s, x.s), partner: p})
	}
	for age := 1; age <= 4; age++ {
		out = append(out, warmMutation{class: "replay-older-version", age: age})
	}
	return out
}

// apply builds the modified bytes; what describes them for the detail.
func (m *warmMutation) apply(x *warmRing) (tampered []byte, region, what string, ok bool) {
	g := x.genuine
	switch m.class {
	case "bit-flip":
		if m.off >= len(g) {
			return nil, "", "", false
		}
		t := append([]byte{}, g...)
		t[m.off] ^= 1 << m.bit
		return t, ringRegion(g, m.off), fmt.Sprintf("offset %d bit %d", m.off, m.bit), true
	case "byte-value":
		if m.off >= len(g) {
			return nil, "", "", false
		}
		vals := byteValuesFor(g[m.off], false)
		v := vals[m.valIdx%len(vals)]
		m.variant = v.rule
		t := append([]byte{}, g...)
		t[m.off] = v.v
		return t, ringRegion(g, m.off), fmt.Sprintf("offset %d 0x%02x -> 0x%02x (%s)", m.off, g[m.off], v.v, v.rule), true
	case "truncate", "extend":
		for _, te := range warmTruncExt {
			if te.variant == m.variant {
				t := te.f(g, warmPayloadEnd(x.fields))
				return t, "whole-file", fmt.Sprintf("%d -> %d bytes", len(g), len(t)), true
			}
		}
	case "swap-with-another-ring":
		return append([]byte{}, m.partner.genuine...), "whole-file", "stored bytes of " + m.partner.file + " (and the other way round)", true
	case "replay-older-version":
		if m.age > len(x.versions) {
			return nil, "", "", false
		}
		return append([]byte{}, x.versions[len(x.versions)-m.age]...), "whole-file", fmt.Sprintf("version %d updates ago", m.age), true
	}
	return nil, "", "", false
}

func (m *warmMutation) name() string {
	if m.variant != "" && m.class != "byte-value" {
		return m.class + "/" + m.variant
	}
	return m.class
}

// warmOp is one operation through a handle while the stored ring is modified.
type warmOp struct {
	handle string // ring-rw | ring-ro | keystore | keystore-opened-afterwards
	name   string
	update bool
	// run performs the operation; for reads got is the secret material returned and want the genuine one
	run func() (got, want [][]byte, err error)
}

func warmSecrets(ms ...[]byte) [][]byte { return ms }

func sameSecrets(a, b [][]byte) bool {
	if len(a) != len(b) {
		return false
	}
	for i := range a {
		if !bytes.Equal(a[i], b[i]) {
			return false
		}
	}
	return true
}

// ops lists what is done through the handles of ring x while its stored bytes are modified. Every update is valid in
// the handle's own view of the ring, so on an untampered ring it would succeed.
func (w *warmV2) ops(x *warmRing, fresh *keystoreV2.ServerKeyStore) []warmOp {
	pair := x.s.kind.IsPair()
	var ops []warmOp
	ringReads := func(handle string, ring api.KeyRing, seqs []int) {
		for _, q := range seqs {
			q := q
			if x.state[q] == api.KeyDestroyed {
				continue
			}
			ops = append(ops, warmOp{handle: handle, name: "key-material", run: func() ([][]byte, [][]byte, error) {
				m, err := warmReadMat(ring, q, pair)
				return warmSecrets(m.secret(), m.pub), warmSecrets(x.mat[q].secret(), x.mat[q].pub), err
			}})
		}
	}
	ringReads("ring-rw", x.rw, x.seqs)
	ringReads("ring-ro", x.ro, x.roSeqs)
	// updates through the warm read-write ring handle (which of them comes first changes from case to case: the first one
	// that gets through replaces the stored ring and ends the case)
	updates := []warmOp{
		{handle: "ring-rw", name: "AddKey", update: true, run: func() ([][]byte, [][]byte, error) {
			d, _, err := warmKeyDescription(pair)
			if err == nil {
				_, err = x.rw.AddKey(d)
			}
			return nil, nil, err
		}},
		{handle: "ring-rw", name: "SetState", update: true, run: func() ([][]byte, [][]byte, error) {
			to := api.KeySuspended
			if x.state[x.b] == api.KeySuspended {
				to = api.KeyActive
			}
			return nil, nil, x.rw.SetState(x.b, to)
		}},
		{handle: "ring-rw", name: "SetCurrent", update: true, run: func() ([][]byte, [][]byte, error) {
			to := x.a
			if x.current == x.a {
				to = x.b
			}
			return nil, nil, x.rw.SetCurrent(to)
		}},
		{handle: "ring-rw", name: "DestroyKey", update: true, run: func() ([][]byte, [][]byte, error) {
			return nil, nil, x.rw.DestroyKey(x.d)
		}},
	}
	for i := range updates {
		ops = append(ops, updates[(i+w.n)%len(updates)])
	}
	// the keystore handles: the warm one, then one opened after the modification
	genuineAll := func() [][]byte {
		var l [][]byte
		for _, q := range x.seqs { // newest first
			if x.state[q] != api.KeyDestroyed {
				l = append(l, x.mat[q].secret())
			}
		}
		return l
	}
	for _, h := range []struct {
		name string
		ks   *keystoreV2.ServerKeyStore
	}{{"keystore", w.W}, {"keystore-opened-afterwards", fresh}} {
		h := h
		ops = append(ops, warmOp{handle: h.name, name: "OpenKeyRing", run: func() ([][]byte, [][]byte, error) {
			_, err := h.ks.OpenKeyRing(x.s.path)
			return nil, nil, err
		}})
		ops = append(ops, warmOp{handle: h.name, name: "get-current-key", run: func() ([][]byte, [][]byte, error) {
			cur, _, err := ksrig.ModelCurrent(h.ks, x.s.kind, x.s.id)
			return warmSecrets(cur), warmSecrets(x.mat[x.current].secret()), err
		}})
		if x.s.kind.HasGetAll() {
			ops = append(ops, warmOp{handle: h.name, name: "get-all-keys", run: func() ([][]byte, [][]byte, error) {
				l, err := ksrig.ModelAll(h.ks, x.s.kind, x.s.id)
				return l, genuineAll(), err
			}})
		}
		if h.ks == fresh && !w.r.Thorough() && w.n%4 != 0 {
			// the handle opened afterwards: open, read and one update in every case, everything in every fourth
			// (tamper.go reads through fresh handles at every offset)
			ops = append(ops, warmOp{handle: h.name, name: "generate(rotate)", update: true, run: func() ([][]byte, [][]byte, error) {
				return nil, nil, ksrig.ModelGenerate(h.ks, x.s.kind, x.s.id)
			}})
			continue
		}
		ops = append(ops, warmOp{handle: h.name, name: "ExportKeyRings", run: func() ([][]byte, [][]byte, error) {
			suite, err := crypto.NewSCellSuite(ksrig.RandBytes(32), ksrig.RandBytes(32))
			if err != nil {
				return nil, nil, nil
			}
			_, err = h.ks.ExportKeyRings([]string{x.s.path}, suite, keystore.ExportPrivateKeys)
			return nil, nil, err
		}})
		ops = append(ops, warmOp{handle: h.name, name: "generate(rotate)", update: true, run: func() ([][]byte, [][]byte, error) {
			return nil, nil, ksrig.ModelGenerate(h.ks, x.s.kind, x.s.id)
		}})
		if x.s.kind.HasDestroy() {
			ops = append(ops, warmOp{handle: h.name, name: "destroy-rotated", update: true, run: func() ([][]byte, [][]byte, error) {
				return nil, nil, ksrig.ModelDestroyRotated(h.ks, x.s.kind, x.s.id, 2)
			}})
			ops = append(ops, warmOp{handle: h.name, name: "destroy-current", update: true, run: func() ([][]byte, [][]byte, error) {
				return nil, nil, ksrig.ModelDestroyCurrent(h.ks, x.s.kind, x.s.id)
			}})
		}
	}
	return ops
}

// reopen replaces the ring handles of x (after an update got through: the handle's view may hold changes the
// storage no longer has) and syncs the view.
func (w *warmV2) reopen(x *warmRing) error {
	var err error
	if x.rw, err = w.W.OpenKeyRingRW(x.s.path); err != nil {
		return err
	}
	if x.ro, err = w.W.OpenKeyRing(x.s.path); err != nil {
		return err
	}
	if err = w.refresh(x); err != nil {
		return err
	}
	x.roSeqs = append([]int{}, x.seqs...)
	return nil
}

var warmProfile map[string]time.Duration // development aid (C07_PROFILE=1): time per operation kind

// oneCase: modify, use the handles, judge, put the genuine bytes back.
func (w *warmV2) oneCase(x *warmRing, m *warmMutation) bool {
	r := w.r
	tampered, region, what, ok := m.apply(x)
	if !ok || bytes.Equal(tampered, x.genuine) {
		w.count("w_v2_mutations_not_applicable(no such older version / no change)")
		return true
	}
	replay := m.class == "replay-older-version"
	fail := func(what string, err error) bool {
		r.Inconclusive(fmt.Sprintf("warm v2 (%s, ring %s): %s: %v", w.cfg.name, x.s.path, what, err))
		return false
	}
	tPh := time.Now()
	ph := func(name string) {
		if warmProfile != nil {
			warmProfile["phase "+w.cfg.name+" "+name] += time.Since(tPh)
			tPh = time.Now()
		}
	}
	if err := w.store(x.file, tampered); err != nil {
		return fail("store modified bytes", err)
	}
	ph("store")
	w.obs.set(tampered)
	if m.partner != nil {
		if err := w.store(m.partner.file, x.genuine); err != nil {
			return fail("store modified bytes", err)
		}
		w.obs.set(tampered, x.genuine)
	}
	fresh, err := w.openKS()
	if err != nil {
		return fail("open a keystore handle", err)
	}
	defer fresh.Close()
	ph("open")
	w.n++
	w.count("w_v2_cases")
	w.count("w_v2_cases_mutation=" + m.class)
	w.count("w_v2_cases_region=" + region)
	r.SetAdd("w_v2_mutations", m.name())
	r.SetAdd("w_v2_rings", w.cfg.name+"|"+x.s.path)
	if m.class == "bit-flip" || m.class == "byte-value" {
		f := x.fields[m.off]
		r.SetAdd("w_v2_fields_modified", shortField(f.field)+" "+f.part)
	}
	r.Distinct(fmt.Sprintf("%s|c-warm|%s|%s|%s", w.cfg.name, x.s.kind, m.name(), region))
	rewritten := false
	nJudged := 0
	ops := w.ops(x, fresh)
	if m.partner != nil {
		// the partner's warm handle sees this ring's bytes at its path
		p := m.partner
		ops = append(ops, warmOp{handle: "ring-rw", name: "AddKey(on the ring swapped with)", update: true, run: func() ([][]byte, [][]byte, error) {
			d, _, err := warmKeyDescription(p.s.kind.IsPair())
			if err == nil {
				_, err = p.rw.AddKey(d)
			}
			return nil, nil, err
		}})
	}
	type traced struct {
		op      *warmOp
		err     error
		readMod bool
	}
	var done []traced
	trace := func() []string {
		out := make([]string, 0, len(done))
		for _, t := range done {
			out = append(out, fmt.Sprintf("%s %s: err=%v read-modified-bytes=%v", t.op.handle, t.op.name, t.err, t.readMod))
		}
		return out
	}
	violation := func(sig string, detail func() map[string]interface{}) {
		if w.seen[sig] {
			r.Violation(sig, nil) // counted; the first occurrence carries the detail
			return
		}
		w.seen[sig] = true
		r.Violation(sig, detail())
	}
	for i := range ops {
		if rewritten {
			// the modified bytes are no longer what is stored: nothing further to observe in this case
			if !replay {
				w.count("w_v2_cases_cut_short_after_the_stored_ring_was_replaced")
			}
			break
		}
		op := &ops[i]
		if replay && op.update && op.handle != "ring-rw" {
			continue
		}
		w.obs.reset()
		var got, want [][]byte
		var err error
		tOp := time.Now()
		site, stack := guard(func() { got, want, err = op.run() })
		if warmProfile != nil {
			warmProfile[op.handle+" "+op.name] += time.Since(tOp)
		}
		readMod := w.obs.readsTampered > 0
		kindOf := "read"
		if op.update {
			kindOf = "update"
		}
		done = append(done, traced{op, err, readMod})
		if err == nil && site == "" && !(op.name == "key-material") {
			if now, e := w.stored(x.file); e != nil || !bytes.Equal(now, tampered) {
				rewritten = true
			}
		}
		detail := func() map[string]interface{} {
			now, _ := w.stored(x.file)
			after := "still the modified bytes"
			if !bytes.Equal(now, tampered) {
				after = "rewritten by the operation"
				if _, e := fresh.OpenKeyRing(x.s.path); e == nil {
					after += ", verifies on another handle: the modification is gone and was never reported"
				}
			}
			f := ""
			if m.class == "bit-flip" || m.class == "byte-value" {
				f = x.fields[m.off].field + " " + x.fields[m.off].part
			}
			return map[string]interface{}{"config": w.cfg.name, "seed": r.Seed, "ring": x.s.path, "mutation": m.name(), "modification": what, "region": region, "der_field": f,
				"handle": op.handle, "operation": op.name, "error": fmt.Sprint(err), "back_end_returned_modified_bytes_during_operation": readMod, "stored_ring_afterwards": after,
				"returned": hexAll(got), "genuine": hexAll(want), "genuine_file": ev.FullHex(x.genuine), "modified_file": ev.FullHex(tampered), "operations_so_far": trace(), "stack": stack}
		}
		if replay {
			// not judged: see the head of the file
			w.count("w_v2_replay_older_version_ops(not judged)")
			if err == nil && site == "" {
				w.count(fmt.Sprintf("w_v2_replay_older_version_accepted(not judged) handle=%s %s", op.handle, kindOf))
			}
			if site != "" {
				violation(fmt.Sprintf("v2 tampering under open handles: %s through %s panics at %s (mutation=%s)", op.name, op.handle, site, m.name()), detail)
			}
			continue
		}
		nJudged++
		w.count("w_v2_ops_checked")
		w.count("w_v2_ops_checked_handle=" + op.handle)
		switch {
		case site != "":
			violation(fmt.Sprintf("v2 tampering under open handles: %s through %s panics at %s (mutation=%s region=%s)", op.name, op.handle, site, m.name(), region), detail)
		case err != nil:
			w.count("w_v2_" + kindOf + "s_failed")
			if op.update {
				w.count("w_v2_updates_failed_op=" + op.name + " handle=" + op.handle)
			}
		case op.update:
			// O3
			violation(fmt.Sprintf("v2 tampering under open handles: update through %s succeeds over a modified stored key ring: op=%s mutation=%s region=%s", op.handle, op.name, m.name(), region), detail)
		case readMod:
			// O1
			violation(fmt.Sprintf("v2 tampering under open handles: read through %s succeeds on modified key ring bytes: op=%s mutation=%s region=%s", op.handle, op.name, m.name(), region), detail)
		case want != nil && !sameSecrets(got, want):
			// O2
			violation(fmt.Sprintf("v2 tampering under open handles: read through %s returns other key material than the genuine one: op=%s mutation=%s region=%s", op.handle, op.name, m.name(), region), detail)
		case want == nil:
			// a read that returns no material, succeeded, and was not handed the modified bytes: nothing to compare
			w.count("w_v2_reads_succeeded_without_storage_read_and_without_material")
		default:
			w.count("w_v2_reads_served_from_the_handle's_own_data(genuine material, not judged)")
		}
	}
	r.Cases(nJudged)
	ph("ops")
	// put the genuine bytes back
	now, _ := w.stored(x.file)
	if !bytes.Equal(now, tampered) {
		rewritten = true
	}
	w.obs.set()
	if err := w.store(x.file, x.genuine); err != nil {
		return fail("restore", err)
	}
	if m.partner != nil {
		pnow, _ := w.stored(m.partner.file)
		if err := w.store(m.partner.file, m.partner.genuine); err != nil {
			return fail("restore", err)
		}
		if !bytes.Equal(pnow, x.genuine) {
			// the partner's handle got an update through: its view holds changes the storage no longer has
			if err := w.reopen(m.partner); err != nil {
				return fail("re-open handles of the ring swapped with", err)
			}
		}
	}
	ph("restore")
	if w.n <= 3 || (m.class != "bit-flip" && m.class != "byte-value") {
		r.SampleN("c-warm/"+w.cfg.name+"/"+m.class, 1, map[string]interface{}{"oracle": "c (warm handles)", "config": w.cfg.name, "ring": x.file, "mutation": m.name(), "modification": what, "region": region,
			"file_len": len(x.genuine), "operations": trace()})
	}
	if rewritten || replay {
		if err := w.reopen(x); err != nil {
			return fail("re-open handles after an update got through", err)
		}
		if err := w.positiveControl(x); err != nil {
			return fail("positive control", err)
		}
	}
	return true
}

func runWarmV2(r *ev.Run, cfg config) {
	g := newRig(cfg, "")
	defer g.destroy()
	w := &warmV2{r: r, cfg: cfg, g: g, obs: &warmObs{}, ring: map[string]*warmRing{}, cnt: map[string]int64{}, seen: map[string]bool{}}
	defer w.flush()
	var err error
	if w.W, err = w.openKS(); err != nil {
		r.Inconclusive("warm v2: " + err.Error())
		return
	}
	defer w.W.Close()
	if err = populate(w.W, 2); err == nil {
		err = ksrig.ModelDestroyRotated(w.W, ksrig.ModelStorageSym, clientA, 2)
	}
	if err != nil {
		r.Inconclusive("warm v2: cannot populate: " + err.Error())
		return
	}
	var rings []*warmRing
	for _, s := range v2Slots(owners()) {
		x, err := w.warmUp(s)
		if err != nil {
			r.Inconclusive(fmt.Sprintf("warm v2 (%s): warm-up of ring %s: %v", cfg.name, s.path, err))
			return
		}
		rings = append(rings, x)
	}
	// some history for every ring (older valid versions to replay)
	for _, x := range rings {
		for i := 0; i < 4; i++ {
			if err := w.positiveControl(x); err != nil {
				r.Inconclusive(fmt.Sprintf("warm v2 (%s): ring %s: %v", cfg.name, x.s.path, err))
				return
			}
		}
	}
	pcEvery := 12
	for idx, x := range rings {
		for i, m := range w.mutations(x, idx, rings) {
			m := m
			if !w.oneCase(x, &m) {
				return
			}
			if i%pcEvery == pcEvery-1 {
				if err := w.positiveControl(x); err != nil {
					r.Inconclusive(fmt.Sprintf("warm v2 (%s): ring %s after %s: %v", cfg.name, x.s.path, m.name(), err))
					return
				}
			}
		}
		// at the end the handles work as before
		if err := w.positiveControl(x); err != nil {
			r.Inconclusive(fmt.Sprintf("warm v2 (%s): ring %s after the sweep: %v", cfg.name, x.s.path, err))
			return
		}
		cur, _, err := ksrig.ModelCurrent(w.W, x.s.kind, x.s.id)
		if err != nil || !bytes.Equal(cur, x.mat[x.current].secret()) {
			r.Inconclusive(fmt.Sprintf("warm v2 (%s): ring %s after the sweep: getter: %v", cfg.name, x.s.path, err))
		}
	}
}

func runWarm(r *ev.Run) {
	if p := os.Getenv("C07_CPUPROFILE"); p != "" { // development aid
		if f, err := os.Create(p); err == nil {
			pprof.StartCPUProfile(f)
			defer pprof.StopCPUProfile()
		}
	}
	if os.Getenv("C07_PROFILE") != "" {
		warmProfile = map[string]time.Duration{}
		defer func() {
			for k, v := range warmProfile {
				fmt.Fprintf(os.Stderr, "PROFILE %-60s %v\n", k, v)
			}
		}()
	}
	t0 := time.Now()
	runWarmV2(r, configs[3])
	t1 := time.Now()
	runWarmV2(r, configs[4])
	t2 := time.Now()
	for _, cfg := range configs[:3] {
		runWarmV1(r, cfg)
	}
	r.Extra("warm_layer_wall_s(v2/memory, v2/directory, v1 x3; runs beside the other layers)", fmt.Sprintf("%.1f, %.1f, %.1f", t1.Sub(t0).Seconds(), t2.Sub(t1).Seconds(), time.Since(t2).Seconds()))
}
