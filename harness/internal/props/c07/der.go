package c07

// Offset -> DER field classifier for stored v2 key ring files (used by the byte-value sweep of oracle (c), so that a
// violation names the element whose byte was changed: "container/signatures/signature/value(OCTET STRING) byte=length").
//
// The walk is a plain TLV walk of the UNTOUCHED file (definite lengths, low tag numbers — all that Acra's DER writer
// produces); the names of the outer levels come from keystore/v2/keystore/asn1 (SignedContainer, SignedPayload,
// Signature); below payload/data elements are named by their tags only.

import (
	"fmt"
	"strings"
)

// derByte is the role of one byte of a DER file.
type derByte struct {
	field string // path of the innermost element that covers the byte
	part  string // "tag" | "length" | "content" (content of a primitive element)
}

type derSchema struct {
	name     string
	children []*derSchema // by position (SEQUENCE)
	each     *derSchema   // SET OF / SEQUENCE OF
}

var ringSchema = &derSchema{name: "container", children: []*derSchema{
	{name: "payload", children: []*derSchema{{name: "contentType"}, {name: "version"}, {name: "lastModified"}, {name: "data"}}},
	{name: "signatures", each: &derSchema{name: "signature", children: []*derSchema{{name: "algorithm"}, {name: "value"}}}},
}}

// field of the length octet of the HMAC value: the last length byte of a ring file
const fieldSignatureValue = "container/signatures/signature/value(OCTET STRING)"

var universalTagNames = map[byte]string{1: "BOOLEAN", 2: "INTEGER", 3: "BIT STRING", 4: "OCTET STRING", 5: "NULL", 6: "OID", 10: "ENUMERATED",
	12: "UTF8String", 16: "SEQUENCE", 17: "SET", 19: "PrintableString", 22: "IA5String", 23: "UTCTime", 24: "GeneralizedTime"}

func derTagName(tag byte) string {
	num := tag & 0x1f
	switch tag >> 6 {
	case 0:
		if n, ok := universalTagNames[num]; ok {
			return n
		}
		return fmt.Sprintf("UNIVERSAL %d", num)
	case 1:
		return fmt.Sprintf("[APPLICATION %d]", num)
	case 2:
		return fmt.Sprintf("[%d]", num)
	}
	return fmt.Sprintf("[PRIVATE %d]", num)
}

// derHeader parses tag and definite length at data[off:end].
func derHeader(data []byte, off, end int) (hdr, content int, ok bool) {
	if off+2 > end || data[off]&0x1f == 0x1f {
		return 0, 0, false
	}
	l := int(data[off+1])
	hdr = 2
	if l&0x80 != 0 {
		n := l & 0x7f
		if n == 0 || n > 3 || off+2+n > end {
			return 0, 0, false
		}
		l = 0
		for i := 0; i < n; i++ {
			l = l<<8 | int(data[off+2+i])
		}
		hdr += n
	}
	if off+hdr+l > end {
		return 0, 0, false
	}
	return hdr, l, true
}

// classifyDER labels every byte of data. Bytes that cannot be attributed (malformed input) are "content" of the
// enclosing element.
func classifyDER(data []byte, root *derSchema) []derByte {
	out := make([]derByte, len(data))
	var walk func(start, end int, parent string, schemas []*derSchema, each *derSchema)
	walk = func(start, end int, parent string, schemas []*derSchema, each *derSchema) {
		off := start
		for i := 0; off < end; i++ {
			hdr, l, ok := derHeader(data, off, end)
			if !ok {
				for ; off < end; off++ {
					out[off] = derByte{parent, "content"}
				}
				return
			}
			var sch *derSchema
			if i < len(schemas) {
				sch = schemas[i]
			} else if each != nil {
				sch = each
			}
			tagName := derTagName(data[off])
			path, label := tagName, ""
			if sch != nil {
				path = sch.name
			}
			if parent != "" {
				path = parent + "/" + path
			}
			label = path
			if sch != nil {
				label = path + "(" + tagName + ")"
			}
			out[off] = derByte{label, "tag"}
			for j := 1; j < hdr; j++ {
				out[off+j] = derByte{label, "length"}
			}
			if data[off]&0x20 != 0 {
				var cs []*derSchema
				var ce *derSchema
				if sch != nil {
					cs, ce = sch.children, sch.each
				}
				walk(off+hdr, off+hdr+l, path, cs, ce)
			} else {
				for j := 0; j < l; j++ {
					out[off+hdr+j] = derByte{label, "content"}
				}
			}
			off += hdr + l
		}
	}
	walk(0, len(data), "", []*derSchema{root}, nil)
	return out
}

// byteValue is one replacement value for a stored byte and the rule that produced it.
type byteValue struct {
	v    byte
	rule string
}

// byteValuesFor lists the replacement values tried at one offset: a pure function of the original byte and the tier.
//
//	quick:    value-1, value+1, value/2, every 0x10..0x1f when the byte is 0x20 (a DER length of 32 — the size of a
//	          SHA-256 / HMAC-SHA-256 value — lowered to "at least half"), and the DER boundary values 0, 0x7f, 0x80,
//	          0x81, 0xff; values equal to the original are skipped, duplicates removed (first rule wins);
//	all (thorough tier): all 255 other values (the named rules first, so that rule names mean the same in both tiers).
func byteValuesFor(orig byte, all bool) []byteValue {
	var out []byteValue
	var seen [256]bool
	seen[orig] = true
	add := func(v byte, rule string) {
		if !seen[v] {
			seen[v] = true
			out = append(out, byteValue{v, rule})
		}
	}
	add(orig-1, "minus-1")
	add(orig+1, "plus-1")
	add(orig/2, "halved")
	if orig == 0x20 {
		for v := byte(0x10); v <= 0x1f; v++ {
			add(v, "0x20-lowered-to-0x10..0x1f")
		}
	}
	for _, v := range []byte{0, 0x7f, 0x80, 0x81, 0xff} {
		add(v, "der-boundary-value")
	}
	if all {
		for v := 0; v < 256; v++ {
			add(byte(v), "any-other-value")
		}
	}
	return out
}

func changeDirection(from, to byte) string {
	if to < from {
		return "lowered"
	}
	return "raised"
}

// shortField drops the common prefix for counters / set members.
func shortField(f string) string { return strings.TrimPrefix(f, "container/") }
