package c06

// faulted.go — workload class "histories that contain FAILED rotations and destructions".
//
// The histories of c06.go consist of successful operations only. Here, at seeded points of a history, one
// generate / rotate / save-pair / destroy-current / destroy-rotated operation of any key kind is run with ONE storage
// fault armed in the fault-injecting storage (v1: ksrig.FaultStorage around the real files) or back end (v2:
// ksrig.FaultBackend around InMemory / DirectoryBackend) the MAIN handle writes through: call number k of the operation
// returns an error, either without being performed (error-before) or after it was performed (error-after). The
// operation reports its error (or tolerates the fault), and the history goes on through the SAME handle, through
// Reset() and through re-opened handles.
//
// Reference model: the SURVIVING keys are what the storage holds, as a FRESH handle over the same storage (v1: cache
// off, plain storage; v2: its own back-end handle) reads it at that moment. Nothing about Acra's files or rings is
// predicted, and both outcomes of a failed operation (took effect / did not) are accepted: what is demanded is
// agreement with the storage. See notes/c06.md, section "Histories with failed operations".

import (
	"bytes"
	"fmt"
	"os"
	"sort"
	"strings"
	"sync"

	"github.com/cossacklabs/acra/acrablock"
	"github.com/cossacklabs/acra/acrastruct"
	"github.com/cossacklabs/acra/keystore/filesystem"
	"github.com/cossacklabs/acra/keystore/v2/keystore/filesystem/backend"
	"github.com/cossacklabs/themis/gothemis/keys"

	"verif/harness/internal/ev"
	"verif/harness/internal/gen"
	"verif/harness/internal/rig/ksrig"
)

// configurations of this layer (history i uses fConfigs[i mod len]): every cache mode of v1, both v2 back ends.
var fConfigs = []config{
	{name: "v1/cache=unbounded", cache: 0},
	{name: "v1/cache=lru1", cache: 1},
	{name: "v1/cache=lru2", cache: 2},
	{name: "v1/cache=off", cache: -1},
	{name: "v2/memory", v2: true},
	{name: "v1/cache=unbounded", cache: 0},
	{name: "v1/cache=lru2", cache: 2},
	{name: "v2/directory", v2: true, dir: true},
}

func fCacheClass(c config) string {
	switch {
	case c.v2:
		return "none"
	case c.cache < 0:
		return "off"
	case c.cache == 0:
		return "unbounded"
	}
	return "lru"
}

type fNopClose struct{ backend.Backend }

func (fNopClose) Close() error { return nil }

// fDataFaults routes the DATA calls of a v2 back end (Get, Put, ListAll, Rename, RenameNX) through the fault wrapper
// and the lock calls straight to the back end: in this layer the fault index is drawn without knowing the call, and
// an Unlock that "fails" without being performed (or a Lock performed but reported as failed) would leave the
// back-end lock held for the rest of the history — an artefact of the injection, not a behaviour of Acra. Faults at
// the lock calls are C08's subject (its enumeration picks the legal mode per call).
type fDataFaults struct {
	*ksrig.FaultBackend
	locks backend.Backend
}

func (b fDataFaults) Lock() error    { return b.locks.Lock() }
func (b fDataFaults) Unlock() error  { return b.locks.Unlock() }
func (b fDataFaults) RLock() error   { return b.locks.RLock() }
func (b fDataFaults) RUnlock() error { return b.locks.RUnlock() }

// ---------------------------------------------------------------------------------------------
// what one handle shows for one key

type fView struct {
	cur      []byte
	curErr   error
	curPanic string
	all      [][]byte
	allErr   error
	allPanic string
	stack    string
	hasAll   bool
}

func fObserve(ks ksrig.FullKeyStore, k ksrig.ModelKind, id []byte) (v fView) {
	v.hasAll = k.HasGetAll()
	v.curPanic, v.stack = guard(func() { v.cur, _, v.curErr = ksrig.ModelCurrent(ks, k, id) })
	if v.curPanic == "" && v.curErr == nil && len(v.cur) == 0 {
		v.curErr = fmt.Errorf("empty key returned without error")
	}
	if v.hasAll {
		var st string
		v.allPanic, st = guard(func() { v.all, v.allErr = ksrig.ModelAll(ks, k, id) })
		if st != "" {
			v.stack = st
		}
	}
	return
}

func (v fView) curOK() bool { return v.curPanic == "" && v.curErr == nil }
func (v fView) allOK() bool { return v.hasAll && v.allPanic == "" && v.allErr == nil }

// values: everything the view offers (get-all and get-current).
func (v fView) values() [][]byte {
	var out [][]byte
	if v.allOK() {
		out = append(out, v.all...)
	}
	if v.curOK() {
		out = append(out, v.cur)
	}
	return out
}

func (v fView) offers(val []byte) bool {
	for _, x := range v.values() {
		if bytes.Equal(x, val) {
			return true
		}
	}
	return false
}

// ---------------------------------------------------------------------------------------------
// one key (kind, client) of a faulted history

type fSample struct {
	key    []byte // value of the secret key that reveals it (established by decrypting, never predicted)
	cipher []byte
	plain  []byte
}

type fTarget struct {
	kind    ksrig.ModelKind
	client  []byte
	stored  map[string]int  // every value a fresh handle ever read from the storage for this key -> label
	offered map[string]bool // values the MAIN handle returned since it was opened / Reset()
	failing map[string]bool
	samples []fSample
	lastRel string // last mutating step related to this key (stable text)
	fresh   fView  // the latest reading of the storage
	hasRead bool
}

func (t *fTarget) name() string {
	if t.kind.PerClient() {
		return fmt.Sprintf("%s/%s", t.kind, t.client)
	}
	return t.kind.String()
}

func (t *fTarget) label(v []byte) string {
	if n, ok := t.stored[string(v)]; ok {
		return fmt.Sprintf("s%d:%s", n, ev.Hex(v[max(0, len(v)-6):]))
	}
	return fmt.Sprintf("NEVER-STORED:%s", ev.Hex(v[max(0, len(v)-6):]))
}

func (t *fTarget) render(v fView) map[string]interface{} {
	m := map[string]interface{}{}
	switch {
	case v.curPanic != "":
		m["current"] = "PANIC " + v.curPanic
	case v.curErr != nil:
		m["current"] = "error: " + v.curErr.Error()
	default:
		m["current"] = t.label(v.cur)
	}
	if v.hasAll {
		switch {
		case v.allPanic != "":
			m["all"] = "PANIC " + v.allPanic
		case v.allErr != nil:
			m["all"] = "error: " + v.allErr.Error()
		default:
			var l []string
			for _, x := range v.all {
				l = append(l, t.label(x))
			}
			m["all"] = l
		}
	}
	return m
}

// ---------------------------------------------------------------------------------------------
// the store under test

type fStep struct {
	op     string // generate-first / rotate / save-supplied-pair / destroy-current / destroy-rotated
	result string // ok | failed(<call class>:<mode>) | failed-without-fault | tolerated(<call class>:<mode>)
}

type fStore struct {
	cfg    config
	dir    string
	master []byte
	v2keys ksrig.V2Keys
	mem    *backend.InMemory
	rd     *rSite // Redis-backed variants (redisfaulted.go): faults come from the fakeredis command hook
	H      ksrig.FullKeyStore
	hClose func()
	fs     *ksrig.FaultStorage
	be     *ksrig.FaultBackend
	dirty  bool   // a mutating call went through the main handle since it was opened / Reset()
	since  string // how the main handle became clean the last time: open | reset | reopen
	tgts   map[ksrig.ModelID]*fTarget
	trace  []string
	traces map[string][]ksrig.FaultCall // storage-call trace of the last run of (operation, kind) through the main handle
}

func fOpenStore(cfg config) (*fStore, error) { return fOpenStoreAt(cfg, nil) }

func fOpenStoreAt(cfg config, rd *rSite) (*fStore, error) {
	s := &fStore{cfg: cfg, rd: rd, tgts: map[ksrig.ModelID]*fTarget{}, traces: map[string][]ksrig.FaultCall{}}
	if cfg.redis {
		s.v2keys = ksrig.NewV2Keys()
		s.master = ksrig.RandBytes(32)
	} else if cfg.v2 {
		s.v2keys = ksrig.NewV2Keys()
		if cfg.dir {
			s.dir = ksrig.ScratchDir("c06f-v2")
		} else {
			s.mem = backend.NewInMemory()
		}
	} else {
		s.dir = ksrig.ScratchDir("c06f-v1")
		s.master = ksrig.RandBytes(32)
	}
	if err := s.openMain(); err != nil {
		return nil, err
	}
	s.since = "open"
	return s, nil
}

// openMain opens the main handle: configured cache, every storage call through the fault wrapper (no fault armed).
func (s *fStore) openMain() error {
	if s.hClose != nil {
		s.hClose()
		s.hClose = nil
	}
	s.fs, s.be = nil, nil
	if s.cfg.redis {
		// a new handle with a connection pool of its own on the same server; no wrapper: faults are injected per
		// Redis command by the server hook
		ks, cl, err := s.rd.openHandle(s.cfg, s.master, s.v2keys, s.cfg.cache, nil, "main")
		if err != nil {
			return err
		}
		s.H, s.hClose = ks, cl
		return nil
	}
	if !s.cfg.v2 {
		fs := ksrig.NewFaultStorage(&filesystem.DummyStorage{}, s.dir, nil)
		ks, err := ksrig.V1WithStorage(s.dir, s.master, s.cfg.cache, fs)
		if err != nil {
			return err
		}
		s.H, s.fs, s.hClose = ks, fs, func() {}
		return nil
	}
	var inner backend.Backend
	if s.cfg.dir {
		b, err := backend.CreateDirectoryBackend(s.dir)
		if err != nil {
			return err
		}
		inner = b
	} else {
		inner = fNopClose{s.mem}
	}
	be := ksrig.NewFaultBackend(inner, nil)
	ks, err := ksrig.V2OnBackend(fDataFaults{FaultBackend: be, locks: inner}, s.v2keys)
	if err != nil {
		return err
	}
	s.H, s.be, s.hClose = ks, be, func() { ks.Close() }
	return nil
}

// openFresh opens a fresh handle straight on the storage: what a restarted process reads.
func (s *fStore) openFresh() (ksrig.FullKeyStore, func(), error) {
	switch {
	case s.cfg.redis:
		return s.rd.openHandle(s.cfg, s.master, s.v2keys, -1, nil, "fresh")
	case !s.cfg.v2:
		ks, err := ksrig.V1(s.dir, s.master, -1)
		if err != nil {
			return nil, nil, err
		}
		return ks, func() {}, nil
	case s.cfg.dir:
		ks, err := ksrig.V2Dir(s.dir, s.v2keys)
		if err != nil {
			return nil, nil, err
		}
		return ks, func() { ks.Close() }, nil
	default:
		ks, err := ksrig.V2OnBackend(fNopClose{s.mem}, s.v2keys)
		if err != nil {
			return nil, nil, err
		}
		return ks, func() { ks.Close() }, nil
	}
}

func (s *fStore) setPlan(p ksrig.FaultPlan) {
	if s.rd != nil {
		s.rd.arm(p)
	}
	if s.fs != nil {
		s.fs.SetPlan(p)
	}
	if s.be != nil {
		s.be.SetPlan(p)
	}
}

func (s *fStore) calls() []ksrig.FaultCall {
	if s.rd != nil {
		return s.rd.calls()
	}
	if s.fs != nil {
		return s.fs.Calls()
	}
	if s.be != nil {
		return s.be.Calls()
	}
	return nil
}

func (s *fStore) close() {
	if s.hClose != nil {
		s.hClose()
	}
	if s.dir != "" {
		os.RemoveAll(s.dir)
	}
}

func (s *fStore) target(k ksrig.ModelKind, id []byte) *fTarget {
	mid := ksrig.ModelID{Kind: k}
	if k.PerClient() {
		mid.Client = string(id)
	}
	t := s.tgts[mid]
	if t == nil {
		t = &fTarget{kind: k, stored: map[string]int{}, offered: map[string]bool{}, failing: map[string]bool{}}
		if k.PerClient() {
			t.client = append([]byte{}, id...)
		}
		s.tgts[mid] = t
	}
	return t
}

func (s *fStore) targets() []*fTarget {
	ids := make([]ksrig.ModelID, 0, len(s.tgts))
	for id := range s.tgts {
		ids = append(ids, id)
	}
	sort.Slice(ids, func(i, j int) bool {
		if ids[i].Kind != ids[j].Kind {
			return ids[i].Kind < ids[j].Kind
		}
		return ids[i].Client < ids[j].Client
	})
	out := make([]*fTarget, 0, len(ids))
	for _, id := range ids {
		out = append(out, s.tgts[id])
	}
	return out
}

// consistent: is the main handle a cache-consistent view right now (no cache, or nothing written through it since
// it was opened / Reset())?
func (s *fStore) consistent() bool { return !s.cfg.cached() || !s.dirty }

// viewName names the view of the main handle for signatures.
func (s *fStore) viewName() string {
	switch {
	case s.cfg.v2:
		return "same-handle(no-cache)"
	case !s.cfg.cached():
		return "same-handle(cache=off)"
	case s.dirty:
		return "same-handle(warm,cache=" + fCacheClass(s.cfg) + ")"
	}
	return "after-" + s.since + "(cache=" + fCacheClass(s.cfg) + ")"
}

// ---------------------------------------------------------------------------------------------

type fCtx struct {
	r     *ev.Run
	s     *fStore
	hidx  int
	abort bool
}

func (c *fCtx) count(name string, n int64) { c.r.Count(c.s.cfg.cpfx()+name, n) }
func (c *fCtx) setAdd(set, member string)  { c.r.SetAdd(c.s.cfg.cpfx()+set, member) }

func (c *fCtx) logf(format string, a ...interface{}) {
	c.s.trace = append(c.s.trace, fmt.Sprintf(format, a...))
}

func (c *fCtx) detail(t *fTarget, extra map[string]interface{}) map[string]interface{} {
	d := map[string]interface{}{
		"layer":   "histories with failed operations (faulted.go)",
		"config":  c.s.cfg.name,
		"history": c.hidx,
		"seed":    c.r.Seed,
		"trace":   append([]string{}, c.s.trace...),
	}
	if t != nil {
		d["key"] = t.name()
		d["storage_as_a_fresh_handle_reads_it"] = t.render(t.fresh)
		var off []string
		for v := range t.offered {
			off = append(off, t.label([]byte(v)))
		}
		sort.Strings(off)
		d["offered_by_this_handle_since_open_or_reset"] = off
	}
	for k, v := range extra {
		d[k] = v
	}
	return d
}

func (c *fCtx) edge(t *fTarget, id string, failed bool, sig string, extra map[string]interface{}) {
	if !failed {
		delete(t.failing, id)
		return
	}
	if t.failing[id] {
		c.count("faulted_violations_persisting_not_rereported", 1)
		return
	}
	t.failing[id] = true
	c.logf("  !! %s", sig)
	c.r.Violation(sig, c.detail(t, extra))
}

// readStorage reads every key in play through a FRESH handle: the reference for everything that follows.
func (c *fCtx) readStorage() bool {
	s := c.s
	ks, cl, err := s.openFresh()
	if err != nil {
		c.r.Inconclusive(fmt.Sprintf("faulted history %d: cannot open a fresh handle: %v", c.hidx, err))
		c.abort = true
		return false
	}
	defer cl()
	for _, t := range s.targets() {
		v := fObserve(ks, t.kind, t.client)
		c.count("faulted_fresh_handle_readings", 1)
		if v.curPanic != "" || v.allPanic != "" {
			site := v.curPanic + v.allPanic
			c.edge(t, "fresh-panic", true, fmt.Sprintf("%s kind=%s view=fresh-handle panic at %s after=%s", s.cfg.fName(), t.kind, site, t.after()),
				map[string]interface{}{"stack": v.stack})
		}
		for _, x := range v.values() {
			if _, ok := t.stored[string(x)]; !ok {
				t.stored[string(x)] = len(t.stored)
			}
		}
		t.fresh, t.hasRead = v, true
	}
	return true
}

func (t *fTarget) after() string {
	if t.lastRel == "" {
		return "none"
	}
	return t.lastRel
}

// ---------------------------------------------------------------------------------------------
// oracles

// checkMain judges what the main handle shows for t against the latest reading of the storage.
func (c *fCtx) checkMain(t *fTarget) {
	if !t.hasRead {
		return
	}
	r, s := c.r, c.s
	view := s.viewName()
	consistent := s.consistent()
	h := fObserve(s.H, t.kind, t.client)
	f := t.fresh
	r.Case()
	c.setAdd("faulted_configs", s.cfg.name)
	c.setAdd("faulted_kinds", t.kind.String())
	r.Distinct(fmt.Sprintf("faulted|%s|%s|%s|after=%s|storage:cur=%v,all=%s", s.cfg.name, t.kind, view, fAfterClass(t.after()), f.curOK(), bucket(len(f.all))))
	pre := fmt.Sprintf("%s kind=%s view=%s", s.cfg.fName(), t.kind, view)
	post := "after=" + t.after()
	extra := func() map[string]interface{} {
		return map[string]interface{}{"main_handle_shows": t.render(h), "view": view}
	}
	if h.curPanic != "" || h.allPanic != "" {
		e := extra()
		e["stack"] = h.stack
		c.edge(t, "panic", true, fmt.Sprintf("%s panic at %s %s", pre, h.curPanic+h.allPanic, post), e)
		return
	}
	if consistent {
		c.count("faulted_consistent_view_checked", 1)
		if strings.Contains(t.after(), "[failed") {
			c.count("faulted_consistent_view_checked_after_a_failed_operation", 1)
		}
		if strings.HasPrefix(view, "after-") && strings.Contains(t.after(), "[failed") {
			c.count("faulted_after_reset_or_reopen_checked_after_a_failed_operation", 1)
		}
		// "the current key of each kind is the most recently generated surviving one" / "shows the same as soon as
		// the cache is reset": a consistent view agrees with the storage.
		class := ""
		switch {
		case f.curOK() && !h.curOK():
			class = "error(" + errClass(h.curErr) + ")-while-storage-holds-a-current-key"
		case !f.curOK() && h.curOK():
			class = "offers-a-current-key(" + fStoredClass(t, h.cur) + ")-though-storage-holds-none"
		case f.curOK() && !bytes.Equal(f.cur, h.cur):
			class = "differs-from-the-current-key-in-storage(" + fStoredClass(t, h.cur) + ")"
		}
		c.edge(t, "cons/cur", class != "", fmt.Sprintf("%s check=get-current class=%s %s", pre, class, post), extra())
		if t.kind.HasGetAll() {
			class = ""
			switch {
			case f.allOK() && !h.allOK():
				class = "error(" + errClass(h.allErr) + ")-while-storage-holds-keys"
			case !f.allOK() && h.allOK() && len(h.all) > 0:
				class = "offers-keys-though-a-fresh-handle-finds-none"
			case f.allOK():
				class = fCompareLists(t, f.all, h.all)
			}
			c.edge(t, "cons/all", class != "", fmt.Sprintf("%s check=get-all class=%s %s", pre, class, post), extra())
			if h.allOK() {
				c.checkSamples(t, h.all, f, pre, post, "cons")
			}
		}
	} else {
		c.count("faulted_warm_view_checked", 1)
		if strings.Contains(t.after(), "[failed") {
			c.count("faulted_warm_view_checked_after_a_failed_operation", 1)
		}
		// (a) whatever a warm handle offers was stored at some time: a value the storage never held is not a key of
		// this keystore ("the current key ... is the most recently generated surviving one").
		class := ""
		if h.curOK() {
			if _, ok := t.stored[string(h.cur)]; !ok {
				class = "offers-a-value-the-storage-never-held"
			} else if !f.offers(h.cur) {
				c.count("faulted_warm_current_key_no_longer_in_storage(not judged)", 1)
			}
		}
		c.edge(t, "warm/cur", class != "", fmt.Sprintf("%s check=get-current class=%s %s", pre, class, post), extra())
		if t.kind.HasGetAll() {
			class = ""
			if h.allOK() {
				for _, x := range h.all {
					if _, ok := t.stored[string(x)]; !ok {
						class = "lists-a-value-the-storage-never-held"
					} else if !f.offers(x) {
						c.count("faulted_warm_listed_key_no_longer_in_storage(not judged)", 1)
					}
				}
			}
			c.edge(t, "warm/all", class != "", fmt.Sprintf("%s check=get-all class=%s %s", pre, class, post), extra())
		}
		// (b) "before that never stops offering a surviving key it offered earlier"
		var lost []string
		for v := range t.offered {
			if f.offers([]byte(v)) && !h.offers([]byte(v)) {
				lost = append(lost, t.label([]byte(v)))
			}
		}
		sort.Strings(lost)
		if len(t.offered) > 0 {
			c.count("faulted_warm_monotonicity_checked_with_earlier_offers", 1)
		}
		instead := "get-current:error(" + errClass(h.curErr) + ")"
		if h.curOK() {
			instead = "get-current:" + fStoredClass(t, h.cur)
		}
		if t.kind.HasGetAll() {
			if h.allOK() {
				instead += ",get-all:ok"
			} else {
				instead += ",get-all:error(" + errClass(h.allErr) + ")"
			}
		}
		e := extra()
		e["lost"] = lost
		c.edge(t, "warm/mono", len(lost) > 0, fmt.Sprintf("%s check=stopped-offering-surviving-key class=now-shows(%s) %s", pre, instead, post), e)
		if len(lost) == 0 && t.kind.HasGetAll() {
			c.checkSamples(t, h.values(), f, pre, post, "warm")
		}
	}
	for _, v := range h.values() {
		t.offered[string(v)] = true
	}
}

// fStoredClass says what a value is relative to the storage: its current key, another surviving key, a key that was
// stored earlier and is gone, or a value the storage never held.
func fStoredClass(t *fTarget, v []byte) string {
	f := t.fresh
	switch {
	case f.curOK() && bytes.Equal(f.cur, v):
		return "the-current-key-in-storage"
	case f.offers(v):
		return "another-surviving-key"
	}
	if _, ok := t.stored[string(v)]; ok {
		return "a-key-no-longer-in-storage"
	}
	return "a-value-the-storage-never-held"
}

func fCompareLists(t *fTarget, want, got [][]byte) string {
	if len(want) == len(got) {
		same := true
		for i := range want {
			if !bytes.Equal(want[i], got[i]) {
				same = false
			}
		}
		if same {
			return ""
		}
	}
	in := func(l [][]byte, v []byte) bool {
		for _, x := range l {
			if bytes.Equal(x, v) {
				return true
			}
		}
		return false
	}
	for _, g := range got {
		if !in(want, g) {
			if _, ok := t.stored[string(g)]; !ok {
				return "lists-a-value-the-storage-never-held"
			}
			return "lists-a-key-no-longer-in-storage"
		}
	}
	for _, w := range want {
		if !in(got, w) {
			return "missing-surviving-key"
		}
	}
	if len(want) != len(got) {
		return "multiplicity-differs-from-storage"
	}
	return "order-differs-from-storage"
}

// checkSamples: "values written before a rotation remain readable" — a value protected earlier whose key the storage
// still holds must be revealed by the keys the handle offers (warm view: only if this handle offered that key before).
func (c *fCtx) checkSamples(t *fTarget, offered [][]byte, f fView, pre, post, mode string) {
	for i := range t.samples {
		sm := &t.samples[i]
		if !f.allOK() || !fIn(f.all, sm.key) {
			continue // the key is gone from the storage: not this layer's subject
		}
		if mode == "warm" && !t.offered[string(sm.key)] {
			continue
		}
		var out []byte
		var err error
		site, stack := guard(func() { out, err = decryptWith(t.kind, sm.cipher, offered) })
		c.count("faulted_earlier_value_decrypt_checked", 1)
		id := fmt.Sprintf("%s/sample%d", mode, i)
		if site != "" {
			c.edge(t, id, true, fmt.Sprintf("%s check=decrypt-earlier-value panic at %s %s", pre, site, post), map[string]interface{}{"stack": stack})
			continue
		}
		ok := err == nil && bytes.Equal(out, sm.plain)
		c.edge(t, id, !ok, fmt.Sprintf("%s check=decrypt-earlier-value class=value-under-surviving-key-no-longer-decrypts %s", pre, post),
			map[string]interface{}{"sample_key": t.label(sm.key), "error": fmt.Sprint(err)})
	}
}

func fIn(l [][]byte, v []byte) bool {
	for _, x := range l {
		if bytes.Equal(x, v) {
			return true
		}
	}
	return false
}

// fAfterClass reduces an "after" text to its operation / outcome / faulted call (for the distinct-class key).
func fAfterClass(a string) string {
	if i := strings.Index(a, "("); i > 0 && !strings.Contains(a, "[") {
		return a[:i]
	}
	if i := strings.Index(a, "]"); i > 0 {
		return a[:i+1]
	}
	return a
}

// ---------------------------------------------------------------------------------------------
// operations

// fNormCall replaces the client id in a storage-call class.
func fNormCall(class string, t *fTarget) string {
	if t.kind.PerClient() {
		class = strings.ReplaceAll(class, string(t.client), "<client>")
	}
	return class
}

// mutate runs one mutating operation of t through the main handle, with a fault armed at one of its storage calls
// when faulted. It returns the error the operation reported.
func (c *fCtx) mutate(t *fTarget, op string, rng *gen.Rand, faulted bool, f func() error) (err error, failed bool) {
	r, s := c.r, c.s
	key := op + "/" + t.kind.String()
	plan := ksrig.FaultPlan{}
	if faulted {
		plan.Mode = ksrig.FaultErrBefore
		if rng.Intn(2) == 0 {
			plan.Mode = ksrig.FaultErrAfter
		}
		prev := s.traces[key]
		if len(prev) == 0 {
			// no trace of this operation on this handle yet: draw from the usual length of its trace
			plan.At = 1 + rng.Intn(fUsualCalls(s.cfg, op, t.kind))
		} else {
			var mut []int
			for _, cl := range prev {
				if cl.Mutates {
					mut = append(mut, cl.Seq)
				}
			}
			if len(mut) > 0 && rng.Intn(100) < 75 {
				plan.At = mut[rng.Intn(len(mut))]
			} else {
				plan.At = 1 + rng.Intn(len(prev))
			}
		}
		if s.rd != nil {
			// Redis: the fault is one of the three things the command hook can do (redisfaulted.go)
			s.rd.faultKind = rng.Intn(3)
		}
	}
	before := t.fresh
	s.setPlan(plan)
	site, stack := guard(func() { err = f() })
	calls := s.calls()
	s.setPlan(ksrig.FaultPlan{})
	s.dirty = true
	fired := ""
	for _, cl := range calls {
		if cl.Faulted != "" {
			fired = fNormCall(cl.Class(), t) + ":" + cl.Faulted
		}
	}
	if fired == "" && err == nil && site == "" {
		s.traces[key] = calls
	}
	result := "ok"
	switch {
	case site != "":
		result = "panic"
	case err != nil && fired != "":
		result = "failed at " + fired
		failed = true
	case err != nil:
		result = "failed without fault"
		failed = true
	case fired != "":
		result = "tolerated " + fired
	}
	step := fmt.Sprintf("%s[%s]", op, result)
	c.logf("%s %s -> err=%v", step, t.name(), err)
	for _, o := range s.targets() {
		rel := relate(step, t.kind, string(t.client), &ksrig.ModelHistory{Kind: o.kind, Client: o.client})
		if !strings.HasSuffix(rel, "(unrelated-key)") {
			o.lastRel = rel
		}
	}
	c.count("faulted_op_"+op, 1)
	if faulted {
		c.count("faulted_ops_with_a_fault_armed", 1)
	}
	if site != "" {
		r.Violation(fmt.Sprintf("%s kind=%s op=%s panic at %s fault=%s", s.cfg.fName(), t.kind, op, site, fired),
			c.detail(t, map[string]interface{}{"stack": stack}))
		c.abort = true
		return
	}
	switch {
	case fired != "" && err != nil:
		c.count("faulted_ops_failed_at_the_injected_fault", 1)
		c.setAdd("faulted_failed_operations", op+"/"+t.kind.String())
		c.setAdd("faulted_failed_operation_kinds", op)
		c.setAdd("faulted_fault_points", s.cfg.fmtName()+":"+op+":"+fired)
	case fired != "":
		c.count("faulted_ops_that_tolerated_the_fault", 1)
	case faulted:
		c.count("faulted_ops_fault_not_reached", 1)
	}
	if err != nil && fired == "" {
		c.count("faulted_ops_failed_without_a_fault(e.g. after an earlier failure left the storage blocked)", 1)
	}
	// what the storage holds now
	if !c.readStorage() {
		return
	}
	if failed {
		c.checkThirdState(t, op, fired, before, t.fresh)
		changed := before.curOK() != t.fresh.curOK() || !bytes.Equal(before.cur, t.fresh.cur) || len(before.all) != len(t.fresh.all)
		if changed {
			c.count("faulted_failed_operation_took_effect_in_storage", 1)
		} else {
			c.count("faulted_failed_operation_left_storage_unchanged", 1)
		}
	}
	return
}

// checkThirdState: after a FAILED generate / rotate / destroy the storage, as a fresh handle reads it, must be in a state
// the reference model allows for this key — the state before the operation or the state after it ("the current key of
// each kind is the most recently generated surviving one, every surviving older key is still offered ... newest-first";
// "removes that key and no other") — never a third one: no current key although the current key was not destroyed, an
// older key promoted to current, a surviving key no longer offered, the surviving keys re-ordered, get-all failing.
// Tolerated because a fresh handle judges them as surviving keys all the same: a key listed twice (v1: the history copy
// made before the failed rename) and a new key that is listed but not (yet) current (v2).
func (c *fCtx) checkThirdState(t *fTarget, op, fired string, before, after fView) {
	if after.curPanic != "" || after.allPanic != "" || before.curPanic != "" || before.allPanic != "" {
		return // reported by readStorage
	}
	c.count("faulted_third_state_checked", 1)
	in := func(l [][]byte, v []byte) bool { return fIn(l, v) }
	dedupe := func(l [][]byte) [][]byte {
		var out [][]byte
		for _, v := range l {
			if !fIn(out, v) {
				out = append(out, v)
			}
		}
		return out
	}
	var bAll, aAll [][]byte
	hasAll := t.kind.HasGetAll() && before.allOK()
	if hasAll {
		bAll = dedupe(before.all)
		if after.allOK() {
			aAll = dedupe(after.all)
		}
	}
	known := func(v []byte) bool { // a value the storage offered before the operation
		return before.curOK() && bytes.Equal(before.cur, v) || in(bAll, v)
	}
	what := ""
	destroy := strings.HasPrefix(op, "destroy")
	switch {
	case !destroy || op == "destroy-rotated":
		// rotation (the current key stays or a NEW key becomes current) / destruction of a rotated key (current key untouched)
		switch {
		case before.curOK() && !after.curOK():
			what = "no-current-key(" + errClass(after.curErr) + ")-although-the-current-key-was-not-destroyed"
		case before.curOK() && !bytes.Equal(before.cur, after.cur) && (known(after.cur) || destroy):
			what = "another-key-became-current"
		case !before.curOK() && after.curOK() && (known(after.cur) || destroy):
			what = "an-older-key-became-current"
		}
	default:
		// destroy-current: the current key stays, or it is gone (get-current fails or falls back to a surviving key)
		if after.curOK() && !known(after.cur) {
			what = "a-value-never-offered-before-became-current"
		}
	}
	if what == "" && hasAll {
		lost := 0
		for _, v := range bAll {
			if after.allOK() && !in(aAll, v) {
				if op == "destroy-current" && before.curOK() && bytes.Equal(v, before.cur) {
					continue
				}
				lost++
			}
		}
		allowed := 0
		if op == "destroy-rotated" {
			allowed = 1
		}
		others := 0 // keys offered before, other than the current one
		for _, v := range bAll {
			if !(before.curOK() && bytes.Equal(v, before.cur)) {
				others++
			}
		}
		switch {
		case !after.allOK() && op == "destroy-current" && !after.curOK() && others == 0:
			// the destruction took effect and no key survives: get-all has nothing to offer (an error is accepted, as
			// in the first layer)
		case !after.allOK():
			what = "get-all-fails(" + errClass(after.allErr) + ")-although-it-worked-before"
		case lost > allowed:
			what = "a-surviving-key-is-no-longer-offered"
		default:
			// the keys offered before keep their relative order
			var order []int
			for _, v := range aAll {
				for i, b := range bAll {
					if bytes.Equal(b, v) {
						order = append(order, i)
					}
				}
			}
			if !sort.IntsAreSorted(order) {
				what = "surviving-keys-re-ordered"
			}
		}
	}
	if what == "" {
		return
	}
	fault := fired
	if fault == "" {
		fault = "none(failed-without-fault)"
	}
	sig := fmt.Sprintf("%s kind=%s op=%s fault=%s check=third-state:%s", c.s.cfg.fName(), t.kind, op, fault, what)
	c.logf("  !! %s", sig)
	c.r.Violation(sig, c.detail(t, map[string]interface{}{"storage_before_the_operation": t.render(before), "storage_after_the_failed_operation": t.render(after)}))
}

// fUsualCalls: about how many storage calls (v2: data calls) the operation makes; only used to draw the fault index
// of an operation that has not run through the handle yet (a fault index past the end is counted as not reached).
func fUsualCalls(cfg config, op string, k ksrig.ModelKind) int {
	if cfg.redis {
		return rUsualCommands(cfg, op, k)
	}
	switch {
	case op == "destroy-current" && !cfg.v2:
		if k.IsPair() {
			return 2
		}
		return 1
	case op == "destroy-current":
		return 3
	case op == "destroy-rotated" && !cfg.v2:
		return 2
	case op == "destroy-rotated":
		return 3
	case cfg.v2:
		return 8
	case k.IsPair():
		return 16
	}
	return 8
}

func (c *fCtx) opGenerate(t *fTarget, rng *gen.Rand, faulted, supplied bool) {
	op := "rotate"
	if !t.fresh.curOK() && len(t.stored) == 0 {
		op = "generate-first"
	}
	var kp *keys.Keypair
	if supplied {
		op = "save-supplied-pair"
		var err error
		if kp, err = keys.New(keys.TypeEC); err != nil {
			panic(err)
		}
	}
	c.mutate(t, op, rng, faulted, func() error {
		if supplied {
			return c.s.H.SaveDataEncryptionKeys(t.client, kp)
		}
		return ksrig.ModelGenerate(c.s.H, t.kind, t.client)
	})
}

func (c *fCtx) opDestroyCurrent(t *fTarget, rng *gen.Rand, faulted bool) {
	c.mutate(t, "destroy-current", rng, faulted, func() error { return ksrig.ModelDestroyCurrent(c.s.H, t.kind, t.client) })
}

// opDestroyRotated destroys a rotated key by an index the listing of the main handle shows.
func (c *fCtx) opDestroyRotated(t *fTarget, rng *gen.Rand, faulted bool) bool {
	var entries []ksrig.ModelListedEntry
	var err error
	site, stack := guard(func() {
		d, e := c.s.H.ListRotatedKeys()
		err = e
		if e == nil {
			entries = ksrig.ModelFilterRotated(d, c.s.cfg.v2, t.kind, t.client)
		}
	})
	c.count("faulted_list_rotated_calls", 1)
	if site != "" {
		c.r.Violation(fmt.Sprintf("%s op=list-rotated panic at %s", c.s.cfg.fName(), site), c.detail(t, map[string]interface{}{"stack": stack}))
		c.abort = true
		return true
	}
	if err != nil {
		c.count("faulted_list_rotated_errors(not decided here)", 1)
		return false
	}
	if len(entries) == 0 {
		return false
	}
	index := entries[rng.Intn(len(entries))].Index
	c.logf("destroy-rotated %s index=%d of %d shown", t.name(), index, len(entries))
	c.mutate(t, "destroy-rotated", rng, faulted, func() error { return ksrig.ModelDestroyRotated(c.s.H, t.kind, t.client, index) })
	return true
}

// opSample protects a value with the key the storage holds as current.
func (c *fCtx) opSample(t *fTarget, rng *gen.Rand) {
	if !t.kind.HasGetAll() || len(t.samples) >= 4 {
		return
	}
	ks, cl, err := c.s.openFresh()
	if err != nil {
		return
	}
	defer cl()
	plain := gen.Bytes(rng, 1+rng.Intn(40))
	var cipher, key []byte
	site, _ := guard(func() {
		all, e := ksrig.ModelAll(ks, t.kind, t.client)
		if e != nil {
			err = e
			return
		}
		if t.kind.IsPair() {
			var pub []byte
			if pub, err = ksrig.ModelCurrentPublic(ks, t.kind, t.client); err != nil || len(pub) == 0 {
				err = fmt.Errorf("no public key: %v", err)
				return
			}
			if cipher, err = acrastruct.CreateAcrastruct(append([]byte{}, plain...), &keys.PublicKey{Value: pub}, nil); err != nil {
				return
			}
		} else {
			var sym []byte
			if sym, _, err = ksrig.ModelCurrent(ks, t.kind, t.client); err != nil {
				return
			}
			if cipher, err = acrablock.CreateAcraBlock(append([]byte{}, plain...), sym, nil); err != nil {
				return
			}
		}
		// which stored key reveals it is established by decrypting (a v1 pair is two files: after a failed rotation
		// the public key may belong to an older private key)
		for _, k := range all {
			if out, e := decryptWith(t.kind, cipher, [][]byte{k}); e == nil && bytes.Equal(out, plain) {
				key = k
				break
			}
		}
	})
	if site != "" || err != nil || key == nil {
		c.count("faulted_samples_skipped", 1)
		return
	}
	t.samples = append(t.samples, fSample{key: key, cipher: cipher, plain: plain})
	c.count("faulted_samples_encrypted", 1)
	c.logf("encrypt-sample %s under %s", t.name(), t.label(key))
}

func (c *fCtx) opReset() {
	c.s.H.Reset()
	c.s.dirty = false
	c.s.since = "reset"
	for _, t := range c.s.targets() {
		t.offered = map[string]bool{}
	}
	c.count("faulted_op_reset_cache", 1)
	c.logf("reset-cache")
}

func (c *fCtx) opReopen() {
	if err := c.s.openMain(); err != nil {
		c.r.Inconclusive(fmt.Sprintf("faulted history %d: reopen failed: %v", c.hidx, err))
		c.abort = true
		return
	}
	c.s.dirty = false
	c.s.since = "reopen"
	for _, t := range c.s.targets() {
		t.offered = map[string]bool{}
	}
	c.count("faulted_op_reopen", 1)
	c.logf("reopen (fresh main handle)")
}

func (c *fCtx) related(t *fTarget) []*fTarget {
	var out []*fTarget
	for _, o := range c.s.targets() {
		if !strings.HasSuffix(relate("x", t.kind, string(t.client), &ksrig.ModelHistory{Kind: o.kind, Client: o.client}), "(unrelated-key)") {
			out = append(out, o)
		}
	}
	return out
}

// ---------------------------------------------------------------------------------------------
// one history

func runFaultedHistory(r *ev.Run, hidx int) {
	cfg := fConfigs[hidx%len(fConfigs)]
	rng := gen.New(r.Seed, fmt.Sprintf("c06/faulted-history/%d", hidx))
	s, err := fOpenStore(cfg)
	if err != nil {
		r.Inconclusive(fmt.Sprintf("faulted history %d: cannot open %s: %v", hidx, cfg.name, err))
		return
	}
	defer s.close()
	fDrive(r, hidx, cfg, rng, s)
}

// fDrive runs one faulted history on an opened store (shared with the Redis layer, redisfaulted.go).
func fDrive(r *ev.Run, hidx int, cfg config, rng *gen.Rand, s *fStore) {
	c := &fCtx{r: r, s: s, hidx: hidx}
	n := 8 + rng.Intn(28)
	type target struct {
		k  ksrig.ModelKind
		id []byte
	}
	focus := make([]target, 1+rng.Intn(2))
	for i := range focus {
		focus[i] = target{ksrig.ModelKinds[rng.Intn(len(ksrig.ModelKinds))], clientIDs[rng.Intn(len(clientIDs))]}
	}
	// every second history has a searchable-HMAC or audit-log key among its focus keys: the two kinds whose only
	// reader is get-current
	if hidx%2 == 1 {
		focus[0].k = []ksrig.ModelKind{ksrig.ModelSearchHMAC, ksrig.ModelAuditLog}[rng.Intn(2)]
	}
	pick := func() target {
		if rng.Intn(100) < 80 {
			return focus[rng.Intn(len(focus))]
		}
		return target{ksrig.ModelKinds[rng.Intn(len(ksrig.ModelKinds))], clientIDs[rng.Intn(len(clientIDs))]}
	}
	c.logf("config %s, %d steps", cfg.name, n)
	for step := 0; step < n && !c.abort; step++ {
		p := pick()
		t := s.target(p.k, p.id)
		if !t.hasRead && !c.readStorage() {
			break
		}
		faulted := rng.Intn(100) < 45
		mutated := false
		x := rng.Intn(100)
		switch {
		case x < 28 || !t.fresh.curOK() && x < 75:
			c.opGenerate(t, rng, faulted, false)
			mutated = true
		case x < 31:
			if t.kind == ksrig.ModelStoragePair {
				c.opGenerate(t, rng, faulted, true)
				mutated = true
			}
		case x < 43:
			c.logf("read %s through the main handle (%s)", t.name(), s.viewName())
			c.count("faulted_op_read", 1)
			c.checkMain(t)
		case x < 59:
			if t.kind.HasDestroy() {
				c.opDestroyCurrent(t, rng, faulted)
				mutated = true
			}
		case x < 74:
			if t.kind.HasDestroy() {
				mutated = c.opDestroyRotated(t, rng, faulted)
			}
		case x < 82:
			c.opReset()
		case x < 87:
			c.opReopen()
		default:
			c.opSample(t, rng)
		}
		c.count("faulted_steps", 1)
		if c.abort {
			break
		}
		if mutated {
			for _, o := range c.related(t) {
				c.checkMain(o)
			}
			// a failed operation is sometimes followed at once by Reset() / a new handle: "shows the same as soon
			// as the cache is reset"
			if strings.Contains(t.lastRel, "[failed") {
				switch rng.Intn(6) {
				case 0:
					c.opReset()
					for _, o := range c.related(t) {
						c.checkMain(o)
					}
				case 1:
					c.opReopen()
					for _, o := range c.related(t) {
						c.checkMain(o)
					}
				}
			}
		} else if x >= 74 && x < 87 {
			for _, o := range s.targets() {
				c.checkMain(o)
			}
		}
		if rng.Intn(100) < 25 {
			if all := s.targets(); len(all) > 0 {
				c.checkMain(all[rng.Intn(len(all))])
			}
		}
	}
	// end of the history: everything once more through the same handle, after Reset(), and through a new handle
	if !c.abort && c.readStorage() {
		for _, o := range s.targets() {
			c.checkMain(o)
		}
		c.opReset()
		for _, o := range s.targets() {
			c.checkMain(o)
		}
		c.opReopen()
		if !c.abort {
			for _, o := range s.targets() {
				c.checkMain(o)
			}
		}
	}
	if c.abort {
		c.count("faulted_histories_stopped_early", 1)
	}
	c.count("faulted_histories", 1)
	r.SampleN("faulted:"+cfg.name, 1, map[string]interface{}{"layer": "histories with failed operations", "config": cfg.name, "history": hidx, "steps": s.trace})
}

// runFaultedHistories is the entry of the layer (called by Run).
func runFaultedHistories(r *ev.Run, workers int) {
	n := r.Pick(144, 2400)
	r.Rule += " Second workload class (faulted.go), histories with FAILED operations: faulted history i uses configuration i mod 8 of {v1 cache unbounded / LRU 1 / LRU 2 / off, v2 memory / directory} and PRNG stream (seed, 'faulted', i); " +
		"45 % of its generate / rotate / save-pair / destroy-current / destroy-rotated steps run with one storage fault (call k of the operation returns an error before or after being performed, k drawn from the operation's last trace on that handle); " +
		"one evaluation = one key read through the main handle and judged against what a fresh handle reads from the same storage; distinct by (configuration, key kind, view, last related step incl. outcome and faulted call class, what the storage holds)."
	r.Assumptions = append(r.Assumptions,
		"faulted histories: 'surviving keys' = what a fresh handle (v1: cache off, plain storage; v2: own back-end handle) reads from the storage at that moment; whether a failed operation took effect is not predicted",
		"faulted histories: single fault per operation, error-before / error-after only (crashes and torn writes are C08's); v2 lock calls are never faulted; reads are never faulted")
	var wg sync.WaitGroup
	jobs := make(chan int)
	for w := 0; w < workers; w++ {
		wg.Add(1)
		go func() {
			defer wg.Done()
			for i := range jobs {
				runFaultedHistory(r, i)
			}
		}()
	}
	for i := 0; i < n; i++ {
		jobs <- i
	}
	close(jobs)
	wg.Wait()
	r.Extra("faulted_histories_planned", n)
	q := func(quick, thorough int64) int64 {
		if r.Thorough() {
			return thorough
		}
		return quick
	}
	r.RequireAtLeast("faulted_histories", int64(n)*9/10)
	r.RequireAtLeast("faulted_ops_failed_at_the_injected_fault", q(150, 3000))
	r.RequireAtLeast("faulted_failed_operation_left_storage_unchanged", q(50, 1000))
	r.RequireAtLeast("faulted_failed_operation_took_effect_in_storage", q(20, 400))
	r.RequireAtLeast("faulted_warm_view_checked_after_a_failed_operation", q(100, 2000))
	r.RequireAtLeast("faulted_warm_monotonicity_checked_with_earlier_offers", q(100, 2000))
	r.RequireAtLeast("faulted_consistent_view_checked_after_a_failed_operation", q(200, 4000))
	r.RequireAtLeast("faulted_after_reset_or_reopen_checked_after_a_failed_operation", q(50, 1000))
	r.RequireAtLeast("faulted_earlier_value_decrypt_checked", q(50, 1000))
	r.RequireAtLeast("faulted_third_state_checked", q(200, 4000))
	r.RequireSetAtLeast("faulted_configs", 6)
	r.RequireSetAtLeast("faulted_kinds", len(ksrig.ModelKinds))
	r.RequireSetAtLeast("faulted_failed_operation_kinds", 4)
	r.RequireSetAtLeast("faulted_failed_operations", 20)
}
