package c06

// Redis layer of the C06 monitor: the histories, the reference model and the oracles of c06.go, over the Redis-backed
// keystores — v1 over Acra's filesystem.RedisStorage, v2 over backend.RedisBackend — on the in-process stand-in server
// rig/fakeredis (everything above the TCP connection is Acra's code and go-redis v7).
//
// What only Redis has, and what this file adds to the workload:
//   * re-opening = a new handle with a connection pool of its own on the same server (the old client is closed);
//   * two keystores in ONE database whose key prefixes are related as strings (`keys` / `keys2`, `keys/a` / `keys/a_b`,
//     in both roles), each with its own master keys, its own reference model, the same client ids and key kinds; their
//     steps interleave and after EVERY step the reference view of EVERY key of BOTH keystores is judged, so a rotation
//     or destruction in one keystore that touches the other is seen as "removes that key and no other";
//   * many unrelated keys of "other applications" in the same database (0 / dozens / hundreds, some with names right
//     next to the keystores' prefixes), coming and going between the steps, with a per-history SCAN order: the
//     directory listings of RedisStorage and RedisBackend.ListAll are SCAN loops of COUNT 10 whose pages are mostly empty.
//
// Signatures of this layer start with "redis ", its counters and sets with "redis_".

import (
	"encoding/base64"
	"fmt"
	"reflect"
	"regexp"
	"sort"
	"strings"
	"sync"
	"time"
	"unsafe"

	"github.com/cossacklabs/acra/keystore/filesystem"
	"github.com/cossacklabs/acra/keystore/v2/keystore/filesystem/backend"

	"verif/harness/internal/ev"
	"verif/harness/internal/gen"
	"verif/harness/internal/rig/fakeredis"
	"verif/harness/internal/rig/ksrig"
)

// configurations of the Redis histories (history i uses rConfigs[i mod len]).
var rConfigs = []config{
	{name: "redis/v1/cache=off", cache: -1, redis: true},
	{name: "redis/v2", v2: true, redis: true},
	{name: "redis/v1/cache=lru1", cache: 1, redis: true},
	{name: "redis/v1/cache=unbounded", cache: 0, redis: true},
	{name: "redis/v2", v2: true, redis: true},
}

// prefix pairs: [0] is the keystore that gets most of the steps, [1] the neighbour in the same database.
var rShapes = [][2]string{
	{"keys", "keys2"},
	{"keys2", "keys"},
	{"keys/a", "keys/a_b"},
	{"keys/a_b", "keys/a"},
	{"/var/lib/acra/.acrakeys", "/var/lib/acra/.acrakeys.bak"},
	// a key directory is a path chosen by the operator; on a file system `keys[1]` is an ordinary name
	{"keys[1]", "keys1"},
}

// rSite is the place of one Redis-backed keystore: server, database, key prefix.
type rSite struct {
	srv     *fakeredis.Server
	db      int
	dir     string // v1: key directory, v2: root of the back end
	sibling string // prefix of the other keystore in the same database ("" if none)
	foreign int    // unrelated keys put into the database at the start

	// fault injection through the command hook (redisfaulted.go)
	mu        sync.Mutex
	hooked    bool
	plan      ksrig.FaultPlan
	faultKind int
	n         int
	trace     []ksrig.FaultCall
}

func (rd *rSite) describe() map[string]interface{} {
	return map[string]interface{}{"database": rd.db, "key_prefix": rd.dir, "other_keystore_in_the_same_database": rd.sibling,
		"unrelated_keys_at_start": rd.foreign, "keys_in_database_now": len(rd.srv.Keys(rd.db))}
}

// openHandle opens a keystore handle with a Redis client (connection pool) of its own. log may be nil.
func (rd *rSite) openHandle(cfg config, master []byte, k ksrig.V2Keys, cache int, log *ksrig.RecLog, handle string) (ksrig.FullKeyStore, func(), error) {
	if !cfg.v2 {
		st, err := ksrig.V1RedisStorage(rd.srv, rd.db)
		if err != nil {
			return nil, nil, err
		}
		var inner filesystem.Storage = st
		if log != nil {
			inner = ksrig.NewRecStorage(st, log, handle)
		}
		ks, err := ksrig.V1WithStorage(rd.dir, master, cache, inner)
		if err != nil {
			rCloseStorage(st)
			return nil, nil, err
		}
		return ks, func() { rCloseStorage(st) }, nil
	}
	b, err := ksrig.V2RedisBackend(rd.srv, rd.db, rd.dir)
	if err != nil {
		return nil, nil, err
	}
	var inner backend.Backend = b
	if log != nil {
		inner = ksrig.NewRecBackend(b, log, handle)
	}
	ks, err := ksrig.V2OnBackend(inner, k)
	if err != nil {
		b.Close()
		return nil, nil, err
	}
	return ks, func() { ks.Close() }, nil
}

// rCloseStorage closes the go-redis client inside Acra's RedisStorage (which has no Close of its own): a handle that
// is given up must not keep its connections (thousands of handles are opened in a run).
func rCloseStorage(st filesystem.Storage) {
	defer func() { recover() }()
	v := reflect.ValueOf(st)
	if v.Kind() != reflect.Ptr {
		return
	}
	f := v.Elem().FieldByName("redisStorage")
	if !f.IsValid() {
		return
	}
	cf := f.FieldByName("client")
	if !cf.IsValid() || !cf.CanAddr() {
		return
	}
	c := reflect.NewAt(cf.Type(), unsafe.Pointer(cf.UnsafeAddr())).Elem().Interface()
	if cl, ok := c.(interface{ Close() error }); ok {
		cl.Close()
	}
}

// ---------------------------------------------------------------------------------------------
// unrelated keys of other applications

type rForeign struct {
	names []string          // every name ever used (present or not)
	want  map[string]string // what is in the database now
}

// rForeignName: names of other applications; every fourth one sits right next to one of the keystores' prefixes
// (same leading characters, but not inside `<prefix>/`).
func rForeignName(rng *gen.Rand, i int, prefixes []string) string {
	if i%4 == 3 {
		p := prefixes[rng.Intn(len(prefixes))]
		files := []string{"alice_storage", "alice_storage_sym", "alice_hmac", ".poison_key/poison_key", "secure_log_key", "alice_storage_sym.old/2021-03-04T05:06:07.5", "version", ".lock", "client/alice/storage.keyring"}
		f := files[rng.Intn(len(files))]
		switch rng.Intn(5) {
		case 0:
			return fmt.Sprintf("%s-%d/%s", p, i, f)
		case 1:
			return fmt.Sprintf("%s.old/%s.%d", p, f, i)
		case 2:
			return fmt.Sprintf("%s_%d", p, i)
		case 3:
			return fmt.Sprintf("%s%d:%s", p, i, f)
		default:
			return fmt.Sprintf("x/%s/%s.%d", p, f, i)
		}
	}
	switch rng.Intn(4) {
	case 0:
		return fmt.Sprintf("session:%08x", rng.Uint32())
	case 1:
		return fmt.Sprintf("cache/page/%d/%d", rng.Intn(50), i)
	case 2:
		return fmt.Sprintf("token:%x", gen.Bytes(rng, 8))
	default:
		return fmt.Sprintf("app%d/queue/%d", rng.Intn(3), i)
	}
}

func rPopulate(srv *fakeredis.Server, db int, rng *gen.Rand, n int, prefixes []string) *rForeign {
	f := &rForeign{want: map[string]string{}}
	for i := 0; i < n; i++ {
		name := rForeignName(rng, i, prefixes)
		val := base64.StdEncoding.EncodeToString(gen.Bytes(rng, 1+rng.Intn(60)))
		srv.Put(db, name, val)
		f.names = append(f.names, name)
		f.want[name] = val
	}
	return f
}

// churn: the other applications delete some of their keys and write some (new or old names).
func (f *rForeign) churn(srv *fakeredis.Server, db int, rng *gen.Rand, prefixes []string) int {
	n := 1 + len(f.names)/8
	for i := 0; i < n; i++ {
		if len(f.names) > 0 && rng.Intn(2) == 0 {
			name := f.names[rng.Intn(len(f.names))]
			srv.Delete(db, name)
			delete(f.want, name)
			continue
		}
		name := rForeignName(rng, len(f.names), prefixes)
		val := base64.StdEncoding.EncodeToString(gen.Bytes(rng, 1+rng.Intn(60)))
		srv.Put(db, name, val)
		f.names = append(f.names, name)
		f.want[name] = val
	}
	return n
}

// intact: how many of the unrelated keys are missing or changed, and how many keys exist that belong to nobody
// (neither under one of the keystores' prefixes nor one of the unrelated keys). Observed, not decided: C06 speaks of
// the keystore's keys only.
func (f *rForeign) intact(srv *fakeredis.Server, db int, prefixes []string) (damaged, stray int) {
	have := map[string]bool{}
	for _, k := range srv.Keys(db) {
		have[k] = true
		if _, ok := f.want[k]; ok {
			continue
		}
		owned := false
		for _, p := range prefixes {
			if strings.HasPrefix(k, p+"/") {
				owned = true
			}
		}
		if !owned {
			stray++
		}
	}
	for k, v := range f.want {
		if got, ok := srv.Get(db, k); !ok || got != v {
			damaged++
		}
	}
	return damaged, stray
}

// ---------------------------------------------------------------------------------------------
// one Redis history: two keystores in one database

type rTarget struct {
	k  ksrig.ModelKind
	id []byte
}

func runRedisHistory(r *ev.Run, hidx int) {
	cfg := rConfigs[hidx%len(rConfigs)]
	shape := rShapes[(hidx/len(rConfigs))%len(rShapes)]
	rng := gen.New(r.Seed, fmt.Sprintf("c06/redis-history/%d", hidx))
	nForeign := []int{0, r.Pick(30, 60), r.Pick(160, 500)}[(hidx/2)%3]
	db := hidx % 3
	srv := fakeredis.Start()
	defer srv.Close()
	srv.SetLogging(false)
	srv.ScanSalt = rng.Uint64()
	prefixes := []string{shape[0], shape[1]}
	foreign := rPopulate(srv, db, rng, nForeign, prefixes)
	// the same key names, in another database of the same server, hold garbage: SELECT must keep them apart
	other := (db + 1) % 3
	for _, id := range clientIDs {
		for _, k := range ksrig.ModelKinds {
			srv.Put(other, shape[0]+"/"+ksrig.ModelV1FileName(k, id), "Z2FyYmFnZQ==")
		}
	}

	var cs [2]*runCtx
	for i := 0; i < 2; i++ {
		rd := &rSite{srv: srv, db: db, dir: shape[i], sibling: shape[1-i], foreign: nForeign}
		s, err := openStoreAt(rVariant(cfg, shape[i]), rd)
		if err != nil {
			r.Inconclusive(fmt.Sprintf("redis history %d: cannot open %s at %q: %v", hidx, cfg.name, shape[i], err))
			return
		}
		defer s.close()
		cs[i] = &runCtx{r: r, s: s, hidx: hidx}
		cs[i].logf("config %s, database %d, prefix %q (other keystore: %q), %d unrelated keys", cfg.name, db, shape[i], shape[1-i], nForeign)
	}
	n := 6 + rng.Intn(40)
	// both keystores concentrate on the SAME few keys (same kind, same client id): the stored names differ only in
	// the prefix
	focus := make([]rTarget, 1+rng.Intn(3))
	for i := range focus {
		focus[i] = rTarget{ksrig.ModelKinds[rng.Intn(len(ksrig.ModelKinds))], clientIDs[rng.Intn(len(clientIDs))]}
	}
	pick := func() rTarget {
		if rng.Intn(100) < 80 {
			return focus[rng.Intn(len(focus))]
		}
		return rTarget{ksrig.ModelKinds[rng.Intn(len(ksrig.ModelKinds))], clientIDs[rng.Intn(len(clientIDs))]}
	}
	aborted := false
	for step := 0; step < n && !aborted; step++ {
		if nForeign > 0 && rng.Intn(100) < 15 {
			cnt := foreign.churn(srv, db, rng, prefixes)
			r.Count("redis_unrelated_keys_written_or_deleted_between_steps", int64(cnt))
		}
		if rng.Intn(100) < 10 {
			srv.ScanSalt = rng.Uint64()
		}
		w := 0
		if rng.Intn(100) < 40 {
			w = 1
		}
		c, o := cs[w], cs[1-w]
		t := pick()
		mutated := c.stepOp(rng, t.k, t.id)
		c.count("steps", 1)
		if c.abort {
			aborted = true
			break
		}
		// the other keystore of the database first: "removes that key and no other" — nothing of the neighbour moved
		o.checkRef()
		if mutated {
			r.Count("redis_neighbour_keystore_judged_after_a_mutation", 1)
			if len(o.s.model.All()) > 0 {
				r.Count("redis_neighbour_keystore_judged_after_a_mutation_while_it_holds_keys", 1)
			}
		}
		c.afterStep(rng, t.k, t.id, mutated)
		if c.abort || o.abort {
			aborted = true
		}
	}
	// end of the history: every key of both keystores through handles with fresh connection pools
	for _, c := range cs {
		if aborted || c.abort {
			break
		}
		c.opReopen()
		if c.abort {
			break
		}
		c.checkRef()
		for _, hh := range c.s.model.All() {
			c.checkMain(hh)
		}
	}
	damaged, stray := foreign.intact(srv, db, prefixes)
	r.Count("redis_unrelated_keys_missing_or_changed_at_end(observed, not decided)", int64(damaged))
	r.Count("redis_keys_outside_both_prefixes_at_end(observed, not decided)", int64(stray))
	if u := srv.Unknown(); u > 0 {
		r.Inconclusive(fmt.Sprintf("fakeredis: unknown command(s) received in redis history %d (%d)", hidx, u))
	}
	if aborted {
		r.Count("redis_histories_stopped_early", 1)
	}
	r.Count("redis_histories", 1)
	r.SetAdd("redis_prefix_pairs", shape[0]+" + "+shape[1])
	r.SetAdd("redis_unrelated_key_counts", bucketForeign(nForeign))
	r.Count("redis_histories_with_unrelated_keys="+bucketForeign(nForeign), 1)
	r.SampleN(cfg.name, 1, map[string]interface{}{"layer": "Redis-backed keystores", "config": cfg.name, "history": hidx, "database": db,
		"unrelated_keys": nForeign, "keystore_" + shape[0]: cs[0].s.trace, "keystore_" + shape[1]: cs[1].s.trace})
}

// rVariant marks a configuration whose key prefix holds glob metacharacters (the class goes into the signatures).
func rVariant(cfg config, prefix string) config {
	if strings.ContainsAny(prefix, "*?[]\\") {
		cfg.variant = "(key-prefix-with-glob-metacharacters)"
	}
	return cfg
}

func bucketForeign(n int) string {
	switch {
	case n == 0:
		return "0"
	case n < 100:
		return "dozens"
	}
	return "hundreds"
}

// ---------------------------------------------------------------------------------------------
// entry of the layer

func rPool(workers, n int, f func(i int)) {
	var wg sync.WaitGroup
	jobs := make(chan int)
	for w := 0; w < workers; w++ {
		wg.Add(1)
		go func() {
			defer wg.Done()
			for i := range jobs {
				f(i)
			}
		}()
	}
	for i := 0; i < n; i++ {
		jobs <- i
	}
	close(jobs)
	wg.Wait()
}

func runRedisLayer(r *ev.Run, workers int) {
	n := r.Pick(60, 900)
	nf := r.Pick(48, 720)
	r.Rule += " Redis layer (redis.go, redisfaulted.go): the same histories, reference model and oracles over v1 on filesystem.RedisStorage (cache off / LRU 1 / unbounded) and v2 on backend.RedisBackend, against the in-process server rig/fakeredis. " +
		"Redis history i uses configuration i mod 5, prefix pair (i/5) mod 5 of {keys+keys2, keys2+keys, keys/a+keys/a_b, keys/a_b+keys/a, .acrakeys+.acrakeys.bak}, 0 / dozens / hundreds of unrelated keys ((i/2) mod 3), database i mod 3, PRNG stream (seed, 'redis-history', i): " +
		"TWO keystores with their own master keys and models share the database, 60 % / 40 % of the steps each, the reference view of every key of both is judged after every step; re-opening = a new go-redis client. " +
		"Faulted Redis history i: configuration i mod 6, one keystore plus unrelated keys; 45 % of the mutating steps run with ONE Redis command of the operation answered with an error (not applied), or its connection closed before / after it was applied; judged against a fresh handle (new client) as in faulted.go."
	r.Assumptions = append(r.Assumptions,
		"Redis layer: the server is rig/fakeredis (RESP2, atomic totally ordered commands, SCAN examines COUNT keys of the whole keyspace per call and filters afterwards, virtual-clock expiry); no real Redis exists in the sandbox",
		"Redis layer: client ids are the three ids of the other layers; keystore.ValidateID admits only letters, digits, '-', '_', ' ' for the filesystem variant too, so ids with glob metacharacters are not driven",
		"Redis layer: unrelated keys of other applications are never placed inside `<prefix>/` of a keystore; what happens to them is counted, not decided (C06 speaks of the keystore's keys)")
	start := time.Now()
	rPool(workers, n, func(i int) { runRedisHistory(r, i) })
	r.Extra("redis_histories_planned", n)
	r.Extra("wall_redis_histories_s", time.Since(start).Seconds())
	start = time.Now()
	rPool(workers, nf, func(i int) { runRedisFaultedHistory(r, i) })
	r.Extra("redis_faulted_histories_planned", nf)
	r.Extra("wall_redis_faulted_histories_s", time.Since(start).Seconds())

	q := func(quick, thorough int64) int64 {
		if r.Thorough() {
			return thorough
		}
		return quick
	}
	// non-vacuity of the Redis histories
	r.RequireAtLeast("redis_histories", int64(n)*9/10)
	r.RequireAtLeast("redis_consistent_get_current_checked", q(3000, 45000))
	r.RequireAtLeast("redis_consistent_get_all_checked", q(2000, 30000))
	r.RequireAtLeast("redis_warm_monotonicity_checked_with_earlier_offers", q(40, 600))
	r.RequireAtLeast("redis_op_destroy_rotated_shown_index", q(25, 400))
	r.RequireAtLeast("redis_destroy_rotated_shown_index_removed_exactly_the_listed_key", q(20, 300))
	r.RequireAtLeast("redis_op_destroy_rotated_unshown_index", q(10, 150))
	r.RequireAtLeast("redis_op_destroy_current", q(30, 450))
	r.RequireAtLeast("redis_decrypt_checked_rotated_key", q(20, 300))
	r.RequireAtLeast("redis_listing_reconciled", q(100, 1500))
	r.RequireAtLeast("redis_op_reopen", q(100, 1500))
	r.RequireAtLeast("redis_op_reset_cache", q(15, 200))
	r.RequireAtLeast("redis_neighbour_keystore_judged_after_a_mutation_while_it_holds_keys", q(300, 4500))
	r.RequireAtLeast("redis_unrelated_keys_written_or_deleted_between_steps", q(100, 1500))
	r.RequireSetAtLeast("redis_configs", 4)
	r.RequireSetAtLeast("redis_kinds", len(ksrig.ModelKinds))
	r.RequireSetAtLeast("redis_prefix_pairs", len(rShapes))
	r.RequireSetAtLeast("redis_unrelated_key_counts", 3)
	requireRedisFaulted(r, nf, q)
}

// ---------------------------------------------------------------------------------------------
// normalisation of Redis key names for signatures (never key bytes, never random parts)

var (
	rTSRe  = regexp.MustCompile(`\d{4}-\d{2}-\d{2}T\d{2}:\d{2}:\d{2}(\.\d+)?`)
	rTmpRe = regexp.MustCompile(`\d{6,}`)
)

func (rd *rSite) norm(key string) string {
	if strings.HasPrefix(key, rd.dir+"/") {
		key = "<dir>/" + key[len(rd.dir)+1:]
	} else if key == rd.dir {
		key = "<dir>"
	}
	key = rTSRe.ReplaceAllString(key, "<ts>")
	key = rTmpRe.ReplaceAllString(key, "<tmp>")
	return key
}

var _ = sort.Strings
