// Package c06 will hold the monitor of property C06 (not built yet; nothing is registered).
package c06
