package c06

// Faulted histories over the Redis-backed keystores: the workload and the oracles of faulted.go (a failed rotation /
// destruction, then the history goes on through the same handle, through Reset() and through new handles; everything
// is judged against what a FRESH handle — a new keystore object on a new go-redis client — reads at that moment).
//
// The fault is injected below Acra's Redis code, per Redis COMMAND, by the hook of rig/fakeredis: command number k of
// the operation (handshake commands of a new connection are not counted) is
//   - answered with an error and not applied                      ("error-reply,not-applied"),
//   - not applied and its connection closed                        ("connection-lost,not-applied"),
//   - applied, then its connection closed instead of the reply     ("connection-lost,applied").
// This reaches the points BETWEEN the commands of one storage call (Copy = GET + SETNX, Stat = EXISTS + STRLEN,
// ReadDir / ListAll = SCAN ... SCAN, the v2 lock = SET NX EX / DEL), which the Storage / Backend wrappers cannot.
// The v2 lock commands are faulted like any other: a lock left behind expires (10 s TTL) — the virtual clock of the
// server is moved by 11 s after every operation, which is "the next operation comes more than 10 s later".

import (
	"fmt"
	"strings"
	"time"

	"verif/harness/internal/ev"
	"verif/harness/internal/gen"
	"verif/harness/internal/rig/fakeredis"
	"verif/harness/internal/rig/ksrig"
)

var rfConfigs = []config{
	{name: "redis/v1/cache=unbounded", cache: 0, redis: true},
	{name: "redis/v2", v2: true, redis: true},
	{name: "redis/v1/cache=lru1", cache: 1, redis: true},
	{name: "redis/v1/cache=off", cache: -1, redis: true},
	{name: "redis/v2", v2: true, redis: true},
	{name: "redis/v1/cache=lru2", cache: 2, redis: true},
}

var rFaultKinds = []struct {
	name string
	act  fakeredis.Action
}{
	{"error-reply,not-applied", fakeredis.FailBefore},
	{"connection-lost,not-applied", fakeredis.DropBefore},
	{"connection-lost,applied", fakeredis.DropAfter},
}

// a lock wait is cut short after this many consecutive attempts on a held lock (see hook)
const rLockSpinLimit = 200

// arm installs plan p for the commands received from now on (At = 0: none) and restarts the command trace.
func (rd *rSite) arm(p ksrig.FaultPlan) {
	rd.mu.Lock()
	rd.plan = p
	rd.n = 0
	rd.trace = nil
	first := !rd.hooked
	rd.hooked = true
	rd.mu.Unlock()
	if first {
		lockKey := rd.dir + "/.lock"
		spins := 0
		rd.srv.SetHook(func(c *fakeredis.Cmd) fakeredis.Action {
			switch c.Name {
			case "PING", "SELECT", "AUTH", "ECHO", "HELLO", "CLIENT":
				return fakeredis.Proceed // handshake of a (new) connection
			}
			rd.mu.Lock()
			defer rd.mu.Unlock()
			// RedisBackend.Lock polls `SET <root>/.lock locked EX 10 NX` for 10 s of WALL-clock time while the lock is
			// held. The stand-in's keys expire on a virtual clock, so a lock left behind by a faulted Unlock inside
			// the same operation would be polled for the whole 10 s. The wait is cut short: after rLockSpinLimit
			// consecutive attempts the poll is answered with an error; for the keystore Lock() fails either way
			// (ErrLockTimeout there, the error reply here).
			if c.Name == "SET" && len(c.Args) > 0 && c.Args[0] == lockKey {
				spins++
				if spins > rLockSpinLimit {
					return fakeredis.FailBefore
				}
			} else {
				spins = 0
			}
			rd.n++
			call := ksrig.FaultCall{Seq: rd.n, Op: c.Name, DataLen: -1, Mutates: c.Mutates}
			switch {
			case c.Name == "SCAN":
				for i := 0; i+1 < len(c.Args); i++ {
					if strings.EqualFold(c.Args[i], "MATCH") {
						call.Path = rd.norm(c.Args[i+1])
					}
				}
			case c.Name == "RENAME" || c.Name == "RENAMENX":
				if len(c.Args) > 1 {
					call.Path, call.Path2 = rd.norm(c.Args[0]), rd.norm(c.Args[1])
				}
			case len(c.Args) > 0:
				call.Path = rd.norm(c.Args[0])
				if c.Name == "DEL" && len(c.Args) > 1 {
					call.Path += ",..."
				}
			}
			act := fakeredis.Proceed
			if rd.plan.Mode != ksrig.FaultNone && rd.n == rd.plan.At {
				k := rFaultKinds[rd.faultKind%len(rFaultKinds)]
				act = k.act
				call.Faulted = k.name
			}
			rd.trace = append(rd.trace, call)
			return act
		})
	}
	// a v2 lock that a faulted operation left behind has expired by the time the next operation starts
	rd.srv.AdvanceClock(11 * time.Second)
}

func (rd *rSite) calls() []ksrig.FaultCall {
	rd.mu.Lock()
	defer rd.mu.Unlock()
	return append([]ksrig.FaultCall{}, rd.trace...)
}

// rUsualCommands: about how many Redis commands an operation sends (only used to draw the fault index of an
// operation that has not run fault-free through the handle yet).
func rUsualCommands(cfg config, op string, k ksrig.ModelKind) int {
	switch {
	case op == "destroy-current" && !cfg.v2:
		if k.IsPair() {
			return 2
		}
		return 1
	case op == "destroy-rotated" && !cfg.v2:
		return 3
	case cfg.v2 && strings.HasPrefix(op, "destroy"):
		return 8
	case cfg.v2:
		return 14
	case k.IsPair():
		return 14
	}
	return 7
}

func runRedisFaultedHistory(r *ev.Run, hidx int) {
	shape := rShapes[(hidx/len(rfConfigs))%len(rShapes)]
	cfg := rVariant(rfConfigs[hidx%len(rfConfigs)], shape[0])
	rng := gen.New(r.Seed, fmt.Sprintf("c06/redis-faulted-history/%d", hidx))
	nForeign := []int{0, 25, 12}[hidx%3]
	db := hidx % 2
	srv := fakeredis.Start()
	defer srv.Close()
	srv.SetLogging(false)
	srv.ScanSalt = rng.Uint64()
	rPopulate(srv, db, rng, nForeign, []string{shape[0], shape[1]})
	rd := &rSite{srv: srv, db: db, dir: shape[0], sibling: "", foreign: nForeign}
	s, err := fOpenStoreAt(cfg, rd)
	if err != nil {
		r.Inconclusive(fmt.Sprintf("redis faulted history %d: cannot open %s: %v", hidx, cfg.name, err))
		return
	}
	defer s.close()
	s.since = "open"
	rd.arm(ksrig.FaultPlan{})
	fDrive(r, hidx, cfg, rng, s)
	if u := srv.Unknown(); u > 0 {
		r.Inconclusive(fmt.Sprintf("fakeredis: unknown command(s) received in redis faulted history %d (%d)", hidx, u))
	}
}

func requireRedisFaulted(r *ev.Run, n int, q func(quick, thorough int64) int64) {
	r.RequireAtLeast("redis_faulted_histories", int64(n)*9/10)
	r.RequireAtLeast("redis_faulted_ops_failed_at_the_injected_fault", q(60, 900))
	r.RequireAtLeast("redis_faulted_failed_operation_left_storage_unchanged", q(25, 400))
	r.RequireAtLeast("redis_faulted_failed_operation_took_effect_in_storage", q(8, 120))
	r.RequireAtLeast("redis_faulted_warm_view_checked_after_a_failed_operation", q(30, 450))
	r.RequireAtLeast("redis_faulted_warm_monotonicity_checked_with_earlier_offers", q(30, 450))
	r.RequireAtLeast("redis_faulted_consistent_view_checked_after_a_failed_operation", q(80, 1200))
	r.RequireAtLeast("redis_faulted_after_reset_or_reopen_checked_after_a_failed_operation", q(20, 300))
	r.RequireAtLeast("redis_faulted_earlier_value_decrypt_checked", q(15, 200))
	r.RequireAtLeast("redis_faulted_third_state_checked", q(80, 1200))
	r.RequireSetAtLeast("redis_faulted_configs", 5)
	r.RequireSetAtLeast("redis_faulted_kinds", len(ksrig.ModelKinds))
	r.RequireSetAtLeast("redis_faulted_failed_operation_kinds", 4)
	r.RequireSetAtLeast("redis_faulted_failed_operations", 12)
	r.RequireSetAtLeast("redis_faulted_fault_points", int(q(40, 150)))
}
