// Package c06 monitors "rotation keeps old data readable; destruction removes exactly the chosen key".
//
// Real keystores (v1 filesystem with cache off / LRU 1 / unbounded, v2 over the in-memory and the directory
// back end) are driven through seeded random operation histories; after every step the monitor compares what the
// public getters and listings return with a reference model (ksrig.Model: ordered list of generated keys with a
// destroyed flag per key kind and client id). See /verif/notes/c06.md for the oracles and what is NOT demanded.
package c06

import (
	"bytes"
	"fmt"
	"os"
	"runtime/debug"
	"sort"
	"strings"
	"sync"
	"time"

	"github.com/cossacklabs/acra/acrablock"
	"github.com/cossacklabs/acra/acrastruct"
	"github.com/cossacklabs/acra/keystore/v2/keystore/api"
	"github.com/cossacklabs/acra/keystore/v2/keystore/filesystem/backend"
	"github.com/cossacklabs/themis/gothemis/keys"

	"verif/harness/internal/ev"
	"verif/harness/internal/gen"
	"verif/harness/internal/props"
	"verif/harness/internal/rig/ksrig"
)

func init() { props.Register("C06", props.Monitor{Level: "exploration", Run: Run}) }

// ---------------------------------------------------------------------------------------------
// configurations

type config struct {
	name  string
	v2    bool
	dir   bool // v2: directory back end (else in-memory)
	cache int  // v1: keystore.WithoutCache(-1) / 1 / keystore.InfiniteCacheSize(0)
	variant string // Redis: "(key-prefix-with-glob-metacharacters)" when the prefix holds one of * ? [ ] \ (part of the signature)
	redis bool // Redis-backed variant (redis.go): v1 over filesystem.RedisStorage, v2 over backend.RedisBackend
}

var configs = []config{
	{name: "v1/cache=off", cache: -1},
	{name: "v1/cache=lru1", cache: 1},
	{name: "v1/cache=unbounded", cache: 0},
	{name: "v2/memory", v2: true},
	{name: "v2/directory", v2: true, dir: true},
}

// fmtName is the part of a signature that names the keystore format ("v1" or "v2"); the cache size / back end is
// part of the detail, not of the signature, unless the check is about the cache.
func (c config) fmtName() string {
	n := "v1"
	if c.v2 {
		n = "v2"
	}
	if c.redis {
		return "redis " + n + c.variant // signatures of the Redis layer start with "redis "
	}
	return n
}

// fName is the signature prefix of the faulted-history layer.
func (c config) fName() string {
	n := "v1"
	if c.v2 {
		n = "v2"
	}
	if c.redis {
		return "redis faulted-history " + n + c.variant
	}
	return "faulted-history " + n
}

// cpfx prefixes the counters and sets of the Redis layers, which have guards of their own.
func (c config) cpfx() string {
	if c.redis {
		return "redis_"
	}
	return ""
}

func (c config) cached() bool { return !c.v2 && c.cache != -1 }

// client ids: all valid per keystore.ValidateID; two of them nest inside v1 file-name suffixes on purpose.
var clientIDs = [][]byte{[]byte("alice"), []byte("alice_storage"), []byte("bob-2_old")}

// ---------------------------------------------------------------------------------------------
// one keystore under test

type ringOpener interface {
	OpenKeyRing(path string) (api.KeyRing, error)
}

type sample struct {
	gen    int
	cipher []byte
	plain  []byte
}

type histState struct {
	offered    map[int]bool    // generations the MAIN handle offered (get-all / get-current) since it was opened
	failing    map[string]bool // check ids currently failing (a violation is raised on the ok->failing edge only)
	lastRelMut string          // last mutating step that touched this history, its client or its poison sibling
	samples    []sample
}

type store struct {
	cfg    config
	dir    string
	master []byte
	v2keys ksrig.V2Keys
	mem    *backend.InMemory
	rd     *rSite // Redis-backed variants: server, database and key prefix (redis.go)
	log    *ksrig.RecLog
	H      ksrig.FullKeyStore // main handle (configured cache)
	hClose func()
	R      ksrig.FullKeyStore // reference handle: always a cache-consistent view (v1: cache off; v2: second handle)
	rClose func()
	dirty  bool // main handle may hold stale cache entries (a mutation happened since open/Reset)
	nOpen  int
	model  *ksrig.Model
	hs     map[*ksrig.ModelHistory]*histState
	trace  []string
	lastMut struct {
		op     string
		kind   ksrig.ModelKind
		client string
		set    bool
	}
}

func (s *store) state(h *ksrig.ModelHistory) *histState {
	st := s.hs[h]
	if st == nil {
		st = &histState{offered: map[int]bool{}, failing: map[string]bool{}}
		s.hs[h] = st
	}
	return st
}

func openStore(cfg config) (*store, error) { return openStoreAt(cfg, nil) }

// openStoreAt: rd is the place of a Redis-backed store (nil otherwise).
func openStoreAt(cfg config, rd *rSite) (*store, error) {
	s := &store{cfg: cfg, rd: rd, log: ksrig.NewRecLog(), model: ksrig.NewModel(), hs: map[*ksrig.ModelHistory]*histState{}}
	if cfg.redis {
		s.v2keys = ksrig.NewV2Keys()
		s.master = ksrig.RandBytes(32)
	} else if cfg.v2 {
		s.v2keys = ksrig.NewV2Keys()
		if cfg.dir {
			s.dir = ksrig.ScratchDir("c06v2")
		} else {
			s.mem = backend.NewInMemory()
		}
	} else {
		s.dir = ksrig.ScratchDir("c06v1")
		s.master = ksrig.RandBytes(32)
	}
	var err error
	if s.H, s.hClose, err = s.openHandle("main", cfg.cache); err != nil {
		return nil, err
	}
	if s.R, s.rClose, err = s.openHandle("ref", -1); err != nil {
		return nil, err
	}
	return s, nil
}

func (s *store) openHandle(name string, cache int) (ksrig.FullKeyStore, func(), error) {
	s.nOpen++
	handle := fmt.Sprintf("%s#%d", name, s.nOpen)
	if s.cfg.redis {
		return s.rd.openHandle(s.cfg, s.master, s.v2keys, cache, s.log, handle)
	}
	if !s.cfg.v2 {
		ks, err := ksrig.V1WithStorage(s.dir, s.master, cache, ksrig.NewRecStorage(nil, s.log, handle))
		if err != nil {
			return nil, nil, err
		}
		return ks, func() {}, nil
	}
	var rb *ksrig.RecBackend
	if s.cfg.dir {
		b, err := backend.CreateDirectoryBackend(s.dir)
		if err != nil {
			return nil, nil, err
		}
		rb = ksrig.NewRecBackend(b, s.log, handle)
	} else {
		rb = ksrig.NewRecBackend(s.mem, s.log, handle)
		rb.KeepOpen = true
	}
	ks, err := ksrig.V2OnBackend(rb, s.v2keys)
	if err != nil {
		return nil, nil, err
	}
	return ks, func() { ks.Close() }, nil
}

func (s *store) close() {
	if s.hClose != nil {
		s.hClose()
	}
	if s.rClose != nil {
		s.rClose()
	}
	if s.dir != "" {
		os.RemoveAll(s.dir)
	}
}

// mainConsistent: is the main handle a cache-consistent view right now?
func (s *store) mainConsistent() bool { return !s.cfg.cached() || !s.dirty }

// ---------------------------------------------------------------------------------------------
// helpers

// guard runs f and reports a panic as (site, stack).
func guard(f func()) (site string, stack string) {
	defer func() {
		if p := recover(); p != nil {
			st := string(debug.Stack())
			site = fmt.Sprintf("%s [%s]", panicSite(st), panicClass(fmt.Sprint(p)))
			stack = fmt.Sprintf("panic: %v\n%s", p, st)
		}
	}()
	f()
	return "", ""
}

// panicSite: innermost Acra function on the panicking stack.
func panicSite(stack string) string {
	lines := strings.Split(stack, "\n")
	seenPanic := false
	for _, l := range lines {
		if strings.HasPrefix(l, "panic(") {
			seenPanic = true
			continue
		}
		if !seenPanic || strings.HasPrefix(l, "\t") {
			continue
		}
		if i := strings.Index(l, "github.com/cossacklabs/acra/"); i >= 0 {
			fn := l[i+len("github.com/cossacklabs/acra/"):]
			if j := strings.LastIndex(fn, "("); j > 0 {
				fn = fn[:j]
			}
			return fn
		}
	}
	return "?"
}

func panicClass(msg string) string {
	switch {
	case strings.Contains(msg, "index out of range"):
		return "index out of range"
	case strings.Contains(msg, "slice bounds"):
		return "slice bounds out of range"
	case strings.Contains(msg, "nil pointer"):
		return "nil pointer dereference"
	}
	if len(msg) > 40 {
		msg = msg[:40]
	}
	return msg
}

// errClass maps an error to a stable class for signatures.
func errClass(err error) string {
	if err == nil {
		return "none"
	}
	m := err.Error()
	switch {
	case strings.Contains(m, "key has been destroyed"):
		return "key-destroyed"
	case strings.Contains(m, "no such file"):
		return "no-such-file"
	case strings.Contains(m, "keys not found"):
		return "keys-not-found"
	case strings.Contains(m, "invalid index"):
		return "invalid-index"
	case strings.Contains(m, "does not exist"):
		return "not-exist"
	case strings.Contains(m, "no current key"):
		return "no-current-key"
	case strings.Contains(m, "invalid state"):
		return "invalid-state"
	}
	return "other"
}

func bucket(n int) string {
	if n >= 3 {
		return "3+"
	}
	return fmt.Sprint(n)
}

type runCtx struct {
	r    *ev.Run
	s    *store
	hidx int
	abort bool
}

// count / setAdd: counters and sets of the Redis layer carry the prefix "redis_" (guards of their own).
func (c *runCtx) count(name string, n int64) { c.r.Count(c.s.cfg.cpfx()+name, n) }
func (c *runCtx) setAdd(set, member string)  { c.r.SetAdd(c.s.cfg.cpfx()+set, member) }

func (c *runCtx) logf(format string, a ...interface{}) {
	c.s.trace = append(c.s.trace, fmt.Sprintf(format, a...))
}

func (c *runCtx) detail(extra map[string]interface{}) map[string]interface{} {
	d := map[string]interface{}{
		"config":  c.s.cfg.name,
		"history": c.hidx,
		"seed":    c.r.Seed,
		"trace":   append([]string{}, c.s.trace...),
		"model":   c.modelDump(),
	}
	if c.s.rd != nil {
		d["layer"] = "Redis-backed keystores (redis.go)"
		d["redis"] = c.s.rd.describe()
	}
	for k, v := range extra {
		d[k] = v
	}
	return d
}

func (c *runCtx) modelDump() []string {
	var out []string
	for _, h := range c.s.model.All() {
		var ks []string
		for _, k := range h.Keys {
			st := "alive"
			if k.Destroyed {
				st = "destroyed"
			}
			ks = append(ks, fmt.Sprintf("g%d:%s:%s", k.Gen, st, ev.Hex(k.Secret[max(0, len(k.Secret)-6):])))
		}
		out = append(out, fmt.Sprintf("%s/%s [%s]", h.Kind, h.Client, strings.Join(ks, " ")))
	}
	return out
}

// edge raises the violation only when check `id` of history h goes from passing to failing.
func (c *runCtx) edge(h *ksrig.ModelHistory, id string, failed bool, sig string, extra map[string]interface{}) {
	st := c.s.state(h)
	if !failed {
		delete(st.failing, id)
		return
	}
	if st.failing[id] {
		c.count("violations_persisting_not_rereported", 1)
		return
	}
	st.failing[id] = true
	c.logf("  !! %s", sig)
	c.r.Violation(sig, c.detail(extra))
}

// trigger describes the last mutating step relative to history h (stable text for signatures).
func (c *runCtx) trigger(h *ksrig.ModelHistory) string {
	lm := c.s.lastMut
	if !lm.set {
		return "none"
	}
	return relate(lm.op, lm.kind, lm.client, h)
}

func relate(op string, kind ksrig.ModelKind, client string, h *ksrig.ModelHistory) string {
	sameClient := !kind.PerClient() && !h.Kind.PerClient() || kind.PerClient() && h.Kind.PerClient() && client == string(h.Client)
	switch {
	case kind == h.Kind && sameClient:
		return op + "(same-key)"
	case kind.PerClient() && h.Kind.PerClient() && sameClient:
		return fmt.Sprintf("%s(%s,same-client)", op, kind)
	case !kind.PerClient() && !h.Kind.PerClient():
		return fmt.Sprintf("%s(%s,global)", op, kind)
	}
	return op + "(unrelated-key)"
}

func (c *runCtx) noteMutation(op string, kind ksrig.ModelKind, client []byte) {
	c.s.lastMut.op, c.s.lastMut.kind, c.s.lastMut.client, c.s.lastMut.set = op, kind, string(client), true
	c.s.dirty = true
	for _, h := range c.s.model.All() {
		rel := relate(op, kind, string(client), h)
		if !strings.HasSuffix(rel, "(unrelated-key)") {
			c.s.state(h).lastRelMut = rel
		}
	}
}

// ---------------------------------------------------------------------------------------------
// oracles on one history through one view

// checkConsistent: on a cache-consistent view, "the current key of each kind is the most recently generated
// surviving one, every surviving older key is still offered for decryption newest-first".
func (c *runCtx) checkConsistent(view ksrig.FullKeyStore, viewName string, h *ksrig.ModelHistory, trig string) {
	if len(h.Keys) == 0 {
		return
	}
	r, s := c.r, c.s
	newest, ns := h.Newest(), h.NewestSurvivor()
	surv := h.Survivors()
	r.Case()
	r.Distinct(fmt.Sprintf("%s|%s|consistent:%s|surv=%s|newestDestroyed=%v|after=%s", s.cfg.name, h.Kind, viewName, bucket(len(surv)), newest.Destroyed, strings.SplitN(trig, "(", 2)[0]))
	c.setAdd("configs", s.cfg.name)
	c.setAdd("kinds", h.Kind.String())
	pre := fmt.Sprintf("%s kind=%s view=consistent", s.cfg.fmtName(), h.Kind)
	state := "state=" + stateClass(h)
	_ = trig

	// --- current key
	var cur []byte
	var err error
	site, stack := guard(func() { cur, _, err = ksrig.ModelCurrent(view, h.Kind, h.Client) })
	c.count("consistent_get_current_checked", 1)
	if site != "" {
		c.edge(h, viewName+"/cur-panic", true, fmt.Sprintf("%s check=get-current panic at %s %s", pre, site, state), map[string]interface{}{"stack": stack, "view": viewName, "last_step": trig})
	} else {
		class := ""
		if !newest.Destroyed {
			switch {
			case err != nil:
				class = "error(" + errClass(err) + ")-while-newest-key-survives"
			case bytes.Equal(cur, newest.Secret):
			default:
				class = c.classifyValue(h, cur, "instead-of-newest")
			}
		} else if err == nil {
			// newest generated key was destroyed: failing is accepted, returning the newest survivor is accepted
			switch {
			case ns != nil && bytes.Equal(cur, ns.Secret):
				c.count("current_fell_back_to_newest_survivor", 1)
			default:
				class = c.classifyValue(h, cur, "after-newest-destroyed")
			}
		} else {
			c.count("current_fails_after_newest_destroyed(accepted)", 1)
		}
		c.edge(h, viewName+"/cur", class != "", fmt.Sprintf("%s check=get-current class=%s %s", pre, class, state),
			map[string]interface{}{"returned": ev.Hex(cur), "error": fmt.Sprint(err), "view": viewName, "last_step": trig})
		if err == nil {
			if k := h.ByValue(cur); k != nil && viewName == "main" {
				s.state(h).offered[k.Gen] = true
			}
		}
	}

	// --- all keys, newest first
	if !h.Kind.HasGetAll() {
		return
	}
	var all [][]byte
	site, stack = guard(func() { all, err = ksrig.ModelAll(view, h.Kind, h.Client) })
	c.count("consistent_get_all_checked", 1)
	if site != "" {
		c.edge(h, viewName+"/all-panic", true, fmt.Sprintf("%s check=get-all panic at %s %s", pre, site, state), map[string]interface{}{"stack": stack, "view": viewName, "last_step": trig})
		return
	}
	class := ""
	switch {
	case len(surv) == 0:
		if err == nil && len(all) > 0 {
			class = "offers-keys-though-none-survive"
		}
	case err != nil:
		class = "error(" + errClass(err) + ")-while-keys-survive"
	default:
		class = c.compareAll(h, surv, all)
	}
	c.edge(h, viewName+"/all", class != "", fmt.Sprintf("%s check=get-all class=%s %s", pre, class, state),
		map[string]interface{}{"returned": hexList(all), "error": fmt.Sprint(err), "expected_generations_newest_first": gens(surv), "view": viewName, "last_step": trig})
	if err == nil {
		if viewName == "main" {
			for _, v := range all {
				if k := h.ByValue(v); k != nil {
					s.state(h).offered[k.Gen] = true
				}
			}
		}
		c.checkSamples(h, viewName, all, pre, state)
	}
}

// stateClass names which keys of the history are destroyed (a pure function of the model state).
func stateClass(h *ksrig.ModelHistory) string {
	newest, rot := false, false
	for i, k := range h.Keys {
		if k.Destroyed {
			if i == len(h.Keys)-1 {
				newest = true
			} else {
				rot = true
			}
		}
	}
	switch {
	case newest && rot:
		return "newest-and-older-keys-destroyed"
	case newest:
		return "newest-key-destroyed"
	case rot:
		return "older-keys-destroyed"
	}
	return "nothing-destroyed"
}

func (c *runCtx) classifyValue(h *ksrig.ModelHistory, v []byte, suffix string) string {
	k := h.ByValue(v)
	switch {
	case k == nil:
		return "unknown-value-" + suffix
	case k.Destroyed:
		return "destroyed-key-" + suffix
	default:
		return "older-key-" + suffix
	}
}

func (c *runCtx) compareAll(h *ksrig.ModelHistory, surv []*ksrig.ModelKey, all [][]byte) string {
	got := map[int]bool{}
	var order []int
	for _, v := range all {
		k := h.ByValue(v)
		if k == nil {
			return "offers-unknown-value"
		}
		if k.Destroyed {
			return "offers-destroyed-key"
		}
		if got[k.Gen] {
			return "offers-key-twice"
		}
		got[k.Gen] = true
		order = append(order, k.Gen)
	}
	for _, k := range surv {
		if !got[k.Gen] {
			return "missing-surviving-key"
		}
	}
	if !sort.SliceIsSorted(order, func(i, j int) bool { return order[i] > order[j] }) {
		return "not-newest-first"
	}
	return ""
}

// checkSamples: "values written before a rotation remain readable" — every value encrypted earlier decrypts
// with the offered keys iff its key survives.
func (c *runCtx) checkSamples(h *ksrig.ModelHistory, viewName string, all [][]byte, pre, state string) {
	st := c.s.state(h)
	for i := range st.samples {
		sm := &st.samples[i]
		key := h.Keys[sm.gen]
		var out []byte
		var err error
		site, stack := guard(func() { out, err = decryptWith(h.Kind, sm.cipher, all) })
		c.count("decrypt_checked", 1)
		id := fmt.Sprintf("%s/sample%d", viewName, i)
		if site != "" {
			c.edge(h, id, true, fmt.Sprintf("%s check=decrypt-earlier-value panic at %s", pre, site), map[string]interface{}{"stack": stack})
			continue
		}
		ok := err == nil && bytes.Equal(out, sm.plain)
		class := ""
		switch {
		case !key.Destroyed && !ok:
			class = "value-under-surviving-key-no-longer-decrypts"
		case key.Destroyed && ok:
			class = "value-under-destroyed-key-still-decrypts"
		}
		if key.Destroyed {
			c.count("decrypt_checked_destroyed_key", 1)
		} else if key.Gen != h.Newest().Gen {
			c.count("decrypt_checked_rotated_key", 1)
		}
		c.edge(h, id, class != "", fmt.Sprintf("%s check=decrypt-earlier-value class=%s %s", pre, class, state),
			map[string]interface{}{"sample_generation": sm.gen, "error": fmt.Sprint(err)})
	}
}

func decryptWith(kind ksrig.ModelKind, cipher []byte, all [][]byte) ([]byte, error) {
	if kind.IsPair() {
		privs := make([]*keys.PrivateKey, 0, len(all))
		for _, v := range all {
			privs = append(privs, &keys.PrivateKey{Value: append([]byte{}, v...)})
		}
		return acrastruct.DecryptRotatedAcrastruct(append([]byte{}, cipher...), privs, nil)
	}
	ks := make([][]byte, 0, len(all))
	for _, v := range all {
		ks = append(ks, append([]byte{}, v...))
	}
	blk, err := acrablock.NewAcraBlockFromData(append([]byte{}, cipher...))
	if err != nil {
		return nil, err
	}
	return blk.Decrypt(ks, nil)
}

// checkWarm: on a warm-cache view only "never stops offering a surviving key it offered earlier".
func (c *runCtx) checkWarm(h *ksrig.ModelHistory) {
	if len(h.Keys) == 0 || !h.Kind.HasGetAll() {
		return
	}
	r, s := c.r, c.s
	st := s.state(h)
	r.Case()
	trig := st.lastRelMut
	if trig == "" {
		trig = "none"
	}
	r.Distinct(fmt.Sprintf("%s|%s|warm|surv=%s|newestDestroyed=%v|after=%s", s.cfg.name, h.Kind, bucket(len(h.Survivors())), h.Newest().Destroyed, strings.SplitN(trig, "(", 2)[0]))
	pre := fmt.Sprintf("%s kind=%s view=warm-cache", s.cfg.fmtName(), h.Kind)
	now := map[int]bool{}
	var all [][]byte
	var cur []byte
	var errAll, errCur error
	site, stack := guard(func() {
		all, errAll = ksrig.ModelAll(s.H, h.Kind, h.Client)
		cur, _, errCur = ksrig.ModelCurrent(s.H, h.Kind, h.Client)
	})
	c.count("warm_monotonicity_checked", 1)
	if (st.failing["main/all"] || st.failing["ref/all"] && errAll != nil) && !st.failing["warm"] {
		// get-all was already failing on the last consistent view of this handle, or fails right now on the
		// reference (cache-consistent) handle too: that is reported there, with the key state that causes it;
		// the same failure seen through the warm handle is the same finding, not a new one
		st.failing["warm"] = true
	}
	if site != "" {
		c.edge(h, "warm-panic", true, fmt.Sprintf("%s panic at %s after=%s", pre, site, trig), map[string]interface{}{"stack": stack})
		return
	}
	if errAll == nil {
		for _, v := range all {
			if k := h.ByValue(v); k != nil {
				now[k.Gen] = true
			}
		}
	}
	if errCur == nil {
		if k := h.ByValue(cur); k != nil {
			now[k.Gen] = true
		}
	}
	var lost []int
	for g := range st.offered {
		if !h.Keys[g].Destroyed && !now[g] {
			lost = append(lost, g)
		}
	}
	sort.Ints(lost)
	if len(st.offered) > 0 {
		c.count("warm_monotonicity_checked_with_earlier_offers", 1)
	}
	class := "missing-from-result"
	if errAll != nil {
		class = "get-all-error(" + errClass(errAll) + ")"
	}
	c.edge(h, "warm", len(lost) > 0, fmt.Sprintf("%s check=stopped-offering-surviving-key class=%s after=%s", pre, class, trig),
		map[string]interface{}{"cache": s.cfg.name, "lost_generations": lost, "get_all": hexList(all), "get_all_error": fmt.Sprint(errAll), "get_current_error": fmt.Sprint(errCur)})
	for g := range now {
		st.offered[g] = true
	}
}

func hexList(l [][]byte) []string {
	out := make([]string, 0, len(l))
	for _, b := range l {
		out = append(out, ev.Hex(b))
	}
	return out
}

func gens(l []*ksrig.ModelKey) []int {
	out := make([]int, 0, len(l))
	for _, k := range l {
		out = append(out, k.Gen)
	}
	return out
}

// ---------------------------------------------------------------------------------------------
// listing <-> model

// listRotated returns the rotated-key listing lines of history h as shown through the main handle.
func (c *runCtx) listRotated(h *ksrig.ModelHistory) (entries []ksrig.ModelListedEntry, ok bool) {
	var err error
	site, stack := guard(func() {
		d, e := c.s.H.ListRotatedKeys()
		err = e
		if e == nil {
			entries = ksrig.ModelFilterRotated(d, c.s.cfg.v2, h.Kind, h.Client)
		}
	})
	c.count("list_rotated_calls", 1)
	if site != "" {
		c.r.Violation(fmt.Sprintf("%s op=list-rotated panic at %s", c.s.cfg.fmtName(), site), c.detail(map[string]interface{}{"stack": stack}))
		c.abort = true
		return nil, false
	}
	if err != nil && c.s.cfg.redis && !c.s.cfg.v2 && os.IsNotExist(err) {
		// RedisStorage cannot tell an empty directory from a missing one: the listing of a keystore that holds no key
		// at all (nothing generated yet, or everything destroyed) fails with ErrNotExist. That is the empty listing.
		c.count("list_rotated_not_exist_taken_as_empty_listing(v1 on Redis, no key stored)", 1)
		return nil, true
	}
	if err != nil {
		c.count("list_rotated_errors", 1)
		c.logf("  list-rotated error: %v", err)
		return nil, false
	}
	return entries, true
}

// reconcile checks that the listing shows exactly the model's surviving rotated keys (count; v1: stable creation
// times in ascending order) and remembers the creation time shown for each key. false = identities cannot be
// established (a violation was raised) and the run must stop.
func (c *runCtx) reconcile(h *ksrig.ModelHistory, entries []ksrig.ModelListedEntry) bool {
	rot := h.Rotated()
	c.count("listing_reconciled", 1)
	pre := fmt.Sprintf("%s kind=%s check=list-rotated", c.s.cfg.fmtName(), h.Kind)
	fail := func(class string) bool {
		c.r.Violation(fmt.Sprintf("%s class=%s after=%s", pre, class, c.s.state(h).lastRelMut),
			c.detail(map[string]interface{}{"listing": fmt.Sprint(entries), "model_rotated_generations_oldest_first": gens(rot)}))
		c.abort = true
		return false
	}
	if len(entries) != len(rot) {
		return fail("listing-does-not-show-exactly-the-surviving-rotated-keys")
	}
	for i, e := range entries {
		if e.Index != i+2 {
			return fail("indices-not-2..n+1")
		}
		if i > 0 && e.Time.Before(entries[i-1].Time) {
			return fail("creation-times-not-ascending")
		}
		if !c.s.cfg.v2 {
			if i > 0 && !e.Time.After(entries[i-1].Time) {
				return fail("creation-times-not-unique")
			}
			k := rot[i]
			if k.ListedAt.IsZero() {
				k.ListedAt = e.Time
			} else if !k.ListedAt.Equal(e.Time) {
				return fail("creation-time-of-a-key-changed")
			}
		}
	}
	return true
}

// ringStates (v2): destroyed flag per generation (= seqnum-1) as the key ring itself reports it.
// ok=false if the ring cannot be read or does not hold exactly the generated keys.
func (c *runCtx) ringStates(h *ksrig.ModelHistory) (destroyed map[int]bool, ok bool) {
	ro, isRO := c.s.H.(ringOpener)
	if !isRO {
		return nil, false
	}
	destroyed = map[int]bool{}
	site, _ := guard(func() {
		ring, err := ro.OpenKeyRing(ksrig.ModelV2RingPath(h.Kind, h.Client))
		if err != nil {
			return
		}
		seqs, err := ring.AllKeys()
		if err != nil || len(seqs) != len(h.Keys) {
			return
		}
		for _, seq := range seqs {
			stt, err := ring.State(seq)
			if err != nil {
				return
			}
			g := seq - 1
			if g < 0 || g >= len(h.Keys) {
				return
			}
			destroyed[g] = stt == api.KeyDestroyed
		}
		ok = true
	})
	if site != "" {
		return nil, false
	}
	return destroyed, ok
}

// observeRotatedDestroyed tells which generations (of those rotated and alive before) the implementation has
// destroyed, by comparing listings (v1: creation time = file identity) or ring states (v2).
func (c *runCtx) observeRotatedDestroyed(h *ksrig.ModelHistory, before []ksrig.ModelListedEntry, rotBefore []*ksrig.ModelKey) (gone []int, ok bool) {
	if c.s.cfg.v2 {
		ds, ok := c.ringStates(h)
		if !ok {
			return nil, false
		}
		for _, k := range h.Keys {
			if !k.Destroyed && ds[k.Gen] {
				gone = append(gone, k.Gen)
			}
		}
		return gone, true
	}
	after, ok := c.listRotated(h)
	if !ok {
		return nil, false
	}
	still := map[int64]bool{}
	for _, e := range after {
		still[e.Time.UnixNano()] = true
	}
	if len(after) > len(before) {
		return nil, false
	}
	for i, e := range before {
		if !still[e.Time.UnixNano()] {
			gone = append(gone, rotBefore[i].Gen)
		}
	}
	return gone, true
}

// ---------------------------------------------------------------------------------------------
// operations

func (c *runCtx) history(k ksrig.ModelKind, id []byte) *ksrig.ModelHistory { return c.s.model.History(k, id) }

func (c *runCtx) opGenerate(k ksrig.ModelKind, id []byte, supplied bool) {
	r, s := c.r, c.s
	h := c.history(k, id)
	var err error
	var kp *keys.Keypair
	var priv, pub []byte
	if supplied {
		kp, err = keys.New(keys.TypeEC)
		if err != nil {
			panic(err)
		}
		priv, pub = append([]byte{}, kp.Private.Value...), append([]byte{}, kp.Public.Value...)
	}
	opName := "rotate"
	if len(h.Keys) == 0 {
		opName = "generate-first"
	}
	if supplied {
		opName = "save-supplied-pair"
	}
	site, stack := guard(func() {
		if supplied {
			err = s.H.SaveDataEncryptionKeys(id, kp)
		} else {
			err = ksrig.ModelGenerate(s.H, k, id)
		}
	})
	c.noteMutation(opName, k, id)
	c.logf("%s %s/%s -> err=%v panic=%s", opName, k, id, err, site)
	c.count("op_generate", 1)
	if site != "" {
		r.Violation(fmt.Sprintf("%s kind=%s op=%s panic at %s", s.cfg.fmtName(), k, opName, site), c.detail(map[string]interface{}{"stack": stack}))
		c.abort = true
		return
	}
	if err != nil {
		c.count("op_generate_errors", 1)
		r.Inconclusive(fmt.Sprintf("history %d: %s of %s failed: %v (run stopped)", c.hidx, opName, k, err))
		c.abort = true
		return
	}
	if supplied {
		h.ModelAdd(priv, pub, true)
		return
	}
	// learn the value of the new key through the reference handle (never predicted)
	var cur, curPub []byte
	site, stack = guard(func() {
		cur, curPub, err = ksrig.ModelCurrent(s.R, k, id)
		if err == nil && k == ksrig.ModelStoragePair {
			curPub, err = ksrig.ModelCurrentPublic(s.R, k, id)
		}
	})
	class := ""
	switch {
	case site != "":
		class = "panic at " + site
	case err != nil:
		class = "error(" + errClass(err) + ")"
	case len(cur) == 0:
		class = "empty-value"
	case h.ByValue(cur) != nil:
		class = "still-an-earlier-key"
	}
	if class != "" {
		r.Violation(fmt.Sprintf("%s kind=%s view=consistent(ref) check=get-current-after-generate class=%s", s.cfg.fmtName(), k, class),
			c.detail(map[string]interface{}{"error": fmt.Sprint(err), "stack": stack, "returned": ev.Hex(cur)}))
		c.abort = true
		return
	}
	h.ModelAdd(cur, curPub, false)
}

func (c *runCtx) opDestroyCurrent(k ksrig.ModelKind, id []byte) {
	r, s := c.r, c.s
	h := c.history(k, id)
	var err error
	site, stack := guard(func() { err = ksrig.ModelDestroyCurrent(s.H, k, id) })
	c.noteMutation("destroy-current", k, id)
	c.logf("destroy-current %s/%s -> err=%v panic=%s", k, id, err, site)
	c.count("op_destroy_current", 1)
	if site != "" {
		r.Violation(fmt.Sprintf("%s kind=%s op=destroy-current panic at %s", s.cfg.fmtName(), k, site), c.detail(map[string]interface{}{"stack": stack}))
		c.abort = true
		return
	}
	newest := h.Newest()
	if newest == nil || newest.Destroyed {
		c.count("op_destroy_current_without_current", 1)
		return // nothing to destroy: error or silent success are both fine, the checks demand "no change"
	}
	if err == nil {
		newest.Destroyed = true
		r.Distinct(fmt.Sprintf("%s|%s|destroy-current|rotated=%s", s.cfg.name, k, bucket(len(h.Rotated()))))
		return
	}
	// the call failed: whether the key is gone is decided by observation (both outcomes are legitimate)
	c.count("op_destroy_current_errors", 1)
	cur, _, e := ksrig.ModelCurrent(s.R, k, id)
	if e != nil || !bytes.Equal(cur, newest.Secret) {
		newest.Destroyed = true
	}
}

func (c *runCtx) opDestroyRotated(k ksrig.ModelKind, id []byte, rng *gen.Rand, shown bool) {
	r, s := c.r, c.s
	h := c.history(k, id)
	before, ok := c.listRotated(h)
	if !ok {
		return
	}
	if !c.reconcile(h, before) {
		return
	}
	rot := h.Rotated()
	var index int
	class := ""
	if shown {
		if len(before) == 0 {
			return
		}
		j := rng.Intn(len(before))
		index = before[j].Index
		class = "shown"
	} else {
		n := len(before)
		cands := []struct {
			i int
			c string
		}{{-1, "negative"}, {0, "zero"}, {1, "one(the-current-key)"}, {n + 2, "one-past-the-last-shown"}, {n + 3, "past-the-last-shown"}, {n + 1000, "far-past-the-last-shown"}}
		p := cands[rng.Intn(len(cands))]
		index, class = p.i, p.c
	}
	var err error
	site, stack := guard(func() { err = ksrig.ModelDestroyRotated(s.H, k, id, index) })
	c.noteMutation("destroy-rotated", k, id)
	c.logf("destroy-rotated[%s] %s/%s index=%d of shown 2..%d -> err=%v panic=%s", class, k, id, index, len(before)+1, err, site)
	gone, okObs := c.observeRotatedDestroyed(h, before, rot)
	if c.abort {
		return
	}
	pre := fmt.Sprintf("%s kind-class=%s op=destroy-rotated", s.cfg.fmtName(), kindClass(k))
	extra := map[string]interface{}{"kind": k.String(), "index": index, "shown_indices": fmt.Sprintf("2..%d", len(before)+1), "error": fmt.Sprint(err), "stack": stack,
		"destroyed_generations_observed": gone, "rotated_generations_oldest_first_before": gens(rot)}
	r.Case()
	if shown {
		c.count("op_destroy_rotated_shown_index", 1)
		pos := index - 2
		posClass := "middle"
		switch {
		case len(rot) == 1:
			posClass = "only"
		case pos == 0:
			posClass = "oldest"
		case pos == len(rot)-1:
			posClass = "newest-rotated"
		}
		r.Distinct(fmt.Sprintf("%s|%s|destroy-rotated-shown|n=%s|pos=%s", s.cfg.name, k, bucket(len(rot)), posClass))
		target := rot[pos]
		extra["listed_at_index_generation"] = target.Gen
		switch {
		case site != "":
			r.Violation(fmt.Sprintf("%s index=shown(%s-of-%s) panic at %s", pre, posClass, many(len(rot)), site), c.detail(extra))
		case !okObs:
			r.Inconclusive(fmt.Sprintf("history %d: cannot observe the state after destroy-rotated", c.hidx))
			c.abort = true
			return
		case len(gone) == 1 && gone[0] == target.Gen && err == nil:
			c.count("destroy_rotated_shown_index_removed_exactly_the_listed_key", 1)
		case len(gone) == 0:
			r.Violation(fmt.Sprintf("%s index=shown(%s-of-%s) class=nothing-removed(error=%s)", pre, posClass, many(len(rot)), errClass(err)), c.detail(extra))
		default:
			r.Violation(fmt.Sprintf("%s index=shown(%s-of-%s) class=removed-a-different-key-than-listed", pre, posClass, many(len(rot))), c.detail(extra))
		}
	} else {
		c.count("op_destroy_rotated_unshown_index", 1)
		r.Distinct(fmt.Sprintf("%s|%s|destroy-rotated-unshown|n=%s|%s", s.cfg.name, k, bucket(len(rot)), class))
		switch {
		case site != "":
			r.Violation(fmt.Sprintf("%s index=not-shown(%s) panic at %s", pre, class, site), c.detail(extra))
		case !okObs:
			r.Inconclusive(fmt.Sprintf("history %d: cannot observe the state after destroy-rotated", c.hidx))
			c.abort = true
			return
		case len(gone) > 0:
			r.Violation(fmt.Sprintf("%s index=not-shown(%s) class=removed-a-key", pre, class), c.detail(extra))
		case err == nil:
			c.count("destroy_rotated_unshown_index_silently_succeeded_without_change(not a violation)", 1)
		default:
			c.count("destroy_rotated_unshown_index_rejected", 1)
		}
	}
	// the model follows what was observed, so that one defect is reported once and the run can go on
	if okObs {
		for _, g := range gone {
			h.Keys[g].Destroyed = true
		}
	} else {
		c.abort = true
	}
}

func many(n int) string {
	if n == 1 {
		return "1"
	}
	return "n"
}

func kindClass(k ksrig.ModelKind) string {
	if k.IsPair() {
		return "pair"
	}
	return "symmetric"
}

func (c *runCtx) opSample(k ksrig.ModelKind, id []byte, rng *gen.Rand) {
	h := c.history(k, id)
	newest := h.Newest()
	if newest == nil || newest.Destroyed || !k.HasGetAll() {
		return
	}
	plain := gen.Bytes(rng, 1+rng.Intn(40))
	var cipher []byte
	var err error
	var keyGen = -1
	site, _ := guard(func() {
		if k.IsPair() {
			var pub []byte
			pub, err = ksrig.ModelCurrentPublic(c.s.R, k, id)
			if err != nil {
				return
			}
			for _, mk := range h.Keys {
				if len(mk.Public) > 0 && bytes.Equal(mk.Public, pub) {
					keyGen = mk.Gen
				}
			}
			cipher, err = acrastruct.CreateAcrastruct(append([]byte{}, plain...), &keys.PublicKey{Value: pub}, nil)
		} else {
			var sym []byte
			sym, _, err = ksrig.ModelCurrent(c.s.R, k, id)
			if err != nil {
				return
			}
			if mk := h.ByValue(sym); mk != nil {
				keyGen = mk.Gen
			}
			cipher, err = acrablock.CreateAcraBlock(append([]byte{}, plain...), sym, nil)
		}
	})
	if site != "" || err != nil || keyGen != newest.Gen {
		// the current-key checks report any disagreement; a sample is only kept when its key is known
		c.count("samples_skipped", 1)
		return
	}
	st := c.s.state(h)
	if len(st.samples) < 6 {
		st.samples = append(st.samples, sample{gen: keyGen, cipher: cipher, plain: plain})
		c.count("samples_encrypted", 1)
		c.logf("encrypt-sample %s/%s under generation %d", k, id, keyGen)
	}
}

func (c *runCtx) opRead(k ksrig.ModelKind, id []byte) {
	h := c.history(k, id)
	c.logf("read %s/%s through main handle (consistent=%v)", k, id, c.s.mainConsistent())
	c.count("op_read", 1)
	c.checkMain(h)
}

func (c *runCtx) checkMain(h *ksrig.ModelHistory) {
	if c.s.mainConsistent() {
		trig := c.s.state(h).lastRelMut
		if trig == "" {
			trig = "none"
		}
		c.checkConsistent(c.s.H, "main", h, trig)
	} else {
		c.checkWarm(h)
	}
}

func (c *runCtx) opList() {
	s := c.s
	site, stack := guard(func() {
		_, err := s.H.ListKeys()
		if err != nil {
			c.count("list_keys_errors(not decided)", 1)
		}
	})
	c.count("op_list_keys", 1)
	c.logf("list-keys panic=%s", site)
	if site != "" {
		c.r.Violation(fmt.Sprintf("%s op=list-keys panic at %s", s.cfg.fmtName(), site), c.detail(map[string]interface{}{"stack": stack}))
	}
	for _, h := range s.model.All() {
		if len(h.Keys) == 0 {
			continue
		}
		entries, ok := c.listRotated(h)
		if !ok || c.abort {
			return
		}
		if !c.reconcile(h, entries) {
			return
		}
	}
}

func (c *runCtx) opReset() {
	c.s.H.Reset()
	c.s.dirty = false
	c.count("op_reset_cache", 1)
	c.logf("reset-cache")
}

func (c *runCtx) opReopen() {
	s := c.s
	if s.hClose != nil {
		s.hClose()
	}
	h, cl, err := s.openHandle("main", s.cfg.cache)
	if err != nil {
		c.r.Inconclusive(fmt.Sprintf("history %d: reopen failed: %v", c.hidx, err))
		c.abort = true
		return
	}
	s.H, s.hClose = h, cl
	s.dirty = false
	for _, st := range s.hs {
		st.offered = map[int]bool{}
	}
	c.count("op_reopen", 1)
	c.logf("reopen (fresh handle)")
}

// ---------------------------------------------------------------------------------------------
// one history

// stepOp performs one seeded step on key (k, id); it says whether the step was a mutating one.
func (c *runCtx) stepOp(rng *gen.Rand, k ksrig.ModelKind, id []byte) (mutated bool) {
	h := c.history(k, id)
	x := rng.Intn(100)
	switch {
	case x < 30 || len(h.Keys) == 0 && x < 60:
		c.opGenerate(k, id, false)
		mutated = true
	case x < 34:
		if k == ksrig.ModelStoragePair {
			c.opGenerate(k, id, true)
			mutated = true
		} else {
			c.opRead(k, id)
		}
	case x < 50:
		c.opRead(k, id)
	case x < 56:
		c.opList()
	case x < 65:
		if k.HasDestroy() {
			c.opDestroyCurrent(k, id)
			mutated = true
		}
	case x < 79:
		if k.HasDestroy() {
			c.opDestroyRotated(k, id, rng, true)
			mutated = true
		}
	case x < 84:
		if k.HasDestroy() {
			c.opDestroyRotated(k, id, rng, false)
			mutated = true
		}
	case x < 90:
		c.opReset()
	case x < 94:
		c.opReopen()
	default:
		c.opSample(k, id, rng)
	}
	return mutated
}

// checkRef: the reference (cache-consistent) view of every key that exists.
func (c *runCtx) checkRef() {
	for _, hh := range c.s.model.All() {
		c.checkConsistent(c.s.R, "ref", hh, c.trigger(hh))
	}
}

// afterStep runs the oracles that follow every step on (k, id).
func (c *runCtx) afterStep(rng *gen.Rand, k ksrig.ModelKind, id []byte, mutated bool) {
	s := c.s
	h := c.history(k, id)
	// after every step: the reference (cache-consistent) view of every key that exists ...
	c.checkRef()
	// ... and the main handle for the key just touched plus, sometimes, another one (reading through the main
	// handle warms its cache, so this is itself part of the generated history)
	if mutated {
		for _, hh := range s.model.All() {
			if !strings.HasSuffix(relate("x", k, string(id), hh), "(unrelated-key)") {
				c.checkMain(hh)
			}
		}
	} else if rng.Intn(100) < 40 {
		c.checkMain(h)
	}
	if rng.Intn(100) < 30 {
		all := s.model.All()
		if len(all) > 0 {
			c.checkMain(all[rng.Intn(len(all))])
		}
	}
}

func runHistory(r *ev.Run, hidx int) {
	cfg := configs[hidx%len(configs)]
	rng := gen.New(r.Seed, fmt.Sprintf("c06/history/%d", hidx))
	s, err := openStore(cfg)
	if err != nil {
		r.Inconclusive(fmt.Sprintf("history %d: cannot open %s: %v", hidx, cfg.name, err))
		return
	}
	defer s.close()
	c := &runCtx{r: r, s: s, hidx: hidx}
	n := 5 + rng.Intn(56)
	// every history concentrates on a few keys so that their histories get deep
	type target struct {
		k  ksrig.ModelKind
		id []byte
	}
	focus := make([]target, 1+rng.Intn(3))
	for i := range focus {
		focus[i] = target{ksrig.ModelKinds[rng.Intn(len(ksrig.ModelKinds))], clientIDs[rng.Intn(len(clientIDs))]}
	}
	pick := func() target {
		if rng.Intn(100) < 75 {
			return focus[rng.Intn(len(focus))]
		}
		return target{ksrig.ModelKinds[rng.Intn(len(ksrig.ModelKinds))], clientIDs[rng.Intn(len(clientIDs))]}
	}
	c.logf("config %s, %d steps", cfg.name, n)
	for step := 0; step < n && !c.abort; step++ {
		t := pick()
		mutated := c.stepOp(rng, t.k, t.id)
		c.count("steps", 1)
		if c.abort {
			break
		}
		c.afterStep(rng, t.k, t.id, mutated)
	}
	if c.abort {
		c.count("histories_stopped_early", 1)
	}
	c.count("histories", 1)
	r.SampleN(cfg.name, 2, map[string]interface{}{"config": cfg.name, "history": hidx, "steps": s.trace})
}

// Run is the C06 monitor.
func Run(r *ev.Run) {
	r.Rule = "one evaluation = one oracle evaluation: a (key kind, client) history checked through one view (reference handle / main handle consistent / main handle warm) after a step, or one destroy-rotated call checked against the listing. " +
		"A class is distinct by (configuration, key kind, view or operation, number of surviving keys {0,1,2,3+}, whether the newest key is destroyed, kind of the last mutating step / position of the destroyed index). " +
		"Histories are a pure function of VERIF_SEED: history i uses configuration i mod 5 and PRNG stream (seed, i); key VALUES are random (generated by Acra) and are only ever compared after reading them back."
	r.Assumptions = []string{
		"crypto library replaced by the pure-Go gothemis stand-in (contract level)",
		"first two workload classes: v1 over the real filesystem (scratch dir), v2 over InMemory and DirectoryBackend; Redis-backed variants: see the Redis layer below",
		"cache-consistent view = cache off, or no mutating call since the handle was opened / Reset(); everything else on a cached v1 handle is judged by monotonicity only",
		"listing lines are identified by creation time in v1 (rotated file name, unique) and by key-ring seqnum/state in v2 (creation times there have second resolution)",
	}
	n := r.Pick(300, 8000)
	workers := r.Pick(4, 8)
	start := time.Now()
	var wg sync.WaitGroup
	jobs := make(chan int)
	for w := 0; w < workers; w++ {
		wg.Add(1)
		go func() {
			defer wg.Done()
			for i := range jobs {
				runHistory(r, i)
			}
		}()
	}
	for i := 0; i < n; i++ {
		jobs <- i
	}
	close(jobs)
	wg.Wait()
	r.Extra("histories_planned", n)
	r.Extra("wall_histories_s", time.Since(start).Seconds())
	// second workload class: histories that contain FAILED rotations and destructions (faulted.go)
	start = time.Now()
	runFaultedHistories(r, workers)
	r.Extra("wall_faulted_histories_s", time.Since(start).Seconds())
	// Redis-backed keystores (redis.go, redisfaulted.go): the same histories, model and oracles over
	// filesystem.RedisStorage / backend.RedisBackend on the in-process stand-in server
	start = time.Now()
	runRedisLayer(r, workers)
	r.Extra("wall_redis_layer_s", time.Since(start).Seconds())
	// non-vacuity: every oracle must have been exercised
	q := func(quick, thorough int64) int64 {
		if r.Thorough() {
			return thorough
		}
		return quick
	}
	r.RequireAtLeast("histories", int64(n)*9/10)
	r.RequireAtLeast("consistent_get_current_checked", q(5000, 100000))
	r.RequireAtLeast("consistent_get_all_checked", q(3000, 60000))
	r.RequireAtLeast("warm_monotonicity_checked_with_earlier_offers", q(100, 2000))
	r.RequireAtLeast("op_destroy_rotated_shown_index", q(100, 2000))
	r.RequireAtLeast("op_destroy_rotated_unshown_index", q(30, 600))
	r.RequireAtLeast("op_destroy_current", q(100, 2000))
	r.RequireAtLeast("decrypt_checked_rotated_key", q(50, 1000))
	r.RequireAtLeast("listing_reconciled", q(300, 6000))
	r.RequireAtLeast("op_reopen", q(50, 1000))
	r.RequireAtLeast("op_reset_cache", q(50, 1000))
	r.RequireSetAtLeast("configs", len(configs))
	r.RequireSetAtLeast("kinds", len(ksrig.ModelKinds))
}


