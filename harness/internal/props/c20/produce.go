package c20

import (
	"context"
	"fmt"
	"io"
	"os"
	"path/filepath"
	"sync"
	"sync/atomic"
	"time"

	"github.com/cossacklabs/acra/logging"
	"github.com/cossacklabs/acra/utils"
	"github.com/sirupsen/logrus"
)

// Log production uses logrus' standard logger, because Acra's audit log code does (AuditLogHandler.ResetChain /
// FinalizeChain call the package-level log.Infof). It is therefore serialised; verification runs afterwards in parallel.
var prodMu sync.Mutex

const (
	wServer  = "server"  // exactly cmd/acra-server and cmd/acra-translator: SetOutput(writer), SetFormatter(auditLogHandler)
	wHandler = "handler" // as logging/integrity_verifier_test.go and benchmarks: additionally SetOutput(auditLogHandler)
)

type step struct {
	kind  string // "entry" | "reset" (AuditLogHandler.ResetChain, what SIGUSR1 does) | "reboot" (FinalizeChain, then a new process appends to the same file)
	entry entrySpec
	t     time.Time // restarts: if set, the logical clock is moved here before the call (else the service entries follow 1 ms after the previous entry)
}

type logSpec struct {
	id         string
	format     string
	wiring     string
	key        []byte
	preamble   int // lines logged before the audit hooks are installed (unprotected), per boot
	steps      []step
	t0         time.Time // logical clock start (entries without their own time continue from the previous entry)
	finalize   bool      // FinalizeChain at the end (deferred call in main); false = process killed
	concurrent int       // >0: entries are logged by this many goroutines (order then decided by logrus' lock)
	level      int       // logging.LogDebug (zero value: -d, every level is written) | LogVerbose (-v) | LogDiscard (the services' default: warnings and errors only)
	observe    bool      // record which bytes of the file every step wrote (events); line meta is then built from that observation, not from construction
	events     []prodEvent
}

// prodEvent: what one step of the history wrote into the file (observed: file size before and after the call).
type prodEvent struct {
	kind     string // "preamble" | "entry" | "reset" | "reboot" | "finalize"
	step     int    // index into spec.steps; -1 preamble; len(spec.steps) the final FinalizeChain
	from, to int    // byte range of the file
}

func levelName(l int) string {
	switch l {
	case logging.LogDebug:
		return "debug"
	case logging.LogVerbose:
		return "verbose"
	case logging.LogDiscard:
		return "discard"
	}
	return fmt.Sprint(l)
}

// lineMeta says how a produced line came to be (by construction, in production order).
type lineMeta struct {
	origin  string // "preamble" | "entry" | "service"
	content string // class@pos of the entry, or origin
	entry   *entrySpec
	event   int // observed logs: index into spec.events of the step that wrote the line (else 0)
}

var scratchSeq int64

func scratchDir(tag string) string {
	root := os.Getenv("VERIF_SCRATCH_DIR")
	if root == "" {
		root = filepath.Join("/var/tmp", fmt.Sprintf("verif-c20-%d", os.Getpid()))
	}
	d := filepath.Join(root, fmt.Sprintf("%s-%d-%d", tag, os.Getpid(), atomic.AddInt64(&scratchSeq, 1)))
	if err := os.MkdirAll(d, 0o700); err != nil {
		panic(err)
	}
	return d
}

// logicalClock is a logrus hook that stamps every entry - also the service entries AuditLogHandler writes itself -
// with a seeded logical time, so that the produced bytes are a function of the seed and not of the wall clock.
type logicalClock struct {
	mu  sync.Mutex
	now time.Time
}

func (c *logicalClock) Levels() []logrus.Level { return logrus.AllLevels }
func (c *logicalClock) Fire(e *logrus.Entry) error {
	c.mu.Lock()
	if e.Context != nil {
		if t, ok := e.Context.Value(timeKey{}).(time.Time); ok {
			c.now = t
		}
	}
	e.Time = c.now
	c.now = c.now.Add(time.Millisecond)
	c.mu.Unlock()
	return nil
}

type timeKey struct{}

func emit(e *entrySpec) {
	ent := logrus.NewEntry(logrus.StandardLogger())
	if !e.t.IsZero() {
		ent = ent.WithContext(context.WithValue(context.Background(), timeKey{}, e.t))
	}
	if len(e.fields) > 0 {
		f := logrus.Fields{}
		for _, x := range e.fields {
			f[x.key] = x.val
		}
		ent = ent.WithFields(f)
	}
	ent.Log(logrus.Level(e.level), e.msg)
}

// produce runs the log calls of spec through a logrus standard logger wired as Acra wires it and returns the file content.
func produce(spec *logSpec, dir string) (data []byte, meta []lineMeta, err error) {
	prodMu.Lock()
	defer prodMu.Unlock()
	std := logrus.StandardLogger()
	prevOut, prevFmt, prevLevel := std.Out, std.Formatter, std.GetLevel()
	prevHooks := std.ReplaceHooks(make(logrus.LevelHooks))
	clock := &logicalClock{now: spec.t0}
	std.AddHook(clock)
	defer func() {
		std.ReplaceHooks(prevHooks)
		std.SetOutput(prevOut)
		std.SetFormatter(prevFmt)
		std.SetLevel(prevLevel)
		if p := recover(); p != nil {
			err = fmt.Errorf("panic while producing the log: %v", p)
		}
	}()
	path := filepath.Join(dir, "audit-"+spec.id+".log")
	os.Remove(path)
	// the level is global state of the standard logger (and AuditLogHandler switches it while writing its service entries):
	// set under prodMu, restored by the deferred call above. LogDebug (-d: every level is written) unless the history says otherwise
	logging.SetLogLevel(spec.level)
	spec.events = nil
	size := func() int {
		fi, err := os.Stat(path)
		if err != nil {
			return 0
		}
		return int(fi.Size())
	}
	mark := func(kind string, stepIdx int, from int) {
		if spec.observe {
			spec.events = append(spec.events, prodEvent{kind: kind, step: stepIdx, from: from, to: size()})
		}
	}

	var closers []func()
	boot := func() (*logging.AuditLogHandler, error) {
		// cmd/acra-server/acra-server.go realMain: "Start customizing logs here"
		formatter := logging.CreateCryptoFormatter(spec.format)
		formatter.SetServiceName("acra-server")
		logrus.SetFormatter(formatter)
		writer, logFinalize, err := logging.NewWriter(false, path)
		if err != nil {
			return nil, err
		}
		closers = append(closers, logFinalize)
		logrus.SetOutput(writer)
		from := size()
		defer func() { mark("preamble", -1, from) }()
		for i := 0; i < spec.preamble; i++ {
			if i == 0 {
				logrus.WithFields(logrus.Fields{"version": utils.VERSION}).Infof("Starting service %v [pid=%v]", "acra-server", 4242)
			} else {
				logrus.WithField("path", ".acrakeys").Infof("Keystore init OK")
			}
			meta = append(meta, lineMeta{origin: "preamble", content: "preamble"})
		}
		key := append([]byte{}, spec.key...)
		hooks, err := logging.NewHooks(key, spec.format)
		if err != nil {
			return nil, err
		}
		utils.ZeroizeSymmetricKey(key) // as Acra does after initialising the hook
		formatter.SetHooks(hooks)
		h, err := logging.NewAuditLogHandler(formatter, writer)
		if err != nil {
			return nil, err
		}
		if spec.wiring == wHandler {
			logrus.SetOutput(h)
		}
		logrus.SetFormatter(h)
		return h, nil
	}
	service := func() {
		meta = append(meta, lineMeta{origin: "service", content: "service"}, lineMeta{origin: "service", content: "service"})
	}
	h, err := boot()
	if err != nil {
		return nil, nil, err
	}
	if spec.concurrent > 0 {
		var wg sync.WaitGroup
		var entries []*entrySpec
		for i := range spec.steps {
			if spec.steps[i].kind == "entry" {
				entries = append(entries, &spec.steps[i].entry)
			}
		}
		for g := 0; g < spec.concurrent; g++ {
			wg.Add(1)
			go func(g int) {
				defer wg.Done()
				for i := g; i < len(entries); i += spec.concurrent {
					emit(entries[i])
				}
			}(g)
		}
		resets := 0
		for i := range spec.steps {
			if spec.steps[i].kind == "reset" {
				resets++
			}
		}
		for i := 0; i < resets; i++ {
			k := append([]byte{}, spec.key...)
			h.ResetChain(k)
			utils.ZeroizeSymmetricKey(k)
		}
		wg.Wait()
		meta = nil // order is not known by construction
	} else {
		for i := range spec.steps {
			st := &spec.steps[i]
			from := 0
			if spec.observe {
				from = size()
			}
			if st.kind != "entry" && !st.t.IsZero() {
				clock.mu.Lock()
				clock.now = st.t
				clock.mu.Unlock()
			}
			switch st.kind {
			case "entry":
				emit(&st.entry)
				meta = append(meta, lineMeta{origin: "entry", content: st.entry.content.String(), entry: &st.entry})
				mark("entry", i, from)
			case "reset":
				k := append([]byte{}, spec.key...)
				h.ResetChain(k)
				utils.ZeroizeSymmetricKey(k)
				service()
				mark("reset", i, from)
			case "reboot":
				h.FinalizeChain()
				service()
				mark("reboot", i, from)
				if h, err = boot(); err != nil {
					return nil, nil, err
				}
			}
		}
	}
	if spec.finalize {
		from := 0
		if spec.observe {
			from = size()
		}
		h.FinalizeChain()
		if meta != nil {
			service()
		}
		mark("finalize", len(spec.steps), from)
	}
	logrus.SetOutput(io.Discard)
	for _, c := range closers {
		c()
	}
	data, err = os.ReadFile(path)
	os.Remove(path)
	if spec.observe && err == nil {
		meta = metaFromEvents(spec, data)
	}
	return data, meta, err
}

// metaFromEvents: one lineMeta per line of the file, from the byte ranges the steps were observed to write.
func metaFromEvents(spec *logSpec, data []byte) []lineMeta {
	var meta []lineMeta
	off := 0
	for off < len(data) {
		end := off
		for end < len(data) && data[end] != '\n' {
			end++
		}
		m := lineMeta{origin: "unknown", content: "unknown", event: -1}
		for x, e := range spec.events {
			if off >= e.from && off < e.to {
				m.event = x
				switch e.kind {
				case "preamble":
					m.origin, m.content = "preamble", "preamble"
				case "entry":
					m.origin, m.content, m.entry = "entry", spec.steps[e.step].entry.content.String(), &spec.steps[e.step].entry
				default:
					m.origin, m.content = "service", "service"
				}
			}
		}
		meta = append(meta, m)
		off = end + 1
	}
	return meta
}
