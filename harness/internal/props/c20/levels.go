package c20

import (
	"bytes"
	"fmt"
	"sort"
	"strings"
	"sync"
	"time"

	"github.com/cossacklabs/acra/logging"

	"verif/harness/internal/ev"
	"verif/harness/internal/gen"
)

// ---------------------------------------------------------------------------------------------------------------
// (e) log levels and chain restarts at empty chains
//
// The services run with LogDiscard (warnings and errors only) unless -v / -d is given; AuditLogHandler forces its own
// service entries through whatever the level is. So which entries of a history reach the log - and therefore which
// entry is the first one of a chain - depends on the level. Histories here: entries at all four levels (error, warn,
// info, debug; also those the configured level suppresses) and ResetChain / FinalizeChain(+new process) at moments when
// the current chain has no entry yet (right after start, twice in a row, only suppressed entries in between),
// x 3 formats x 3 levels x 2 wirings. Oracles are the ones of phase (b): O1 intact log verifies, O3 wrong key,
// O2 every enumerated edit (byte changes at sampled offsets only).

// histInfo is the monitor's description of a produced history, from what every step was observed to write.
type histInfo struct {
	name       string   // name of the directed history, or "seeded"
	labels     []string // per spec.events index
	lines      []int    // per spec.events index: number of lines the step wrote
	flags      []string // sorted, unique: the restarts that met an empty chain
	suppressed int      // entry steps that wrote nothing
	written    int
}

func (h *histInfo) flagString() string {
	if len(h.flags) == 0 {
		return "no-restart-at-empty-chain"
	}
	return strings.Join(h.flags, "+")
}

var logrusLevelName = map[int]string{2: "error", 3: "warn", 4: "info", 5: "debug"}

// describeHistory walks the observed events. A chain is "empty" when no line was written into it since it began
// (process start, a process restart, or - handler wiring only, because only there ResetChain re-keys - a ResetChain).
func describeHistory(spec *logSpec, data []byte, name string) *histInfo {
	h := &histInfo{name: name}
	linesInChain, entrySteps, since := 0, 0, "start"
	flags := map[string]bool{}
	for _, e := range spec.events {
		n := bytes.Count(data[e.from:e.to], []byte("\n"))
		h.lines = append(h.lines, n)
		label := e.kind
		switch e.kind {
		case "preamble":
			// written before the hooks are installed: not part of any chain
		case "entry":
			entrySteps++
			linesInChain += n
			st := "written"
			if n == 0 {
				st = "suppressed"
				h.suppressed++
			} else {
				h.written++
			}
			label = fmt.Sprintf("entry(%s,%s)", logrusLevelName[spec.steps[e.step].entry.level], st)
		case "reset", "reboot", "finalize":
			if linesInChain == 0 {
				ctx := "after-" + since
				if entrySteps > 0 {
					ctx = "after-only-suppressed-entries"
				}
				label = fmt.Sprintf("%s-at-empty-chain(%s)", e.kind, ctx)
				flags[label] = true
			} else {
				label = e.kind + "-at-non-empty-chain"
			}
			if e.kind == "reset" && spec.wiring == wServer {
				linesInChain += n // no new chain begins: the service entries are entries of the running chain
			} else {
				linesInChain, entrySteps, since = 0, 0, e.kind
			}
		}
		h.labels = append(h.labels, label)
	}
	for f := range flags {
		h.flags = append(h.flags, f)
	}
	sort.Strings(h.flags)
	return h
}

// reportedAt names the step that wrote the line the verifier complained about.
func (h *histInfo) reportedAt(L *prodLog, off int) string {
	if off < 0 || L.meta == nil {
		return "no-line-named"
	}
	i := lineAt(L, off)
	m := L.meta[i]
	if m.event < 0 || m.event >= len(h.labels) {
		return "line-of-unknown-origin"
	}
	e := L.spec.events[m.event]
	k := 1 + bytes.Count(L.data[e.from:off], []byte("\n"))
	// what the rejected line is, by its text (entries of this phase carry plain content only) and its chain marker
	what := "entry"
	switch {
	case bytes.Contains(L.lines[i], []byte(endMsg)):
		what = "end-of-chain-entry"
	case bytes.Contains(L.lines[i], []byte(prepareMsg)):
		what = "preparation-entry"
	}
	if L.views[i].start {
		what += "+opens-its-chain"
	}
	at := fmt.Sprintf("%s:line-%d-of-%d:%s", h.labels[m.event], k, h.lines[m.event], what)
	if e.kind == "entry" || e.kind == "preamble" {
		// an ordinary entry is rejected: name the restart in front of it and what that restart wrote
		for x := m.event - 1; x >= 0; x-- {
			if k := L.spec.events[x].kind; k == "reset" || k == "reboot" || k == "finalize" {
				at += fmt.Sprintf(":after:%s:wrote-%d-lines", h.labels[x], h.lines[x])
				break
			}
		}
	}
	return at
}

type directedHistory struct {
	name       string
	steps      []string // "E" error, "W" warn, "I" info, "D" debug entry; "reset"; "reboot"
	noFinalize bool
}

var directedHistories = []directedHistory{
	{name: "reset-right-after-start", steps: []string{"reset", "W", "I", "E"}},
	{name: "reset-twice-in-a-row", steps: []string{"W", "reset", "reset", "E"}},
	{name: "reset-three-times-in-a-row", steps: []string{"reset", "reset", "reset"}},
	{name: "only-info-debug-between-resets", steps: []string{"E", "reset", "I", "D", "reset", "W"}},
	{name: "finalize-right-after-start", steps: nil},
	{name: "finalize-after-only-info-debug", steps: []string{"I", "D", "I"}},
	{name: "reboot-right-after-start", steps: []string{"reboot", "W"}},
	{name: "reboot-twice-in-a-row", steps: []string{"E", "reboot", "reboot", "W"}},
	{name: "only-info-debug-between-reboots", steps: []string{"W", "reboot", "D", "I", "reboot", "E"}},
	{name: "reset-right-after-reboot", steps: []string{"W", "reboot", "reset", "E"}},
	{name: "killed-after-only-info-debug", steps: []string{"I", "D"}, noFinalize: true},
	{name: "killed-right-after-reset", steps: []string{"W", "reset"}, noFinalize: true},
	{name: "info-debug-around-written-entries", steps: []string{"D", "W", "I", "E", "D"}},
	{name: "all-levels-no-restart", steps: []string{"D", "I", "W", "E", "I"}},
	{name: "mixed-restarts", steps: []string{"I", "reset", "W", "reset", "reset", "E", "D", "reboot", "I", "reset", "W"}},
}

func levelEntry(rng *gen.Rand, level int, t time.Time, errOK bool) entrySpec {
	c := content{"plain", "msg"}
	if level == 2 && errOK && rng.Intn(2) == 0 {
		c = content{"error-value", "value"} // log.WithError(err).Errorln(...)
	}
	e := buildEntry(rng, c, t)
	e.level = level
	return e
}

func phaseLevels(r *ev.Run, dir string, broken map[string]bool) {
	levels := []int{logging.LogDiscard, logging.LogVerbose, logging.LogDebug}
	wirings := []string{wHandler, wServer}
	var jobs []fullJob
	add := func(spec *logSpec, name string) {
		spec.observe = true
		data, meta, err := produce(spec, dir)
		if err != nil {
			r.Inconclusive(fmt.Sprintf("producing the log failed: %s: %v", spec.id, err))
			return
		}
		L := newProdLog(spec, data, meta)
		L.sampleBytes = true
		L.hist = describeHistory(spec, data, name)
		// quick tier: the edits of every log written at LogDiscard, and of every second log of the other levels
		skip := !r.Thorough() && spec.level != logging.LogDiscard && len(jobs)%2 == 1
		jobs = append(jobs, fullJob{L: L, hist: L.hist, editsSkipped: skip})
	}
	for _, format := range formats {
		errOK := !broken[format+"|error-value@value"]
		for _, level := range levels {
			for wi, wiring := range wirings {
				for di, d := range directedHistories {
					rng := gen.New(r.Seed, fmt.Sprintf("levels|%s|%d|%s|%s", format, level, wiring, d.name))
					t := baseTime(rng)
					spec := &logSpec{id: fmt.Sprintf("lv-%s-%s-%s-%s", format, levelName(level), wiring, d.name), t0: t, format: format, wiring: wiring,
						key: gen.Bytes(rng, 32), level: level, finalize: !d.noFinalize, preamble: (di + wi) % 3}
					for _, s := range d.steps {
						switch s {
						case "reset", "reboot":
							st := step{kind: s}
							if rng.Intn(2) == 0 { // else: 1 ms after the previous entry (two signals in a row)
								t = t.Add(time.Duration(1+rng.Intn(90000)) * time.Millisecond)
								st.t = t
							}
							spec.steps = append(spec.steps, st)
						default:
							t = t.Add(time.Duration(1+rng.Intn(90000)) * time.Millisecond)
							spec.steps = append(spec.steps, step{kind: "entry", entry: levelEntry(rng, map[string]int{"E": 2, "W": 3, "I": 4, "D": 5}[s], t, errOK)})
						}
					}
					add(spec, d.name)
				}
			}
		}
		// seeded histories: dense restarts, entries at all levels
		for i := 0; i < r.Pick(18, 300); i++ {
			rng := gen.New(r.Seed, fmt.Sprintf("levels-seeded|%s|%d", format, i))
			t := baseTime(rng)
			level := levels[i%3]
			spec := &logSpec{id: fmt.Sprintf("lv-%s-seeded-%d", format, i), t0: t, format: format, wiring: wirings[rng.Intn(2)], key: gen.Bytes(rng, 32),
				level: level, finalize: rng.Intn(100) < 85, preamble: rng.Intn(3)}
			for n := 3 + rng.Intn(10); n > 0; n-- {
				switch x := rng.Intn(100); {
				case x < 55:
					t = t.Add(time.Duration(1+rng.Intn(90000)) * time.Millisecond)
					spec.steps = append(spec.steps, step{kind: "entry", entry: levelEntry(rng, 2+rng.Intn(4), t, errOK)})
				default:
					st := step{kind: "reset"}
					if x >= 83 {
						st.kind = "reboot"
					}
					if rng.Intn(2) == 0 {
						t = t.Add(time.Duration(1+rng.Intn(90000)) * time.Millisecond)
						st.t = t
					}
					spec.steps = append(spec.steps, st)
				}
			}
			add(spec, "seeded")
		}
	}
	// O1 first, one log after the other in the order of production: if honest logs of some (format, level, history) do not
	// verify, that is the first thing reported, before anything the edits of other logs show
	v := newVerifier(scratchDir("c20-lv"))
	for i := range jobs {
		jobs[i].intact = 2
		if checkIntact(r, v, jobs[i]) {
			jobs[i].intact = 1
		}
	}
	runJobs(r, jobs, 0, true)

	for _, f := range formats {
		for _, l := range levels {
			r.RequireAtLeast(fmt.Sprintf("levels_intact_ok:%s:level=%s", f, levelName(l)), 20)
			r.RequireAtLeast(fmt.Sprintf("levels_logs_with_restart_at_empty_chain:%s:level=%s", f, levelName(l)), 10)
		}
		r.RequireAtLeast("levels_o2_detected:"+f, int64(r.Pick(1000, 10000)))
		r.RequireAtLeast("levels_chain_of_service_entries_only:"+f, 10)
	}
	r.RequireAtLeast("levels_entries_suppressed:level=discard", 50)
	r.RequireAtLeast("levels_entries_suppressed:level=verbose", 20)
	r.RequireAtLeast("levels_logs_without_protected_entry", 3)
	r.RequireSetAtLeast("levels_restarts_at_empty_chain_seen", 8)
	levelSamples.Lock()
	r.Extra("levels_samples", levelSamples.list)
	levelSamples.Unlock()
}

// levelsIntactOK records what an intact, verified log of phase (e) covered.
func levelsIntactOK(r *ev.Run, j fullJob) {
	L, h := j.L, j.hist
	format, lv := L.spec.format, levelName(L.spec.level)
	r.Count(fmt.Sprintf("levels_intact_ok:%s:level=%s", format, lv), 1)
	if len(h.flags) > 0 {
		r.Count(fmt.Sprintf("levels_logs_with_restart_at_empty_chain:%s:level=%s", format, lv), 1)
	}
	for _, f := range h.flags {
		r.SetAdd("levels_restarts_at_empty_chain_seen", f)
		r.Distinct(fmt.Sprintf("intact-levels|%s|%s|%s|%s", format, L.spec.wiring, lv, f))
	}
	r.Count("levels_entries_suppressed:level="+lv, int64(h.suppressed))
	r.Count("levels_entries_written:level="+lv, int64(h.written))
	for x, e := range L.spec.events {
		if e.kind == "entry" {
			st := "written"
			if h.lines[x] == 0 {
				st = "suppressed"
			}
			r.Count(fmt.Sprintf("levels_entries:%s:level=%s:%s", logrusLevelName[L.spec.steps[e.step].entry.level], lv, st), 1)
		}
	}
	// chains that consist of the handler's service entries only (the chain was restarted while empty)
	chain, _ := L.chainIndex()
	onlyService := map[int]bool{}
	for _, i := range L.prot {
		if _, ok := onlyService[chain[i]]; !ok {
			onlyService[chain[i]] = true
		}
		if L.meta != nil && L.meta[i].origin != "service" {
			onlyService[chain[i]] = false
		}
	}
	for _, only := range onlyService {
		if only {
			r.Count("levels_chain_of_service_entries_only:"+format, 1)
		}
	}
	// written-out cases: the shared sample list is full by the time this phase runs, so they go into coverage.levels_samples
	levelSamples.Lock()
	tag := format + "|" + lv
	if levelSamples.n[tag] < 1 || (len(h.flags) > 0 && levelSamples.n[tag] < 2) {
		levelSamples.n[tag]++
		levelSamples.list = append(levelSamples.list, map[string]interface{}{"oracle": "intact log verifies (1-3 files and channel)", "format": format, "wiring": L.spec.wiring, "level": lv,
			"history": h.name, "steps_as_observed": h.labels, "lines_written_per_step": h.lines, "restarts_at_empty_chain": h.flagString(), "log": clip(L.data, 1500)})
	}
	levelSamples.Unlock()
}

var levelSamples = struct {
	sync.Mutex
	n    map[string]int
	list []interface{}
}{n: map[string]int{}}
