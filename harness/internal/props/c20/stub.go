// Package c20 will hold the monitor of property C20 (not built yet; nothing is registered).
package c20
