package c20

import (
	"bytes"
	"fmt"
	"os"
	"path/filepath"
	"runtime/debug"

	"github.com/cossacklabs/acra/logging"
)

// verdict of one run of Acra's verifier over a log.
type verdict struct {
	err     error
	offset  int // byte offset (in the whole log) of the start of the physical line the error was reported at; -1 if no entry was named
	file    int
	line    int
	panic   string
	readErr bool
}

func (v verdict) String() string {
	if v.panic != "" {
		return "PANIC " + v.panic
	}
	if v.err == nil {
		return "nil"
	}
	return fmt.Sprintf("error %q at file %d line %d (offset %d)", v.err.Error(), v.file, v.line, v.offset)
}

// verifier drives logging.ReadLogEntries + IntegrityCheckVerifier.VerifyIntegrityCheck over files in its own directory,
// the way acra-log-verifier is driven (a list of files read sequentially, one chain state across them).
type verifier struct {
	dir   string
	paths []string
	sizes []int
	files []*os.File // kept open: rewriting in place is ~30x cheaper on this file system than create+truncate
}

func newVerifier(dir string) *verifier {
	v := &verifier{dir: dir}
	for i := 0; i < 3; i++ {
		p := filepath.Join(dir, fmt.Sprintf("part%d.log", i))
		f, err := os.OpenFile(p, os.O_RDWR|os.O_CREATE|os.O_TRUNC, 0o600)
		if err != nil {
			panic(err)
		}
		v.paths = append(v.paths, p)
		v.files = append(v.files, f)
		v.sizes = append(v.sizes, 0)
	}
	return v
}

func (v *verifier) put(i int, b []byte) {
	if _, err := v.files[i].WriteAt(b, 0); err != nil {
		panic(err)
	}
	if len(b) < v.sizes[i] { // writing at offset 0 extends the file by itself; only shrinking needs a call
		if err := v.files[i].Truncate(int64(len(b))); err != nil {
			panic(err)
		}
	}
	v.sizes[i] = len(b)
}

// physical line starts as bufio.ScanLines sees them
func lineStarts(b []byte) []int {
	s := []int{0}
	for i, c := range b {
		if c == '\n' && i+1 < len(b) {
			s = append(s, i+1)
		}
	}
	return s
}

// run verifies data (the whole log) split into nfiles files at line boundaries.
func (v *verifier) run(format string, key []byte, data []byte, nfiles int) (res verdict) {
	res.offset = -1
	defer func() {
		if p := recover(); p != nil {
			res.panic = fmt.Sprintf("%v\n%s", p, debug.Stack())
		}
	}()
	starts := lineStarts(data)
	if nfiles > len(starts) {
		nfiles = len(starts)
	}
	if nfiles < 1 {
		nfiles = 1
	}
	var fileStart []int
	var paths []string
	for f := 0; f < nfiles; f++ {
		from := starts[f*len(starts)/nfiles]
		to := len(data)
		if f+1 < nfiles {
			to = starts[(f+1)*len(starts)/nfiles]
		}
		v.put(f, data[from:to])
		fileStart = append(fileStart, from)
		paths = append(paths, v.paths[f])
	}
	parser, err := logging.NewLogParser(format)
	if err != nil {
		panic(err)
	}
	ver, err := logging.NewIntegrityCheckVerifier(append([]byte{}, key...), parser)
	if err != nil {
		panic(err)
	}
	src := logging.ReadLogEntries(paths, false, false)
	defer func() {
		for range src.Entries { // let the reader goroutine finish and close its file
		}
	}()
	entry, verr := ver.VerifyIntegrityCheck(src)
	res.err = verr
	if verr != nil && entry != nil {
		res.line = entry.LineNumber
		for f, p := range paths {
			if entry.FileInfo != nil && filepath.Base(p) == entry.FileInfo.Name() {
				res.file = f
			}
		}
		to := len(data)
		if res.file+1 < nfiles {
			to = fileStart[res.file+1]
		}
		ls := lineStarts(data[fileStart[res.file]:to])
		if res.line < len(ls) {
			res.offset = fileStart[res.file] + ls[res.line]
		} else {
			res.offset = to
		}
	} else if verr != nil {
		res.readErr = true
	}
	return res
}

// runDirect feeds the lines through a channel, as Acra's unit tests do (no file layer).
func runDirect(format string, key []byte, data []byte) (res verdict) {
	res.offset = -1
	defer func() {
		if p := recover(); p != nil {
			res.panic = fmt.Sprintf("%v\n%s", p, debug.Stack())
		}
	}()
	parser, _ := logging.NewLogParser(format)
	ver, _ := logging.NewIntegrityCheckVerifier(append([]byte{}, key...), parser)
	lines := bytes.Split(bytes.TrimSuffix(data, []byte("\n")), []byte("\n"))
	ch := make(chan *logging.LogEntryInfo, len(lines)+1)
	off := 0
	offs := make([]int, len(lines))
	for i, l := range lines {
		offs[i] = off
		off += len(l) + 1
		ch <- &logging.LogEntryInfo{RawLogEntry: string(l), LineNumber: i}
	}
	close(ch)
	entry, err := ver.VerifyIntegrityCheck(&logging.LogEntrySource{Entries: ch})
	res.err = err
	if err != nil && entry != nil {
		res.line = entry.LineNumber
		res.offset = offs[entry.LineNumber]
	}
	return res
}
