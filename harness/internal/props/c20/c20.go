// Package c20 monitors "the audit-log chain verifies when intact and fails when altered".
//
// Logs are produced by logrus' standard logger wired exactly as cmd/acra-server wires it (and, second wiring, as
// Acra's own logging tests wire it), from generated entry sequences with hostile content; Acra's verifier
// (logging.ReadLogEntries + IntegrityCheckVerifier.VerifyIntegrityCheck with the real parsers) is then run over
// the produced file and over every enumerated edit of it. The oracle only looks at (error, line) results.
package c20

import (
	"crypto/sha256"
	"fmt"
	"os"
	"sort"
	"strings"
	"sync"
	"time"

	"github.com/cossacklabs/acra/logging"
	"github.com/sirupsen/logrus"

	"verif/harness/internal/ev"
	"verif/harness/internal/gen"
	"verif/harness/internal/props"
)

func init() { props.Register("C20", props.Monitor{Level: "fault_enumeration", Run: Run}) }

var formats = []string{logging.PlaintextFormatString, logging.JSONFormatString, logging.CefFormatString}

const workers = 8

func Run(r *ev.Run) {
	r.Rule = "one evaluation = one run of Acra's verifier (ReadLogEntries over 1-3 files + VerifyIntegrityCheck) over a produced log or one edit of it. " +
		"Logs: (a) one small log per (format, content class, position msg|key|value) of the hostile alphabet, intact-only; (b) seeded logs of 3-40 entries, " +
		"0-3 chain restarts (ResetChain / process restart appending to the same file), two wirings, entries drawn from the content classes whose intact log verifies; " +
		"(c) logs with an entry longer than 64 KiB; (d) logs written by concurrent goroutines (intact + wrong key only); " +
		"(e) log level x empty-chain histories: 15 directed histories (ResetChain / FinalizeChain / process restart right after start, twice and three times in a row, with only info/debug entries in between, killed processes) " +
		"and seeded ones (3-12 steps, 45 % restarts), entries at error/warn/info/debug, x 3 formats x logging.SetLogLevel(LogDiscard|LogVerbose|LogDebug) x 2 wirings; which step wrote which lines is observed (file size after every call), " +
		"same oracles and edits as (b) with byte changes at sampled offsets (quick tier: edits for every LogDiscard log and every second other log); " +
		"(f) small logs (3-5 entries of any content class, both wirings, ResetChain / process restart / killed process) on EVERY entry of which the complete catalogue of additions is run: data added behind the last byte, in front of the first byte, " +
		"around the entry, or as a member / extension key in the last or first position inside it, no byte of the entry itself changed: every single byte value but LF, every pair of the format's structural characters, white space (ASCII, Unicode, CR, byte order mark), " +
		"forged second entries / JSON objects / arrays / scalars glued or after blank, comma, CR, copies of this and another entry, closing brace or bracket followed by an opening one, duplicated and new members (3 sampled additions per entry of the logs of (b) and (e)). Edits per log (b): every byte of every protected line " +
		"(logs <= 2 KiB; sampled otherwise) x 1-2 replacement bytes, delete / swap (adjacent, distant, same index across chains) / duplicate (adjacent, elsewhere, to the end) of each entry, " +
		"truncation of an entry and of the file at 8-10 offsets per entry, 8 tag replacements, strip/forge of chain markers, appended bytes, JSON member rewrites " +
		"(order, white space, value exchange, two members folded into one name, string <-> number/boolean/null of the same spelling, a member moved into / cut out of the neighbouring string value at the separator word). " +
		"distinct = (format, wiring, edit kind, region of the line, chain position of the entry, content class) of edits that were judged and detected in time, " +
		"plus (format, content) of intact logs that verified, plus (format, wiring, level, kind of restart at an empty chain) of intact logs of (e) that verified; classes of edits of (e) logs also carry the level. Edits the property does not require to be detected are run and counted under not_judged:*."
	r.Assumptions = []string{
		"the property is decided for logging.* as driven by ReadLogEntries/VerifyIntegrityCheck; the acra-log-verifier command itself is not part of this tree",
		"entry time stamps come from a seeded logical clock installed as a logrus hook (also for the service entries AuditLogHandler writes), so produced logs are a function of the seed",
		"an honest log is one whose chains are finalised before a new process appends to the file (a killed process followed by a restart fails verification by design: not generated)",
		"I/O failures while writing the log are out of scope",
		"the log level is set with logging.SetLogLevel before a history is run and not changed by the history itself (the services set it once at start-up); a history that leaves no protected entry in the log is counted, not judged",
	}
	if logging.EndOfAuditLogChainMessage != endMsg {
		r.Inconclusive("end-of-chain message text differs from the one the generators use: " + logging.EndOfAuditLogChainMessage)
	}
	if logging.JSONKeyValueDelimiter != sepWord {
		r.Inconclusive("separator word of the JSON authenticated bytes differs from the one the re-cut edits use: " + logging.JSONKeyValueDelimiter)
	}
	// the verifier warns through the standard logger; keep that cheap (the produced logs never see it:
	// produce() restores the logger before any verification starts)
	if os.Getenv("VERIF_LOGS") == "" {
		logrus.SetLevel(logrus.ErrorLevel)
	}
	dir := scratchDir("c20")

	// wall-clock per phase: information for the notes only, nothing is decided by it
	phaseWall := map[string]float64{}
	timed := func(name string, f func()) {
		t0 := time.Now()
		f()
		phaseWall[name] = float64(int(time.Since(t0).Seconds()*10)) / 10
	}
	var broken map[string]bool
	timed("a-alphabet", func() { broken = phaseAlphabet(r, dir) })
	timed("b-full", func() { phaseFull(r, dir, broken) })
	timed("c-long", func() { phaseLong(r, dir) })
	timed("d-concurrent", func() { phaseConcurrent(r, dir) })
	timed("e-levels", func() { phaseLevels(r, dir, broken) })
	timed("f-around", func() { phaseAround(r, dir, broken) })
	r.Extra("phase_wall_s", phaseWall)

	for _, f := range formats {
		r.RequireAtLeast("o1_intact_ok:"+f, int64(r.Pick(20, 200)))
		r.RequireAtLeast("o2_detected:"+f, int64(r.Pick(2000, 20000)))
		r.RequireAtLeast("o3_wrong_key_rejected:"+f, int64(r.Pick(50, 500)))
		r.RequireAtLeast("logs_with_real_restart:"+f, 3)
	}
	for _, k := range []string{"byte-change", "delete", "swap-adjacent", "swap-same-index-across-chains", "duplicate-adjacent", "truncate-entry", "truncate-log", "replace-tag-random", "strip-chain-new", "forge-chain-new", "strip-chain-end"} {
		r.RequireAtLeast("o2_detected_kind:"+k, 10)
	}
	// type / structure changing JSON edits (same spelling): every direction must have been tried and detected
	for _, k := range []string{"json-retype-string-to-number", "json-retype-string-to-boolean", "json-retype-string-to-null", "json-retype-number-to-string",
		"json-retype-boolean-to-string", "json-retype-null-to-string", "json-recut-member-moved-into-previous-value", "json-recut-value-cut-into-two-members"} {
		r.RequireAtLeast("o2_detected_kind:"+k, 3)
	}
	aroundGuards(r)
}

// ---------------------------------------------------------------------------------------------------------------
// (a) the alphabet: which content keeps an intact log verifiable

func phaseAlphabet(r *ev.Run, dir string) map[string]bool {
	broken := map[string]bool{}
	v := newVerifier(scratchDir("c20-alpha"))
	reps := r.Pick(2, 6)
	plain := content{"plain", "msg"}
	for _, format := range formats {
		for _, c := range allContents() {
			// layout 0: the entry under test is never the first of its chain; layout 1: it is
			for layout := 0; layout < 2 && !broken[format+"|"+c.String()]; layout++ {
				for rep := 0; rep < reps*variants(c); rep++ {
					rng := gen.New(r.Seed, fmt.Sprintf("alpha|%s|%s|%d|%d", format, c, layout, rep))
					t := baseTime(rng)
					spec := &logSpec{id: "alpha", t0: t, format: format, wiring: []string{wHandler, wServer}[(rep/variants(c))%2], key: gen.Bytes(rng, 32), finalize: true}
					seq := []content{plain, c, plain, c}
					if layout == 1 {
						seq = []content{c, plain, c, plain}
					}
					for _, cc := range seq {
						t = t.Add(time.Duration(1+rng.Intn(5000)) * time.Millisecond)
						spec.steps = append(spec.steps, step{kind: "entry", entry: buildEntryN(rng, cc, t, rep)})
					}
					data, _, err := produce(spec, dir)
					if err != nil {
						r.Inconclusive(fmt.Sprintf("producing the log failed: format=%s content=%s: %v", format, c, err))
						continue
					}
					res := v.run(format, spec.key, data, 1)
					r.Case()
					res2 := runDirect(format, spec.key, data)
					r.Case()
					if res.err == nil && res.panic == "" && res2.err == nil && res2.panic == "" {
						r.Count("o1_intact_ok:"+format, 1)
						r.Count("o1_alphabet_ok", 1)
						r.Distinct(fmt.Sprintf("intact|%s|%s|%d", format, c, layout))
						if c.class != "plain" {
							r.SampleN("alphabet-"+format, 2, map[string]interface{}{"oracle": "intact log verifies", "format": format, "content": c.String(), "entry": spec.steps[1-layout].entry.describe(), "log": clip(data, 700)})
						}
						continue
					}
					broken[format+"|"+c.String()] = true
					r.SetAdd("contents_breaking_an_intact_log", format+"|"+c.String())
					where := ""
					if layout == 1 {
						where = " only-as-first-entry-of-a-chain"
					}
					r.Violation(fmt.Sprintf("intact-log-rejected: format=%s content=%s%s", format, c, where),
						map[string]interface{}{"what": "a log written with integrity protection does not verify with the same key", "format": format, "wiring": spec.wiring, "content": c.String(),
							"verifier_over_file": res.String(), "verifier_over_channel": res2.String(), "entries": describeSteps(spec), "key": ev.FullHex(spec.key), "log": string(data), "log_hex": ev.FullHex(data), "seed": r.Seed})
					break
				}
			}
		}
	}
	return broken
}

func baseTime(rng *gen.Rand) time.Time {
	loc := time.UTC
	if rng.Intn(4) == 0 {
		loc = time.FixedZone("", []int{5*3600 + 1800, -8 * 3600, 3600}[rng.Intn(3)])
	}
	return time.Unix(1709251200+int64(rng.Intn(30000000)), int64(rng.Intn(1000))*1000000).In(loc)
}

func describeSteps(spec *logSpec) []interface{} {
	var out []interface{}
	for _, s := range spec.steps {
		if s.kind == "entry" {
			out = append(out, s.entry.describe())
		} else {
			out = append(out, s.kind)
		}
	}
	return out
}

func clip(b []byte, n int) string {
	if len(b) > n {
		return fmt.Sprintf("%s...(%d bytes)", b[:n], len(b))
	}
	return string(b)
}

// ---------------------------------------------------------------------------------------------------------------
// (b) full logs and their edits

func genSpec(rng *gen.Rand, id, format string, usable []content) *logSpec {
	spec := &logSpec{id: id, format: format, wiring: []string{wHandler, wServer}[rng.Intn(2)], finalize: rng.Intn(100) < 85}
	switch rng.Intn(8) {
	case 0:
		spec.key = gen.Bytes(rng, 1+rng.Intn(16))
	case 1:
		spec.key = gen.Bytes(rng, 64)
	default:
		spec.key = gen.Bytes(rng, 32)
	}
	var n int
	switch x := rng.Intn(100); {
	case x < 50:
		n = 3 + rng.Intn(6)
	case x < 85:
		n = 9 + rng.Intn(12)
	default:
		n = 21 + rng.Intn(20)
	}
	if spec.wiring == wServer {
		spec.preamble = rng.Intn(3)
	} else {
		spec.preamble = rng.Intn(2)
	}
	restarts := rng.Intn(4)
	at := map[int]string{}
	for i := 0; i < restarts; i++ {
		at[rng.Intn(n+1)] = []string{"reset", "reset", "reboot"}[rng.Intn(3)]
	}
	t := baseTime(rng)
	spec.t0 = t
	for i := 0; i <= n; i++ {
		if k, ok := at[i]; ok {
			spec.steps = append(spec.steps, step{kind: k})
		}
		if i == n {
			break
		}
		c := usable[rng.Intn(len(usable))]
		if rng.Intn(3) == 0 {
			c = content{"plain", "msg"}
		}
		if rng.Intn(4) != 0 {
			t = t.Add(time.Duration(rng.Intn(90000)) * time.Millisecond)
		}
		spec.steps = append(spec.steps, step{kind: "entry", entry: buildEntry(rng, c, t)})
	}
	return spec
}

type fullJob struct {
	L    *prodLog
	tag  string    // extra attribute of the log that goes into signatures ("" normally)
	hist *histInfo // phase (e): the observed history (log level, restarts at empty chains); nil elsewhere
	// intact: 0 = O1 not examined yet; 1 / 2 = already examined (verified / rejected and reported)
	intact int
	// editsSkipped (phase (e), quick tier): O1 and O3 only for this log
	editsSkipped bool
}

func phaseFull(r *ev.Run, dir string, broken map[string]bool) {
	perFormat := r.Pick(50, 1667)
	var jobs []fullJob
	for _, format := range formats {
		var usable []content
		for _, c := range allContents() {
			if !broken[format+"|"+c.String()] {
				usable = append(usable, c)
			}
		}
		r.Extra("usable_contents:"+format, len(usable))
		for i := 0; i < perFormat; i++ {
			rng := gen.New(r.Seed, fmt.Sprintf("full|%s|%d", format, i))
			spec := genSpec(rng, fmt.Sprintf("%s-%d", format, i), format, usable)
			data, meta, err := produce(spec, dir)
			if err != nil {
				r.Inconclusive(fmt.Sprintf("producing the log failed: %s: %v", spec.id, err))
				continue
			}
			jobs = append(jobs, fullJob{L: newProdLog(spec, data, meta)})
		}
	}
	// directed: the last protected entry of an unfinalised plaintext/cef log carries a near miss of the tag announcement
	for _, format := range formats {
		c := content{"near-integrity", "msg"}
		if broken[format+"|"+c.String()] {
			continue
		}
		for i := 0; i < 2; i++ {
			rng := gen.New(r.Seed, fmt.Sprintf("directed-near|%s|%d", format, i))
			t := baseTime(rng)
			spec := &logSpec{id: fmt.Sprintf("near-%s-%d", format, i), t0: t, format: format, wiring: wHandler, key: gen.Bytes(rng, 32)}
			spec.steps = append(spec.steps, step{kind: "entry", entry: buildEntry(rng, content{"plain", "msg"}, t)})
			e := buildEntryN(rng, c, t.Add(time.Second), 0)
			e.fields = nil
			e.msg = "handler integrity<x 42" // one bit away from the text that announces the tag
			spec.steps = append(spec.steps, step{kind: "entry", entry: e})
			data, meta, err := produce(spec, dir)
			if err != nil {
				r.Inconclusive(fmt.Sprintf("producing the log failed: %s: %v", spec.id, err))
				continue
			}
			jobs = append(jobs, fullJob{L: newProdLog(spec, data, meta)})
		}
	}
	// directed: JSON logs whose field values are strings that spell a number / boolean / null, and numbers / booleans / null,
	// so that every direction of the type-changing edits, and both re-cut edits, are exercised whatever the seeded logs drew
	if !broken["json|literal-spelling@value"] && !broken["json|delimiter-recut@value"] {
		next := 0 // the typed values are dealt in turn, so that every direction occurs whatever the seed
		for i := 0; i < r.Pick(8, 24); i++ {
			rng := gen.New(r.Seed, fmt.Sprintf("directed-typed|%d", i))
			t := baseTime(rng)
			spec := &logSpec{id: fmt.Sprintf("typed-json-%d", i), t0: t, format: logging.JSONFormatString, wiring: []string{wHandler, wServer}[i%2], key: gen.Bytes(rng, 32), finalize: i%4 != 3}
			n := 5 + rng.Intn(4)
			for k := 0; k < n; k++ {
				t = t.Add(time.Duration(1+rng.Intn(5000)) * time.Millisecond)
				c := content{"literal-spelling", "value"}
				if k%2 == 1 {
					c = content{"delimiter-recut", "value"}
				}
				e := buildEntry(rng, c, t)
				if c.class == "literal-spelling" {
					e.fields = append(e.fields, typedFields(rng, &next)...)
				} else {
					// the name spelled inside the value sorts right behind the name of the field that carries it
					for x := range e.fields {
						switch e.fields[x].key {
						case "data":
							e.fields[x].val = plainText(rng, 1) + sepWord + sepWord + "delta" + sepWord + plainText(rng, 1+rng.Intn(2))
						case "zdata":
							e.fields[x].val = plainText(rng, 1) + sepWord + sepWord + "zz" + sepWord + plainText(rng, 1+rng.Intn(2))
						}
					}
				}
				spec.steps = append(spec.steps, step{kind: "entry", entry: e})
				if k == 2 && i%3 == 1 {
					spec.steps = append(spec.steps, step{kind: "reset"})
				}
			}
			data, meta, err := produce(spec, dir)
			if err != nil {
				r.Inconclusive(fmt.Sprintf("producing the log failed: %s: %v", spec.id, err))
				continue
			}
			jobs = append(jobs, fullJob{L: newProdLog(spec, data, meta)})
		}
	}
	runJobs(r, jobs, r.Pick(400, 120), true)
}

// typedFields: 2-4 fields whose values are strings spelling a JSON literal, or the literals themselves (dealt in turn).
func typedFields(rng *gen.Rand, next *int) []field {
	keys := []string{"attempts", "granted", "ok", "ratio", "retries", "none", "count", "offset"}
	vals := []interface{}{"3", "true", 3, "null", true, "-7", nil, "false", 1.5, "1.5", false, "0", nil, -7, "null", "1e3", int64(1234567890123456789), "false", uint64(18446744073709551615)}
	var out []field
	for _, p := range rng.Perm(len(keys))[:2+rng.Intn(3)] {
		out = append(out, field{keys[p], vals[*next%len(vals)]})
		*next++
	}
	return out
}

func runJobs(r *ev.Run, jobs []fullJob, byteBudget int, allEdits bool) {
	ch := make(chan fullJob, 16)
	var wg sync.WaitGroup
	for w := 0; w < workers; w++ {
		wg.Add(1)
		go func() {
			defer wg.Done()
			v := newVerifier(scratchDir("c20-w"))
			for j := range ch {
				checkLog(r, v, j, byteBudget, allEdits)
			}
		}()
	}
	for _, j := range jobs {
		ch <- j
	}
	close(ch)
	wg.Wait()
}

func logDetail(r *ev.Run, L *prodLog) map[string]interface{} {
	d := map[string]interface{}{"format": L.spec.format, "wiring": L.spec.wiring, "log_id": L.spec.id, "key": ev.FullHex(L.spec.key), "seed": r.Seed,
		"steps": describeSteps(L.spec), "log": clip(L.data, 20000), "log_hex": hexClip(L.data), "log_level": levelName(L.spec.level)}
	if L.hist != nil {
		d["history"] = L.hist.name
		d["history_steps_as_observed"] = L.hist.labels
		d["lines_written_per_step"] = L.hist.lines
		d["restarts_at_empty_chain"] = L.hist.flagString()
	}
	return d
}

func hexClip(b []byte) string {
	if len(b) > 40000 {
		return ev.FullHex(b[:40000]) + "..."
	}
	return ev.FullHex(b)
}

func restartKinds(spec *logSpec) string {
	m := map[string]bool{}
	for _, s := range spec.steps {
		if s.kind != "entry" {
			m[s.kind] = true
		}
	}
	var ks []string
	for k := range m {
		ks = append(ks, k)
	}
	sort.Strings(ks)
	if len(ks) == 0 {
		return "none"
	}
	return strings.Join(ks, "+")
}

// checkIntact is O1: "Log output written with integrity protection always verifies with the same key"
func checkIntact(r *ev.Run, v *verifier, j fullJob) bool {
	L := j.L
	format := L.spec.format
	attr := ""
	if j.tag != "" {
		attr = " log=" + j.tag
	}
	okIntact := true
	for nf := 1; nf <= 3; nf++ {
		res := v.run(format, L.spec.key, L.data, nf)
		r.Case()
		if res.err != nil || res.panic != "" {
			if j.tag != "" && nf > 1 {
				// reported, but the edits of this log are still examined (over one file)
				d := logDetail(r, L)
				d["verifier"] = res.String()
				d["files"] = nf
				r.Violation(fmt.Sprintf("intact-log-rejected: format=%s wiring=%s files=%d%s", format, L.spec.wiring, nf, attr), d)
				continue
			}
			okIntact = false
			at := "?"
			if L.meta != nil && res.offset >= 0 {
				at = L.content(lineAt(L, res.offset))
			}
			d := logDetail(r, L)
			d["verifier"] = res.String()
			d["files"] = nf
			if j.hist != nil {
				// the cause is named by configuration and history: format, wiring, log level, which step wrote the line the
				// verifier rejects (and how many lines that step wrote), which restarts met an empty chain
				r.Violation(fmt.Sprintf("intact-log-rejected: format=%s wiring=%s level=%s reported-at=%s history=%s", format, L.spec.wiring, levelName(L.spec.level),
					j.hist.reportedAt(L, res.offset), j.hist.flagString()), d)
				break
			}
			r.Violation(fmt.Sprintf("intact-log-rejected: format=%s wiring=%s restarts=%s reported-at-content=%s%s", format, L.spec.wiring, restartKinds(L.spec), at, attr), d)
			break
		}
	}
	if okIntact {
		res := runDirect(format, L.spec.key, L.data)
		r.Case()
		if res.err != nil || res.panic != "" {
			okIntact = false
			d := logDetail(r, L)
			d["verifier"] = res.String()
			if j.hist != nil {
				r.Violation(fmt.Sprintf("intact-log-rejected: format=%s wiring=%s level=%s reported-at=%s history=%s (lines fed through a channel)", format, L.spec.wiring, levelName(L.spec.level),
					j.hist.reportedAt(L, res.offset), j.hist.flagString()), d)
			} else {
				r.Violation(fmt.Sprintf("intact-log-rejected: format=%s wiring=%s restarts=%s (lines fed through a channel)%s", format, L.spec.wiring, restartKinds(L.spec), attr), d)
			}
		}
	}
	return okIntact
}

func checkLog(r *ev.Run, v *verifier, j fullJob, byteBudget int, allEdits bool) {
	L := j.L
	format := L.spec.format
	rng := gen.New(r.Seed, "edits|"+L.spec.id)
	attr := ""
	if j.tag != "" {
		attr = " log=" + j.tag
	}
	if j.intact == 0 {
		j.intact = 2
		if checkIntact(r, v, j) {
			j.intact = 1
		}
	}
	if j.intact != 1 {
		return
	}
	if len(L.prot) == 0 {
		// nothing was written with integrity protection (e.g. only suppressed entries and no FinalizeChain): the property says
		// nothing about this log. The verifier accepted it; counted, not part of the O1 tally
		r.Count("logs_without_protected_entry", 1)
		if j.hist != nil {
			r.Count("levels_logs_without_protected_entry", 1)
		}
		return
	}
	if j.hist != nil {
		levelsIntactOK(r, j)
	}
	r.Count("o1_intact_ok:"+format, 1)
	r.Count("o1_full_logs_ok", 1)
	starts := 0
	for _, i := range L.prot {
		if L.views[i].start {
			starts++
		}
	}
	r.Count("protected_entries", int64(len(L.prot)))
	r.Count("unprotected_lines", int64(len(L.lines)-len(L.prot)))
	if starts >= 2 {
		r.Count("logs_with_real_restart:"+format, 1)
	}
	r.SetAdd("chains_per_log", fmt.Sprint(starts))
	r.Distinct(fmt.Sprintf("intact-full|%s|%s|chains=%d|final=%v", format, L.spec.wiring, starts, L.spec.finalize))
	if j.hist == nil {
		r.SampleN("full-"+format, 1, map[string]interface{}{"oracle": "intact log verifies (1-3 files and channel)", "format": format, "wiring": L.spec.wiring, "chains": starts, "lines": len(L.lines), "steps": describeSteps(L.spec), "log": clip(L.data, 1500)})
	}

	// O3: "verifying with another key makes verification fail" - at the first protected entry
	first := L.prot[0]
	firstOff, firstEnd := 0, 0
	for i := 0; i <= first; i++ {
		firstOff = firstEnd
		firstEnd += len(L.lines[i]) + 1
	}
	k := L.spec.key
	h := sha256.Sum256(k)
	flip := append([]byte{}, k...)
	flip[rng.Intn(len(flip))] ^= 1 << uint(rng.Intn(8))
	other := gen.Bytes(rng, len(k))
	if string(other) == string(k) { // possible with the 1-byte keys
		other[0] ^= 0x80
	}
	for _, wk := range []struct {
		name string
		key  []byte
	}{{"random", other}, {"one-bit", flip}, {"shorter", k[:len(k)-1]}, {"zero-extended", append(append([]byte{}, k...), 0)}, {"sha256-of-key", h[:]}, {"empty", []byte{}}} {
		res := v.run(format, wk.key, L.data, 1+rng.Intn(2))
		r.Case()
		switch {
		case res.panic != "":
			r.Violation(fmt.Sprintf("verifier-panic: format=%s wrong-key=%s", format, wk.name), map[string]interface{}{"panic": res.panic, "log": logDetail(r, L)})
		case res.err == nil:
			d := logDetail(r, L)
			d["wrong_key"] = ev.FullHex(wk.key)
			r.Violation(fmt.Sprintf("wrong-key-accepted: format=%s key=%s%s", format, wk.name, attr), d)
		case res.offset != firstOff:
			d := logDetail(r, L)
			d["wrong_key"] = ev.FullHex(wk.key)
			d["verifier"] = res.String()
			d["first_protected_entry_offset"] = firstOff
			r.Violation(fmt.Sprintf("wrong-key-not-rejected-at-first-protected-entry: format=%s key=%s%s", format, wk.name, attr), d)
		default:
			r.Count("o3_wrong_key_rejected:"+format, 1)
			r.Distinct("wrong-key|" + format + "|" + wk.name)
		}
	}
	if !allEdits && j.tag == "" {
		return
	}

	// O2: edits
	if j.hist != nil && j.editsSkipped {
		r.Count("levels_logs_checked_intact_and_wrong_key_only", 1)
		return
	}
	// phase (e) logs: a seeded half of the cut points and tag replacements per entry (as the thorough tier does for phase (b))
	L.genEdits(rng, byteBudget, (r.Thorough() && j.tag == "") || j.hist != nil, func(e edit) {
		if j.tag != "" && !(e.line > longLineIndex(L) && (e.kind == "delete" || e.kind == "byte-change" || e.kind == "swap-adjacent" || e.kind == "duplicate-adjacent" || strings.HasPrefix(e.kind, "replace-tag"))) {
			return
		}
		judgeEdit(r, v, L, rng, &e, attr, j.tag != "")
	})
}

func longLineIndex(L *prodLog) int {
	for i, l := range L.lines {
		if len(l) > 65536 {
			return i
		}
	}
	return -1
}

func lineAt(L *prodLog, off int) int {
	o := 0
	for i, l := range L.lines {
		if off < o+len(l)+1 {
			return i
		}
		o += len(l) + 1
	}
	return len(L.lines) - 1
}

func judgeEdit(r *ev.Run, v *verifier, L *prodLog, rng *gen.Rand, e *edit, attr string, oneFile bool) {
	format := L.spec.format
	if e.why == "identity" {
		r.Count("not_judged:identity", 1)
		return
	}
	data := e.bytes()
	if string(data) == string(L.data) {
		r.Count("not_judged:identity", 1)
		return
	}
	nf := []int{1, 1, 1, 2, 3}[rng.Intn(5)]
	if oneFile {
		nf = 1
	}
	res := v.run(format, L.spec.key, data, nf)
	r.Case()
	pos, cont := L.pos(e.line)+e.dest, L.content(e.line)
	if L.hist != nil && cont == "service" && L.views[e.line].start && L.views[e.line].endMarker {
		// a chain whose first entry is the handler's own end-of-chain entry (the handler writes a preparation entry in front
		// of it so that this cannot happen): named, because such an entry is a complete chain by itself
		cont = "service-end-entry-opening-its-chain"
	}
	detail := func() map[string]interface{} {
		d := logDetail(r, L)
		d["edit"] = map[string]interface{}{"kind": e.kind, "region": e.region, "variant": e.note, "original_line_index": e.line, "position": pos, "content": cont,
			"original_line": string(L.lines[e.line]), "bound_line_index_in_edited_log": e.limit, "bound_offset": e.limitOffset()}
		d["edited_log"] = clip(data, 20000)
		d["edited_log_hex"] = hexClip(data)
		d["verifier"] = res.String()
		return d
	}
	if res.panic != "" {
		r.Violation(fmt.Sprintf("verifier-panic: format=%s kind=%s region=%s", format, e.kind, e.region), detail())
		return
	}
	if e.judged && e.lazyEquiv && res.err == nil && L.equivalentLine(e.line, e.lines[e.line]) {
		e.judged, e.why = false, "equivalent encoding of the same entry"
	}
	if !e.judged {
		r.Count("not_judged:"+e.why, 1)
		if res.err != nil {
			r.Count("not_judged_but_rejected:"+e.kind, 1)
		} else {
			r.Count("not_judged_and_accepted:"+e.kind, 1)
		}
		r.SampleN("notjudged-"+e.kind, 1, map[string]interface{}{"oracle": "recorded only: " + e.why, "format": format, "edit": e.kind, "region": e.region, "position": pos, "verifier": res.String()})
		return
	}
	sigTail := fmt.Sprintf("format=%s kind=%s region=%s pos=%s content=%s%s", format, e.kind, e.region, pos, sigContent(e, cont), attr)
	if e.kind == "json-fold-two-members-into-one-name" {
		sigTail = fmt.Sprintf("format=%s kind=%s%s", format, e.kind, attr) // which two members and where does not matter
	}
	if attr != "" {
		sigTail = fmt.Sprintf("format=%s kind=%s%s", format, strings.SplitN(e.kind, "-", 2)[0], attr)
	}
	switch {
	case res.err == nil:
		r.Violation("edit-accepted: "+sigTail, detail())
	case res.readErr:
		r.Inconclusive("verifier returned a read error on an edited log: " + res.err.Error())
	case res.offset >= e.limitOffset():
		r.Violation("edit-rejected-too-late: "+sigTail, detail())
	default:
		r.Count("o2_detected:"+format, 1)
		r.Count("o2_detected_kind:"+e.kind, 1)
		if strings.HasPrefix(e.kind, "add-") {
			r.Count("o2_detected_kind:"+e.kind+":"+format, 1)
		}
		lv := ""
		if L.hist != nil {
			r.Count("levels_o2_detected:"+format, 1)
			lv = "|level=" + levelName(L.spec.level)
		}
		// where it was noticed: at the changed line itself or at a later entry
		changedEnd := 0
		for i := 0; i <= e.line && i < len(e.lines); i++ {
			changedEnd += len(e.lines[i]) + 1
		}
		if res.offset < changedEnd {
			r.Count("o2_noticed_at_or_before_changed_line", 1)
		} else {
			r.Count("o2_noticed_at_a_later_entry", 1)
		}
		r.SetAdd("verifier_errors_seen", errClass(res.err))
		cc := cont
		if p := strings.IndexByte(cc, '@'); p >= 0 && !strings.HasPrefix(e.kind, "byte-change") {
			cc = "any"
		}
		r.Distinct(fmt.Sprintf("%s|%s|%s|%s|%s|%s%s", format, L.spec.wiring, e.kind, e.region, pos, cc, lv))
		r.SampleN("edit-"+format+"-"+e.kind, 1, map[string]interface{}{"oracle": "edit rejected no later than the next protected entry", "format": format, "edit": e.kind, "region": e.region, "variant": e.note, "position": pos, "content": cont,
			"original_line": clip(L.lines[e.line], 400), "verifier": res.String(), "bound_offset": e.limitOffset()})
	}
}

// sigContent: the content class enters a signature only where it can matter - byte changes inside content
// (not inside the tag / markers / fixed members), and entries whose content imitates the chain's own service entries.
func sigContent(e *edit, cont string) string {
	if e.kind == "byte-change" {
		switch e.region {
		case "auth", "key:user", "val:user", "val:msg", "punct":
			return cont
		}
		return "any"
	}
	for _, p := range []string{"end-message", "prepare-message", "long-70k", "service-end-entry-opening-its-chain"} {
		if strings.HasPrefix(cont, p) {
			return cont
		}
	}
	return "any"
}

func errClass(err error) string {
	s := err.Error()
	if p := strings.Index(s, ":"); p > 0 {
		s = s[:p]
	}
	if len(s) > 60 {
		s = s[:60]
	}
	return s
}

// ---------------------------------------------------------------------------------------------------------------
// (c) an entry longer than the line buffer of the file reader

func phaseLong(r *ev.Run, dir string) {
	var jobs []fullJob
	for _, format := range formats {
		for rep := 0; rep < r.Pick(1, 3); rep++ {
			rng := gen.New(r.Seed, fmt.Sprintf("long|%s|%d", format, rep))
			t := baseTime(rng)
			spec := &logSpec{id: fmt.Sprintf("long-%s-%d", format, rep), t0: t, format: format, wiring: wHandler, key: gen.Bytes(rng, 32), finalize: true}
			for i := 0; i < 6; i++ {
				t = t.Add(time.Second)
				e := buildEntry(rng, content{"plain", "msg"}, t)
				if i == 1 {
					e.msg = strings.Repeat("0123456789abcdef", 4400) // 70 400 bytes
					e.content = content{"long-70k", "msg"}
				}
				spec.steps = append(spec.steps, step{kind: "entry", entry: e})
			}
			data, meta, err := produce(spec, dir)
			if err != nil {
				r.Inconclusive("producing the long log failed: " + err.Error())
				continue
			}
			jobs = append(jobs, fullJob{L: newProdLog(spec, data, meta), tag: "entry-over-64KiB-precedes"})
		}
	}
	runJobs(r, jobs, 60, true)
}

// ---------------------------------------------------------------------------------------------------------------
// (d) concurrent writers

func phaseConcurrent(r *ev.Run, dir string) {
	var jobs []fullJob
	for _, format := range formats {
		for rep := 0; rep < r.Pick(2, 20); rep++ {
			rng := gen.New(r.Seed, fmt.Sprintf("conc|%s|%d", format, rep))
			t := baseTime(rng)
			spec := &logSpec{id: fmt.Sprintf("conc-%s-%d", format, rep), t0: t, format: format, wiring: wHandler, key: gen.Bytes(rng, 32), finalize: true, concurrent: 4}
			for i := 0; i < 40; i++ {
				spec.steps = append(spec.steps, step{kind: "entry", entry: buildEntry(rng, content{"plain", "msg"}, t)})
				if i%13 == 12 {
					spec.steps = append(spec.steps, step{kind: "reset"})
				}
			}
			data, _, err := produce(spec, dir)
			if err != nil {
				r.Inconclusive("producing the concurrent log failed: " + err.Error())
				continue
			}
			r.Count("concurrent_logs", 1)
			jobs = append(jobs, fullJob{L: newProdLog(spec, data, nil)})
		}
	}
	runJobs(r, jobs, 0, false)
}
