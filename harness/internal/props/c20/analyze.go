package c20

import (
	"bytes"
	"encoding/hex"
	"encoding/json"
	"math/big"
	"regexp"
	"strings"
)

// The monitor's own, purely syntactic view of a produced line (independent of Acra's parsers): where the
// tag and the chain marker are, and which bytes precede them.

var reTextTail = regexp.MustCompile(` integrity=([0-9a-f]{64})( chain=new)?$`)

type span struct{ from, to int } // [from,to)

func (s span) has(i int) bool { return i >= s.from && i < s.to }

type jsonMember struct {
	key      string
	keyTok   span // the quoted key token
	valTok   span
	valIsStr bool
}

type lineView struct {
	raw       []byte
	protected bool
	start     bool // carries the "new chain" marker
	marker    span // the bytes that announce the tag: ` integrity=` / the JSON key token "integrity"
	tag       span // the hex digits of the tag
	chainMark span // ` chain=new` / the JSON member "chain":"new" (key token .. value token)
	members   []jsonMember
	tagBytes  []byte
	endMarker bool // looks like a service end-of-chain entry (message text and chain=end present)
}

func viewLine(format string, raw []byte) lineView {
	v := lineView{raw: raw}
	if format == "json" {
		ms, ok := jsonMembers(raw)
		if !ok {
			return v
		}
		v.members = ms
		var msg, chain string
		for _, m := range ms {
			switch m.key {
			case "integrity":
				if m.valIsStr && m.valTok.to-m.valTok.from == 66 {
					if t, err := hex.DecodeString(string(raw[m.valTok.from+1 : m.valTok.to-1])); err == nil {
						v.protected = true
						v.marker = m.keyTok
						v.tag = span{m.valTok.from + 1, m.valTok.to - 1}
						v.tagBytes = t
					}
				}
			case "chain":
				if m.valIsStr {
					json.Unmarshal(raw[m.valTok.from:m.valTok.to], &chain)
					if chain == "new" {
						v.start = true
						v.chainMark = span{m.keyTok.from, m.valTok.to}
					}
				}
			case "msg":
				if m.valIsStr {
					json.Unmarshal(raw[m.valTok.from:m.valTok.to], &msg)
				}
			}
		}
		if !v.protected {
			v.start = false
		}
		v.endMarker = chain == "end" && msg == endMsg
		return v
	}
	loc := reTextTail.FindSubmatchIndex(raw)
	if loc == nil {
		return v
	}
	v.protected = true
	v.marker = span{loc[0], loc[0] + len(" integrity=")}
	v.tag = span{loc[2], loc[3]}
	v.tagBytes, _ = hex.DecodeString(string(raw[loc[2]:loc[3]]))
	if loc[4] >= 0 {
		v.start = true
		v.chainMark = span{loc[4], loc[5]}
	}
	auth := raw[:loc[0]]
	v.endMarker = bytes.Contains(auth, []byte(endMsg)) && bytes.Contains(auth, []byte("chain=end"))
	return v
}

// jsonMembers returns the byte spans of the top-level members of a JSON object line.
func jsonMembers(raw []byte) ([]jsonMember, bool) {
	dec := json.NewDecoder(bytes.NewReader(raw))
	t, err := dec.Token()
	if err != nil || t != json.Delim('{') {
		return nil, false
	}
	var out []jsonMember
	for dec.More() {
		off0 := int(dec.InputOffset())
		kt, err := dec.Token()
		if err != nil {
			return nil, false
		}
		k, ok := kt.(string)
		if !ok {
			return nil, false
		}
		off1 := int(dec.InputOffset())
		ks := bytes.IndexByte(raw[off0:off1], '"')
		if ks < 0 {
			return nil, false
		}
		var rawVal json.RawMessage
		if err := dec.Decode(&rawVal); err != nil {
			return nil, false
		}
		off2 := int(dec.InputOffset())
		out = append(out, jsonMember{key: k, keyTok: span{off0 + ks, off1}, valTok: span{off2 - len(rawVal), off2}, valIsStr: len(rawVal) > 0 && rawVal[0] == '"'})
	}
	if _, err := dec.Token(); err != nil {
		return nil, false
	}
	if dec.More() {
		return nil, false
	}
	if len(bytes.TrimSpace(raw[dec.InputOffset():])) != 0 {
		return nil, false
	}
	return out, true
}

// region names the part of the line a byte offset falls in (used in signatures and distinct classes).
func (v *lineView) region(format string, off int) string {
	switch {
	case v.tag.has(off):
		return "tag"
	case v.chainMark.to > 0 && v.chainMark.has(off):
		return "chain-marker"
	case v.marker.has(off):
		return "marker"
	}
	if format != "json" {
		if off < v.marker.from {
			return "auth"
		}
		return "tail"
	}
	fixed := map[string]bool{"chain": true, "integrity": true, "level": true, "msg": true, "product": true, "timestamp": true, "unixTime": true, "version": true}
	for _, m := range v.members {
		name := m.key
		if !fixed[name] {
			name = "user"
		}
		if m.keyTok.has(off) {
			return "key:" + name
		}
		if m.valTok.has(off) {
			return "val:" + name
		}
	}
	return "punct"
}

// jsonSemantic decodes a line into a canonical comparable form: strings as decoded, numbers exact (rationals),
// the tag by value (hex case does not matter). ok=false if the line is not one JSON value.
func jsonSemantic(raw []byte) (interface{}, bool) {
	dec := json.NewDecoder(bytes.NewReader(raw))
	dec.UseNumber()
	var x interface{}
	if err := dec.Decode(&x); err != nil {
		return nil, false
	}
	if !isJSONSpace(raw[dec.InputOffset():]) { // JSON white space only (bytes.TrimSpace would also let VT, FF, NEL, NBSP pass)
		return nil, false
	}
	if m, ok := x.(map[string]interface{}); ok {
		if s, ok := m["integrity"].(string); ok {
			if b, err := hex.DecodeString(s); err == nil {
				m["integrity"] = "hex:" + hex.EncodeToString(b)
			}
		}
	}
	return canon(x), true
}

func canon(x interface{}) interface{} {
	switch t := x.(type) {
	case map[string]interface{}:
		for k, v := range t {
			t[k] = canon(v)
		}
		return t
	case []interface{}:
		for i := range t {
			t[i] = canon(t[i])
		}
		return t
	case json.Number:
		if p := strings.IndexAny(string(t), "eE"); p >= 0 && len(t)-p > 5 {
			return "num?:" + string(t)
		}
		if r, ok := new(big.Rat).SetString(string(t)); ok {
			return "num:" + r.RatString()
		}
		return "num?:" + string(t)
	}
	return x
}

func hexEquivalent(a, b []byte) bool {
	return len(a) == len(b) && strings.EqualFold(string(a), string(b))
}
