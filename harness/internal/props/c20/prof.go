package c20

import (
	"os"
	"runtime/pprof"
)

func startProf() func() {
	p := os.Getenv("C20_CPUPROF")
	if p == "" {
		return func() {}
	}
	f, _ := os.Create(p)
	pprof.StartCPUProfile(f)
	return func() { pprof.StopCPUProfile(); f.Close() }
}
