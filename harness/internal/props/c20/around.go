package c20

import (
	"bytes"
	"encoding/json"
	"fmt"
	"strings"
	"sync"
	"time"
	"unicode"
	"unicode/utf8"

	"verif/harness/internal/ev"
	"verif/harness/internal/gen"
)

// ---------------------------------------------------------------------------------------------------------------
// Edit class "bytes added around an entry without touching its fields" (O2: "Changing ... a protected entry ... makes
// verification fail no later than at the next protected entry after the change").
//
// No byte of the produced entry is changed or removed; data is ADDED on the entry's line:
//   add-after-entry   behind the last byte of the entry          add-before-entry  in front of its first byte
//   add-around-entry  both (the entry wrapped into something)
//   add-inside-entry-last / -first / -before-tag / -before-chain-marker   a member / extension key added in the last
//                     (first) position inside the entry where the format allows one
// The added data: every single byte value except the line terminator, every two-byte combination of the format's
// structural characters, white space variants (ASCII, Unicode, CR, byte order mark), whole forged second entries /
// JSON objects / arrays / scalars (glued, after a blank, a comma, a CR), copies of this and of another entry, a closing
// brace or bracket followed by an opening one, duplicated and new members / extension keys.
//
// Whether such an edit has to be detected is decided by the monitor's own reading of the FORMAT (never Acra's parsers):
//   - the added data is white space only (for JSON: the four white space characters of the JSON grammar; other Unicode
//     white space is counted separately), or a byte order mark in front of the very first line of the log: no field of
//     the entry changes -> not judged, only run and counted (as the existing "append-whitespace" edit);
//   - JSON: the edited line is still ONE valid JSON value (json.Valid: nothing but JSON white space around it) that
//     decodes to the same value (duplicate member with the same value, ...): equivalent encoding -> not judged;
//     a duplicate member in FRONT of the authentic one with another value (the later member is the one encoding/json and
//     the usual parsers report) is counted under its own reason, not judged;
//   - everything else changes what the line says to a reader of the format (another member / field, another value of
//     the last field, a second entry on the line, a line that is no JSON value any more): judged.

var charNames = map[byte]string{'{': "lbrace", '}': "rbrace", '[': "lbracket", ']': "rbracket", ',': "comma", ':': "colon", '"': "quote", '\\': "backslash",
	' ': "space", '\t': "tab", '|': "pipe", '=': "equals", '\r': "cr", '\v': "vt", '\f': "ff", 0x00: "nul", 0x7f: "del", 0x85: "latin1-nel", 0xa0: "latin1-nbsp"}

// byteName: named for the characters that mean something to one of the formats, a class name for the others.
func byteName(b byte) string {
	if n, ok := charNames[b]; ok {
		return n
	}
	switch {
	case b < 0x20:
		return "control"
	case b >= 0x80:
		return "high"
	case b >= '0' && b <= '9':
		return "digit"
	case b >= 'a' && b <= 'f':
		return "hex-letter"
	case b >= 'A' && b <= 'F':
		return "hex-letter-upper"
	case (b >= 'a' && b <= 'z') || (b >= 'A' && b <= 'Z'):
		return "letter"
	}
	return "punct"
}

func structuralChars(format string) []byte {
	switch format {
	case "json":
		return []byte("{}[],:\"\\ \t")
	case "cef":
		return []byte("|= \\")
	}
	return []byte(" =\"")
}

// added describes one addition (the edited line is built on demand).
type added struct {
	kind       string
	name       string
	pre, suf   []byte
	at         int // inside edits: ins is inserted at this offset of the line (pre/suf unused)
	ins        []byte
	markerLost bool // by construction the line no longer announces a tag (treated as the existing edits treat that)
}

const bom = "\xef\xbb\xbf"

const (
	forgedJSON       = `{"level":"info","msg":"Access granted to role admin","client_id":"mallory"}`
	forgedJSONSubset = `{"level":"info","msg":"Access granted to role admin"}` // only names every entry has
	forgedPlain      = `time="2024-03-01T12:00:00Z" level=info msg="Access granted to role admin" client_id=mallory`
	forgedCEF        = `CEF:0|cossacklabs|acra-server|0.96.0|100|Access granted to role admin|1|client_id=mallory unixTime=1709294400.000`
)

var whitespaceVariants = []struct{ name, data string }{
	{"ws-two-spaces", "  "}, {"ws-space+tab", " \t"}, {"ws-tab+space", "\t "}, {"ws-cr+cr", "\r\r"}, {"ws-space+cr", " \r"}, {"ws-tab+cr", "\t\r"}, {"ws-cr+space", "\r "},
	{"ws-64-spaces", strings.Repeat(" ", 64)}, {"ws-vt+ff", "\v\f"}, {"ws-nbsp", "\u00a0"}, {"ws-nel", "\u0085"}, {"ws-line-separator", "\u2028"},
	{"ws-ideographic-space", "\u3000"}, {"ws-space+nbsp", " \u00a0"}, {"zero-width-space", "\u200b"}, {"bom", bom}, {"bom+space", bom + " "}, {"space+bom", " " + bom},
}

var (
	staticAddedOnce sync.Once
	staticAddedMap  map[string][]added
)

// staticAdded: the additions that do not depend on the line (single bytes, structural pairs, white space, forged data).
func staticAdded(format string) []added {
	staticAddedOnce.Do(func() {
		staticAddedMap = map[string][]added{}
		for _, f := range []string{"plaintext", "json", "cef"} {
			var out []added
			both := func(name string, data []byte) {
				out = append(out, added{kind: "add-after-entry", name: name, suf: data}, added{kind: "add-before-entry", name: name, pre: data})
			}
			after := func(name, data string) {
				out = append(out, added{kind: "add-after-entry", name: name, suf: []byte(data)})
			}
			before := func(name, data string) {
				out = append(out, added{kind: "add-before-entry", name: name, pre: []byte(data)})
			}
			around := func(name, pre, suf string) {
				out = append(out, added{kind: "add-around-entry", name: name, pre: []byte(pre), suf: []byte(suf)})
			}
			for b := 0; b < 256; b++ {
				if b != '\n' {
					both("byte-"+byteName(byte(b)), []byte{byte(b)})
				}
			}
			sc := structuralChars(f)
			for _, a := range sc {
				for _, b := range sc {
					both("pair-"+byteName(a)+"+"+byteName(b), []byte{a, b})
				}
			}
			for _, w := range whitespaceVariants {
				both(w.name, []byte(w.data))
			}
			switch f {
			case "json":
				for _, j := range []struct{ name, sep string }{{"", ""}, {"space+", " "}, {"comma+", ","}, {"tab+", "\t"}, {"cr+", "\r"}, {"colon+", ":"}} {
					after(j.name+"forged-object", j.sep+forgedJSON)
					after(j.name+"forged-object-with-names-of-the-entry-only", j.sep+forgedJSONSubset)
				}
				for _, j := range []struct{ name, sep string }{{"", ""}, {"+space", " "}, {"+comma", ","}, {"+tab", "\t"}, {"+cr", "\r"}, {"+colon", ":"}} {
					before("forged-object"+j.name, forgedJSON+j.sep)
					before("forged-object-with-names-of-the-entry-only"+j.name, forgedJSONSubset+j.sep)
				}
				// a closing brace / bracket first, then something that opens again
				after("rbrace+forged-object", "}"+forgedJSON)
				after("rbrace+empty-object", "}{}")
				after("rbrace+space+forged-object", "} "+forgedJSON)
				after("space+rbrace+forged-object", " }"+forgedJSON)
				after("rbracket+forged-object", "]"+forgedJSON)
				after("rbracket+comma+forged-object", "],"+forgedJSON)
				after("space+rbracket", " ]")
				after("rbracket+lbracket+forged-object+rbracket", "]["+forgedJSON+"]")
				after("rbrace+comma+forged-object", "},"+forgedJSON)
				after("comma+member+rbrace", `,"msg":"Access granted to role admin"}`)
				after("rbrace+rbrace+rbrace", "}}}")
				before("forged-object+lbrace", forgedJSON+"{")
				before("forged-object+lbracket", forgedJSON+"[")
				before("lbrace+member-name+colon", `{"wrapped":`)
				before("lbracket+lbracket", "[[")
				for _, s := range []struct{ name, data string }{{"empty-object", "{}"}, {"empty-array", "[]"}, {"array-of-forged-object", "[" + forgedJSON + "]"}, {"null", "null"},
					{"true", "true"}, {"number", "0"}, {"empty-string", `""`}, {"string", `"Access granted to role admin"`}, {"line-comment", "//x"}, {"block-comment", "/**/"}, {"hash-comment", "#x"}} {
					after(s.name, s.data)
					after("space+"+s.name, " "+s.data)
					before(s.name, s.data)
					before(s.name+"+space", s.data+" ")
				}
				around("array-of-the-entry", "[", "]")
				around("array-of-the-entry-and-forged-object", "[", ","+forgedJSON+"]")
				around("array-of-forged-object-and-the-entry", "["+forgedJSON+",", "]")
				around("member-value-of-an-outer-object", `{"wrapped":`, "}")
				around("member-value-of-an-outer-object-with-forged-members", `{"msg":"Access granted to role admin","wrapped":`, "}")
				around("parentheses", "(", ")")
				around("spaces", " ", " ")
				around("tabs", "\t", "\t")
			default:
				forged, field, dupMsg := forgedPlain, "granted=yes", `msg="Access granted to role admin"`
				if f == "cef" {
					forged, dupMsg = forgedCEF, "msg=Access granted to role admin"
				}
				for _, j := range []struct{ name, sep string }{{"", ""}, {"space+", " "}, {"tab+", "\t"}, {"cr+", "\r"}, {"two-spaces+", "  "}} {
					after(j.name+"forged-entry", j.sep+forged)
					after(j.name+"field", j.sep+field)
				}
				for _, j := range []struct{ name, sep string }{{"", ""}, {"+space", " "}, {"+tab", "\t"}, {"+cr", "\r"}, {"+two-spaces", "  "}} {
					before("forged-entry"+j.name, forged+j.sep)
					before("field"+j.name, field+j.sep)
				}
				after("space+duplicate-msg-field", " "+dupMsg)
				after("space+duplicate-level-field", " level=panic")
				after("space+integrity-without-value", " integrity=")
				after("space+integrity-zero-tag", " integrity="+strings.Repeat("0", 64))
				after("space+chain-new", " chain=new")
				after("space+chain-new+space+chain-new", " chain=new chain=new")
				after("space+chain-end", " chain=end")
				after("space+chain-other", " chain=other")
				after("empty-quotes", `""`)
				before("duplicate-msg-field+space", dupMsg+" ")
				before("chain-new+space", "chain=new ")
				before("chain-end+space", "chain=end ")
				before("integrity-zero-tag+space", "integrity="+strings.Repeat("0", 64)+" ")
				if f == "cef" {
					after("pipe+text+pipe", "|forged|")
					after("space+duplicate-unixTime-field", " unixTime=0.000")
					before("cef-header-start", "CEF:0|")
					before("cef-header-start+vendor", "CEF:0|forged|")
				} else {
					after("space+duplicate-time-field", ` time="1970-01-01T00:00:00Z"`)
					before("duplicate-time-field+space", `time="1970-01-01T00:00:00Z" `)
				}
				around("quotes", `"`, `"`)
				around("spaces", " ", " ")
				around("parentheses", "(", ")")
			}
			staticAddedMap[f] = out
		}
	})
	return staticAddedMap[format]
}

// cefExtensionStart: offset behind the 7th unescaped '|' of a CEF line (-1 if there is none).
func cefExtensionStart(line []byte) int {
	n := 0
	for i := 0; i < len(line); i++ {
		switch line[i] {
		case '\\':
			i++
		case '|':
			n++
			if n == 7 {
				return i + 1
			}
		}
	}
	return -1
}

// lineAdded: the additions that are built from the line itself or from another entry of the log.
func (L *prodLog) lineAdded(i int) []added {
	line := L.lines[i]
	v := &L.views[i]
	format := L.spec.format
	var out []added
	after := func(name string, data []byte) {
		out = append(out, added{kind: "add-after-entry", name: name, suf: data})
	}
	before := func(name string, data []byte) {
		out = append(out, added{kind: "add-before-entry", name: name, pre: data})
	}
	inside := func(kind, name string, at int, ins string, markerLost bool) {
		out = append(out, added{kind: kind, name: name, at: at, ins: []byte(ins), markerLost: markerLost})
	}
	cat := func(parts ...string) []byte { return []byte(strings.Join(parts, "")) }
	tag := string(line[v.tag.from:v.tag.to])
	self := string(line)
	other := ""
	if p := L.nextProt(i); p >= 0 {
		other = string(L.lines[p])
	} else if p := L.prevProt(i); p >= 0 {
		other = string(L.lines[p])
	}
	if format == "json" {
		withTag := `{"integrity":"` + tag + `","level":"info","msg":"Access granted to role admin"}`
		after("forged-object-with-tag-of-the-entry", cat(withTag))
		after("space+forged-object-with-tag-of-the-entry", cat(" ", withTag))
		after("rbrace+forged-object-with-tag-of-the-entry", cat("}", withTag))
		after("copy-of-the-entry", cat(self))
		after("space+copy-of-the-entry", cat(" ", self))
		after("comma+copy-of-the-entry", cat(",", self))
		after("rbrace+copy-of-the-entry", cat("}", self))
		before("forged-object-with-tag-of-the-entry", cat(withTag))
		before("forged-object-with-tag-of-the-entry+space", cat(withTag, " "))
		before("copy-of-the-entry+space", cat(self, " "))
		if other != "" && other != self {
			after("copy-of-another-entry", cat(other))
			after("space+copy-of-another-entry", cat(" ", other))
			after("rbrace+copy-of-another-entry", cat("}", other))
			before("copy-of-another-entry", cat(other))
			before("copy-of-another-entry+space", cat(other, " "))
		}
		ms := v.members
		if len(ms) == 0 || line[0] != '{' || line[len(line)-1] != '}' {
			return out
		}
		end := len(line) - 1
		last := ms[len(ms)-1]
		zero := strings.Repeat("0", 64)
		var msgRaw string
		hasChain := false
		for _, m := range ms {
			if m.key == "msg" {
				msgRaw = string(line[m.valTok.from:m.valTok.to])
			}
			if m.key == "chain" {
				hasChain = true
			}
		}
		lastK, firstK := "add-inside-entry-last", "add-inside-entry-first"
		inside(lastK, "new-member", end, `,"zz_added":"x"`, false)
		inside(lastK, "duplicate-msg-other-value", end, `,"msg":"Access granted to role admin"`, false)
		inside(lastK, "duplicate-level-other-value", end, `,"level":"panic"`, false)
		inside(lastK, "duplicate-timestamp-other-value", end, `,"timestamp":"1970-01-01T00:00:00Z"`, false)
		inside(lastK, "duplicate-of-the-last-member", end, ","+string(line[last.keyTok.from:last.valTok.to]), false)
		inside(lastK, "duplicate-integrity-same-tag", end, `,"integrity":"`+tag+`"`, false)
		inside(lastK, "duplicate-integrity-zero-tag", end, `,"integrity":"`+zero+`"`, false)
		// the member the verifier reads the tag from is no tag any more: the line stops being announced as protected
		inside(lastK, "duplicate-integrity-not-a-string", end, `,"integrity":0`, true)
		inside(lastK, "chain-new", end, `,"chain":"new"`, false)
		inside(lastK, "chain-end", end, `,"chain":"end"`, false)
		inside(lastK, "chain-other", end, `,"chain":"other"`, false)
		inside(lastK, "trailing-comma", end, `,`, false)
		inside(lastK, "nested-copy-of-the-entry", end, `,"zz_added":`+self, false)
		inside(firstK, "new-member", 1, `"zz_added":"x",`, false)
		inside(firstK, "duplicate-msg-other-value", 1, `"msg":"Access granted to role admin",`, false)
		inside(firstK, "duplicate-level-other-value", 1, `"level":"panic",`, false)
		inside(firstK, "duplicate-integrity-zero-tag", 1, `"integrity":"`+zero+`",`, false)
		inside(firstK, "duplicate-integrity-not-a-string", 1, `"integrity":0,`, false)
		inside(firstK, "leading-comma", 1, `,`, false)
		if hasChain {
			inside(firstK, "duplicate-chain-other-value", 1, `"chain":"other",`, false)
		}
		if msgRaw != "" {
			inside(lastK, "duplicate-msg-same-value", end, `,"msg":`+msgRaw, false)
			inside(firstK, "duplicate-msg-same-value", 1, `"msg":`+msgRaw+`,`, false)
		}
		return out
	}
	forged := forgedPlain
	if format == "cef" {
		forged = forgedCEF
	}
	after("space+forged-entry-with-tag-of-the-entry", cat(" ", forged, " integrity=", tag))
	after("space+forged-entry-with-tag-of-the-entry-and-chain-new", cat(" ", forged, " integrity=", tag, " chain=new"))
	after("space+integrity-same-tag", cat(" integrity=", tag))
	after("space+integrity-same-tag+chain-new", cat(" integrity=", tag, " chain=new"))
	after("space+copy-of-the-entry", cat(" ", self))
	after("copy-of-the-entry", cat(self))
	after("cr+copy-of-the-entry", cat("\r", self))
	before("forged-entry-with-tag-of-the-entry+space", cat(forged, " integrity=", tag, " "))
	before("integrity-same-tag+space", cat("integrity=", tag, " "))
	before("copy-of-the-entry+space", cat(self, " "))
	if other != "" && other != self {
		after("space+copy-of-another-entry", cat(" ", other))
		before("copy-of-another-entry+space", cat(other, " "))
	}
	dupMsg := ` msg="Access granted to role admin"`
	if format == "cef" {
		dupMsg = " msg=Access granted to role admin"
	}
	inside("add-inside-entry-before-tag", "field", v.marker.from, " granted=yes", false)
	inside("add-inside-entry-before-tag", "duplicate-msg-field", v.marker.from, dupMsg, false)
	inside("add-inside-entry-before-tag", "space", v.marker.from, " ", false)
	inside("add-inside-entry-before-tag", "integrity-same-tag", v.marker.from, " integrity="+tag, false)
	if v.chainMark.to > 0 {
		inside("add-inside-entry-before-chain-marker", "field", v.chainMark.from, " granted=yes", false)
		inside("add-inside-entry-before-chain-marker", "chain-end", v.chainMark.from, " chain=end", false)
		inside("add-inside-entry-before-chain-marker", "space", v.chainMark.from, " ", false)
	}
	if format == "cef" {
		if at := cefExtensionStart(line); at > 0 && at <= v.marker.from {
			inside("add-inside-entry-first", "field", at, "granted=yes ", false)
			inside("add-inside-entry-first", "duplicate-msg-field", at, "msg=Access granted to role admin ", false)
			inside("add-inside-entry-first", "duplicate-unixTime-field", at, "unixTime=0.000 ", false)
		}
	}
	return out
}

// ---------------------------------------------------------------------------------------------------------------
// the monitor's own reading of the formats: is the added data insignificant?

func isJSONSpace(b []byte) bool {
	for _, c := range b {
		if c != ' ' && c != '\t' && c != '\r' && c != '\n' {
			return false
		}
	}
	return true
}

// isSpaceOnly: valid UTF-8 consisting of Unicode white space only (what strings.TrimSpace would remove).
func isSpaceOnly(b []byte) bool {
	for len(b) > 0 {
		r, n := utf8.DecodeRune(b)
		if r == utf8.RuneError && n <= 1 {
			return false
		}
		if !unicode.IsSpace(r) {
			return false
		}
		b = b[n:]
	}
	return true
}

// shadowedMember: the JSON object line has two top-level members of the same name whose values differ.
func shadowedMember(line []byte) bool {
	ms, ok := jsonMembers(line)
	if !ok {
		return false
	}
	seen := map[string][]byte{}
	for _, m := range ms {
		var c []byte
		if s, ok := jsonSemantic(line[m.valTok.from:m.valTok.to]); ok {
			c, _ = json.Marshal(s)
		} else {
			c = line[m.valTok.from:m.valTok.to]
		}
		if prev, dup := seen[m.key]; dup && !bytes.Equal(prev, c) {
			return true
		}
		seen[m.key] = c
	}
	return false
}

// addCtx: what is computed once per line.
type addCtx struct {
	i   int
	sem []byte // JSON: canonical form of the decoded original line
}

func (L *prodLog) addContext(i int) *addCtx {
	c := &addCtx{i: i}
	if L.spec.format == "json" {
		if s, ok := jsonSemantic(L.lines[i]); ok {
			c.sem, _ = json.Marshal(s)
		}
	}
	return c
}

// insignificant: the edited line nl (line i with a added) says the same as the original to a reader of the format.
func (L *prodLog) insignificant(c *addCtx, a *added, nl []byte) (bool, string) {
	outer := a.ins == nil
	if outer && strings.HasPrefix(string(a.pre), bom) && c.i == 0 && len(a.suf) == 0 && isSpaceOnly(a.pre[len(bom):]) {
		return true, "byte order mark in front of the first line of the log (encoding signature of the file, not part of the entry)"
	}
	if outer && isSpaceOnly(a.pre) && isSpaceOnly(a.suf) {
		if L.spec.format == "json" && !(isJSONSpace(a.pre) && isJSONSpace(a.suf)) {
			return true, "white space around the entry that is not JSON white space (no field changes; counted only)"
		}
		switch {
		case len(a.pre) == 0:
			return true, "trailing whitespace is not part of the entry"
		case len(a.suf) == 0:
			return true, "leading whitespace is not part of the entry"
		}
		return true, "whitespace around the entry is not part of it"
	}
	if L.spec.format != "json" {
		return false, ""
	}
	// JSON: exactly one value on the line (nothing but JSON white space around it) that decodes to the same value
	if c.sem == nil || !json.Valid(nl) {
		return false, ""
	}
	s, ok := jsonSemantic(nl)
	if !ok {
		return false, ""
	}
	if js, _ := json.Marshal(s); !bytes.Equal(js, c.sem) {
		return false, ""
	}
	if shadowedMember(nl) {
		return true, "duplicate member in front of the authentic one, other value (the later member is the one decoded; counted only)"
	}
	return true, "equivalent encoding of the same entry"
}

func (L *prodLog) applyAdded(c *addCtx, a *added) edit {
	line := L.lines[c.i]
	var nl []byte
	if a.ins != nil {
		nl = append(append(append(make([]byte, 0, len(line)+len(a.ins)), line[:a.at]...), a.ins...), line[a.at:]...)
	} else {
		nl = append(append(append(make([]byte, 0, len(line)+len(a.pre)+len(a.suf)), a.pre...), line...), a.suf...)
	}
	markerLost := a.markerLost
	if L.spec.format == "json" && !markerLost && json.Valid(nl) {
		// still one JSON value, but (to the monitor's own token walk) no object with a tag member any more, e.g. the entry
		// wrapped into an outer object or an array: the line stops being announced as protected = the entry is removed
		if nv := viewLine("json", nl); !nv.protected {
			markerLost = true
		}
	}
	e := L.inPlace(a.kind, a.name, c.i, nl, markerLost)
	e.note = fmt.Sprintf("added before=%q after=%q inside@%d=%q", a.pre, a.suf, a.at, a.ins)
	if e.judged {
		if ok, why := L.insignificant(c, a, nl); ok {
			e.judged, e.why = false, why
		}
	}
	return e
}

// addedSampled: a few additions per entry (the seeded logs of phase (b) and the histories of phase (e): every content
// class and chain position meets some of them); the complete catalogue is run by phase (f) on its own logs.
func (L *prodLog) addedSampled(r *gen.Rand, i, n int, yield func(edit)) {
	st := staticAdded(L.spec.format)
	ln := L.lineAdded(i)
	c := L.addContext(i)
	for k := 0; k < n; k++ {
		var a *added
		switch k % 3 {
		case 0:
			a = &st[r.Intn(len(st))] // mostly single bytes and structural pairs
		case 1:
			a = &ln[r.Intn(len(ln))] // copies, forged entries with the entry's tag, members / fields inside
		default:
			sc := len(structuralChars(L.spec.format))
			base := 510 + 2*sc*sc
			a = &st[base+r.Intn(len(st)-base)] // white space, forged data
		}
		yield(L.applyAdded(c, a))
	}
}

// ---------------------------------------------------------------------------------------------------------------
// (f) the complete catalogue of additions on every entry of small chains

type aroundJob struct {
	L *prodLog
	i int
}

func aroundSpec(rng *gen.Rand, id, format string, k int, usable []content) *logSpec {
	// k%3: 0 ResetChain in the middle, 1 process restart in the middle, 2 no restart; every first log without restart and every
	// fourth of the others is not finalised (killed process: the last entry of the log is an ordinary entry)
	spec := &logSpec{id: id, format: format, wiring: []string{wHandler, wServer}[k%2], key: gen.Bytes(rng, 32)}
	restart := []string{"reset", "reboot", ""}[k%3]
	if restart == "" {
		spec.finalize = k%2 == 1
	} else {
		spec.finalize = k%4 != 3
	}
	if k%5 == 4 {
		spec.key = gen.Bytes(rng, 1+rng.Intn(16))
	}
	spec.preamble = rng.Intn(2)
	n := 3 + rng.Intn(3)
	at := 1 + rng.Intn(n-1)
	t := baseTime(rng)
	spec.t0 = t
	for i := 0; i < n; i++ {
		if i == at && restart != "" {
			spec.steps = append(spec.steps, step{kind: restart})
		}
		c := content{"plain", "msg"}
		if rng.Intn(3) != 0 {
			c = usable[rng.Intn(len(usable))]
		}
		if c.class == "long-1k" {
			c = content{"plain", "msg"} // 1.2 KB lines x 1 400 edits: nothing the shorter classes do not show
		}
		t = t.Add(time.Duration(1+rng.Intn(90000)) * time.Millisecond)
		spec.steps = append(spec.steps, step{kind: "entry", entry: buildEntry(rng, c, t)})
	}
	return spec
}

func phaseAround(r *ev.Run, dir string, broken map[string]bool) {
	perFormat := r.Pick(3, 12)
	var jobs []aroundJob
	v0 := newVerifier(scratchDir("c20-ar0"))
	for _, format := range formats {
		var usable []content
		for _, c := range allContents() {
			if !broken[format+"|"+c.String()] {
				usable = append(usable, c)
			}
		}
		for k := 0; k < perFormat; k++ {
			rng := gen.New(r.Seed, fmt.Sprintf("around|%s|%d", format, k))
			spec := aroundSpec(rng, fmt.Sprintf("around-%s-%d", format, k), format, k, usable)
			data, meta, err := produce(spec, dir)
			if err != nil {
				r.Inconclusive(fmt.Sprintf("producing the log failed: %s: %v", spec.id, err))
				continue
			}
			L := newProdLog(spec, data, meta)
			if !checkIntact(r, v0, fullJob{L: L}) || len(L.prot) == 0 {
				continue
			}
			r.Count("o1_intact_ok:"+format, 1)
			r.Count("around_logs:"+format, 1)
			for _, i := range L.prot {
				jobs = append(jobs, aroundJob{L, i})
			}
		}
	}
	ch := make(chan aroundJob, 16)
	var wg sync.WaitGroup
	for w := 0; w < workers; w++ {
		wg.Add(1)
		go func() {
			defer wg.Done()
			v := newVerifier(scratchDir("c20-ar"))
			for j := range ch {
				L, format := j.L, j.L.spec.format
				rng := gen.New(r.Seed, fmt.Sprintf("around-edits|%s|%d", L.spec.id, j.i))
				c := L.addContext(j.i)
				st := staticAdded(format)
				ln := L.lineAdded(j.i)
				for _, list := range [][]added{st, ln} {
					for x := range list {
						a := &list[x]
						e := L.applyAdded(c, a)
						r.SetAdd("added_data:"+format, a.kind+"|"+a.name)
						if strings.HasPrefix(a.name, "byte-") {
							r.SetAdd("added_single_byte_values:"+format, fmt.Sprintf("%s|%x%x", a.kind, a.pre, a.suf))
						}
						judgeEdit(r, v, L, rng, &e, "", false)
					}
				}
				r.Count("around_entries_fully_enumerated:"+format, 1)
				r.SetAdd("around_entry_positions:"+format, L.pos(j.i))
			}
		}()
	}
	for _, j := range jobs {
		ch <- j
	}
	close(ch)
	wg.Wait()
}

// aroundGuards: a run in which the new edit class was not exercised must fail.
func aroundGuards(r *ev.Run) {
	for _, f := range formats {
		r.RequireAtLeast("around_entries_fully_enumerated:"+f, int64(r.Pick(12, 50)))
		r.RequireSetAtLeast("around_entry_positions:"+f, 4)
		r.RequireAtLeast("o2_detected_kind:add-after-entry:"+f, int64(r.Pick(3000, 12000)))
		r.RequireAtLeast("o2_detected_kind:add-before-entry:"+f, int64(r.Pick(3000, 12000)))
		r.RequireAtLeast("o2_detected_kind:add-around-entry:"+f, int64(r.Pick(20, 90)))
		// every byte value but LF on both sides; the named additions (single bytes are grouped by character class there)
		r.RequireSetAtLeast("added_single_byte_values:"+f, 510)
		r.RequireSetAtLeast("added_data:"+f, map[string]int{"json": 400, "cef": 170, "plaintext": 150}[f])
	}
	r.RequireAtLeast("o2_detected_kind:add-inside-entry-last:json", int64(r.Pick(100, 400)))
	r.RequireAtLeast("o2_detected_kind:add-inside-entry-first:json", int64(r.Pick(20, 90)))
	for _, f := range []string{"plaintext", "cef"} {
		r.RequireAtLeast("o2_detected_kind:add-inside-entry-before-tag:"+f, int64(r.Pick(40, 180)))
		r.RequireAtLeast("o2_detected_kind:add-inside-entry-before-chain-marker:"+f, int64(r.Pick(6, 24)))
	}
	r.RequireAtLeast("o2_detected_kind:add-inside-entry-first:cef", int64(r.Pick(30, 120)))
}
