package c20

import (
	"errors"
	"fmt"
	"strings"
	"time"

	"verif/harness/internal/gen"
)

// A content class is one kind of hostile (or plain) content. Every generated entry carries exactly ONE
// (class, position) pair - position = msg | key | value - and is otherwise plain, so that a failure can be
// named by how the entry was built ("content=integrity-token@msg"), never by its bytes.

const endMsg = "End of current audit log chain" // logging.EndOfAuditLogChainMessage (checked at start-up)
const prepareMsg = "Prepare to audit log chain finalization"

type class struct {
	name  string
	frags []string
	pos   string // subset of "mkv": m = message, k = field name, v = field value
	whole bool   // the fragment is the whole string (no plain text around it)
}

const hex64 = "00112233445566778899aabbccddeeff00112233445566778899aabbccddeeff"

var stringClasses = []class{
	{"plain", []string{"connection established", "ok", "query", "Keystore init OK"}, "mkv", false},
	{"space-edges", []string{" lead", "trail ", "  two  spaces  ", " "}, "mkv", true},
	{"newline", []string{"a\nb", "\n", "line1\nline2\n", "\n\n"}, "mkv", false},
	{"crlf", []string{"a\r\nb", "end\r", "\r"}, "mkv", false},
	{"tab", []string{"a\tb", "\t"}, "mkv", false},
	{"quote", []string{`say "hi"`, `"`, `'`, `""`, "`"}, "mkv", false},
	{"backslash", []string{`C:\dir\file`, `\`, `\\`, `\n`, `\"`, `\u0041`}, "mkv", false},
	{"backslash-trailing", []string{`trail\`, `\`}, "mkv", true},
	{"equals", []string{"a=b", "=", "k=v k2=v2", "=="}, "mkv", false},
	{"pipe", []string{"a|b", "|", "||", "|1|"}, "mkv", false},
	{"integrity-token", []string{" integrity=deadbeef", " integrity=" + hex64, " integrity=", "x integrity=00 y"}, "mkv", false},
	{"integrity-token-trailing", []string{"was integrity=" + hex64, "a integrity=" + hex64 + " chain=new"}, "mv", true},
	{"integrity-word", []string{"integrity=abc", "integrity", "integrity:" + hex64, "\tintegrity=1"}, "mv", false},
	{"near-integrity", []string{" integrity<x", " integrity-" + hex64, " integritx=1", "  integrity ="}, "mv", false},
	{"key-suffix-integrity", []string{"a integrity", "x y integrity"}, "k", true},
	{"chain-new-token", []string{" chain=new", "x chain=new", "chain=new"}, "mkv", false},
	{"chain-new-trailing", []string{"restarted chain=new", " chain=new"}, "mv", true},
	{"chain-end-token", []string{"chain=end", " chain=end", "x chain=end y"}, "mkv", false},
	{"end-message", []string{endMsg}, "mv", true},
	{"end-message-embedded", []string{endMsg + " chain=end", "xx " + endMsg + " yy", "chain=end " + endMsg}, "mv", false},
	{"end-message-case", []string{strings.ToLower(endMsg), strings.ToUpper(endMsg)}, "m", true},
	{"prepare-message", []string{prepareMsg}, "m", true},
	{"json-fragment", []string{`","integrity":"00"`, `{"chain":"new"}`, `"}`, `{"integrity":"` + hex64 + `"}`, `\u0000`, `[1,2]`, `null`}, "mkv", false},
	{"cef-fragment", []string{`CEF:0|v|p|1|100|m|1|`, `\|`, `\=`, `a\=b|c`, `|unixTime=1.000`}, "mkv", false},
	{"non-utf8", []string{"\xff\xfe", "\xc3", "a\x80b", "\xed\xa0\x80", "\xf0\x9f"}, "mkv", false},
	{"unicode", []string{"\u2028", "\ufffd", "\U0001F600", "é", "\u0085", "\u00a0"}, "mkv", false},
	{"control", []string{"\x00", "\x1b[31m", "\x7f", "\x08", "\x0b\x0c"}, "mkv", false},
	{"html", []string{"<script>alert(1)</script>", "a&b", "<>", "&amp;"}, "mkv", false},
	{"empty", []string{""}, "mkv", true},
	{"delimiter-word", []string{"delimiter", "delimitermsgdelimiter", `delimiter"x"delimiter`}, "mkv", false},
	{"percent", []string{"%s %d %!", "100%", "%v"}, "mkv", false},
	// strings whose text is also the spelling of a JSON number / boolean / null (a type-changing edit keeps the spelling)
	{"literal-spelling", []string{"3", "-7", "1.5", "true", "false", "null", "0", "1e3", "12345678901234567890"}, "mkv", true},
	// a value that spells "<a> delimiter delimiter <name> delimiter <b>": can be re-cut into two members at the separator word
	// (the names sort right behind the field names the generator uses: data < delta < level, msg < n < product, zdata < zz)
	{"delimiter-recut", []string{"delimiterdelimiterdeltadelimiter", "delimiterdelimiterzzdelimiter", "delimiterdelimiterndelimiter"}, "mv", false},
	{"long-1k", []string{strings.Repeat("lorem ipsum ", 100)}, "mv", false},
}

// look-alike field names: the whole key is a name the formats or the chain use themselves
type keyClass struct {
	name string
	key  string
	vals []interface{}
}

var keyClasses = []keyClass{
	{"key-integrity", "integrity", []interface{}{hex64, "junk", 7}},
	{"key-chain-new", "chain", []interface{}{"new"}},
	{"key-chain-end", "chain", []interface{}{"end"}},
	{"key-chain-other", "chain", []interface{}{"other", 3}},
	{"key-msg", "msg", []interface{}{"shadow message"}},
	{"key-level", "level", []interface{}{"panic"}},
	{"key-time", "time", []interface{}{"1970-01-01T00:00:00Z"}},
	{"key-timestamp", "timestamp", []interface{}{"1970-01-01T00:00:00Z"}},
	{"key-unixTime", "unixTime", []interface{}{"0.000", 0, 12}},
	{"key-version", "version", []interface{}{"9.9.9"}},
	{"key-product", "product", []interface{}{"other|product"}},
	{"key-vendor", "vendor", []interface{}{"v=1"}},
	{"key-code", "code", []interface{}{587, "x"}},
	{"key-severity", "severity", []interface{}{10}},
	{"key-error", "error", []interface{}{"not an error value"}},
	{"key-fields-msg", "fields.msg", []interface{}{"x"}},
	{"key-delimiter", "delimiter", []interface{}{"delimiter"}},
}

type stringer struct{ s string }

func (s stringer) String() string { return s.s }

// value-type classes: field values that are not strings
var valueClasses = []struct {
	name string
	vals []interface{}
}{
	{"int-small", []interface{}{0, -1, 42, int64(65535), uint16(7)}},
	{"int-big", []interface{}{int64(9007199254740993), int64(-9223372036854775808), int64(1234567890123456789)}},
	{"uint64-max", []interface{}{uint64(18446744073709551615)}},
	{"float", []interface{}{1.5, -0.25, 3.0, 0.1}},
	{"float-big", []interface{}{1e21, 1e300, 5e-324}},
	{"bool", []interface{}{true, false}},
	{"nil", []interface{}{nil}},
	{"error-value", []interface{}{errors.New("dial tcp 127.0.0.1:5432: connection refused"), errors.New("bad \"quoted\" = | value\n chain=new")}},
	{"bytes", []interface{}{[]byte{1, 2, 3}, []byte("client \xff id"), []byte{}}},
	{"duration", []interface{}{1500 * time.Millisecond}},
	{"nested-map", []interface{}{map[string]interface{}{"integrity": "x", "chain": "new", "n": 1}, map[string]string{"a": "b"}}},
	{"slice", []interface{}{[]string{"a", "b c"}, []int{1, 2}}},
	{"stringer", []interface{}{stringer{"str \"x\" = |\n"}}},
}

// content is one (class, position) pair.
type content struct {
	class string
	pos   string // "msg" | "key" | "value"
}

func (c content) String() string { return c.class + "@" + c.pos }

// allContents lists every (class, position) pair of the alphabet.
func allContents() []content {
	var out []content
	for _, c := range stringClasses {
		for _, p := range c.pos {
			out = append(out, content{c.name, map[rune]string{'m': "msg", 'k': "key", 'v': "value"}[p]})
		}
	}
	for _, k := range keyClasses {
		out = append(out, content{k.name, "key"})
	}
	for _, v := range valueClasses {
		out = append(out, content{v.name, "value"})
	}
	return out
}

var plainWords = []string{"connection", "established", "client", "session", "query", "accepted", "proxy", "handler", "closed", "42", "acra-server", "ok"}
var plainKeys = []string{"client_id", "session_id", "connection_string", "path", "from_descriptor", "a", "zone", "Count", "tls"}

func plainText(r *gen.Rand, words int) string {
	w := make([]string, words)
	for i := range w {
		w[i] = plainWords[r.Intn(len(plainWords))]
	}
	return strings.Join(w, " ")
}

func embed(r *gen.Rand, frag string, whole bool) string {
	if whole {
		return frag
	}
	switch r.Intn(5) {
	case 0:
		return frag
	case 1:
		return plainText(r, 1+r.Intn(2)) + frag
	case 2:
		return frag + plainText(r, 1+r.Intn(2))
	default:
		return plainText(r, 1+r.Intn(2)) + frag + plainText(r, 1+r.Intn(2))
	}
}

type field struct {
	key string
	val interface{}
}

// entrySpec is one log call.
type entrySpec struct {
	level   int // logrus level number (2 error, 3 warn, 4 info, 5 debug)
	msg     string
	fields  []field
	t       time.Time
	content content
}

func findClass(name string) *class {
	for i := range stringClasses {
		if stringClasses[i].name == name {
			return &stringClasses[i]
		}
	}
	return nil
}

// buildEntry makes an entry carrying content c; everything else in it is plain.
func buildEntry(r *gen.Rand, c content, t time.Time) entrySpec { return buildEntryN(r, c, t, -1) }

// variants is the number of fragments / values of a content class (the alphabet phase tries each one).
func variants(c content) int {
	if sc := findClass(c.class); sc != nil {
		return len(sc.frags)
	}
	for _, kc := range keyClasses {
		if kc.name == c.class {
			return len(kc.vals)
		}
	}
	for _, vc := range valueClasses {
		if vc.name == c.class {
			return len(vc.vals)
		}
	}
	return 1
}

// buildEntryN: as buildEntry with fragment/value number n (n < 0: seeded choice).
func buildEntryN(r *gen.Rand, c content, t time.Time, n int) entrySpec {
	pick := func(l int) int {
		if n >= 0 {
			return n % l
		}
		return r.Intn(l)
	}
	e := entrySpec{level: []int{4, 4, 4, 3, 2, 5}[r.Intn(6)], msg: plainText(r, 1+r.Intn(4)), t: t, content: c}
	used := map[string]bool{}
	addPlain := func() {
		k := plainKeys[r.Intn(len(plainKeys))]
		if used[k] {
			return
		}
		used[k] = true
		var v interface{} = plainText(r, 1+r.Intn(2))
		if r.Intn(3) == 0 {
			v = r.Intn(100000)
		}
		e.fields = append(e.fields, field{k, v})
	}
	for n := r.Intn(3); n > 0; n-- {
		addPlain()
	}
	if sc := findClass(c.class); sc != nil {
		s := embed(r, sc.frags[pick(len(sc.frags))], sc.whole)
		switch c.pos {
		case "msg":
			e.msg = s
		case "key":
			if used[s] {
				s += "_"
			}
			e.fields = append(e.fields, field{s, plainText(r, 1)})
			// a field that sorts before the hostile one, so the hostile name is not the first extension/field
			if !used["a"] {
				e.fields = append(e.fields, field{"a", "first"})
			}
		case "value":
			k := "data"
			if r.Intn(2) == 0 {
				k = "zdata"
			}
			e.fields = append(e.fields, field{k, s})
		}
		return e
	}
	for _, kc := range keyClasses {
		if kc.name == c.class {
			// drop a clashing plain key
			e.fields = append(e.fields, field{kc.key, kc.vals[pick(len(kc.vals))]})
			if !used["a"] {
				e.fields = append(e.fields, field{"a", "first"})
			}
			return e
		}
	}
	for _, vc := range valueClasses {
		if vc.name == c.class {
			k := "data"
			if vc.name == "error-value" {
				k = "error" // logrus.ErrorKey, as WithError does
			}
			e.fields = append(e.fields, field{k, vc.vals[pick(len(vc.vals))]})
			return e
		}
	}
	panic("unknown content class " + c.class)
}

func (e entrySpec) describe() map[string]interface{} {
	f := map[string]string{}
	for _, x := range e.fields {
		f[fmt.Sprintf("%q", x.key)] = fmt.Sprintf("%T:%q", x.val, fmt.Sprint(x.val))
	}
	m := e.msg
	if len(m) > 200 {
		m = m[:200] + "..."
	}
	return map[string]interface{}{"level": e.level, "msg": fmt.Sprintf("%q", m), "fields": f, "content": e.content.String(), "time": e.t.Format(time.RFC3339Nano)}
}
