package c20

import (
	"bytes"
	"encoding/hex"
	"encoding/json"
	"sort"
	"strings"

	"verif/harness/internal/gen"
)

type prodLog struct {
	spec  *logSpec
	data  []byte
	lines [][]byte
	views []lineView
	meta  []lineMeta // nil when production order is not known by construction
	prot  []int      // indices of protected lines
	// sampleBytes: byte changes at sampled offsets only, also for a small log (the log-level histories: their point is
	// the chain structure; every byte of small logs is covered by the seeded logs of phase (b))
	sampleBytes bool
	hist        *histInfo // phase (e) only
}

func newProdLog(spec *logSpec, data []byte, meta []lineMeta) *prodLog {
	L := &prodLog{spec: spec, data: data, meta: meta}
	body := bytes.TrimSuffix(data, []byte("\n"))
	if len(body) > 0 {
		L.lines = bytes.Split(body, []byte("\n"))
	}
	for i, l := range L.lines {
		v := viewLine(spec.format, l)
		L.views = append(L.views, v)
		if v.protected {
			L.prot = append(L.prot, i)
		}
	}
	if meta != nil && len(meta) != len(L.lines) {
		L.meta = nil
	}
	return L
}

func (L *prodLog) nextProt(i int) int {
	for j := i + 1; j < len(L.lines); j++ {
		if L.views[j].protected {
			return j
		}
	}
	return -1
}

func (L *prodLog) prevProt(i int) int {
	for j := i - 1; j >= 0; j-- {
		if L.views[j].protected {
			return j
		}
	}
	return -1
}

func (L *prodLog) content(i int) string {
	if L.meta == nil {
		return "unknown"
	}
	return L.meta[i].content
}

// pos describes where in the chain structure a protected line sits.
func (L *prodLog) pos(i int) string {
	var p []string
	if L.prevProt(i) < 0 {
		p = append(p, "first")
	}
	if L.views[i].start {
		p = append(p, "chain-start")
	}
	if L.views[i].endMarker {
		p = append(p, "end-marker")
	}
	if n := L.nextProt(i); n < 0 {
		p = append(p, "last")
	} else if L.views[n].start {
		p = append(p, "chain-last")
	}
	if len(p) == 0 {
		return "mid"
	}
	return strings.Join(p, "+")
}

// chainOf returns (chain number, index inside the chain) of every protected line, by the chain=new markers.
func (L *prodLog) chainIndex() (chain, idx []int) {
	chain = make([]int, len(L.lines))
	idx = make([]int, len(L.lines))
	c, k := -1, 0
	for i := range L.lines {
		chain[i], idx[i] = -1, -1
		if !L.views[i].protected {
			continue
		}
		if L.views[i].start || c < 0 {
			c++
			k = 0
		}
		chain[i], idx[i] = c, k
		k++
	}
	return
}

type edit struct {
	kind      string
	region    string
	line      int      // original line the edit is about
	lines     [][]byte // the edited log
	noFinalNL bool
	judged    bool
	why       string // reason when not judged
	limit     int    // index into lines: the error must be reported at a line starting before the end of lines[limit]
	lazyEquiv bool
	dest      string // duplicates: where the copy lands (appended to the position in signatures)
	note      string
}

func (e *edit) bytes() []byte {
	b := bytes.Join(e.lines, []byte("\n"))
	if !e.noFinalNL && len(e.lines) > 0 {
		b = append(b, '\n')
	}
	return b
}

// limitOffset = first byte offset that is too late for the error.
func (e *edit) limitOffset() int {
	off := 0
	for i := 0; i <= e.limit && i < len(e.lines); i++ {
		off += len(e.lines[i]) + 1
	}
	return off
}

// place fills in the bound: the next untouched protected entry after the last changed line, else the changed line itself.
// omap maps edited index -> original index (-1 for changed/inserted lines); after = first edited index after the change.
func (L *prodLog) place(e *edit, omap []int, lastChanged, after int) (hasNext bool) {
	for j := after; j < len(omap); j++ {
		if omap[j] >= 0 && L.views[omap[j]].protected {
			e.limit = j
			return true
		}
	}
	e.limit = lastChanged
	return false
}

func identityMap(n int) []int {
	m := make([]int, n)
	for i := range m {
		m[i] = i
	}
	return m
}

func (L *prodLog) replaceLine(i int, nl []byte) ([][]byte, []int) {
	ls := append([][]byte{}, L.lines...)
	ls[i] = nl
	m := identityMap(len(ls))
	m[i] = -1
	return ls, m
}

// inPlace builds an edit that rewrites line i. markerLost: the edit removes or damages the bytes that announce the tag.
func (L *prodLog) inPlace(kind, region string, i int, nl []byte, markerLost bool) edit {
	e := edit{kind: kind, region: region, line: i, judged: true}
	var m []int
	e.lines, m = L.replaceLine(i, nl)
	hasNext := L.place(&e, m, i, i+1)
	if bytes.Equal(nl, L.lines[i]) {
		e.judged, e.why = false, "identity"
	} else if markerLost && !hasNext {
		// the last protected entry stops being announced as protected: indistinguishable from removing the last entry
		e.judged, e.why = false, "tail-equivalent (last entry no longer marked as protected)"
	} else if markerLost && L.views[m[e.limit]].start {
		// the line stops being an entry at all and no entry of its chain follows: same as removing the last entry of a chain
		e.judged, e.why = false, "last entry of its chain no longer marked as protected (removal need not be detected)"
	}
	return e
}

var altBytes = []byte{' ', '"', '\\', '=', '|', '0', 'f', '\n', ',', ':', '}', 'A', '\r', 0x00, 0xff}

// equivalentByteChange: the changed line means the same entry (hex digit case in the tag; JSON that decodes to the same value).
func (L *prodLog) equivalentLine(i int, nl []byte) bool {
	v := &L.views[i]
	if L.spec.format == "json" {
		a, ok1 := jsonSemantic(L.lines[i])
		b, ok2 := jsonSemantic(nl)
		if ok1 && ok2 {
			ja, _ := json.Marshal(a)
			jb, _ := json.Marshal(b)
			return bytes.Equal(ja, jb)
		}
		return false
	}
	if len(nl) != len(L.lines[i]) {
		return false
	}
	if !bytes.Equal(nl[:v.tag.from], L.lines[i][:v.tag.from]) || !bytes.Equal(nl[v.tag.to:], L.lines[i][v.tag.to:]) {
		return false
	}
	return hexEquivalent(nl[v.tag.from:v.tag.to], L.lines[i][v.tag.from:v.tag.to])
}

func (L *prodLog) byteChange(i, off int, nb byte, variant string) edit {
	v := &L.views[i]
	nl := append([]byte{}, L.lines[i]...)
	nl[off] = nb
	reg := v.region(L.spec.format, off)
	e := L.inPlace("byte-change", reg, i, nl, reg == "marker")
	e.note = variant
	if L.spec.format != "json" && nb == '\n' && reg == "chain-marker" && L.prevProt(i) < 0 {
		// the marker is split off as a line of its own: the first protected entry merely loses its new-chain marker
		// (plaintext: only when the line break replaces the blank before the marker; cef: white space after the tag is not part of the entry)
		head := nl[:off]
		if L.spec.format == "cef" {
			head = bytes.TrimRight(head, " \t\r")
		}
		if len(head) == v.tag.to {
			e.judged, e.why = false, "new-chain marker removed from the first protected entry (no effect on meaning)"
		}
	}
	if e.judged && L.spec.format != "json" && L.equivalentLine(i, nl) {
		e.judged, e.why = false, "equivalent encoding of the same entry"
	}
	e.lazyEquiv = e.judged && L.spec.format == "json" // decoded and compared only if the verifier accepts the edit (cost)
	return e
}

// genEdits enumerates the edits of one log and hands each to yield.
// light: (thorough tier, many logs) every byte only for every 4th small log, and a seeded half of the cut points / tag replacements.
func (L *prodLog) genEdits(r *gen.Rand, byteBudget int, light bool, yield func(edit)) {
	n := len(L.lines)
	format := L.spec.format
	chain, cidx := L.chainIndex()

	// --- byte changes
	exhaustive := len(L.data) <= 2048 && !L.sampleBytes && (!light || r.Intn(4) == 0)
	for _, i := range L.prot {
		line := L.lines[i]
		v := &L.views[i]
		var offs []int
		if exhaustive {
			for o := range line {
				offs = append(offs, o)
			}
		} else {
			k := byteBudget / len(L.prot)
			if k < 6 {
				k = 6
			}
			offs = append(offs, v.tag.from+r.Intn(64), v.tag.from+r.Intn(64), v.marker.from+r.Intn(v.marker.to-v.marker.from))
			if v.chainMark.to > 0 {
				offs = append(offs, v.chainMark.from+r.Intn(v.chainMark.to-v.chainMark.from))
			}
			for len(offs) < k {
				offs = append(offs, r.Intn(len(line)))
			}
		}
		for _, o := range offs {
			b := line[o]
			yield(L.byteChange(i, o, b^0x01, "bit0"))
			if r.Intn(3) == 0 {
				nb := altBytes[r.Intn(len(altBytes))]
				if r.Intn(4) == 0 {
					nb = b ^ 0x20
				}
				if nb != b && nb != b^0x01 {
					yield(L.byteChange(i, o, nb, "alt"))
				}
			}
		}
	}

	// --- deletion
	for _, i := range L.prot {
		e := edit{kind: "delete", region: "entry", line: i}
		e.lines = append(append([][]byte{}, L.lines[:i]...), L.lines[i+1:]...)
		m := append(identityMap(n)[:i:i], identityMap(n)[i+1:]...)
		nx := L.nextProt(i)
		L.place(&e, m, i, i)
		switch {
		case nx < 0:
			e.why = "last protected entry of the log (removal need not be detected)"
		case L.views[nx].start:
			e.why = "last entry of its chain (not followed by another entry of its chain)"
		default:
			e.judged = true
		}
		yield(e)
	}

	// --- swaps
	swap := func(kind string, i, k int) {
		if i > k {
			i, k = k, i
		}
		e := edit{kind: kind, region: "entry", line: i, judged: true}
		e.lines = append([][]byte{}, L.lines...)
		e.lines[i], e.lines[k] = L.lines[k], L.lines[i]
		m := identityMap(n)
		m[i], m[k] = -1, -1
		L.place(&e, m, k, k+1)
		if bytes.Equal(L.lines[i], L.lines[k]) {
			e.judged, e.why = false, "identity"
		}
		yield(e)
	}
	for x := 0; x+1 < len(L.prot); x++ {
		swap("swap-adjacent", L.prot[x], L.prot[x+1])
	}
	if len(L.prot) >= 3 {
		for x := 0; x < len(L.prot); x++ {
			a, b := L.prot[r.Intn(len(L.prot))], L.prot[r.Intn(len(L.prot))]
			if a != b {
				swap("swap-distant", a, b)
			}
		}
	}
	// entries at the same position of two different chains
	byPos := map[int][]int{}
	for _, i := range L.prot {
		byPos[cidx[i]] = append(byPos[cidx[i]], i)
	}
	var poss []int
	for p := range byPos {
		poss = append(poss, p)
	}
	sort.Ints(poss)
	for _, p := range poss {
		ls := byPos[p]
		for a := 0; a < len(ls); a++ {
			for b := a + 1; b < len(ls); b++ {
				if chain[ls[a]] != chain[ls[b]] {
					swap("swap-same-index-across-chains", ls[a], ls[b])
				}
			}
		}
	}

	// --- duplication
	// chainPrefix: the protected lines of the current chain that precede position p (p itself excluded)
	chainPrefix := func(p int) [][]byte {
		var out [][]byte
		for j := p - 1; j >= 0; j-- {
			if !L.views[j].protected {
				continue
			}
			out = append([][]byte{L.lines[j]}, out...)
			if L.views[j].start {
				break
			}
		}
		return out
	}
	dup := func(kind string, i, p int) {
		e := edit{kind: kind, line: i, judged: true}
		// in which chain context does the copy land, compared with the context of the original
		if L.views[i].start {
			prev := -1
			for j := p - 1; j >= 0; j-- {
				if L.views[j].protected {
					prev = j
					break
				}
			}
			if prev < 0 || L.views[prev].endMarker {
				e.region = "chain-start-copied-to-where-a-chain-may-start"
			} else {
				e.region = "chain-start-copied-into-a-chain"
			}
		} else {
			a, b := chainPrefix(i), chainPrefix(p)
			same := len(a) == len(b)
			for k := 0; same && k < len(a); k++ {
				same = bytes.Equal(a[k], b[k])
			}
			if same {
				e.region = "copied-behind-an-identical-chain-prefix"
			} else {
				e.region = "copied-into-another-context"
			}
		}
		e.dest = ">end-of-log"
		for j := p; j < n; j++ {
			if L.views[j].protected {
				if L.views[j].start {
					e.dest = ">before-a-chain-start"
				} else {
					e.dest = ">inside-a-chain"
				}
				break
			}
		}
		e.lines = append(append(append([][]byte{}, L.lines[:p]...), L.lines[i]), L.lines[p:]...)
		m := make([]int, 0, n+1)
		for j := 0; j < p; j++ {
			m = append(m, j)
		}
		m = append(m, -1)
		for j := p; j < n; j++ {
			m = append(m, j)
		}
		L.place(&e, m, p, p+1)
		yield(e)
	}
	for _, i := range L.prot {
		dup("duplicate-adjacent", i, i+1)
	}
	for x := 0; x < len(L.prot); x++ {
		i := L.prot[r.Intn(len(L.prot))]
		p := r.Intn(n + 1)
		if p != i && p != i+1 {
			dup("duplicate-elsewhere", i, p)
		}
	}
	for _, i := range L.prot {
		if (L.views[i].start || r.Intn(4) == 0) && i+1 != n {
			dup("duplicate-to-end", i, n)
		}
	}

	// --- truncation inside an entry (rest of the log kept) and truncation of the log inside an entry
	for _, i := range L.prot {
		line := L.lines[i]
		v := &L.views[i]
		cuts := []int{r.Intn(len(line)), v.marker.from, v.marker.from + 5, v.tag.from, v.tag.from + 9, v.tag.from + 32, v.tag.to - 2, v.tag.to, len(line) - 1}
		if v.chainMark.to > 0 {
			cuts = append(cuts, v.chainMark.from+4)
		}
		seen := map[int]bool{}
		for _, c := range cuts {
			if c < 0 || c >= len(line) || seen[c] || (light && r.Intn(2) == 0) {
				continue
			}
			seen[c] = true
			reg := v.region(format, c)
			nl := append([]byte{}, line[:c]...)
			markerLost := c < v.marker.to
			// what is left is the entry without its new-chain marker (cef: white space after the tag is not part of the entry)
			cleanStrip := format != "json" && v.chainMark.to > 0 && (c == v.chainMark.from || (format == "cef" && c > v.tag.to && len(bytes.TrimSpace(line[v.tag.to:c])) == 0))
			// entry cut short, later lines kept
			e := L.inPlace("truncate-entry", reg, i, nl, markerLost)
			if e.judged && cleanStrip && L.prevProt(i) < 0 {
				e.judged, e.why = false, "new-chain marker removed from the first protected entry (no effect on meaning)"
			}
			yield(e)
			// file cut here
			t := edit{kind: "truncate-log", region: reg, line: i, noFinalNL: true}
			t.lines = append(append([][]byte{}, L.lines[:i]...), nl)
			t.limit = i
			switch {
			case markerLost:
				t.why = "tail-equivalent (cut before the tag: the remainder is not marked as protected)"
			case cleanStrip && L.prevProt(i) < 0:
				t.why = "new-chain marker removed from the first protected entry (no effect on meaning)"
			default:
				t.judged = true
			}
			yield(t)
		}
	}

	// --- tag replacement
	for _, i := range L.prot {
		line := L.lines[i]
		v := &L.views[i]
		withTag := func(tag string) []byte {
			return append(append(append([]byte{}, line[:v.tag.from]...), tag...), line[v.tag.to:]...)
		}
		old := string(line[v.tag.from:v.tag.to])
		cands := []struct{ name, tag string }{
			{"random", hex.EncodeToString(gen.Bytes(r, 32))},
			{"empty", ""},
			{"prefix-31-bytes", old[:62]},
			{"prefix-1-byte", old[:2]},
			{"extended", old + "00"},
			{"zero", strings.Repeat("0", 64)},
		}
		if p := L.prevProt(i); p >= 0 {
			cands = append(cands, struct{ name, tag string }{"of-previous-entry", string(L.lines[p][L.views[p].tag.from:L.views[p].tag.to])})
		}
		if p := L.nextProt(i); p >= 0 {
			cands = append(cands, struct{ name, tag string }{"of-next-entry", string(L.lines[p][L.views[p].tag.from:L.views[p].tag.to])})
		}
		for _, c := range cands {
			if light && r.Intn(2) == 0 {
				continue
			}
			e := L.inPlace("replace-tag-"+c.name, "tag", i, withTag(c.tag), false)
			yield(e)
		}
		if up := strings.ToUpper(old); up != old {
			e := L.inPlace("replace-tag-uppercase", "tag", i, withTag(up), false)
			e.judged, e.why = false, "equivalent encoding of the same entry"
			yield(e)
		}
	}

	// --- chain markers
	for _, i := range L.prot {
		line := L.lines[i]
		v := &L.views[i]
		if v.start {
			var nl []byte
			if format == "json" {
				to := v.chainMark.to
				if to < len(line) && line[to] == ',' {
					to++
				}
				nl = append(append([]byte{}, line[:v.chainMark.from]...), line[to:]...)
			} else {
				nl = append(append([]byte{}, line[:v.chainMark.from]...), line[v.chainMark.to:]...)
			}
			e := L.inPlace("strip-chain-new", "chain-marker", i, nl, false)
			if L.prevProt(i) < 0 {
				e.judged, e.why = false, "new-chain marker removed from the first protected entry (no effect on meaning)"
			}
			yield(e)
		} else {
			hasChain := false
			for _, m := range v.members {
				if m.key == "chain" {
					hasChain = true
				}
			}
			if format == "json" {
				if !hasChain {
					nl := append([]byte(`{"chain":"new",`), line[1:]...)
					yield(L.inPlace("forge-chain-new", "chain-marker", i, nl, false))
				}
			} else {
				yield(L.inPlace("forge-chain-new", "chain-marker", i, append(append([]byte{}, line...), " chain=new"...), false))
			}
		}
		if !v.endMarker {
			if format == "json" {
				hasChain := false
				for _, m := range v.members {
					if m.key == "chain" {
						hasChain = true
					}
				}
				if !hasChain {
					yield(L.inPlace("forge-chain-end", "auth", i, append([]byte(`{"chain":"end",`), line[1:]...), false))
				}
			} else {
				ins := []byte(" chain=end")
				nl := append(append(append([]byte{}, line[:v.marker.from]...), ins...), line[v.marker.from:]...)
				yield(L.inPlace("forge-chain-end", "auth", i, nl, false))
				yield(L.inPlace("forge-chain-end-after-tag", "tail", i, append(append([]byte{}, line...), " chain=end"...), false))
			}
		} else {
			var nl []byte
			if format == "json" {
				for _, m := range v.members {
					if m.key == "chain" {
						to := m.valTok.to
						if to < len(line) && line[to] == ',' {
							to++
						}
						nl = append(append([]byte{}, line[:m.keyTok.from]...), line[to:]...)
					}
				}
			} else if p := bytes.Index(line[:v.marker.from], []byte("chain=end")); p >= 0 {
				from, to := p, p+len("chain=end")
				if from > 0 && line[from-1] == ' ' {
					from--
				} else if to < len(line) && line[to] == ' ' {
					to++
				}
				nl = append(append([]byte{}, line[:from]...), line[to:]...)
			}
			if nl != nil {
				yield(L.inPlace("strip-chain-end", "auth", i, nl, false))
			}
		}
	}

	// --- bytes appended to an entry's line
	for _, i := range L.prot {
		if r.Intn(2) == 0 || len(L.prot) <= 8 {
			yield(L.inPlace("append-junk", "tail", i, append(append([]byte{}, L.lines[i]...), " x"...), false))
			e := L.inPlace("append-whitespace", "tail", i, append(append([]byte{}, L.lines[i]...), ' '), false)
			e.judged, e.why = false, "trailing whitespace is not part of the entry"
			yield(e)
		}
	}

	// --- JSON structure-aware rewrites
	if format == "json" {
		for _, i := range L.prot {
			L.jsonEdits(r, i, yield)
			L.jsonTypeEdits(i, yield)
		}
	}

	// --- data added around / inside an entry without touching its bytes (around.go): a sample of the catalogue per entry
	nAdd := 3
	if light && L.hist == nil {
		nAdd = 2 // thorough tier, 5 000 logs
	}
	for _, i := range L.prot {
		L.addedSampled(r, i, nAdd, yield)
	}
}

func (L *prodLog) jsonEdits(r *gen.Rand, i int, yield func(edit)) {
	line := L.lines[i]
	v := &L.views[i]
	ms := v.members
	if len(ms) < 3 {
		return
	}
	member := func(m jsonMember) []byte { return line[m.keyTok.from:m.valTok.to] }
	build := func(parts [][]byte) []byte {
		return append(append([]byte("{"), bytes.Join(parts, []byte(","))...), '}')
	}
	// member order reversed: the same JSON object
	var rev [][]byte
	for k := len(ms) - 1; k >= 0; k-- {
		rev = append(rev, member(ms[k]))
	}
	e := L.inPlace("json-reorder-members", "entry", i, build(rev), false)
	e.judged, e.why = false, "equivalent encoding of the same entry"
	yield(e)
	// white space between tokens
	ws := bytes.Replace(line, []byte(`":`), []byte(`" : `), 1)
	e = L.inPlace("json-insert-whitespace", "entry", i, ws, false)
	e.judged, e.why = false, "equivalent encoding of the same entry"
	yield(e)

	usable := func(m jsonMember) bool { return m.key != "integrity" && m.key != "chain" }
	// two members with string values exchange their values
	var strs []int
	for k, m := range ms {
		if usable(m) && m.valIsStr {
			strs = append(strs, k)
		}
	}
	if len(strs) >= 2 {
		a := strs[r.Intn(len(strs))]
		b := strs[r.Intn(len(strs))]
		if a != b && !bytes.Equal(line[ms[a].valTok.from:ms[a].valTok.to], line[ms[b].valTok.from:ms[b].valTok.to]) {
			var parts [][]byte
			for k, m := range ms {
				val := line[m.valTok.from:m.valTok.to]
				if k == a {
					val = line[ms[b].valTok.from:ms[b].valTok.to]
				} else if k == b {
					val = line[ms[a].valTok.from:ms[a].valTok.to]
				}
				parts = append(parts, append(append(append([]byte{}, line[m.keyTok.from:m.keyTok.to]...), ':'), val...))
			}
			yield(L.inPlace("json-swap-values", "val:"+regionName(ms[a].key)+"+"+regionName(ms[b].key), i, build(parts), false))
		}
	}
	// two neighbouring members folded into one member whose NAME spells the first member, the separator word and the second name
	sorted := append([]jsonMember{}, ms...)
	sort.Slice(sorted, func(a, b int) bool { return sorted[a].key < sorted[b].key })
	var pairs [][2]jsonMember
	for k := 0; k+1 < len(sorted); k++ {
		if usable(sorted[k]) && usable(sorted[k+1]) {
			pairs = append(pairs, [2]jsonMember{sorted[k], sorted[k+1]})
		}
	}
	if len(pairs) > 0 {
		p := pairs[r.Intn(len(pairs))]
		newKey := p[0].key + "delimiter" + string(line[p[0].valTok.from:p[0].valTok.to]) + "delimiter" + "delimiter" + p[1].key
		kb, _ := json.Marshal(newKey)
		var parts [][]byte
		for _, m := range ms {
			switch m.key {
			case p[0].key:
				parts = append(parts, append(append(append([]byte{}, kb...), ':'), line[p[1].valTok.from:p[1].valTok.to]...))
			case p[1].key:
			default:
				parts = append(parts, member(m))
			}
		}
		yield(L.inPlace("json-fold-two-members-into-one-name", "key:"+regionName(p[0].key)+"+"+regionName(p[1].key), i, build(parts), false))
	}
}

// literalKind: s is, verbatim, the spelling of a JSON number / boolean / null ("" otherwise).
func literalKind(s string) string {
	switch s {
	case "true", "false":
		return "boolean"
	case "null":
		return "null"
	}
	if s == "" || !strings.ContainsRune("-0123456789", rune(s[0])) || !strings.ContainsRune("0123456789", rune(s[len(s)-1])) {
		return ""
	}
	for _, c := range s {
		if !strings.ContainsRune("-+.eE0123456789", c) {
			return ""
		}
	}
	if !json.Valid([]byte(s)) {
		return ""
	}
	return "number"
}

// tokenKind names the type of a non-string JSON value token ("" for objects and arrays).
func tokenKind(tok []byte) string {
	if len(tok) == 0 {
		return ""
	}
	switch c := tok[0]; {
	case c == 't' || c == 'f':
		return "boolean"
	case c == 'n':
		return "null"
	case c == '-' || (c >= '0' && c <= '9'):
		return "number"
	}
	return ""
}

const sepWord = "delimiter" // logging.JSONKeyValueDelimiter (checked at start-up)

// jsonTypeEdits: edits of ONE member that keep the spelling of its value but change the TYPE or the STRUCTURE of the entry.
//   - a string value that spells a number / true / false / null is replaced by that literal, and a number / boolean / null
//     value by the string of the same spelling ("attempts":"3" <-> "attempts":3);
//   - a string member is moved into the string value of the member that precedes it in the authenticated (sorted) order,
//     spelled value + separator word twice + name + separator word + value; and a string value that spells such a
//     sequence is cut into two members there.
//
// All of them are "changing a protected entry": none decodes to the same JSON value.
func (L *prodLog) jsonTypeEdits(i int, yield func(edit)) {
	line := L.lines[i]
	v := &L.views[i]
	ms := v.members
	usable := func(m jsonMember) bool { return m.key != "integrity" && m.key != "chain" }
	withVal := func(m jsonMember, val []byte) []byte {
		return append(append(append([]byte{}, line[:m.valTok.from]...), val...), line[m.valTok.to:]...)
	}
	str := func(m jsonMember) (string, bool) {
		var s string
		if !m.valIsStr || json.Unmarshal(line[m.valTok.from:m.valTok.to], &s) != nil {
			return "", false
		}
		return s, true
	}
	quote := func(s string) []byte {
		b, _ := json.Marshal(s)
		return b
	}
	for _, m := range ms {
		if !usable(m) {
			continue
		}
		tok := line[m.valTok.from:m.valTok.to]
		if s, ok := str(m); ok {
			if k := literalKind(s); k != "" {
				yield(L.inPlace("json-retype-string-to-"+k, "val:"+regionName(m.key), i, withVal(m, []byte(s)), false))
			}
		} else if k := tokenKind(tok); k != "" {
			yield(L.inPlace("json-retype-"+k+"-to-string", "val:"+regionName(m.key), i, withVal(m, quote(string(tok))), false))
		}
	}
	// the members in the order of the authenticated bytes (the tag and the new-chain marker are not part of them)
	var auth []jsonMember
	names := map[string]bool{}
	for _, m := range ms {
		names[m.key] = true
		if m.key == "integrity" || (m.key == "chain" && v.start) {
			continue
		}
		auth = append(auth, m)
	}
	sort.SliceStable(auth, func(a, b int) bool { return auth[a].key < auth[b].key })
	without := func(drop string, repl map[string][]byte) []byte {
		var parts [][]byte
		for _, m := range ms {
			if m.key == drop {
				continue
			}
			if r, ok := repl[m.key]; ok {
				parts = append(parts, r)
				continue
			}
			parts = append(parts, line[m.keyTok.from:m.valTok.to])
		}
		return append(append([]byte("{"), bytes.Join(parts, []byte(","))...), '}')
	}
	for k := 0; k < len(auth); k++ {
		a := auth[k]
		sa, ok := str(a)
		if !ok || !usable(a) {
			continue
		}
		// fold the next member into this value
		if k+1 < len(auth) && usable(auth[k+1]) {
			b := auth[k+1]
			if sb, ok := str(b); ok && a.key != b.key {
				nv := sa + sepWord + sepWord + b.key + sepWord + sb
				repl := map[string][]byte{a.key: append(append(append([]byte{}, line[a.keyTok.from:a.keyTok.to]...), ':'), quote(nv)...)}
				yield(L.inPlace("json-recut-member-moved-into-previous-value", "val:"+regionName(a.key)+"+"+regionName(b.key), i, without(b.key, repl), false))
			}
		}
		// cut this value into two members
		if p := strings.Index(sa, sepWord+sepWord); p >= 0 {
			rest := sa[p+2*len(sepWord):]
			if q := strings.Index(rest, sepWord); q > 0 {
				name, tail := rest[:q], rest[q+len(sepWord):]
				fits := name > a.key && !names[name] && name != "integrity" && name != "chain" && (k+1 == len(auth) || name < auth[k+1].key)
				if fits {
					two := append(append(append([]byte{}, line[a.keyTok.from:a.keyTok.to]...), ':'), quote(sa[:p])...)
					two = append(append(append(append(two, ','), quote(name)...), ':'), quote(tail)...)
					yield(L.inPlace("json-recut-value-cut-into-two-members", "val:"+regionName(a.key), i, without("", map[string][]byte{a.key: two}), false))
				}
			}
		}
	}
}

func regionName(k string) string {
	switch k {
	case "chain", "integrity", "level", "msg", "product", "timestamp", "unixTime", "version":
		return k
	}
	return "user"
}
