// Package c09 will hold the monitor of property C09 (not built yet; nothing is registered).
package c09
