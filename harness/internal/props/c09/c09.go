// Package c09 monitors "equality search over protected columns finds exactly the matching rows" on the PostgreSQL wire rig.
package c09

import (
	"bytes"
	"context"
	"fmt"

	"github.com/cossacklabs/acra/cmd/acra-translator/common"

	"verif/harness/internal/ev"
	"verif/harness/internal/gen"
	"verif/harness/internal/props"
	"verif/harness/internal/props/c04"
	"verif/harness/internal/rig/fakepg"
	"verif/harness/internal/rig/proxyrig"
)

func init() { props.Register("C09", props.Monitor{Level: "exploration", Run: Run}) }

// MySQLLayer, when set, runs the MySQL part of the monitor (after the PostgreSQL part: Acra's SQL dialect is process-global).
var MySQLLayer func(r *ev.Run)

// Run is the C09 monitor.
func Run(r *ev.Run) {
	r.Rule = "sessions over 2 tables with 1-3 searchable columns each (both envelopes, with/without declared type): a population of 5-60 rows drawn from a small pool (duplicates, prefixes of each other, empty, 1/33/34/200-byte values) is written, then 20-50 statements whose WHERE uses a searchable column (col = v, v = col, col <> v; literal, cast, text/binary placeholder; AND/OR with other conditions and a second searchable column; two-table joins incl. joins ON searchable columns; UPDATE/DELETE ... WHERE) are sent through AcraServer and, identically, to a reference database holding plaintext; the delivered rows must be exactly the reference's. Blind indexes are read from storage: equal plaintexts <=> equal 33-byte prefixes, equal to the translator's query hash. Finally hashes of stored values are swapped by the database and re-read. distinct = (column class, condition form, protocol, parameter format, oracle) tuples"
	r.Assumptions = []string{
		"crypto library replaced by the pure-Go gothemis stand-in (HMAC-SHA256 blind index is Acra's own code)",
		"database replaced by a fake PostgreSQL evaluating the rewritten condition literally (substr(col,1,33) = hash); PostgreSQL protocol only",
		"searchable columns with a per-column client id are not generated (search runs under the session identity)",
	}
	rng := gen.New(r.Seed, "c09")
	n := r.Pick(60, 700)
	for s := 0; s < n; s++ {
		session(r, gen.New(r.Seed, fmt.Sprintf("c09-%d-%d", s, rng.Int63())), s)
	}
	formsPart(r)
	if MySQLLayer != nil {
		MySQLLayer(r)
	}
	r.RequireAtLeast("search_statements_equal_reference", 80)
	r.RequireAtLeast("index_pairs_compared", 200)
	r.RequireAtLeast("tampered_rows_read", 10)
	r.RequireAtLeast("app_encrypted_writes_to_searchable_columns", 5)
}

func tablesFor(rng *gen.Rand) []proxyrig.TableSpec {
	tables := proxyrig.GenTables(rng, 2, c04.Other, func(c proxyrig.ColSpec) bool { return c.ClientID == "" })
	cat := []proxyrig.ColSpec{
		{Name: "s_as", Kind: "search", Envelope: "acrastruct", AppType: fakepg.Bytea, StoreType: fakepg.Bytea},
		{Name: "s_ab", Kind: "search", Envelope: "acrablock", AppType: fakepg.Bytea, StoreType: fakepg.Bytea},
		{Name: "s_ab_str", Kind: "search", Envelope: "acrablock", DataType: "str", AppType: fakepg.Text, StoreType: fakepg.Bytea},
	}
	for ti := range tables {
		have := map[string]bool{}
		for _, c := range tables[ti].Cols {
			have[c.Name] = true
		}
		want := 1 + rng.Intn(2)
		for _, pi := range rng.Perm(len(cat)) {
			if want == 0 {
				break
			}
			if !have[cat[pi].Name] {
				tables[ti].Cols = append(tables[ti].Cols, cat[pi])
				have[cat[pi].Name] = true
			}
			want--
		}
	}
	return tables
}

func session(r *ev.Run, rng *gen.Rand, sidx int) {
	tables := tablesFor(rng)
	w, ac, rc, closeAll, ok := c04.OpenWorld(r, tables, "")
	if !ok {
		return
	}
	defer closeAll()
	g := proxyrig.NewSessGen(rng, tables)
	g.UsePool = true
	var history []string
	step := func(st proxyrig.Step) bool {
		history = append(history, fmt.Sprintf("[%s %s/%s/%s] %s", st.Proto, st.ParamFmt, st.ResFmt, st.Kind, clip(st.SQL, 300)))
		before := r.Counter("owner_replies_equal_reference")
		ok := c04.RunStep(r, w, ac, rc, st, history, sidx)
		if ok && r.Counter("owner_replies_equal_reference") > before && usesSearch(st, tables) {
			r.Count("search_statements_equal_reference", 1)
			r.Distinct(fmt.Sprintf("search|%s|%s|%s|%s", st.Kind, st.Proto, st.ParamFmt, condForm(st.SQL)))
		}
		return ok
	}
	appEnc := c04.AppEncrypt(w)
	isSearch := func(c proxyrig.ColSpec) bool { return c.Kind == "search" }
	insert := func() proxyrig.Step {
		if rng.Intn(5) == 0 {
			// the application encrypted the value itself (AcraWriter / AcraTranslator): the index must still be the plaintext's
			if st, ok := g.AppEncryptedInsert(appEnc, isSearch); ok {
				r.Count("app_encrypted_writes_to_searchable_columns", 1)
				return st
			}
		}
		return g.Insert()
	}
	pop := 3 + rng.Intn(12)
	for i := 0; i < pop; i++ {
		if !step(insert()) {
			return
		}
	}
	indexOracle(r, w, tables, sidx)
	nq := 20 + rng.Intn(31)
	for i := 0; i < nq; i++ {
		var st proxyrig.Step
		switch x := rng.Intn(100); {
		case x < 50:
			st = g.SearchSelect()
		case x < 65:
			st = g.SearchJoin()
		case x < 80:
			st = g.SearchWrite()
		case x < 90:
			st = insert()
		default:
			st = g.Next()
		}
		if !step(st) {
			return
		}
	}
	indexOracle(r, w, tables, sidx)
	tamperOracle(r, w, ac, tables, history, sidx)
}

func clip(s string, n int) string {
	if len(s) > n {
		return s[:n] + "..."
	}
	return s
}

func usesSearch(st proxyrig.Step, tables []proxyrig.TableSpec) bool {
	i := bytes.Index([]byte(st.SQL), []byte(" where "))
	if i < 0 {
		i = bytes.Index([]byte(st.SQL), []byte(" on "))
	}
	if i < 0 {
		return false
	}
	return bytes.Contains([]byte(st.SQL[i:]), []byte("s_as")) || bytes.Contains([]byte(st.SQL[i:]), []byte("s_ab"))
}

func condForm(sql string) string {
	b := []byte(sql)
	f := ""
	if bytes.Contains(b, []byte(" <> ")) {
		f += "ne"
	} else {
		f += "eq"
	}
	if bytes.Contains(b, []byte(" join ")) {
		f += "+join"
	}
	if bytes.Contains(b, []byte(" and ")) {
		f += "+and"
	}
	if bytes.Contains(b, []byte(" or ")) {
		f += "+or"
	}
	if bytes.Contains(b, []byte("$")) {
		f += "+param"
	}
	if bytes.Contains(b, []byte("::")) {
		f += "+cast"
	}
	return f
}

// indexOracle: equal plaintexts <=> equal blind indexes, and index == translator's GenerateQueryHash.
func indexOracle(r *ev.Run, w *c04.World, tables []proxyrig.TableSpec, sidx int) {
	ts, err := common.NewTranslatorService(&common.TranslatorData{Keystorage: w.KS})
	if err != nil {
		panic(err)
	}
	for _, t := range tables {
		srows, rrows := w.Store.DB.Snapshot(t.Name), w.Ref.DB.Snapshot(t.Name)
		if len(srows) != len(rrows) {
			continue // reported by the state oracle
		}
		for ci, c := range t.Cols {
			if c.Kind != "search" {
				continue
			}
			type ent struct {
				plain []byte
				idx   []byte
			}
			var ents []ent
			for ri := range rrows {
				pv := rrows[ri][ci]
				sv, _ := srows[ri][ci].([]byte)
				if pv == nil {
					continue
				}
				var pb []byte
				switch x := pv.(type) {
				case string:
					pb = []byte(x)
				case []byte:
					pb = x
				}
				if len(pb) == 0 || len(sv) < 33 {
					continue
				}
				ents = append(ents, ent{pb, sv[:33]})
				r.Case()
				h, err := ts.GenerateQueryHash(context.Background(), append([]byte{}, pb...), []byte(c04.Owner), nil)
				if err != nil || !bytes.Equal(h, sv[:33]) {
					r.Violation(fmt.Sprintf("stored blind index differs from the translator's query hash: column=%s/%s/%s", c.Kind, c.Envelope, c.DataType),
						map[string]interface{}{"session": sidx, "plaintext": ev.Hex(pb), "stored_prefix": ev.Hex(sv[:33]), "translator_hash": ev.Hex(h), "err": fmt.Sprint(err)})
				} else {
					r.Count("index_equals_translator_hash", 1)
				}
			}
			for i := 0; i < len(ents); i++ {
				for j := i + 1; j < len(ents); j++ {
					r.Count("index_pairs_compared", 1)
					pe, ie := bytes.Equal(ents[i].plain, ents[j].plain), bytes.Equal(ents[i].idx, ents[j].idx)
					if pe != ie {
						r.Violation(fmt.Sprintf("blind index is not a function of the plaintext (plain equal=%v, index equal=%v): column=%s/%s/%s", pe, ie, c.Kind, c.Envelope, c.DataType),
							map[string]interface{}{"session": sidx, "a": ev.Hex(ents[i].plain), "b": ev.Hex(ents[j].plain), "ia": ev.Hex(ents[i].idx), "ib": ev.Hex(ents[j].idx)})
					}
					if pe {
						r.Distinct(fmt.Sprintf("index-equal|%s/%s/%s", c.Kind, c.Envelope, c.DataType))
					} else {
						r.Distinct(fmt.Sprintf("index-differ|%s/%s/%s", c.Kind, c.Envelope, c.DataType))
					}
				}
			}
		}
	}
}

// tamperOracle: the database swaps the blind indexes of two rows holding different plaintexts; such a row must not be handed out as valid plaintext.
func tamperOracle(r *ev.Run, w *c04.World, ac *proxyrig.PGClient, tables []proxyrig.TableSpec, history []string, sidx int) {
	for _, t := range tables {
		for ci, c := range t.Cols {
			if c.Kind != "search" {
				continue
			}
			srows, rrows := w.Store.DB.Snapshot(t.Name), w.Ref.DB.Snapshot(t.Name)
			if len(srows) != len(rrows) {
				continue
			}
			// find two rows with different, long enough plaintexts
			a, b := -1, -1
			plain := func(i int) []byte {
				switch x := rrows[i][ci].(type) {
				case string:
					return []byte(x)
				case []byte:
					return x
				}
				return nil
			}
			for i := range rrows {
				if sv, _ := srows[i][ci].([]byte); len(plain(i)) >= 9 && len(sv) > 33 {
					if a < 0 {
						a = i
					} else if !bytes.Equal(plain(i), plain(a)) {
						b = i
						break
					}
				}
			}
			if a < 0 || b < 0 {
				continue
			}
			ha := append([]byte{}, srows[a][ci].([]byte)[:33]...)
			hb := append([]byte{}, srows[b][ci].([]byte)[:33]...)
			w.Store.DB.TamperAll(t.Name, c.Name, func(row int, v fakepg.Value) fakepg.Value {
				sv, ok := v.([]byte)
				if !ok || len(sv) < 33 {
					return v
				}
				nv := append([]byte{}, sv...)
				if row == a {
					copy(nv, hb)
				} else if row == b {
					copy(nv, ha)
				}
				return nv
			})
			ida, idb := rrows[a][0].(int64), rrows[b][0].(int64)
			for _, q := range []struct {
				sql   string
				bin   bool
				label string
			}{
				{fmt.Sprintf("select id, %s from %s where id in (%d, %d) order by id", c.Name, t.Name, ida, idb), false, "by-id/text"},
				{fmt.Sprintf("select id, %s from %s where id in (%d, %d) order by id", c.Name, t.Name, ida, idb), true, "by-id/binary"},
				{fmt.Sprintf("select id, %s from %s where %s = %s", c.Name, t.Name, c.Name, valOf(plain(b), c).Literal(0, false)), false, "by-search/text"},
			} {
				r.Case()
				var msgs []proxyrig.BackendMsg
				var err error
				if q.bin {
					msgs, err = ac.Extended("", q.sql, nil, nil, nil, []int16{1}, 0)
				} else {
					msgs, err = ac.Simple(q.sql)
				}
				if err != nil {
					r.Inconclusive("tamper read failed: " + err.Error())
					return
				}
				// only the two tampered rows are judged (other rows may legitimately hold the same plaintext)
				var stream []byte
				for _, row := range proxyrig.Rows(msgs) {
					if len(row) < 2 {
						continue
					}
					var id int64
					if q.bin && len(row[0]) == 4 {
						id = int64(int32(uint32(row[0][0])<<24 | uint32(row[0][1])<<16 | uint32(row[0][2])<<8 | uint32(row[0][3])))
					} else {
						fmt.Sscan(string(row[0]), &id)
					}
					if id == ida || id == idb {
						stream = append(stream, row[1]...)
						stream = append(stream, 0)
					}
				}
				r.Count("tampered_rows_read", 1)
				for _, p := range [][]byte{plain(a), plain(b)} {
					if how := leakIn(stream, p); how != "" {
						r.Violation(fmt.Sprintf("value whose blind index does not match its content delivered as plaintext (%s): column=%s/%s/%s read=%s", how, c.Kind, c.Envelope, c.DataType, q.label),
							map[string]interface{}{"session": sidx, "schema": w.Schema, "history": history, "sql": q.sql, "plaintext": ev.Hex(p)})
					}
				}
				r.Distinct(fmt.Sprintf("tamper|%s/%s/%s|%s", c.Kind, c.Envelope, c.DataType, q.label))
			}
			// restore so that later columns see a consistent store
			w.Store.DB.TamperAll(t.Name, c.Name, func(row int, v fakepg.Value) fakepg.Value {
				sv, ok := v.([]byte)
				if !ok || len(sv) < 33 {
					return v
				}
				nv := append([]byte{}, sv...)
				if row == a {
					copy(nv, ha)
				} else if row == b {
					copy(nv, hb)
				}
				return nv
			})
		}
	}
}

func valOf(p []byte, c proxyrig.ColSpec) proxyrig.Val {
	if c.AppType == fakepg.Text {
		return proxyrig.Val{Type: fakepg.Text, S: string(p)}
	}
	return proxyrig.Val{Type: fakepg.Bytea, B: p}
}

func leakIn(stream, p []byte) string {
	if len(p) > 64 {
		p = p[:64]
	}
	if bytes.Contains(stream, p) {
		return "raw"
	}
	h := []byte(fmt.Sprintf("%x", p))
	if bytes.Contains(stream, h) {
		return "hex"
	}
	return ""
}
