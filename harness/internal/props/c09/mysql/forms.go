package mysql

// The "forms" part of C09 on the MySQL rig: proxyrig.MyFormGen statements (one comparison of a searchable column with a value in
// every position of a statement, MySQL's operator family around equality, searchable placeholders bound together with
// consistently-tokenized and ordinary ones, string literals whose text spells a hex-number literal) judged like the
// PostgreSQL forms part (props/c09/forms.go): rewritten => rows must be the reference's; forwarded untouched and rows differ
// => violation only where the property demands the rewrite (comparison written with = / <> / != that selects rows), else
// counted.

import (
	"fmt"
	"sort"
	"strings"
	"time"

	"verif/harness/internal/ev"
	"verif/harness/internal/gen"
	c04my "verif/harness/internal/props/c04/mysql"
	"verif/harness/internal/rig/fakemysql"
	"verif/harness/internal/rig/fakepg"
	"verif/harness/internal/rig/proxyrig"
)

func formsPart(r *ev.Run) {
	r.Rule += " || MySQL forms part: as the PostgreSQL forms part in MySQL spelling (operator family !=, <=>, NOT (.. <=> ..), [NOT] IN, NULLIF, [NOT] LIKE; no arrays / casts), plus string literals and bound strings whose text spells a hex-number literal ('0x6162', odd digit count, non-hex tail) searched in columns that hold both that text and the bytes it would denote"
	rng := gen.New(r.Seed, "c09my-forms")
	n := r.Pick(10, 120)
	for s := 0; s < n; s++ {
		formSession(r, gen.New(r.Seed, fmt.Sprintf("c09my-forms-%d-%d", s, rng.Int63())), s)
	}
	r.RequireAtLeast("mysql_forms_statements_judged_rewritten_equal_reference", 60)
	r.RequireSetAtLeast("mysql_forms_classes_evaluated", len(proxyrig.MyFormNames())-2)
	r.RequireAtLeast("mysql_forms_mixed_placeholder_statements_evaluated", 15)
	r.RequireAtLeast("mysql_forms_lookalike_string_searches_evaluated", 10)
	r.RequireAtLeast("mysql_forms_statements_selecting_rows_on_both_sides", 40)
}

func formTables(rng *gen.Rand) []proxyrig.TableSpec {
	tables := tablesFor(rng)
	cat := []proxyrig.ColSpec{
		{Name: "t_str", Kind: "token", TokenType: "str", Consist: true, AppType: fakepg.Text, StoreType: fakepg.Text},
		{Name: "t_i32", Kind: "token", TokenType: "int32", Consist: true, AppType: fakepg.Int4, StoreType: fakepg.Int4},
		{Name: "t_email", Kind: "token", TokenType: "email", Consist: true, AppType: fakepg.Text, StoreType: fakepg.Text},
	}
	for ti := range tables {
		if len(proxyrig.ConsistentTokenCols(tables[ti])) == 0 {
			tables[ti].Cols = append(tables[ti].Cols, cat[rng.Intn(len(cat))])
		}
	}
	return tables
}

func formSession(r *ev.Run, rng *gen.Rand, sidx int) {
	tables := formTables(rng)
	w, ac, rc, closeAll, ok := c04my.OpenWorld(r, tables)
	if !ok {
		return
	}
	defer closeAll()
	g := proxyrig.NewMySessGen(rng, tables)
	g.EnableSearchPools()
	var history []string
	note := func(st proxyrig.MyStep) {
		history = append(history, fmt.Sprintf("[%s/%s] %s", st.Proto, st.Kind, clip(st.SQL, 300)))
	}
	fg := &proxyrig.MyFormGen{G: g, Rows: func(t string) [][]fakepg.Value { return w.Ref.DB.Snapshot(t) }}
	pop := 8 + rng.Intn(7)
	for i := 0; i < pop; i++ {
		st := g.Insert()
		note(st)
		if !c04my.RunStep(r, w, ac, rc, st, history, 100000+sidx) {
			return
		}
	}
	for k := 0; k < 2; k++ {
		st, search, ok := fg.LookalikeInsert()
		if !ok {
			break
		}
		note(st)
		if !c04my.RunStep(r, w, ac, rc, st, history, 100000+sidx) {
			return
		}
		for i := 0; i < 2; i++ {
			fs := search()
			note(fs.MyStep)
			if !runForm(r, w, ac, rc, fs, history, sidx) {
				return
			}
		}
	}
	nf := len(proxyrig.MyFormNames())
	for i := 0; i < nf; i++ {
		if i%12 == 11 {
			st := g.Insert()
			note(st)
			if !c04my.RunStep(r, w, ac, rc, st, history, 100000+sidx) {
				return
			}
		}
		fs, ok := fg.Next()
		if !ok {
			break
		}
		note(fs.MyStep)
		if !runForm(r, w, ac, rc, fs, history, sidx) {
			return
		}
	}
}

func rowSet(res *proxyrig.MyResult) []string {
	var out []string
	for _, row := range res.Rows {
		var b strings.Builder
		for _, f := range row {
			if f.Null {
				b.WriteString("NULL|")
			} else {
				fmt.Fprintf(&b, "%x|", f.B)
			}
		}
		out = append(out, b.String())
	}
	sort.Strings(out)
	return out
}

func runForm(r *ev.Run, w *c04my.World, ac, rc *proxyrig.MyClient, fs proxyrig.MyFormStep, history []string, sidx int) bool {
	r.Case()
	refBefore := len(w.Ref.Unsupported())
	refRes := proxyrig.RunMyStep(rc, fs.MyStep)
	for _, rr := range refRes {
		if rr.Broken {
			r.Inconclusive("mysql forms: reference database exchange failed: " + fmt.Sprint(rr.Err))
			return false
		}
		if rr.Err != nil {
			// rejected by the reference, or not evaluable by the fake server: rig matter
			r.Count("mysql_forms_rig_reference_rejected_statement", 1)
			r.SampleN("mysql-forms-ref-reject", 5, map[string]interface{}{"sql": clip(fs.SQL, 300), "error": rr.ErrMsg, "form": fs.Form, "not_evaluable": len(w.Ref.Unsupported()) > refBefore})
			return true
		}
	}
	logStart := w.Store.LogLen()
	unsBefore := len(w.Store.Unsupported())
	acraRes := proxyrig.RunMyStep(ac, fs.MyStep)
	// input class that goes into the signature: a literal whose text starts with 0x (values taken from rows written by LookalikeInsert)
	class := ""
	if fs.ValueBy == "literal" {
		for _, v := range fs.Searched {
			if strings.HasPrefix(string(v.Bytes()), "0x") {
				class = " searched=text-starting-with-0x"
			}
		}
	}
	sig := func(what string) string {
		return fmt.Sprintf("mysql search form: %s: form=%s value=%s%s", what, fs.Form, fs.ValueBy, class)
	}
	if fs.Proto != "text" {
		for i := 0; i < 200; i++ {
			lg := w.Store.Log()
			if len(lg) > logStart && lg[len(lg)-1].Cmd == fakemysql.ComStmtClose {
				break
			}
			time.Sleep(2 * time.Millisecond)
		}
	}
	window := w.Store.Log()[logStart:]
	var forwarded []string
	for _, m := range window {
		if m.SQL != "" && (m.Cmd == fakemysql.ComQuery || m.Cmd == fakemysql.ComStmtPrepare) {
			forwarded = append(forwarded, m.SQL)
		}
	}
	stream := c04my.DBStream(window)
	detail := func(extra map[string]interface{}) map[string]interface{} {
		m := map[string]interface{}{"session": sidx, "schema": w.Schema, "history": history, "statement": fs.SQL, "params": fs.ParamDesc, "proto": fs.Proto, "forwarded": forwarded, "form": fs.Form, "demanded_by_property": fs.Demand}
		var sv []string
		for _, v := range fs.Searched {
			sv = append(sv, ev.Hex(v.Bytes()))
		}
		m["searched"] = sv
		for k, v := range extra {
			m[k] = v
		}
		return m
	}
	for _, ar := range acraRes {
		if ar.Timeout {
			r.Inconclusive("mysql forms: watchdog: no reply through acra for: " + clip(fs.SQL, 120))
			return false
		}
		if ar.Broken {
			r.Violation(sig("connection through acra broke"), detail(map[string]interface{}{"err": fmt.Sprint(ar.Err)}))
			return false
		}
	}
	if un := w.Store.Unsupported(); len(un) > unsBefore {
		r.Count("mysql_forms_rig_inconclusive_forwarded_statement_not_evaluable", 1)
		r.SampleN("mysql-forms-unsupported", 5, map[string]interface{}{"forwarded": un[len(un)-1], "client_sql": clip(fs.SQL, 300), "form": fs.Form})
		return false
	}
	rewritten := false
	for _, f := range forwarded {
		if strings.Contains(strings.ToLower(f), "substr(") {
			rewritten = true
		}
	}
	how := "forwarded-untouched"
	if rewritten {
		how = "rewritten"
	}
	r.SetAdd("mysql_forms_classes_evaluated", fs.Form)
	r.Count("mysql_forms_statements_"+how, 1)
	if strings.HasPrefix(fs.Form, "mixed:") {
		r.Count("mysql_forms_mixed_placeholder_statements_evaluated", 1)
	}
	if strings.HasPrefix(fs.Form, "value:") {
		r.Count("mysql_forms_lookalike_string_searches_evaluated", 1)
	}
	equal := len(acraRes) == len(refRes)
	var refRows, gotRows []string
	var acraErr string
	for i := range refRes {
		if i >= len(acraRes) {
			break
		}
		if acraRes[i].Err != nil {
			acraErr = fmt.Sprintf("%d: %s", acraRes[i].ErrNo, acraRes[i].ErrMsg)
			equal = false
			continue
		}
		refRows, gotRows = rowSet(refRes[i]), rowSet(acraRes[i])
		if len(refRows) != len(gotRows) {
			equal = false
			break
		}
		for k := range refRows {
			if refRows[k] != gotRows[k] {
				equal = false
			}
		}
		if !equal {
			break
		}
	}
	r.SampleN("myform:"+fs.Form, 1, map[string]interface{}{"client_sql": clip(fs.SQL, 300), "forwarded": forwarded, "proto": fs.Proto, "rows_reference": len(refRows), "rows_through_acra": len(gotRows), "rewritten": rewritten})
	if equal {
		if rewritten {
			r.Count("mysql_forms_statements_judged_rewritten_equal_reference", 1)
		} else {
			r.Count("mysql_forms_statements_untouched_equal_reference", 1)
		}
		if len(refRows) > 0 {
			r.Count("mysql_forms_statements_selecting_rows_on_both_sides", 1)
		}
		r.Distinct(fmt.Sprintf("my|form|%s|%s|%s|%s", fs.Form, fs.ValueBy, fs.Proto, how))
		return true
	}
	inClear := false
	for _, v := range fs.Searched {
		if b := v.Bytes(); len(b) >= 9 && leakIn(stream, b) != "" {
			inClear = true
		}
	}
	extra := map[string]interface{}{"rows_reference": refRows, "rows_through_acra": gotRows, "searched_value_reached_database_in_clear": inClear,
		"store_rows": clip(fmt.Sprint(w.Store.DB.Snapshot(fs.Table)), 3000), "ref_rows": clip(fmt.Sprint(w.Ref.DB.Snapshot(fs.Table)), 3000)}
	if acraErr != "" {
		extra["error_through_acra"] = acraErr
	}
	switch {
	case rewritten && acraErr != "":
		r.Violation(sig("rewritten statement fails in the database, the reference answers"), detail(extra))
	case rewritten:
		r.Violation(sig("rewritten condition selects other rows than the reference"), detail(extra))
	case fs.Demand:
		r.Violation(sig("equality condition forwarded unrewritten, rows differ from the reference"), detail(extra))
	default:
		r.Count("mysql_forms_not_demanded_forwarded_untouched_rows_differ", 1)
		r.SetAdd("mysql_forms_classes_not_judged_forwarded_untouched", fs.Form)
	}
	return true
}
