// Package mysql is the MySQL part of the C09 monitor ("equality search over protected columns finds exactly the matching
// rows"): the PostgreSQL monitor's workload and oracles over a MyWorld (fake MySQL behind MySQL-mode AcraServers, reference
// fake MySQL holding plaintext), driven by the stock go-sql-driver/mysql client.
package mysql

import (
	"bytes"
	"context"
	"fmt"
	"os"
	"strings"
	"time"

	"github.com/cossacklabs/acra/cmd/acra-translator/common"

	"verif/harness/internal/ev"
	"verif/harness/internal/gen"
	"verif/harness/internal/props/c04"
	c04my "verif/harness/internal/props/c04/mysql"
	"verif/harness/internal/rig/fakepg"
	"verif/harness/internal/rig/proxyrig"
)

// Layer runs the MySQL part of C09. Acra's SQL dialect is process-global: it is switched to MySQL here and back at the end.
func Layer(r *ev.Run) {
	proxyrig.SetDialect(true)
	defer proxyrig.SetDialect(false)
	t0 := time.Now()
	defer func() { r.Extra("mysql_layer_wall_s", time.Since(t0).Seconds()) }()
	r.Rule += " || MySQL part: the same sessions in MySQL spelling through a MySQL-mode AcraServer (go-sql-driver client; COM_QUERY with literals '..', X'..', 0x.., _binary'..' and COM_STMT_PREPARE/EXECUTE with `?` placeholders, one-shot / explicit / interleaved): population from per-column pools (duplicates, prefixes, empty, 1/33/34/200-byte values), then statements whose WHERE uses a searchable column (col = v, v = col, col <> v; AND/OR with id conditions and with a SECOND searchable column, i.e. two searchable bound values in one execute; two-table joins incl. ON j1.s = j2.s; UPDATE/DELETE ... WHERE), rows delivered through Acra = rows of the reference; index oracle on storage (equal plaintexts <=> equal 33-byte prefixes = translator's query hash); index-swap tamper oracle"
	r.Assumptions = append(r.Assumptions, "MySQL part: fake MySQL evaluating the rewritten condition literally (convert(substr(col, 1, 33), binary) = 0x<hash>, substr(col, 1, 33) = ?); string comparison byte-wise")
	rng := gen.New(r.Seed, "c09-mysql")
	n := r.Pick(30, 350)
	only := -1
	if v := os.Getenv("VERIF_C09MY_SESSION"); v != "" {
		fmt.Sscan(v, &only)
	}
	for s := 0; s < n; s++ {
		srng := gen.New(r.Seed, fmt.Sprintf("c09my-%d-%d", s, rng.Int63()))
		if only >= 0 && s != only {
			continue
		}
		session(r, srng, s)
	}
	if only >= 0 {
		return
	}
	formsPart(r)
	r.RequireAtLeast("mysql_search_statements_equal_reference", 100)
	r.RequireAtLeast("mysql_search_two_searchable_placeholders_equal_reference", 15)
	r.RequireAtLeast("mysql_index_pairs_compared", 400)
	r.RequireAtLeast("mysql_tampered_rows_read", 12)
}

func tablesFor(rng *gen.Rand) []proxyrig.TableSpec {
	tables := proxyrig.GenTables(rng, 2, c04.Other, func(c proxyrig.ColSpec) bool { return c.ClientID == "" })
	cat := []proxyrig.ColSpec{
		{Name: "s_as", Kind: "search", Envelope: "acrastruct", AppType: fakepg.Bytea, StoreType: fakepg.Bytea},
		{Name: "s_ab", Kind: "search", Envelope: "acrablock", AppType: fakepg.Bytea, StoreType: fakepg.Bytea},
		{Name: "s_ab_str", Kind: "search", Envelope: "acrablock", DataType: "str", AppType: fakepg.Text, StoreType: fakepg.Bytea},
	}
	for ti := range tables {
		have := map[string]bool{}
		for _, c := range tables[ti].Cols {
			have[c.Name] = true
		}
		want := 1 + rng.Intn(2)
		for _, pi := range rng.Perm(len(cat)) {
			if want == 0 {
				break
			}
			if !have[cat[pi].Name] {
				tables[ti].Cols = append(tables[ti].Cols, cat[pi])
				have[cat[pi].Name] = true
			}
			want--
		}
	}
	return tables
}

func clip(s string, n int) string {
	if len(s) > n {
		return s[:n] + "..."
	}
	return s
}

func session(r *ev.Run, rng *gen.Rand, sidx int) {
	tables := tablesFor(rng)
	w, ac, rc, closeAll, ok := c04my.OpenWorld(r, tables)
	if !ok {
		return
	}
	defer closeAll()
	g := proxyrig.NewMySessGen(rng, tables)
	g.EnableSearchPools()
	var history []string
	step := func(st proxyrig.MyStep) bool {
		history = append(history, fmt.Sprintf("[%s/%s] %s", st.Proto, st.Kind, clip(st.SQL, 300)))
		before := r.Counter("mysql_owner_replies_equal_reference")
		ok := c04my.RunStep(r, w, ac, rc, st, history, sidx)
		if ok && r.Counter("mysql_owner_replies_equal_reference") > before && strings.HasPrefix(st.Tag, "search:") {
			r.Count("mysql_search_statements_equal_reference", 1)
			if strings.Contains(st.Tag, "both-values-bound-as-placeholders") {
				r.Count("mysql_search_two_searchable_placeholders_equal_reference", 1)
			}
			proto := "literal"
			if len(st.Args) > 0 {
				proto = "placeholder"
			}
			r.Distinct(fmt.Sprintf("my|search|%s|%s|%s|%s", st.Kind, st.Proto, proto, st.Tag))
		}
		return ok
	}
	pop := 3 + rng.Intn(12)
	for i := 0; i < pop; i++ {
		if !step(g.Insert()) {
			return
		}
	}
	indexOracle(r, w, tables, sidx)
	nq := 20 + rng.Intn(31)
	for i := 0; i < nq; i++ {
		var st proxyrig.MyStep
		switch x := rng.Intn(100); {
		case x < 50:
			st = g.SearchSelect()
		case x < 65:
			st = g.SearchJoin()
		case x < 80:
			st = g.SearchWrite()
		case x < 90:
			st = g.Insert()
		default:
			st = g.Next()
		}
		if !step(st) {
			return
		}
	}
	indexOracle(r, w, tables, sidx)
	tamperOracle(r, w, ac, tables, history, sidx)
}

func plainBytes(v fakepg.Value) []byte {
	switch x := v.(type) {
	case string:
		return []byte(x)
	case []byte:
		return x
	}
	return nil
}

// indexOracle: equal plaintexts <=> equal blind indexes, and index == translator's GenerateQueryHash.
func indexOracle(r *ev.Run, w *c04my.World, tables []proxyrig.TableSpec, sidx int) {
	ts, err := common.NewTranslatorService(&common.TranslatorData{Keystorage: w.KS})
	if err != nil {
		panic(err)
	}
	for _, t := range tables {
		srows, rrows := w.Store.DB.Snapshot(t.Name), w.Ref.DB.Snapshot(t.Name)
		if len(srows) != len(rrows) {
			continue // reported by the state oracle
		}
		for ci, c := range t.Cols {
			if c.Kind != "search" {
				continue
			}
			type ent struct{ plain, idx []byte }
			var ents []ent
			for ri := range rrows {
				pb := plainBytes(rrows[ri][ci])
				sv, _ := srows[ri][ci].([]byte)
				if len(pb) == 0 || len(sv) < 33 {
					continue
				}
				ents = append(ents, ent{pb, sv[:33]})
				r.Case()
				h, err := ts.GenerateQueryHash(context.Background(), append([]byte{}, pb...), []byte(c04.Owner), nil)
				if err != nil || !bytes.Equal(h, sv[:33]) {
					r.Violation(fmt.Sprintf("mysql: stored blind index differs from the translator's query hash: column=%s/%s/%s", c.Kind, c.Envelope, c.DataType),
						map[string]interface{}{"session": sidx, "plaintext": ev.Hex(pb), "stored_prefix": ev.Hex(sv[:33]), "translator_hash": ev.Hex(h), "err": fmt.Sprint(err)})
				} else {
					r.Count("mysql_index_equals_translator_hash", 1)
				}
			}
			for i := 0; i < len(ents); i++ {
				for j := i + 1; j < len(ents); j++ {
					r.Count("mysql_index_pairs_compared", 1)
					pe, ie := bytes.Equal(ents[i].plain, ents[j].plain), bytes.Equal(ents[i].idx, ents[j].idx)
					if pe != ie {
						r.Violation(fmt.Sprintf("mysql: blind index is not a function of the plaintext (plain equal=%v, index equal=%v): column=%s/%s/%s", pe, ie, c.Kind, c.Envelope, c.DataType),
							map[string]interface{}{"session": sidx, "a": ev.Hex(ents[i].plain), "b": ev.Hex(ents[j].plain), "ia": ev.Hex(ents[i].idx), "ib": ev.Hex(ents[j].idx)})
					}
					if pe {
						r.Distinct(fmt.Sprintf("my|index-equal|%s/%s/%s", c.Kind, c.Envelope, c.DataType))
					} else {
						r.Distinct(fmt.Sprintf("my|index-differ|%s/%s/%s", c.Kind, c.Envelope, c.DataType))
					}
				}
			}
		}
	}
}

func leakIn(stream, p []byte) string {
	if len(p) > 64 {
		p = p[:64]
	}
	if bytes.Contains(stream, p) {
		return "raw"
	}
	if bytes.Contains(stream, []byte(fmt.Sprintf("%x", p))) {
		return "hex"
	}
	return ""
}

// tamperOracle: the database swaps the blind indexes of two rows holding different plaintexts; such a row must not be handed out as valid plaintext.
func tamperOracle(r *ev.Run, w *c04my.World, ac *proxyrig.MyClient, tables []proxyrig.TableSpec, history []string, sidx int) {
	for _, t := range tables {
		for ci, c := range t.Cols {
			if c.Kind != "search" {
				continue
			}
			srows, rrows := w.Store.DB.Snapshot(t.Name), w.Ref.DB.Snapshot(t.Name)
			if len(srows) != len(rrows) {
				continue
			}
			a, b := -1, -1
			plain := func(i int) []byte { return plainBytes(rrows[i][ci]) }
			for i := range rrows {
				if sv, _ := srows[i][ci].([]byte); len(plain(i)) >= 9 && len(sv) > 33 {
					if a < 0 {
						a = i
					} else if !bytes.Equal(plain(i), plain(a)) {
						b = i
						break
					}
				}
			}
			if a < 0 || b < 0 {
				continue
			}
			ha := append([]byte{}, srows[a][ci].([]byte)[:33]...)
			hb := append([]byte{}, srows[b][ci].([]byte)[:33]...)
			swap := func(x, y []byte) {
				w.Store.DB.TamperAll(t.Name, c.Name, func(row int, v fakepg.Value) fakepg.Value {
					sv, ok := v.([]byte)
					if !ok || len(sv) < 33 {
						return v
					}
					nv := append([]byte{}, sv...)
					if row == a {
						copy(nv, x)
					} else if row == b {
						copy(nv, y)
					}
					return nv
				})
			}
			swap(hb, ha)
			ida, idb := rrows[a][0].(int64), rrows[b][0].(int64)
			var pv proxyrig.Val
			if c.AppType == fakepg.Text {
				pv = proxyrig.Val{Type: fakepg.Text, S: string(plain(b))}
			} else {
				pv = proxyrig.Val{Type: fakepg.Bytea, B: plain(b)}
			}
			for _, q := range []struct {
				sql   string
				bin   bool
				label string
			}{
				{fmt.Sprintf("select id, %s from %s where id in (%d, %d) order by id", c.Name, t.Name, ida, idb), false, "by-id/text"},
				{fmt.Sprintf("select id, %s from %s where id in (%d, %d) order by id", c.Name, t.Name, ida, idb), true, "by-id/binary"},
				{fmt.Sprintf("select id, %s from %s where %s = %s", c.Name, t.Name, c.Name, proxyrig.MyLiteral(pv, 0)), false, "by-search/text"},
			} {
				r.Case()
				var res *proxyrig.MyResult
				if q.bin {
					ps, pr := ac.Prepare(q.sql)
					if ps == nil {
						res = pr
					} else {
						res = ps.Query()
						ps.Close()
					}
				} else {
					res = ac.Query(q.sql)
				}
				if res.Broken || res.Err != nil {
					r.Inconclusive("mysql tamper read failed: " + fmt.Sprint(res.Err))
					swap(ha, hb)
					return
				}
				var stream []byte
				for _, row := range res.Rows {
					if len(row) < 2 {
						continue
					}
					var id int64
					fmt.Sscan(string(row[0].B), &id)
					if id == ida || id == idb {
						stream = append(stream, row[1].B...)
						stream = append(stream, 0)
					}
				}
				r.Count("mysql_tampered_rows_read", 1)
				for _, p := range [][]byte{plain(a), plain(b)} {
					if how := leakIn(stream, p); how != "" {
						r.Violation(fmt.Sprintf("mysql: value whose blind index does not match its content delivered as plaintext (%s): column=%s/%s/%s read=%s", how, c.Kind, c.Envelope, c.DataType, q.label),
							map[string]interface{}{"session": sidx, "schema": w.Schema, "history": history, "sql": q.sql, "plaintext": ev.Hex(p)})
					}
				}
				r.Distinct(fmt.Sprintf("my|tamper|%s/%s/%s|%s", c.Kind, c.Envelope, c.DataType, q.label))
			}
			swap(ha, hb)
		}
	}
}
