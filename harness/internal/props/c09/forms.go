package c09

// The "forms" part of C09 (PostgreSQL): one comparison of a searchable column with a value in every position of a statement,
// with every operator of the equality family, and bound together with placeholders of other kinds (proxyrig.FormGen).
//
// Oracle, per statement, from the property text "an equality (or inequality) condition on that column sent through Acra is
// rewritten so that the database selects exactly the rows whose plaintext equals the searched value, with literals and
// bound parameters alike":
//   - the statement is sent to the plaintext reference and through AcraServer; what the database behind Acra received tells
//     whether Acra rewrote the comparison (substr(..) in the forwarded text);
//   - rewritten: the delivered rows must be the reference's, whatever operator or position (a rewrite that changes the
//     meaning of the statement is a wrong answer of Acra's making);
//   - not rewritten and rows differ: a violation only for FormStep.Demand (comparison written with = / <> / != that decides
//     which rows are selected); for the other operators of the family and for positions that select no rows the ciphertext
//     comparison is the documented limitation: counted, not judged.

import (
	"bytes"
	"fmt"
	"sort"
	"strings"

	"github.com/jackc/pgx/v5/pgproto3"

	"verif/harness/internal/ev"
	"verif/harness/internal/gen"
	"verif/harness/internal/props/c04"
	"verif/harness/internal/rig/fakepg"
	"verif/harness/internal/rig/proxyrig"
)

func formsPart(r *ev.Run) {
	r.Rule += " || forms part: sessions over 2 tables (1-3 searchable columns and a consistently tokenized column each): after a population of 8-14 rows every class of a catalogue is generated once per session - the comparison <searchable column> =|<> <literal|cast|placeholder> inside IN/scalar/EXISTS sub-selects (same and other table, correlated), as operand of = true / <> false, under NOT, IS [NOT] TRUE|FALSE|UNKNOWN, CASE WHEN (condition and select list), in a CTE, a derived table, JOIN .. ON .. AND, UNION ALL; with a cast placeholder ($n::bytea); the operator family !=, IS [NOT] DISTINCT FROM, = ANY / <> ALL (ARRAY[..], array literal, array placeholder), [NOT] IN (..), NULLIF (condition and select list), [NOT] LIKE, ILIKE; one WHERE binding a searchable placeholder together with consistently-tokenized and ordinary placeholders / literals in several orders. Values come from rows the reference holds. distinct = (form class, value spelling, protocol, rewritten or not)"
	rng := gen.New(r.Seed, "c09-forms")
	n := r.Pick(14, 160)
	for s := 0; s < n; s++ {
		formSession(r, gen.New(r.Seed, fmt.Sprintf("c09-forms-%d-%d", s, rng.Int63())), s)
	}
	r.RequireAtLeast("forms_statements_judged_rewritten_equal_reference", 100)
	r.RequireSetAtLeast("forms_classes_evaluated", len(proxyrig.FormNames())-2)
	r.RequireAtLeast("forms_mixed_placeholder_statements_evaluated", 20)
	r.RequireAtLeast("forms_statements_selecting_rows_on_both_sides", 60)
}

func formTables(rng *gen.Rand) []proxyrig.TableSpec {
	tables := tablesFor(rng)
	cat := []proxyrig.ColSpec{
		{Name: "t_str", Kind: "token", TokenType: "str", Consist: true, AppType: fakepg.Text, StoreType: fakepg.Text},
		{Name: "t_i32", Kind: "token", TokenType: "int32", Consist: true, AppType: fakepg.Int4, StoreType: fakepg.Int4},
		{Name: "t_email", Kind: "token", TokenType: "email", Consist: true, AppType: fakepg.Text, StoreType: fakepg.Text},
	}
	for ti := range tables {
		if len(proxyrig.ConsistentTokenCols(tables[ti])) == 0 {
			tables[ti].Cols = append(tables[ti].Cols, cat[rng.Intn(len(cat))])
		}
	}
	return tables
}

func formSession(r *ev.Run, rng *gen.Rand, sidx int) {
	tables := formTables(rng)
	w, ac, rc, closeAll, ok := c04.OpenWorld(r, tables, "")
	if !ok {
		return
	}
	defer closeAll()
	g := proxyrig.NewSessGen(rng, tables)
	g.UsePool = true
	var history []string
	note := func(st proxyrig.Step) {
		history = append(history, fmt.Sprintf("[%s %s/%s/%s] %s", st.Proto, st.ParamFmt, st.ResFmt, st.Kind, clip(st.SQL, 300)))
	}
	fg := &proxyrig.FormGen{G: g, Rows: func(t string) [][]fakepg.Value { return w.Ref.DB.Snapshot(t) }}
	pop := 8 + rng.Intn(7)
	for i := 0; i < pop; i++ {
		st := g.Insert()
		note(st)
		if !c04.RunStep(r, w, ac, rc, st, history, 100000+sidx) {
			return
		}
	}
	nf := len(proxyrig.FormNames())
	for i := 0; i < nf; i++ {
		if i%12 == 11 {
			st := g.Insert()
			note(st)
			if !c04.RunStep(r, w, ac, rc, st, history, 100000+sidx) {
				return
			}
		}
		fs, ok := fg.Next()
		if !ok {
			break
		}
		note(fs.Step)
		if !runForm(r, w, ac, rc, fs, history, sidx) {
			return
		}
	}
}

func exchange(c *proxyrig.PGClient, groups [][]pgproto3.FrontendMessage) ([]proxyrig.BackendMsg, error) {
	var out []proxyrig.BackendMsg
	for _, g := range groups {
		if err := c.Send(g...); err != nil {
			return out, err
		}
		msgs, err := c.ReadUntilReady()
		out = append(out, msgs...)
		if err != nil {
			return out, err
		}
	}
	return out, nil
}

// rowSet renders the DataRows of a reply as a sorted multiset.
func rowSet(msgs []proxyrig.BackendMsg) []string {
	var out []string
	for _, row := range proxyrig.Rows(msgs) {
		var b bytes.Buffer
		for _, f := range row {
			if f == nil {
				b.WriteString("NULL|")
			} else {
				fmt.Fprintf(&b, "%x|", f)
			}
		}
		out = append(out, b.String())
	}
	sort.Strings(out)
	return out
}

func leakedInClear(stream []byte, vals []proxyrig.Val) bool {
	for _, v := range vals {
		b := v.Bytes()
		if len(b) >= 9 && leakIn(stream, b) != "" {
			return true
		}
	}
	return false
}

// runForm sends one form statement to the reference and through Acra and applies the oracle described at the top of the file.
func runForm(r *ev.Run, w *c04.World, ac, rc *proxyrig.PGClient, fs proxyrig.FormStep, history []string, sidx int) bool {
	r.Case()
	ref, rerr := exchange(rc, fs.Groups)
	if rerr != nil {
		r.Inconclusive("forms: reference database exchange failed: " + rerr.Error())
		return false
	}
	if e := proxyrig.ErrorOf(ref); e != nil {
		// the generator produced something the reference rejects, or the fake cannot evaluate it: rig matter
		r.Count("forms_rig_reference_rejected_statement", 1)
		r.SampleN("forms-ref-reject", 5, map[string]interface{}{"sql": clip(fs.SQL, 300), "error": e.Message, "form": fs.Form})
		return true
	}
	logStart := w.Store.LogLen()
	unsBefore := len(w.Store.Unsupported())
	got, aerr := exchange(ac, fs.Groups)
	if aerr == proxyrig.ErrTimeout {
		r.Inconclusive("forms: watchdog: no reply through acra for: " + clip(fs.SQL, 120))
		return false
	}
	sig := func(what string) string {
		return fmt.Sprintf("search form: %s: form=%s value=%s", what, strings.TrimPrefix(fs.Form, "form:"), fs.ValueBy)
	}
	window := w.Store.Log()[logStart:]
	var forwarded []string
	var stream []byte
	for _, m := range window {
		if m.SQL != "" {
			forwarded = append(forwarded, m.SQL)
		}
		stream = append(stream, m.Raw...)
	}
	detail := func(extra map[string]interface{}) map[string]interface{} {
		m := map[string]interface{}{"session": sidx, "schema": w.Schema, "history": history, "statement": fs.SQL, "params": fs.ParamDesc, "proto": fs.Proto, "param_format": fs.ParamFmt, "proto_detail": fs.Detail, "forwarded": forwarded, "form": fs.Form, "demanded_by_property": fs.Demand}
		var sv []string
		for _, v := range fs.Searched {
			sv = append(sv, ev.Hex(v.Bytes()))
		}
		m["searched"] = sv
		for k, v := range extra {
			m[k] = v
		}
		return m
	}
	if aerr != nil {
		r.Violation(sig("connection through acra broke"), detail(map[string]interface{}{"err": aerr.Error()}))
		return false
	}
	if un := w.Store.Unsupported(); len(un) > unsBefore {
		r.Count("forms_rig_inconclusive_forwarded_statement_not_evaluable", 1)
		r.SampleN("forms-unsupported", 5, map[string]interface{}{"forwarded": un[len(un)-1], "client_sql": clip(fs.SQL, 300), "form": fs.Form})
		return false
	}
	rewritten := false
	for _, f := range forwarded {
		if strings.Contains(strings.ToLower(f), "substr(") {
			rewritten = true
		}
	}
	how := "forwarded-untouched"
	if rewritten {
		how = "rewritten"
	}
	r.SetAdd("forms_classes_evaluated", fs.Form)
	r.Count("forms_statements_"+how, 1)
	if strings.HasPrefix(fs.Form, "mixed:") {
		r.Count("forms_mixed_placeholder_statements_evaluated", 1)
	}
	refRows, gotRows := rowSet(ref), rowSet(got)
	aErr := proxyrig.ErrorOf(got)
	equal := aErr == nil && len(refRows) == len(gotRows)
	if equal {
		for i := range refRows {
			if refRows[i] != gotRows[i] {
				equal = false
				break
			}
		}
	}
	r.SampleN("form:"+fs.Form, 1, map[string]interface{}{"client_sql": clip(fs.SQL, 300), "forwarded": forwarded, "proto": fs.Proto, "rows_reference": len(refRows), "rows_through_acra": len(gotRows), "rewritten": rewritten})
	if equal {
		if rewritten {
			r.Count("forms_statements_judged_rewritten_equal_reference", 1)
		} else {
			r.Count("forms_statements_untouched_equal_reference", 1)
		}
		if len(refRows) > 0 {
			r.Count("forms_statements_selecting_rows_on_both_sides", 1)
		}
		r.Distinct(fmt.Sprintf("form|%s|%s|%s|%s|%s", fs.Form, fs.ValueBy, fs.Proto, fs.ParamFmt, how))
		return true
	}
	extra := map[string]interface{}{"rows_reference": refRows, "rows_through_acra": gotRows, "searched_value_reached_database_in_clear": leakedInClear(stream, fs.Searched),
		"store_rows": fmt.Sprint(w.Store.DB.Snapshot(fs.Table)), "ref_rows": fmt.Sprint(w.Ref.DB.Snapshot(fs.Table))}
	if aErr != nil {
		extra["error_through_acra"] = aErr.Code + ": " + aErr.Message
	}
	switch {
	case rewritten && aErr != nil:
		r.Violation(sig("rewritten statement fails in the database, the reference answers"), detail(extra))
	case rewritten:
		r.Violation(sig("rewritten condition selects other rows than the reference"), detail(extra))
	case fs.Demand:
		r.Violation(sig("equality condition forwarded unrewritten, rows differ from the reference"), detail(extra))
	default:
		// another operator / a position that selects no rows, left alone by Acra: comparison with the ciphertext, documented limitation
		r.Count("forms_not_demanded_forwarded_untouched_rows_differ", 1)
		r.SetAdd("forms_classes_not_judged_forwarded_untouched", fs.Form)
	}
	return true
}
