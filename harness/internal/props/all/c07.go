//go:build verif_all || verif_c07

package all

import _ "verif/harness/internal/props/c07"
