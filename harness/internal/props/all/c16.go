//go:build verif_all || verif_c16

package all

import (
	_ "verif/harness/internal/props/c16"
	_ "verif/harness/internal/props/c16/proxy"
)
