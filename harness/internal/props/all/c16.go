//go:build verif_all || verif_c16

package all

import (
	"verif/harness/internal/ev"
	"verif/harness/internal/props/c16"
	c16mysql "verif/harness/internal/props/c16/mysql"
	_ "verif/harness/internal/props/c16/proxy"
)

// the wire layers of C16: PostgreSQL (plugged in by props/c16/proxy's init, which runs before this one), then MySQL
// (Acra's SQL dialect, the log level and the log format are process globals, so the two run one after the other)
func init() {
	pg := c16.ProxyLayer
	c16.ProxyLayer = func(r *ev.Run) {
		if pg != nil {
			pg(r)
		}
		c16mysql.Layer(r)
	}
}
