//go:build verif_all || verif_c08

package all

import _ "verif/harness/internal/props/c08"
