//go:build verif_all || verif_c03

package all

import (
	_ "verif/harness/internal/props/c03"
	_ "verif/harness/internal/props/c03/proxy"
)
