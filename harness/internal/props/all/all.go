// Package all links every property monitor into the mon binary.
package all

import (
	_ "verif/harness/internal/props/c01"
)
