//go:build verif_c14h

package all

import _ "verif/harness/internal/props/c14/handler"
