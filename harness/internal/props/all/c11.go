//go:build verif_all || verif_c11

package all

import (
	"verif/harness/internal/ev"
	"verif/harness/internal/props/c11"
	c11mysql "verif/harness/internal/props/c11/mysql"
	_ "verif/harness/internal/props/c11/proxy"
)

// the wire layers of C11: PostgreSQL (plugged in by props/c11/proxy's init, which runs before this one), then MySQL
// (Acra's SQL dialect is a process global, so the two run one after the other)
func init() {
	pg := c11.ProxyLayer
	c11.ProxyLayer = func(r *ev.Run) {
		if pg != nil {
			pg(r)
		}
		c11mysql.Layer(r)
	}
}
