//go:build verif_all || verif_c11

package all

import (
	_ "verif/harness/internal/props/c11"
	_ "verif/harness/internal/props/c11/proxy"
)
