//go:build verif_all || verif_c04

package all

import (
	"verif/harness/internal/props/c04"
	c04my "verif/harness/internal/props/c04/mysql"
)

func init() { c04.MySQLLayer = c04my.Layer }
