//go:build verif_all || verif_c04

package all

import _ "verif/harness/internal/props/c04"
