//go:build verif_all || verif_c05

package all

import (
	_ "verif/harness/internal/props/c05"
	_ "verif/harness/internal/props/c05/proxy"
)
