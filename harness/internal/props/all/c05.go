//go:build verif_all || verif_c05

package all

import (
	"verif/harness/internal/ev"
	"verif/harness/internal/props/c05"
	c05mysql "verif/harness/internal/props/c05/mysql"
	_ "verif/harness/internal/props/c05/proxy"
)

// the wire layers of C05: PostgreSQL (plugged in by props/c05/proxy's init, which runs before this one), then MySQL
// (Acra's SQL dialect is a process global, so the two run one after the other)
func init() {
	pg := c05.ProxyLayer
	c05.ProxyLayer = func(r *ev.Run) {
		if pg != nil {
			pg(r)
		}
		c05mysql.Layer(r)
	}
}
