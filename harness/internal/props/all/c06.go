//go:build verif_all || verif_c06

package all

import _ "verif/harness/internal/props/c06"
