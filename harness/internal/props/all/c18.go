//go:build verif_all || verif_c18

package all

import _ "verif/harness/internal/props/c18"
