//go:build verif_all || verif_c02

package all

import _ "verif/harness/internal/props/c02"
