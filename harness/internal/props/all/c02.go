//go:build verif_all || verif_c02

package all

import (
	"verif/harness/internal/props/c02"
	c02proxy "verif/harness/internal/props/c02/proxy"
)

func init() { c02.ProxyLayer = c02proxy.Layer }
