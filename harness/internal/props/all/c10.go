//go:build verif_all || verif_c10

package all

import _ "verif/harness/internal/props/c10"
