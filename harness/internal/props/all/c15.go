//go:build verif_all || verif_c15

package all

import (
	_ "verif/harness/internal/props/c15"
	_ "verif/harness/internal/props/c15/proxy"
)
