//go:build verif_all || verif_c15

package all

import (
	"verif/harness/internal/ev"
	"verif/harness/internal/props/c15"
	c15mysql "verif/harness/internal/props/c15/mysql"
	_ "verif/harness/internal/props/c15/proxy"
)

// the wire layers of C15: PostgreSQL (plugged in by props/c15/proxy's init, which runs before this one), then MySQL
// (Acra's SQL dialect is a process global, so the two run one after the other)
func init() {
	pg := c15.ProxyLayer
	c15.ProxyLayer = func(r *ev.Run) {
		if pg != nil {
			pg(r)
		}
		c15mysql.Layer(r)
	}
}
