//go:build verif_all || verif_c17

package all

import _ "verif/harness/internal/props/c17"
