//go:build verif_all || verif_c19

package all

import (
	"verif/harness/internal/props/c19"
	c19my "verif/harness/internal/props/c19/mysql"
)

func init() { c19.MySQLLayer = c19my.Layer }
