//go:build verif_all || verif_c19

package all

import _ "verif/harness/internal/props/c19"
