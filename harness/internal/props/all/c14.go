//go:build verif_all || verif_c14

package all

import (
	_ "verif/harness/internal/props/c14"
	_ "verif/harness/internal/props/c14/handler"
)
