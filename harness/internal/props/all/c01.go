//go:build verif_all || verif_c01

package all

import (
	_ "verif/harness/internal/props/c01"
	_ "verif/harness/internal/props/c01/proxy"
)
