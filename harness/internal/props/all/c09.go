//go:build verif_all || verif_c09

package all

import (
	"verif/harness/internal/props/c09"
	c09my "verif/harness/internal/props/c09/mysql"
)

func init() { c09.MySQLLayer = c09my.Layer }
