//go:build verif_all || verif_c09

package all

import _ "verif/harness/internal/props/c09"
