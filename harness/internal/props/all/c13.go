//go:build verif_all || verif_c13

package all

import _ "verif/harness/internal/props/c13"
