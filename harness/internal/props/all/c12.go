//go:build verif_all || verif_c12

package all

import _ "verif/harness/internal/props/c12"
import _ "verif/harness/internal/props/c12/mysql"
