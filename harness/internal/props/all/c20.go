//go:build verif_all || verif_c20

package all

import _ "verif/harness/internal/props/c20"
