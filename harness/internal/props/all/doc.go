// Package all links property monitors into the mon binary; each property is selected by build tag
// verif_cNN (./check builds only the requested one) or verif_all.
package all
