// Package c19 will hold the monitor of property C19 (not built yet; nothing is registered).
package c19
