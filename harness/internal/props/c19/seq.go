package c19

// seq.go: the typed-column oracle under protocol SEQUENCES of the PostgreSQL extended query protocol (proxyrig/pgseq.go).
// The sessions of c19.go drive Parse/Bind/Describe/Execute/Sync of a statement inside one query cycle (and simple queries).
// Here the same statements are parsed in one cycle and bound / described / executed in later ones, several statements stay
// prepared and run in another order, simple queries run in between, Flush replaces Sync and cycles are pipelined.
// The oracle is the property's: whatever the sequencing, the owner gets the declared type in the format asked, "with the column
// described as that type" wherever a RowDescription is delivered (Describe statement, Describe portal, simple query).
// It is decided differentially: the same script runs against the reference database whose columns HAVE the declared types.

import (
	"fmt"
	"strings"

	"github.com/jackc/pgx/v5/pgproto3"

	"verif/harness/internal/ev"
	"verif/harness/internal/gen"
	"verif/harness/internal/props/c04"
	"verif/harness/internal/rig/proxyrig"
)

type seqMeta struct {
	fieldTypes []string // declared data type behind each result field ("" = plain column)
	fieldCols  []string
	rowless    bool
	resFmt     string
}

// seqStatements builds the statements of one script: SELECTs over different sets of typed columns with different field counts
// and result formats; the first one may take a parameter. withRowless appends an UPDATE that changes nothing and returns no rows.
func seqStatements(rng *gen.Rand, t proxyrig.TableSpec, n int, withRowless bool) ([]proxyrig.SeqStmt, []seqMeta) {
	var typed []proxyrig.ColSpec
	for _, c := range t.Cols {
		if c.Configured() {
			typed = append(typed, c)
		}
	}
	var stmts []proxyrig.SeqStmt
	var metas []seqMeta
	off := rng.Intn(len(typed))
	for k := 0; k < n; k++ {
		// statement k selects 1 + k%2 typed columns (so that neighbouring statements differ in field count), sometimes the plain note too
		ncol := 1 + k%2
		if rng.Intn(4) == 0 {
			ncol = 1 + (k+1)%2
		}
		m := seqMeta{fieldTypes: []string{""}, fieldCols: []string{"id"}}
		list := "id"
		for j := 0; j < ncol; j++ {
			c := typed[(off+k+j)%len(typed)]
			list += ", " + c.Name
			m.fieldTypes = append(m.fieldTypes, c.DataType)
			m.fieldCols = append(m.fieldCols, c.Name)
		}
		if rng.Intn(3) == 0 {
			list += ", note"
			m.fieldTypes = append(m.fieldTypes, "")
			m.fieldCols = append(m.fieldCols, "note")
		}
		s := proxyrig.SeqStmt{}
		where := ""
		if k == 0 && rng.Intn(2) == 0 {
			where = " where id <> $1"
			s.Params = [][]byte{[]byte("-1")}
			s.ParamFormats = []int16{0}
		}
		s.SQL = fmt.Sprintf("select %s from %s%s order by id", list, t.Name, where)
		switch rng.Intn(3) {
		case 0:
			m.resFmt = "text"
			if rng.Intn(2) == 0 {
				s.ResultFormats = []int16{0}
			}
		case 1:
			m.resFmt = "binary"
			s.ResultFormats = []int16{1}
		default:
			m.resFmt = "mixed"
			for range m.fieldTypes {
				s.ResultFormats = append(s.ResultFormats, int16(rng.Intn(2)))
			}
		}
		stmts = append(stmts, s)
		metas = append(metas, m)
	}
	if withRowless {
		stmts = append(stmts, proxyrig.SeqStmt{SQL: fmt.Sprintf("update %s set note = 'untouched' where id = -1", t.Name)})
		metas = append(metas, seqMeta{rowless: true, resFmt: "text"})
	}
	return stmts, metas
}

// seqClass describes, from how the script was built, the position of a row description / an execution in the sequence.
type seqClass struct {
	answerTo  string // describe-portal | describe-statement | simple-query | execute
	parsed    string // same-cycle | earlier-cycle
	since     string // what else the proxy saw between the Parse of the statement and this message
	sending   string // stepwise | pipelined
	statement string // named | unnamed
}

func (c seqClass) String() string {
	return fmt.Sprintf("answer-to=%s parsed=%s since-parse=%s sending=%s statement=%s", c.answerTo, c.parsed, c.since, c.sending, c.statement)
}

func classify(ops []proxyrig.SeqOp, i int, metas []seqMeta, sh proxyrig.SeqShape) seqClass {
	op := ops[i]
	cl := seqClass{answerTo: op.Kind, parsed: "same-cycle", since: "nothing-else-analysed", sending: "stepwise", statement: "unnamed"}
	if sh.Pipelined {
		cl.sending = "pipelined"
	}
	if op.Kind == "query" {
		cl.answerTo = "simple-query"
		cl.statement = "none"
	}
	parseIdx := i
	if op.Kind != "query" {
		for k := i - 1; k >= 0; k-- {
			if ops[k].Kind == "parse" && ops[k].Stmt == op.Stmt {
				parseIdx = k
				if ops[k].Msg.(*pgproto3.Parse).Name != "" {
					cl.statement = "named"
				}
				break
			}
		}
	}
	other, rowlessOnly := false, true
	for k := parseIdx + 1; k < i; k++ {
		switch ops[k].Kind {
		case "sync", "query":
			cl.parsed = "earlier-cycle"
		}
		// (the execution of another statement counts too: the proxy looks at a statement again when its rows arrive)
		if (ops[k].Kind == "parse" || ops[k].Kind == "query" || ops[k].Kind == "execute") && ops[k].Stmt != op.Stmt {
			other = true
			if !metas[ops[k].Stmt].rowless {
				rowlessOnly = false
			}
		}
	}
	inFlight := false
	if sh.Pipelined {
		// messages of other statements written in the same batch are handled by the proxy's client side while its database
		// side still works on this answer
		for k := range ops {
			if k != i && ops[k].Batch == op.Batch && (ops[k].Kind == "parse" || ops[k].Kind == "query" || ops[k].Kind == "execute") && ops[k].Stmt != op.Stmt && !metas[ops[k].Stmt].rowless {
				inFlight = true
			}
		}
	}
	switch {
	case other && !rowlessOnly:
		cl.since = "other-row-returning-statement-parsed-or-run"
	case inFlight:
		cl.since = "other-row-returning-statement-in-flight"
	case other:
		cl.since = "only-rowless-statement-analysed"
	}
	return cl
}

func cloneOps(ops []proxyrig.SeqOp) []proxyrig.SeqOp { return append([]proxyrig.SeqOp{}, ops...) }

func scriptText(ops []proxyrig.SeqOp) []string {
	var out []string
	for _, o := range ops {
		s := o.Kind
		switch m := o.Msg.(type) {
		case *pgproto3.Parse:
			s += fmt.Sprintf(" name=%q %s", m.Name, m.Query)
		case *pgproto3.Bind:
			s += fmt.Sprintf(" statement=%q portal=%q resultFormats=%v params=%d", m.PreparedStatement, m.DestinationPortal, m.ResultFormatCodes, len(m.Parameters))
		case *pgproto3.Describe:
			s += fmt.Sprintf(" %c %q", m.ObjectType, m.Name)
		case *pgproto3.Execute:
			s += fmt.Sprintf(" portal=%q", m.Portal)
		case *pgproto3.Query:
			s += " " + m.String
		case *pgproto3.Close:
			s += fmt.Sprintf(" %c %q", m.ObjectType, m.Name)
		}
		if o.Wait {
			s += "  [wait for the answers]"
		}
		out = append(out, s)
	}
	return out
}

func repliesText(ops []proxyrig.SeqOp) []string {
	var out []string
	for i, o := range ops {
		s := fmt.Sprintf("%d %s:", i, o.Kind)
		if o.Skipped {
			s += " (skipped)"
		}
		for _, m := range o.Replies {
			s += " " + m.Type
			switch x := m.Msg.(type) {
			case *pgproto3.RowDescription:
				var f []string
				for _, fd := range x.Fields {
					f = append(f, fmt.Sprintf("%s:oid=%d:fmt=%d", fd.Name, fd.DataTypeOID, fd.Format))
				}
				s += "(" + strings.Join(f, ",") + ")"
			case *pgproto3.ErrorResponse:
				s += "(" + x.Code + ":" + x.Message + ")"
			case *pgproto3.DataRow:
				var f []string
				for _, v := range x.Values {
					if v == nil {
						f = append(f, "NULL")
					} else {
						f = append(f, fmt.Sprintf("%.40s", ev.Hex(v)))
					}
				}
				s += "(" + strings.Join(f, ",") + ")"
			}
		}
		out = append(out, s)
	}
	return out
}

// runSequences runs three sequence shapes (rotating over proxyrig.SeqShapes with the session number) for the owner.
func runSequences(r *ev.Run, rng *gen.Rand, w *c04.World, ac, rc *proxyrig.PGClient, t proxyrig.TableSpec, history []string, sidx int) {
	ntyped := 0
	for _, c := range t.Cols {
		if c.Configured() {
			ntyped++
		}
	}
	if ntyped == 0 || len(w.Store.DB.Snapshot(t.Name)) == 0 {
		return
	}
	shapes := proxyrig.SeqShapes
	for k := 0; k < 3; k++ {
		sh := shapes[(sidx*3+k)%len(shapes)]
		n := sh.MinStmts
		if n < 3 && rng.Intn(2) == 0 {
			n++
		}
		rowless := sh.Name == "statement-modifying-rows-between-parse-and-execution"
		if rowless {
			n--
		}
		stmts, metas := seqStatements(rng, t, n, rowless)
		names := proxyrig.SeqNames{NamedStatements: rng.Intn(2) == 0, NamedPortals: rng.Intn(3) == 0}
		tag := fmt.Sprintf("q%d_", k)
		ops := proxyrig.BuildSeq(sh, stmts, names, tag)
		// two scripts of three run on a fresh connection (no settings of earlier statements in the proxy's session), one on the
		// connection that carried the whole session so far
		conn, fresh := ac, false
		if k != 2 {
			c, _, err := proxyrig.DialPG(w.Acras[c04.Owner].Port)
			if err != nil {
				r.Inconclusive("cannot connect to acra for a sequence script")
				return
			}
			conn, fresh = c, true
		}
		ok := runScript(r, w, conn, rc, sh, ops, metas, fresh, history, sidx)
		if fresh {
			conn.Close()
		}
		if !ok {
			return
		}
	}
}

// runScript runs one script on the reference and through Acra and judges every answer. false: stop using the session.
func runScript(r *ev.Run, w *c04.World, conn, rc *proxyrig.PGClient, sh proxyrig.SeqShape, ops []proxyrig.SeqOp, metas []seqMeta, fresh bool, history []string, sidx int) bool {
	r.Case()
	ref := cloneOps(ops)
	if err := proxyrig.RunSeq(rc, ref); err != nil {
		r.Inconclusive("sequence script: reference database exchange failed: " + err.Error())
		return false
	}
	for _, o := range ref {
		if o.Error() != nil || o.Skipped {
			// the script is something the reference rejects: rig matter
			r.Count("seq_rig_reference_rejected_script", 1)
			r.SampleN("seq-ref-reject", 3, map[string]interface{}{"shape": sh.Name, "script": scriptText(ref), "replies": repliesText(ref)})
			return true
		}
	}
	unBefore := len(w.Store.Unsupported())
	got := cloneOps(ops)
	err := proxyrig.RunSeq(conn, got)
	detail := func(extra map[string]interface{}) map[string]interface{} {
		m := map[string]interface{}{"session": sidx, "schema": w.Schema, "history": history, "shape": sh.Name, "fresh_connection": fresh,
			"script": scriptText(got), "replies_through_acra": repliesText(got), "replies_of_reference": repliesText(ref), "store_bytea_output": w.Store.ByteaOutput()}
		for k, v := range extra {
			m[k] = v
		}
		return m
	}
	if err == proxyrig.ErrTimeout {
		r.Inconclusive("watchdog: no reply through acra in sequence shape " + sh.Name)
		return false
	}
	if len(w.Store.Unsupported()) > unBefore {
		r.Count("seq_rig_inconclusive_forwarded_statement_not_evaluable", 1)
		return false
	}
	if err != nil {
		r.Violation(fmt.Sprintf("sequence: connection through acra broke: shape=%s", sh.Name), detail(map[string]interface{}{"err": err.Error()}))
		return false
	}
	r.Count("seq_scripts_run", 1)
	r.SetAdd("seq_shapes_run", sh.Name)
	if fresh {
		r.Count("seq_scripts_on_fresh_connection", 1)
	}
	for i := range got {
		a, b := got[i], ref[i]
		if a.Kind == "sync" || a.Kind == "flush" {
			continue
		}
		cl := classify(got, i, metas, sh)
		if e := a.Error(); e != nil {
			r.Violation(fmt.Sprintf("sequence: unexpected error response: %s", cl), detail(map[string]interface{}{"message_index": i, "error": e.Message}))
			return true
		}
		if a.Skipped {
			continue
		}
		at, bt := types(a.Replies), types(b.Replies)
		if at != bt {
			r.Violation(fmt.Sprintf("sequence: answer differs from the reference in message types: %s", cl), detail(map[string]interface{}{"message_index": i, "acra": at, "reference": bt}))
			return true
		}
		if a.Stmt < 0 {
			continue
		}
		m := metas[a.Stmt]
		for k := range a.Replies {
			switch x := a.Replies[k].Msg.(type) {
			case *pgproto3.RowDescription:
				y := b.Replies[k].Msg.(*pgproto3.RowDescription)
				if len(x.Fields) != len(y.Fields) || len(x.Fields) != len(m.fieldTypes) {
					r.Violation(fmt.Sprintf("sequence: row description field count differs: %s", cl), detail(map[string]interface{}{"message_index": i}))
					continue
				}
				r.Count("seq_row_descriptions_judged", 1)
				r.Count("seq_row_descriptions_"+cl.answerTo+"_parsed_"+cl.parsed, 1)
				if cl.sending == "pipelined" {
					r.Count("seq_row_descriptions_pipelined", 1)
				}
				if cl.since != "nothing-else-analysed" {
					r.Count("seq_row_descriptions_with_"+cl.since, 1)
				}
				for f := range x.Fields {
					typ := m.fieldTypes[f]
					tn := typ
					if tn == "" {
						tn = "plain"
					}
					if x.Fields[f].DataTypeOID != y.Fields[f].DataTypeOID {
						r.Violation(fmt.Sprintf("sequence: column not described as the declared type: %s type=%s", cl, tn),
							detail(map[string]interface{}{"message_index": i, "field": f, "column": m.fieldCols[f], "oid_through_acra": x.Fields[f].DataTypeOID, "oid_declared": y.Fields[f].DataTypeOID}))
						continue
					}
					if x.Fields[f].Format != y.Fields[f].Format {
						r.Violation(fmt.Sprintf("sequence: column described with another format code: %s type=%s", cl, tn), detail(map[string]interface{}{"message_index": i, "field": f}))
						continue
					}
					if typ != "" {
						r.Count("seq_typed_fields_described_as_declared", 1)
						r.Distinct(fmt.Sprintf("seq|%s|%s|%s|%s|%s|%s|described", sh.Name, cl.answerTo, cl.parsed, cl.since, cl.statement, typ))
					}
				}
			case *pgproto3.DataRow:
				y := b.Replies[k].Msg.(*pgproto3.DataRow)
				if len(x.Values) != len(y.Values) || len(x.Values) != len(m.fieldTypes) {
					r.Violation(fmt.Sprintf("sequence: data row field count differs: %s", cl), detail(map[string]interface{}{"message_index": i}))
					continue
				}
				bind := bindOf(got, i)
				for f := range x.Values {
					typ := m.fieldTypes[f]
					binFmt := bind != nil && fmtAt(bind.ResultFormatCodes, f)
					fn := map[bool]string{false: "text", true: "binary"}[binFmt]
					tn := typ
					if tn == "" {
						tn = "plain"
					}
					if (x.Values[f] == nil) != (y.Values[f] == nil) {
						r.Violation(fmt.Sprintf("sequence: NULL marker differs from the reference: %s type=%s format=%s", cl, tn, fn), detail(map[string]interface{}{"message_index": i, "field": f}))
						continue
					}
					if x.Values[f] == nil {
						continue
					}
					cmpType := typ
					if cmpType == "" && f > 0 {
						cmpType = "str"
					}
					if len(y.Values[f]) == 0 && len(x.Values[f]) == 0 {
						continue
					}
					if !sameField(x.Values[f], y.Values[f], cmpType, binFmt) {
						r.Violation(fmt.Sprintf("sequence: value not delivered in the declared type and format: %s type=%s format=%s", cl, tn, fn),
							detail(map[string]interface{}{"message_index": i, "field": f, "column": m.fieldCols[f], "got": ev.Hex(x.Values[f]), "want": ev.Hex(y.Values[f])}))
						continue
					}
					if typ != "" {
						r.Count("seq_typed_values_equal_reference", 1)
						r.Distinct(fmt.Sprintf("seq|%s|%s|%s|%s|%s|value", sh.Name, cl.answerTo, cl.parsed, typ, fn))
					}
				}
			}
		}
	}
	r.SampleN("seq-"+sh.Name, 1, map[string]interface{}{"shape": sh.Name, "script": scriptText(got), "replies_through_acra": repliesText(got)})
	return true
}

func types(ms []proxyrig.BackendMsg) string {
	var t []string
	for _, m := range ms {
		t = append(t, m.Type)
	}
	return strings.Join(t, ",")
}

// bindOf returns the Bind of the execution that message i (an Execute) belongs to; nil for a simple query.
func bindOf(ops []proxyrig.SeqOp, i int) *pgproto3.Bind {
	if ops[i].Kind != "execute" {
		return nil
	}
	for k := i - 1; k >= 0; k-- {
		if ops[k].Kind == "bind" && ops[k].Exec == ops[i].Exec {
			return ops[k].Msg.(*pgproto3.Bind)
		}
	}
	return nil
}

func fmtAt(formats []int16, i int) bool {
	switch len(formats) {
	case 0:
		return false
	case 1:
		return formats[0] == 1
	}
	return i < len(formats) && formats[i] == 1
}

// requireSequences: non-vacuity guards of the sequence workload.
func requireSequences(r *ev.Run) {
	r.RequireAtLeast("seq_scripts_run", 150)
	r.RequireSetAtLeast("seq_shapes_run", len(proxyrig.SeqShapes))
	r.RequireAtLeast("seq_scripts_on_fresh_connection", 80)
	r.RequireAtLeast("seq_row_descriptions_judged", 400)
	r.RequireAtLeast("seq_row_descriptions_describe-portal_parsed_earlier-cycle", 150)
	r.RequireAtLeast("seq_row_descriptions_describe-statement_parsed_earlier-cycle", 20)
	r.RequireAtLeast("seq_row_descriptions_describe-statement_parsed_same-cycle", 10)
	r.RequireAtLeast("seq_row_descriptions_simple-query_parsed_same-cycle", 10)
	r.RequireAtLeast("seq_row_descriptions_pipelined", 20)
	r.RequireAtLeast("seq_typed_fields_described_as_declared", 400)
	r.RequireAtLeast("seq_typed_values_equal_reference", 1000)
}
