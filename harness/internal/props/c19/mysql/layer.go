// Package mysql is the MySQL part of the C19 monitor ("typed columns come back in the declared type or per the failure
// policy"): typed columns (str, bytes, int32, int64 - as data_type and as MySQL data_type_db_identifier type ids) x failure
// policies x text / binary protocol, for the owner (differential against a reference fake MySQL with the declared types) and
// for readers that cannot reveal (other keys, no keys, owner reading values the database damaged).
// Call Layer(r) from the C19 monitor after the PostgreSQL part (Acra's SQL dialect is process-global).
package mysql

import (
	"bytes"
	"encoding/base64"
	"encoding/hex"
	"fmt"
	"os"
	"strconv"
	"time"

	"verif/harness/internal/ev"
	"verif/harness/internal/gen"
	"verif/harness/internal/props/c04"
	c04my "verif/harness/internal/props/c04/mysql"
	"verif/harness/internal/rig/fakemysql"
	"verif/harness/internal/rig/fakepg"
	"verif/harness/internal/rig/proxyrig"
)

var appType = map[string]fakepg.ColType{"str": fakepg.Text, "bytes": fakepg.Bytea, "int32": fakepg.Int4, "int64": fakepg.Int8}

func genDefault(r *gen.Rand, typ string) string {
	switch typ {
	case "int32":
		return []string{"0", "-1", "2147483647", "-2147483648", "42"}[r.Intn(5)]
	case "int64":
		return []string{"0", "-1", "9223372036854775807", "-9223372036854775808", "2147483648"}[r.Intn(5)]
	case "str":
		return []string{"", "default", "дефолт ünï 漢", "with 'quote' and \"dq\""}[r.Intn(4)]
	default:
		return base64.StdEncoding.EncodeToString([][]byte{{}, {0xff, 0xfe, 0x00, 0x01}, []byte("default bytes"), gen.Bytes(r, 1+r.Intn(40))}[r.Intn(4)])
	}
}

func policyOf(c proxyrig.ColSpec) string {
	switch {
	case c.OnFail == "error":
		return "error"
	case c.OnFail == "default_value" || (c.OnFail == "" && c.Default != nil):
		return "default"
	default:
		return "ciphertext"
	}
}

func genTable(r *gen.Rand, name string) proxyrig.TableSpec {
	t := proxyrig.TableSpec{Name: name}
	t.Cols = append(t.Cols, proxyrig.ColSpec{Name: "id", AppType: fakepg.Int4, StoreType: fakepg.Int4})
	n := 3 + r.Intn(4)
	for i := 0; i < n; i++ {
		typ := []string{"str", "bytes", "int32", "int64"}[r.Intn(4)]
		c := proxyrig.ColSpec{Kind: []string{"enc", "enc", "search"}[r.Intn(3)], Envelope: []string{"acrastruct", "acrablock"}[r.Intn(2)], DataType: typ, AppType: appType[typ], StoreType: fakepg.Bytea}
		if r.Intn(3) == 0 {
			c.TypeID = proxyrig.MyTypeID[typ]
		}
		switch r.Intn(4) {
		case 0:
			c.OnFail = ""
		case 1:
			c.OnFail = "ciphertext"
		case 2:
			c.OnFail = "default_value"
			d := genDefault(r, typ)
			c.Default = &d
		default:
			c.OnFail = "error"
		}
		if c.OnFail == "" && r.Intn(3) == 0 {
			d := genDefault(r, typ)
			c.Default = &d
		}
		if c.Kind == "search" && c.Default != nil && c.OnFail == "" {
			c.OnFail = "default_value"
		}
		c.Name = fmt.Sprintf("c%d_%s_%s", i, typ, policyOf(c))
		t.Cols = append(t.Cols, c)
	}
	t.Cols = append(t.Cols, proxyrig.ColSpec{Name: "note", AppType: fakepg.Text, StoreType: fakepg.Text})
	return t
}

func defaultBytes(c proxyrig.ColSpec) []byte {
	if c.DataType == "bytes" {
		b, _ := base64.StdEncoding.DecodeString(*c.Default)
		return b
	}
	return []byte(*c.Default)
}

// Layer runs the MySQL part of C19.
func Layer(r *ev.Run) {
	proxyrig.SetDialect(true)
	defer proxyrig.SetDialect(false)
	t0 := time.Now()
	defer func() { r.Extra("mysql_layer_wall_s", time.Since(t0).Seconds()) }()
	r.Rule += " || MySQL part: the same table generator with MySQL type ids (STRING 254, BLOB 252, LONG 3, LONGLONG 8) for data_type_db_identifier; the owner writes boundary values through a MySQL-mode AcraServer with the stock go-sql-driver client (differential against a reference fake MySQL holding the declared types: type class, text and binary-protocol values, NULL/empty); readers that cannot reveal (other keys, no keys, owner reading a damaged value) select every typed column alone with COM_QUERY (text rows) and COM_STMT_PREPARE/EXECUTE (binary rows) and must get exactly what the policy says; the wire type id of the column definition is read from the client-side byte stream with the harness codec; mixed-outcome reads: the database damages only some columns of some rows and the owner selects all typed columns (and all without the error-policy ones) in one statement, table order and shuffled, text and binary protocol - every field judged by the same rules, classed by what stands to its left in the row (revealed / unrevealable / nothing)"
	r.Assumptions = append(r.Assumptions, "MySQL part: fake MySQL behind AcraServer; policy 'ciphertext': the delivered field must carry the stored bytes; how such a column is described is not judged")
	rng := gen.New(r.Seed, "c19-mysql")
	n := r.Pick(20, 400)
	only := -1
	if v := os.Getenv("VERIF_C19MY_SESSION"); v != "" {
		fmt.Sscan(v, &only)
	}
	for s := 0; s < n; s++ {
		srng := gen.New(r.Seed, fmt.Sprintf("c19my-%d-%d", s, rng.Int63()))
		if only >= 0 && s != only {
			continue
		}
		session(r, srng, s)
	}
	if only >= 0 {
		return
	}
	r.RequireAtLeast("mysql_owner_replies_equal_reference", 80)
	r.RequireAtLeast("mysql_policy_fields_checked", 200)
	r.RequireSetAtLeast("mysql_policies_observed", 3)
	r.RequireAtLeast("mysql_mixed_fields_checked", 300)
	r.RequireAtLeast("mysql_mixed_unrevealable_after_revealed_checked", 80)
}

func session(r *ev.Run, rng *gen.Rand, sidx int) {
	tables := []proxyrig.TableSpec{genTable(rng, "tt1")}
	w, ac, rc, closeAll, ok := c04my.OpenWorld(r, tables)
	if !ok {
		return
	}
	defer closeAll()
	t := tables[0]
	g := proxyrig.NewMySessGen(rng, tables)
	g.Interleave = true
	var history []string
	nrows := 2 + rng.Intn(5)
	for i := 0; i < nrows+6; i++ {
		var st proxyrig.MyStep
		if i < nrows {
			st = g.Insert()
		} else {
			st = g.Next()
		}
		history = append(history, fmt.Sprintf("[%s/%s] %.300s", st.Proto, st.Kind, st.SQL))
		if !c04my.RunStep(r, w, ac, rc, st, history, sidx) {
			return
		}
	}
	for _, c := range t.Cols {
		if c.Configured() {
			r.Distinct(fmt.Sprintf("my|owner|%s|typeid=%v|%s|%s|%s", c.DataType, c.TypeID != 0, c.Kind, c.Envelope, policyOf(c)))
		}
	}
	for _, reader := range []string{c04.Other, c04.NoKeys} {
		c, err := proxyrig.DialMy(w.Acras[reader].Port, 1<<26)
		if err != nil {
			r.Inconclusive("cannot connect as " + reader + " (mysql)")
			return
		}
		good := checkReader(r, w, c, t, reader, nil, history, sidx)
		c.Close()
		if !good {
			return
		}
	}
	allDamaged := map[int]map[int]bool{}
	for ci, col := range t.Cols {
		if !col.Configured() || rng.Intn(2) == 0 {
			continue
		}
		damaged := map[int]bool{}
		w.Store.DB.TamperAll(t.Name, col.Name, func(row int, v fakepg.Value) fakepg.Value {
			b, ok := v.([]byte)
			if !ok || len(b) < 60 {
				return v
			}
			nb := append([]byte{}, b...)
			nb[len(nb)-7] ^= 0x20
			damaged[row] = true
			return nb
		})
		if len(damaged) > 0 {
			allDamaged[ci] = damaged
			if !checkReader(r, w, ac, t, "owner-damaged", map[int]map[int]bool{ci: damaged}, history, sidx) {
				return
			}
		}
		break
	}
	// mixed-outcome rows: only some columns of some rows are damaged; several typed columns in one statement
	damageSome(w, t, rng, allDamaged)
	mixedReads(r, w, ac, t, allDamaged, rng, history, sidx)
}

func plainOf(v fakepg.Value) []byte {
	switch x := v.(type) {
	case int64:
		return []byte(strconv.FormatInt(x, 10))
	case string:
		return []byte(x)
	case []byte:
		return x
	}
	return nil
}

func leaks(got, plain []byte) bool {
	if len(plain) < 9 {
		return false
	}
	if len(plain) > 32 {
		plain = plain[:32]
	}
	return bytes.Contains(got, plain) || bytes.Contains(got, []byte(hex.EncodeToString(plain)))
}

func readerClass(id string) string {
	switch id {
	case c04.Other:
		return "other-keys"
	case c04.NoKeys:
		return "no-keys"
	}
	return id
}

// lastColDefs extracts the column definitions of the last result set from a client-side received stream.
func lastColDefs(recv []byte, n int) []fakemysql.ColDef {
	frames, _, _ := fakemysql.SplitFrames(recv)
	var defs []fakemysql.ColDef
	for _, f := range frames {
		if len(f.Payload) > 4 && f.Payload[0] == 3 && string(f.Payload[1:4]) == "def" {
			if cd, err := fakemysql.DecodeColDef(f.Payload); err == nil {
				defs = append(defs, cd)
			}
		}
	}
	if len(defs) < n {
		return nil
	}
	return defs[len(defs)-n:]
}

func wantKind(typ string, binaryProto bool) string {
	if binaryProto && (typ == "int32" || typ == "int64") {
		return "int64"
	}
	return "bytes"
}

// checkReader selects every configured column (alone, so that an error policy of one column does not hide the others) in both protocols.
func checkReader(r *ev.Run, w *c04my.World, c *proxyrig.MyClient, t proxyrig.TableSpec, reader string, onlyDamaged map[int]map[int]bool, history []string, sidx int) bool {
	srows := w.Store.DB.Snapshot(t.Name)
	rrows := w.Ref.DB.Snapshot(t.Name)
	if len(srows) != len(rrows) {
		return true
	}
	// rows are selected in id order
	order := make([]int, len(srows))
	for i := range order {
		order[i] = i
	}
	for i := range order {
		for j := i + 1; j < len(order); j++ {
			a, _ := srows[order[i]][0].(int64)
			b, _ := srows[order[j]][0].(int64)
			if b < a {
				order[i], order[j] = order[j], order[i]
			}
		}
	}
	for ci, col := range t.Cols {
		if !col.Configured() {
			continue
		}
		if onlyDamaged != nil && onlyDamaged[ci] == nil {
			continue
		}
		for _, binProto := range []bool{false, true} {
			r.Case()
			sql := fmt.Sprintf("select id, %s from %s order by id", col.Name, t.Name)
			mark := c.Mark()
			var res *proxyrig.MyResult
			if binProto {
				ps, pr := c.Prepare(sql)
				if ps == nil {
					res = pr
				} else {
					res = ps.Query()
					ps.Close()
				}
			} else {
				res = c.Query(sql)
			}
			_, recv := c.Since(mark)
			fmtName := map[bool]string{false: "text", true: "binary"}[binProto]
			pol := policyOf(col)
			sig := func(what string) string {
				return fmt.Sprintf("mysql: %s: type=%s kind=%s/%s policy=%s reader=%s protocol=%s", what, col.DataType, col.Kind, col.Envelope, pol, readerClass(reader), fmtName)
			}
			detail := func(extra map[string]interface{}) map[string]interface{} {
				m := map[string]interface{}{"session": sidx, "schema": w.Schema, "sql": sql, "history": history, "reader": reader, "result_error": fmt.Sprint(res.Err), "result_cols": fmt.Sprint(res.Cols), "result_rows": trunc(fmt.Sprint(res.Rows), 1500)}
				for k, v := range extra {
					m[k] = v
				}
				return m
			}
			if res.Timeout {
				r.Inconclusive("watchdog while reading (mysql c19)")
				return false
			}
			unrevealable := func(ri int) bool {
				sv, _ := srows[ri][ci].([]byte)
				if len(sv) == 0 {
					return false
				}
				if onlyDamaged != nil {
					return onlyDamaged[ci][ri]
				}
				return true
			}
			anyUnrevealable := false
			for ri := range srows {
				if unrevealable(ri) {
					anyUnrevealable = true
				}
			}
			r.SetAdd("mysql_policies_observed", pol)
			r.Count("mysql_reads_by_"+readerClass(reader)+"_"+fmtName, 1)
			if anyUnrevealable {
				r.Count("mysql_reads_with_unrevealable_rows_"+readerClass(reader), 1)
			}
			if pol == "error" && anyUnrevealable {
				if res.Err == nil {
					r.Violation(sig("policy error: no error reported for the statement"), detail(nil))
					continue
				}
				if res.ErrNo == 0 {
					// the connection broke instead of an ERR packet: the statement did fail, but the session is gone
					r.Violation(sig("policy error: connection broke instead of an error response"), detail(nil))
					return false
				}
				for k := range res.Rows {
					if k < len(order) && unrevealable(order[k]) {
						r.Violation(sig("policy error: a row with an unrevealable value was delivered"), detail(map[string]interface{}{"row": k}))
					}
				}
				// "an error for the statement": the session must go on with the next statement
				probe := c.Query("select id from " + t.Name + " order by id")
				if probe.Timeout {
					r.Inconclusive("watchdog after an error response (mysql c19)")
					return false
				}
				if probe.Err != nil || len(probe.Rows) != len(srows) {
					r.Violation(sig("policy error: session out of step after the error response"), detail(map[string]interface{}{"probe_error": fmt.Sprint(probe.Err), "probe_rows": len(probe.Rows), "want_rows": len(srows)}))
					return false
				}
				r.Count("mysql_policy_fields_checked", 1)
				r.Distinct(fmt.Sprintf("my|%s|typeid=%v|%s|%s|error|%s|%s|error-reported", col.DataType, col.TypeID != 0, col.Kind, col.Envelope, readerClass(reader), fmtName))
				continue
			}
			if res.Broken {
				r.Violation(sig("connection broke while reading"), detail(nil))
				return false
			}
			if res.Err != nil {
				r.Violation(sig("unexpected error response"), detail(nil))
				continue
			}
			if len(res.Rows) != len(srows) {
				r.Violation(sig("row count differs"), detail(map[string]interface{}{"got": len(res.Rows), "want": len(srows)}))
				continue
			}
			defs := lastColDefs(recv, 2)
			for k, row := range res.Rows {
				ri := order[k]
				if len(row) != 2 {
					r.Violation(sig("field count differs"), detail(nil))
					break
				}
				got := row[1]
				sv := srows[ri][ci]
				svb, _ := sv.([]byte)
				switch {
				case sv == nil:
					if !got.Null {
						r.Violation(sig("NULL did not stay NULL"), detail(map[string]interface{}{"row": k, "got": got.String()}))
					}
				case len(svb) == 0:
					if got.Null || len(got.B) != 0 {
						r.Violation(sig("empty value did not stay empty"), detail(map[string]interface{}{"row": k, "got": got.String()}))
					}
				case !unrevealable(ri):
					want := plainOf(rrows[ri][ci])
					if got.Null || !bytes.Equal(got.B, want) || got.Kind != wantKind(col.DataType, binProto) {
						r.Violation(sig("undamaged value not revealed in the declared type"), detail(map[string]interface{}{"row": k, "got": got.String(), "want": ev.Hex(want)}))
					}
				case pol == "ciphertext":
					if got.Null || !bytes.Equal(got.B, svb) {
						what := "policy ciphertext: delivered field is not the stored ciphertext"
						if leaks(got.B, plainOf(rrows[ri][ci])) {
							what = "policy ciphertext: plaintext (partly) delivered"
						}
						r.Violation(sig(what), detail(map[string]interface{}{"row": k, "got": got.String(), "stored": ev.Hex(svb)}))
					} else {
						r.Count("mysql_policy_fields_checked", 1)
						r.Distinct(fmt.Sprintf("my|%s|typeid=%v|%s|%s|ciphertext|%s|%s|stored-bytes", col.DataType, col.TypeID != 0, col.Kind, col.Envelope, readerClass(reader), fmtName))
					}
				case pol == "default":
					want := defaultBytes(col)
					if got.Null && len(want) == 0 {
						// an empty default may be delivered as ... see notes: judged as a difference below
					}
					if got.Null || !bytes.Equal(got.B, want) || got.Kind != wantKind(col.DataType, binProto) {
						r.Violation(sig("policy default_value: delivered field is not the configured default in the declared type"), detail(map[string]interface{}{"row": k, "got": got.String(), "want": ev.Hex(want), "default": *col.Default}))
					} else {
						r.Count("mysql_policy_fields_checked", 1)
						r.Distinct(fmt.Sprintf("my|%s|typeid=%v|%s|%s|default|%s|%s|default-encoded", col.DataType, col.TypeID != 0, col.Kind, col.Envelope, readerClass(reader), fmtName))
					}
					if defs != nil && uint32(defs[1].Type) != proxyrig.MyTypeID[col.DataType] {
						r.Violation(sig("policy default_value: column not described as the declared type"), detail(map[string]interface{}{"type_id": defs[1].Type, "want": proxyrig.MyTypeID[col.DataType]}))
					} else if defs != nil {
						r.Count("mysql_descriptions_checked", 1)
					}
				}
			}
		}
	}
	return true
}

func trunc(s string, n int) string {
	if len(s) > n {
		return s[:n] + "..."
	}
	return s
}
