package mysql

import (
	"os"
	"testing"

	"verif/harness/internal/ev"
)

// TestLayerDev runs the layer alone (development aid until the lead wires Layer into the C19 monitor); evidence goes to $VERIF_ROOT.
func TestLayerDev(t *testing.T) {
	if os.Getenv("VERIF_ROOT") == "" {
		t.Skip("set VERIF_ROOT to a scratch directory (evidence and replay files are written there); see notes/mysql-rig.md")
	}
	r := ev.New("C19", "exploration")
	Layer(r)
	r.Distinct("dev-run")
	if rc := r.Finish(); rc != 0 {
		t.Fatalf("layer reported violations (rc=%d)", rc)
	}
}
