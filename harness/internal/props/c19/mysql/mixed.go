package mysql

import (
	"bytes"
	"fmt"
	"strings"

	"verif/harness/internal/ev"
	"verif/harness/internal/gen"
	c04my "verif/harness/internal/props/c04/mysql"
	"verif/harness/internal/rig/fakepg"
	"verif/harness/internal/rig/proxyrig"
)

// --- mixed-outcome reads ---
// The single-column reads never put a revealed and an unrevealable protected value into one row. Here the database damages
// only SOME columns of SOME rows, and the owner selects several typed columns in ONE statement: every field is judged by the
// same rules (undamaged -> reference value in the declared type; damaged -> the column's policy), so that state carried over
// from one column of a row to the next (decrypted flag, conversion-error flag, column setting) shows.

// damageSome damages, for a random subset of the configured columns, a random subset of the rows (values already damaged are
// left alone: flipping the same bit twice would repair them). It makes sure that at least one row, if the data allows, holds
// both an intact and a damaged protected value.
func damageSome(w *c04my.World, t proxyrig.TableSpec, rng *gen.Rand, damaged map[int]map[int]bool) {
	rows := w.Store.DB.Snapshot(t.Name)
	damageable := func(ri, ci int) bool {
		b, ok := rows[ri][ci].([]byte)
		return ok && len(b) >= 60 && !damaged[ci][ri]
	}
	pick := map[int]map[int]bool{}
	for ci, col := range t.Cols {
		if !col.Configured() || rng.Intn(2) == 0 {
			continue
		}
		for ri := range rows {
			if damageable(ri, ci) && rng.Intn(2) == 0 {
				if pick[ci] == nil {
					pick[ci] = map[int]bool{}
				}
				pick[ci][ri] = true
			}
		}
	}
	// force one mixed row when chance produced none: in some row with two damageable values damage exactly the right-hand one
	mixed := false
	for ri := range rows {
		intact, broken := 0, 0
		for ci, col := range t.Cols {
			if !col.Configured() {
				continue
			}
			if b, ok := rows[ri][ci].([]byte); ok && len(b) >= 60 {
				if damaged[ci][ri] || pick[ci][ri] {
					broken++
				} else {
					intact++
				}
			}
		}
		if intact > 0 && broken > 0 {
			mixed = true
		}
	}
	if !mixed {
	search:
		for ri := range rows {
			var cand []int
			for ci, col := range t.Cols {
				if col.Configured() && damageable(ri, ci) && !pick[ci][ri] {
					cand = append(cand, ci)
				}
			}
			if len(cand) >= 2 {
				ci := cand[len(cand)-1]
				if pick[ci] == nil {
					pick[ci] = map[int]bool{}
				}
				pick[ci][ri] = true
				break search
			}
		}
	}
	for ci, rowsOf := range pick {
		ci, rowsOf := ci, rowsOf
		w.Store.DB.TamperAll(t.Name, t.Cols[ci].Name, func(row int, v fakepg.Value) fakepg.Value {
			b, ok := v.([]byte)
			if !ok || !rowsOf[row] {
				return v
			}
			nb := append([]byte{}, b...)
			nb[len(nb)-7] ^= 0x20
			return nb
		})
		if damaged[ci] == nil {
			damaged[ci] = map[int]bool{}
		}
		for ri := range rowsOf {
			damaged[ci][ri] = true
		}
	}
}

// mixedReads: the owner selects several typed columns in one statement, over rows where only some values are damaged.
func mixedReads(r *ev.Run, w *c04my.World, c *proxyrig.MyClient, t proxyrig.TableSpec, damaged map[int]map[int]bool, rng *gen.Rand, history []string, sidx int) bool {
	intCipher := func(col proxyrig.ColSpec) bool {
		return (col.DataType == "int32" || col.DataType == "int64") && policyOf(col) == "ciphertext"
	}
	var all, noError, noIntCipher, neither []int
	for ci, col := range t.Cols {
		if !col.Configured() {
			continue
		}
		all = append(all, ci)
		if policyOf(col) != "error" {
			noError = append(noError, ci)
		}
		if !intCipher(col) {
			noIntCipher = append(noIntCipher, ci)
		}
		if policyOf(col) != "error" && !intCipher(col) {
			neither = append(neither, ci)
		}
	}
	shuffled := func(in []int) []int {
		out := append([]int{}, in...)
		rng.Shuffle(len(out), func(i, j int) { out[i], out[j] = out[j], out[i] })
		return out
	}
	type variant struct {
		name string
		cols []int
	}
	var vs []variant
	seen := map[string]bool{}
	for _, cand := range []variant{{"all-columns", all}, {"without-error-policy-columns", noError}, {"without-integer-ciphertext-columns", noIntCipher}, {"without-error-policy-and-integer-ciphertext-columns", neither}} {
		k := fmt.Sprint(cand.cols)
		if seen[k] || len(cand.cols) < 2 {
			continue
		}
		seen[k] = true
		vs = append(vs, variant{cand.name + "/table-order", cand.cols}, variant{cand.name + "/shuffled", shuffled(cand.cols)})
	}
	for _, v := range vs {
		if len(v.cols) < 2 {
			continue
		}
		for _, binProto := range []bool{false, true} {
			if !mixedRead(r, w, c, t, damaged, v.name, v.cols, binProto, history, sidx) {
				return false
			}
		}
	}
	return true
}

func mixedRead(r *ev.Run, w *c04my.World, c *proxyrig.MyClient, t proxyrig.TableSpec, damaged map[int]map[int]bool, vname string, cols []int, binProto bool, history []string, sidx int) bool {
	r.Case()
	srows := w.Store.DB.Snapshot(t.Name)
	rrows := w.Ref.DB.Snapshot(t.Name)
	if len(srows) != len(rrows) {
		return true
	}
	order := make([]int, len(srows))
	for i := range order {
		order[i] = i
	}
	for i := range order {
		for j := i + 1; j < len(order); j++ {
			a, _ := srows[order[i]][0].(int64)
			b, _ := srows[order[j]][0].(int64)
			if b < a {
				order[i], order[j] = order[j], order[i]
			}
		}
	}
	names := make([]string, len(cols))
	for i, ci := range cols {
		names[i] = t.Cols[ci].Name
	}
	sql := fmt.Sprintf("select id, %s from %s order by id", strings.Join(names, ", "), t.Name)
	mark := c.Mark()
	var res *proxyrig.MyResult
	if binProto {
		ps, pr := c.Prepare(sql)
		if ps == nil {
			res = pr
		} else {
			res = ps.Query()
			ps.Close()
		}
	} else {
		res = c.Query(sql)
	}
	_, recv := c.Since(mark)
	fmtName := map[bool]string{false: "text", true: "binary"}[binProto]
	unrevealable := func(ri, ci int) bool {
		sv, _ := srows[ri][ci].([]byte)
		return len(sv) > 0 && damaged[ci][ri]
	}
	revealable := func(ri, ci int) bool {
		sv, _ := srows[ri][ci].([]byte)
		return len(sv) > 0 && !damaged[ci][ri]
	}
	// position of a field among the protected fields of its row: what stands to its left in the statement's column order
	position := func(ri, k int) string {
		rev, unrev := false, false
		for _, ci := range cols[:k] {
			if revealable(ri, ci) {
				rev = true
			}
			if unrevealable(ri, ci) {
				unrev = true
			}
		}
		switch {
		case rev && unrev:
			return "after-revealed-and-unrevealable-columns"
		case rev:
			return "after-revealed-column"
		case unrev:
			return "after-unrevealable-column"
		}
		return "first-protected-value-of-the-row"
	}
	sig := func(what string, col proxyrig.ColSpec, pos string) string {
		return fmt.Sprintf("mysql mixed-outcome row: %s: type=%s kind=%s/%s policy=%s position=%s protocol=%s", what, col.DataType, col.Kind, col.Envelope, policyOf(col), pos, fmtName)
	}
	detail := func(extra map[string]interface{}) map[string]interface{} {
		dm := map[string][]int{}
		for ci, rs := range damaged {
			for ri := range rs {
				dm[t.Cols[ci].Name] = append(dm[t.Cols[ci].Name], ri)
			}
		}
		m := map[string]interface{}{"session": sidx, "schema": w.Schema, "sql": sql, "variant": vname, "history": history, "damaged_rows_by_column(storage order)": dm, "result_error": fmt.Sprint(res.Err), "result_cols": fmt.Sprint(res.Cols), "result_rows": trunc(fmt.Sprint(res.Rows), 2500)}
		for k, v := range extra {
			m[k] = v
		}
		return m
	}
	if res.Timeout {
		r.Inconclusive("watchdog while reading (mysql c19 mixed read)")
		return false
	}
	// One case cannot be expressed on the wire at all: in the binary protocol a column has ONE description for all rows, and an
	// integer value (fixed-width) and its ciphertext fallback (length-encoded string) need different ones. When a statement
	// selects an int32/int64 column with policy ciphertext that holds both revealed and unrevealable rows, everything that goes
	// wrong in that result set (rows lost, neighbouring fields misread) is one finding, reported under one signature.
	var ambiguous *proxyrig.ColSpec
	if binProto {
		for _, ci := range cols {
			col := t.Cols[ci]
			if (col.DataType == "int32" || col.DataType == "int64") && policyOf(col) == "ciphertext" {
				rev, unrev := false, false
				for ri := range srows {
					rev = rev || revealable(ri, ci)
					unrev = unrev || unrevealable(ri, ci)
				}
				if rev && unrev && ambiguous == nil {
					ambiguous = &t.Cols[ci]
				}
			}
		}
	}
	var problems []string
	report := func(sg string, det interface{}) {
		if ambiguous != nil {
			problems = append(problems, sg)
			return
		}
		r.Violation(sg, det)
	}
	defer func() {
		if ambiguous == nil {
			return
		}
		if len(problems) > 0 {
			r.Violation(fmt.Sprintf("mysql mixed-outcome rows: integer column with policy ciphertext holds revealed and unrevealable rows, binary result set is not delivered intact: type=%s kind=%s/%s", ambiguous.DataType, ambiguous.Kind, ambiguous.Envelope), detail(map[string]interface{}{"column": ambiguous.Name, "problems": problems}))
		} else {
			r.Count("mysql_mixed_binary_integer_ciphertext_fallback_delivered_intact", 1)
		}
	}()
	// does an error-policy column of this statement hold an unrevealable value? then the statement must fail
	var errCol *proxyrig.ColSpec
	errPos := ""
	for _, ri := range order {
		for k, ci := range cols {
			if policyOf(t.Cols[ci]) == "error" && unrevealable(ri, ci) && errCol == nil {
				errCol, errPos = &t.Cols[ci], position(ri, k)
			}
		}
	}
	r.Count("mysql_mixed_reads_"+fmtName, 1)
	if errCol != nil {
		if res.Err == nil {
			report(sig("policy error: no error reported for the statement", *errCol, errPos), detail(nil))
			return true
		}
		if res.ErrNo == 0 {
			report(sig("policy error: connection broke instead of an error response", *errCol, errPos), detail(nil))
			return false
		}
		for k := range res.Rows {
			if k >= len(order) {
				break
			}
			for kk, ci := range cols {
				if policyOf(t.Cols[ci]) == "error" && unrevealable(order[k], ci) {
					report(sig("policy error: a row with an unrevealable value was delivered", t.Cols[ci], position(order[k], kk)), detail(map[string]interface{}{"row": k}))
				}
			}
		}
		probe := c.Query("select id from " + t.Name + " order by id")
		if probe.Timeout {
			r.Inconclusive("watchdog after an error response (mysql c19 mixed read)")
			return false
		}
		if probe.Err != nil || len(probe.Rows) != len(srows) {
			report(sig("policy error: session out of step after the error response", *errCol, errPos), detail(map[string]interface{}{"probe_error": fmt.Sprint(probe.Err), "probe_rows": len(probe.Rows)}))
			return false
		}
		r.Count("mysql_mixed_error_statements_checked", 1)
		if errPos == "after-revealed-column" || errPos == "after-revealed-and-unrevealable-columns" {
			r.Count("mysql_mixed_unrevealable_after_revealed_checked", 1)
		}
		r.Distinct(fmt.Sprintf("my|mixed|%s|error|%s|%s|error-reported", errCol.DataType, errPos, fmtName))
		return true
	}
	if res.Broken {
		report(fmt.Sprintf("mysql mixed-outcome row: connection broke while reading: variant=%s protocol=%s", vname, fmtName), detail(nil))
		return false
	}
	if res.Err != nil {
		report(fmt.Sprintf("mysql mixed-outcome row: unexpected error response: variant=%s protocol=%s", vname, fmtName), detail(nil))
		return true
	}
	if len(res.Rows) != len(srows) {
		report(fmt.Sprintf("mysql mixed-outcome row: row count differs: variant=%s protocol=%s", vname, fmtName), detail(map[string]interface{}{"got": len(res.Rows), "want": len(srows)}))
		return true
	}
	defs := lastColDefs(recv, len(cols)+1)
	for k, row := range res.Rows {
		ri := order[k]
		if len(row) != len(cols)+1 {
			report(fmt.Sprintf("mysql mixed-outcome row: field count differs: variant=%s protocol=%s", vname, fmtName), detail(nil))
			return true
		}
		isMixed := false
		{
			a, b := false, false
			for _, ci := range cols {
				a = a || revealable(ri, ci)
				b = b || unrevealable(ri, ci)
			}
			isMixed = a && b
		}
		for kk, ci := range cols {
			col := t.Cols[ci]
			got := row[kk+1]
			sv := srows[ri][ci]
			svb, _ := sv.([]byte)
			pol := policyOf(col)
			pos := position(ri, kk)
			good := false
			switch {
			case sv == nil:
				if !got.Null {
					report(sig("NULL did not stay NULL", col, pos), detail(map[string]interface{}{"row": k, "field": kk + 1, "got": got.String()}))
				}
				continue
			case len(svb) == 0:
				if got.Null || len(got.B) != 0 {
					report(sig("empty value did not stay empty", col, pos), detail(map[string]interface{}{"row": k, "field": kk + 1, "got": got.String()}))
				}
				continue
			case !unrevealable(ri, ci):
				want := plainOf(rrows[ri][ci])
				// the Go kind delivered by the driver follows the column description, which is one per column: when another row
				// of this column fell back to ciphertext (policy ciphertext) the description is not judged, only the value
				kindOK := got.Kind == wantKind(col.DataType, binProto) || (pol == "ciphertext" && len(damaged[ci]) > 0)
				if got.Null || !bytes.Equal(got.B, want) || !kindOK {
					report(sig("undamaged value not revealed in the declared type", col, pos), detail(map[string]interface{}{"row": k, "field": kk + 1, "got": got.String(), "want": ev.Hex(want)}))
				} else {
					good = true
				}
			case pol == "ciphertext":
				if got.Null || !bytes.Equal(got.B, svb) {
					what := "policy ciphertext: delivered field is not the stored ciphertext"
					if leaks(got.B, plainOf(rrows[ri][ci])) {
						what = "policy ciphertext: plaintext (partly) delivered"
					}
					report(sig(what, col, pos), detail(map[string]interface{}{"row": k, "field": kk + 1, "got": got.String(), "stored": ev.Hex(svb)}))
				} else {
					good = true
				}
			case pol == "default":
				want := defaultBytes(col)
				if got.Null || !bytes.Equal(got.B, want) || got.Kind != wantKind(col.DataType, binProto) {
					report(sig("policy default_value: delivered field is not the configured default in the declared type", col, pos), detail(map[string]interface{}{"row": k, "field": kk + 1, "got": got.String(), "want": ev.Hex(want), "default": *col.Default}))
				} else {
					good = true
				}
				if defs != nil && uint32(defs[kk+1].Type) != proxyrig.MyTypeID[col.DataType] {
					report(sig("policy default_value: column not described as the declared type", col, pos), detail(map[string]interface{}{"type_id": defs[kk+1].Type, "want": proxyrig.MyTypeID[col.DataType]}))
					good = false
				}
			}
			if good && isMixed {
				r.Count("mysql_mixed_fields_checked", 1)
				if unrevealable(ri, ci) {
					r.Count("mysql_mixed_unrevealable_fields_checked", 1)
					if pos == "after-revealed-column" || pos == "after-revealed-and-unrevealable-columns" {
						r.Count("mysql_mixed_unrevealable_after_revealed_checked", 1)
					}
					r.Distinct(fmt.Sprintf("my|mixed|%s|%s|%s|%s", col.DataType, pol, pos, fmtName))
				}
			}
		}
	}
	return true
}
