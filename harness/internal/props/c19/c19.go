// Package c19 monitors "typed columns come back in the declared type or per the failure policy" on the PostgreSQL wire rig.
package c19

import (
	"bytes"
	"encoding/base64"
	"encoding/binary"
	"encoding/hex"
	"fmt"
	"strconv"

	"github.com/jackc/pgx/v5/pgproto3"

	"verif/harness/internal/ev"
	"verif/harness/internal/gen"
	"verif/harness/internal/props"
	"verif/harness/internal/props/c04"
	"verif/harness/internal/rig/fakepg"
	"verif/harness/internal/rig/proxyrig"
)

func init() { props.Register("C19", props.Monitor{Level: "exploration", Run: Run}) }

var typeOID = map[string]uint32{"str": 25, "bytes": 17, "int32": 23, "int64": 20}
var appType = map[string]fakepg.ColType{"str": fakepg.Text, "bytes": fakepg.Bytea, "int32": fakepg.Int4, "int64": fakepg.Int8}

// defaults per type (all valid): boundary integers, empty / non-ASCII strings, non-UTF-8 bytes as base64
func genDefault(r *gen.Rand, typ string) string {
	switch typ {
	case "int32":
		return []string{"0", "-1", "2147483647", "-2147483648", "42"}[r.Intn(5)]
	case "int64":
		return []string{"0", "-1", "9223372036854775807", "-9223372036854775808", "2147483648"}[r.Intn(5)]
	case "str":
		return []string{"", "default", "дефолт ünï 漢", "with 'quote' and \"dq\""}[r.Intn(4)]
	default:
		return base64.StdEncoding.EncodeToString([][]byte{{}, {0xff, 0xfe, 0x00, 0x01}, []byte("default bytes"), gen.Bytes(r, 1+r.Intn(40))}[r.Intn(4)])
	}
}

func genTable(r *gen.Rand, name string) proxyrig.TableSpec {
	t := proxyrig.TableSpec{Name: name}
	t.Cols = append(t.Cols, proxyrig.ColSpec{Name: "id", AppType: fakepg.Int4, StoreType: fakepg.Int4})
	n := 3 + r.Intn(4)
	for i := 0; i < n; i++ {
		typ := []string{"str", "bytes", "int32", "int64"}[r.Intn(4)]
		c := proxyrig.ColSpec{Kind: []string{"enc", "enc", "search"}[r.Intn(3)], Envelope: []string{"acrastruct", "acrablock"}[r.Intn(2)], DataType: typ, AppType: appType[typ], StoreType: fakepg.Bytea}
		if r.Intn(3) == 0 {
			c.TypeID = typeOID[typ]
		}
		switch r.Intn(4) {
		case 0:
			c.OnFail = "" // default policy: ciphertext
		case 1:
			c.OnFail = "ciphertext"
		case 2:
			c.OnFail = "default_value"
			d := genDefault(r, typ)
			c.Default = &d
		default:
			c.OnFail = "error"
		}
		if c.OnFail == "" && r.Intn(3) == 0 {
			// default_data_value without response_on_fail means policy default_value
			d := genDefault(r, typ)
			c.Default = &d
		}
		if c.Kind == "search" && c.Default != nil && c.OnFail == "" {
			// searchable + default value is accepted by Acra's config validation only with an explicit policy
			c.OnFail = "default_value"
		}
		c.Name = fmt.Sprintf("c%d_%s_%s", i, typ, policyOf(c))
		t.Cols = append(t.Cols, c)
	}
	t.Cols = append(t.Cols, proxyrig.ColSpec{Name: "note", AppType: fakepg.Text, StoreType: fakepg.Text})
	return t
}

func policyOf(c proxyrig.ColSpec) string {
	switch {
	case c.OnFail == "error":
		return "error"
	case c.OnFail == "default_value" || (c.OnFail == "" && c.Default != nil):
		return "default"
	default:
		return "ciphertext"
	}
}

// encodeDeclared is the reference encoder: a value of the declared type in the requested wire format.
func encodeDeclared(typ string, text []byte, binaryFmt bool) ([]byte, error) {
	switch typ {
	case "int32":
		v, err := strconv.ParseInt(string(text), 10, 32)
		if err != nil {
			return nil, err
		}
		if !binaryFmt {
			return []byte(strconv.FormatInt(v, 10)), nil
		}
		b := make([]byte, 4)
		binary.BigEndian.PutUint32(b, uint32(int32(v)))
		return b, nil
	case "int64":
		v, err := strconv.ParseInt(string(text), 10, 64)
		if err != nil {
			return nil, err
		}
		if !binaryFmt {
			return []byte(strconv.FormatInt(v, 10)), nil
		}
		b := make([]byte, 8)
		binary.BigEndian.PutUint64(b, uint64(v))
		return b, nil
	case "str":
		return text, nil
	default:
		if binaryFmt {
			return text, nil
		}
		return []byte(`\x` + hex.EncodeToString(text)), nil
	}
}

func defaultBytes(c proxyrig.ColSpec) []byte {
	if c.DataType == "bytes" {
		b, _ := base64.StdEncoding.DecodeString(*c.Default)
		return b
	}
	return []byte(*c.Default)
}

// Run is the C19 monitor.
// MySQLLayer, when set (props/all), runs this property's layer over the MySQL proxy rig.
var MySQLLayer func(r *ev.Run)

func Run(r *ev.Run) {
	r.Rule = "tables of 3-6 protected columns with a declared type (str, bytes, int32, int64; as data_type or as data_type_db_identifier OID; plain or searchable; both envelopes) and a failure policy (ciphertext explicit/implicit, default_value with generated valid defaults, error); the owner writes boundary values through AcraServer (differential against a reference database with the declared types: type OID, text and binary encodings, NULL/empty); then readers that cannot reveal (other keys, no keys, owner reading a value the database damaged) select every column in text and binary result format and must get exactly what the policy says; in every session the owner also runs three of the 13 protocol-sequence shapes of proxyrig/pgseq.go (statement parsed in one cycle and bound / described / executed in later ones, several statements prepared and run in another order, simple queries in between, Flush, pipelined cycles; named and unnamed statements and portals; fresh and used connections) and every RowDescription and DataRow is compared per statement with the reference database; distinct = (declared type, type given as, column kind, envelope, policy, reader, result format, outcome) tuples, for sequences (shape, answered message, parsed in same/earlier cycle, what ran since the Parse, named/unnamed, declared type, format)"
	r.Assumptions = []string{
		"crypto library replaced by the pure-Go gothemis stand-in",
		"fake PostgreSQL behind AcraServer; PostgreSQL protocol only (MySQL type ids not driven here)",
		"policy 'ciphertext': the delivered field must carry the stored bytes (raw or in bytea text encoding); how such a column is described is not judged, because a column cannot be described as the declared type and carry ciphertext at once",
	}
	rng := gen.New(r.Seed, "c19")
	n := r.Pick(80, 900)
	for s := 0; s < n; s++ {
		session(r, gen.New(r.Seed, fmt.Sprintf("c19-%d-%d", s, rng.Int63())), s)
	}
	r.RequireAtLeast("owner_replies_equal_reference", 100)
	r.RequireAtLeast("policy_fields_checked", 300)
	r.RequireAtLeast("mixed_rows_checked", 20)
	requireSequences(r)
	if MySQLLayer != nil {
		// the MySQL part: same oracles over the MySQL rig (switches the process-wide SQL dialect, so it runs after the PostgreSQL part)
		MySQLLayer(r)
	}
	r.RequireSetAtLeast("policies_observed", 3)
	r.RequireAtLeast("sessions_on_database_with_bytea_output_escape", 5)
}

func session(r *ev.Run, rng *gen.Rand, sidx int) {
	tables := []proxyrig.TableSpec{genTable(rng, "tt1")}
	// every third session runs against a database with bytea_output = escape (typed columns are physically bytea: their text
	// results then arrive in the escape spelling); the reference keeps hex, fields are compared by value
	byteaOut := ""
	if sidx%3 == 2 {
		byteaOut = "escape"
		r.Count("sessions_on_database_with_bytea_output_escape", 1)
	}
	w, ac, rc, closeAll, ok := c04.OpenWorldOn(r, tables, "", byteaOut)
	if !ok {
		return
	}
	defer closeAll()
	t := tables[0]
	g := proxyrig.NewSessGen(rng, tables)
	var history []string
	nrows := 2 + rng.Intn(5)
	for i := 0; i < nrows+6; i++ {
		var st proxyrig.Step
		if i < nrows {
			st = g.Insert()
		} else {
			st = g.Next()
		}
		history = append(history, fmt.Sprintf("[%s %s/%s/%s] %.300s", st.Proto, st.ParamFmt, st.ResFmt, st.Kind, st.SQL))
		if !c04.RunStep(r, w, ac, rc, st, history, sidx) {
			return
		}
	}
	for _, c := range t.Cols {
		if c.Configured() {
			r.Distinct(fmt.Sprintf("owner|%s|oid=%v|%s|%s|%s", c.DataType, c.TypeID != 0, c.Kind, c.Envelope, policyOf(c)))
		}
	}
	// protocol sequences (seq.go): the owner's statements parsed, described, bound and executed in separate cycles
	runSequences(r, rng, w, ac, rc, t, history, sidx)
	// readers that cannot reveal
	for _, reader := range []string{c04.Other, c04.NoKeys} {
		c, _, err := proxyrig.DialPG(w.Acras[reader].Port)
		if err != nil {
			r.Inconclusive("cannot connect as " + reader)
			return
		}
		checkReader(r, w, c, t, reader, nil, history, sidx)
		c.Close()
	}
	// damaged values: the database flips a byte inside every stored value of one column; the owner reads
	prevDamage := map[int]map[int]bool{}
	for ci, col := range t.Cols {
		if !col.Configured() || rng.Intn(2) == 0 {
			continue
		}
		damaged := map[int]bool{}
		w.Store.DB.TamperAll(t.Name, col.Name, func(row int, v fakepg.Value) fakepg.Value {
			b, ok := v.([]byte)
			if !ok || len(b) < 60 {
				return v
			}
			nb := append([]byte{}, b...)
			nb[len(nb)-7] ^= 0x20 // inside the encrypted payload
			damaged[row] = true
			return nb
		})
		if len(damaged) > 0 {
			checkReader(r, w, ac, t, "owner-damaged", map[int]map[int]bool{ci: damaged}, history, sidx)
			prevDamage[ci] = damaged
		}
		break
	}
	checkMixedRows(r, rng, w, ac, t, prevDamage, history, sidx)
}

// checkMixedRows: the database damages the values of SOME columns in SOME rows; the owner selects several typed columns in one
// statement, so that one row mixes revealed fields with fields that fall under their column's failure policy.
func checkMixedRows(r *ev.Run, rng *gen.Rand, w *c04.World, ac *proxyrig.PGClient, t proxyrig.TableSpec, damaged map[int]map[int]bool, history []string, sidx int) {
	var typed []int
	for ci, col := range t.Cols {
		if col.Configured() {
			typed = append(typed, ci)
		}
	}
	if len(typed) < 2 {
		return
	}
	for _, ci := range typed {
		if rng.Intn(2) == 0 || damaged[ci] != nil {
			continue
		}
		ci := ci
		phase := rng.Intn(2)
		w.Store.DB.TamperAll(t.Name, t.Cols[ci].Name, func(row int, v fakepg.Value) fakepg.Value {
			b, ok := v.([]byte)
			if !ok || len(b) < 60 || row%2 != phase {
				return v
			}
			nb := append([]byte{}, b...)
			nb[len(nb)-9] ^= 0x10 // inside the encrypted payload
			if damaged[ci] == nil {
				damaged[ci] = map[int]bool{}
			}
			damaged[ci][row] = true
			return nb
		})
	}
	if len(damaged) == 0 {
		return
	}
	var noErr []int
	for _, ci := range typed {
		if policyOf(t.Cols[ci]) != "error" || damaged[ci] == nil {
			noErr = append(noErr, ci)
		}
	}
	shuffled := append([]int{}, typed...)
	rng.Shuffle(len(shuffled), func(i, j int) { shuffled[i], shuffled[j] = shuffled[j], shuffled[i] })
	for _, sel := range [][]int{typed, shuffled, noErr} {
		if len(sel) < 2 {
			continue
		}
		checkColumns(r, w, ac, t, "owner-damaged-mixed-row", sel, damaged, history, sidx)
	}
}

// checkReader selects every configured column (alone, so that an error policy of one column does not hide the others) in both result formats.
// onlyDamaged, when non-nil, restricts the policy expectation to the given (column index -> rows); other fields must equal the reference.
func checkReader(r *ev.Run, w *c04.World, c *proxyrig.PGClient, t proxyrig.TableSpec, reader string, onlyDamaged map[int]map[int]bool, history []string, sidx int) {
	srows := w.Store.DB.Snapshot(t.Name)
	rrows := w.Ref.DB.Snapshot(t.Name)
	if len(srows) != len(rrows) {
		return
	}
	for ci, col := range t.Cols {
		if !col.Configured() {
			continue
		}
		if onlyDamaged != nil && onlyDamaged[ci] == nil {
			continue
		}
		for _, binFmt := range []bool{false, true} {
			r.Case()
			sql := fmt.Sprintf("select id, %s from %s order by id", col.Name, t.Name)
			var msgs []proxyrig.BackendMsg
			var err error
			if binFmt {
				msgs, err = c.Extended("", sql, nil, nil, nil, []int16{1}, 0)
			} else {
				msgs, err = c.Simple(sql)
			}
			fmtName := map[bool]string{false: "text", true: "binary"}[binFmt]
			pol := policyOf(col)
			sig := func(what string) string {
				return fmt.Sprintf("%s: type=%s kind=%s/%s policy=%s reader=%s format=%s", what, col.DataType, col.Kind, col.Envelope, pol, readerClass(reader), fmtName)
			}
			detail := func(extra map[string]interface{}) map[string]interface{} {
				m := map[string]interface{}{"session": sidx, "schema": w.Schema, "sql": sql, "history": history, "reader": reader, "reply": describe(msgs)}
				for k, v := range extra {
					m[k] = v
				}
				return m
			}
			if err != nil {
				r.Violation(sig("connection broke while reading"), detail(map[string]interface{}{"err": err.Error()}))
				return
			}
			rows := proxyrig.Rows(msgs)
			errResp := proxyrig.ErrorOf(msgs)
			// which rows hold a value that this reader cannot reveal?
			unrevealable := func(ri int) bool {
				sv, _ := srows[ri][ci].([]byte)
				if len(sv) == 0 {
					return false // NULL / empty: nothing to reveal
				}
				if onlyDamaged != nil {
					return onlyDamaged[ci][ri]
				}
				return true
			}
			anyUnrevealable := false
			for ri := range srows {
				if unrevealable(ri) {
					anyUnrevealable = true
				}
			}
			r.SetAdd("policies_observed", pol)
			if pol == "error" && anyUnrevealable {
				if errResp == nil {
					r.Violation(sig("policy error: no error reported for the statement"), detail(nil))
					continue
				}
				// rows delivered before the error must not include an unrevealable one
				for k := range rows {
					if k < len(srows) && unrevealable(k) {
						r.Violation(sig("policy error: a row with an unrevealable value was delivered"), detail(map[string]interface{}{"row": k, "field": ev.Hex(rows[k][1])}))
					}
				}
				r.Count("policy_fields_checked", 1)
				r.Distinct(fmt.Sprintf("%s|oid=%v|%s|%s|error|%s|%s|error-reported", col.DataType, col.TypeID != 0, col.Kind, col.Envelope, readerClass(reader), fmtName))
				continue
			}
			if errResp != nil {
				r.Violation(sig("unexpected error response"), detail(map[string]interface{}{"error": errResp.Message}))
				continue
			}
			if len(rows) != len(srows) {
				r.Violation(sig("row count differs"), detail(map[string]interface{}{"got": len(rows), "want": len(srows)}))
				continue
			}
			rd := proxyrig.RowDesc(msgs)
			for ri, row := range rows {
				if len(row) != 2 {
					r.Violation(sig("field count differs"), detail(nil))
					break
				}
				got := row[1]
				sv := srows[ri][ci]
				svb, _ := sv.([]byte)
				switch {
				case sv == nil:
					if got != nil {
						r.Violation(sig("NULL did not stay NULL"), detail(map[string]interface{}{"row": ri, "got": ev.Hex(got)}))
					}
				case len(svb) == 0:
					want, _ := encodeDeclared(col.DataType, []byte{}, binFmt)
					if col.DataType == "int32" || col.DataType == "int64" {
						want = []byte{}
					}
					if len(got) != 0 && !bytes.Equal(got, want) {
						r.Violation(sig("empty value did not stay empty"), detail(map[string]interface{}{"row": ri, "got": ev.Hex(got)}))
					}
				case !unrevealable(ri):
					// owner reading an undamaged row: must equal the reference value in the declared encoding
					want, err := encodeDeclared(col.DataType, plainOf(rrows[ri][ci]), binFmt)
					if err == nil && !sameField(got, want, col.DataType, binFmt) {
						r.Violation(sig("undamaged value not revealed in the declared type"), detail(map[string]interface{}{"row": ri, "got": ev.Hex(got), "want": ev.Hex(want)}))
					}
				case pol == "ciphertext":
					hexForm := []byte(`\x` + hex.EncodeToString(svb))
					if !bytes.Equal(got, svb) && !bytes.Equal(got, hexForm) && !(!binFmt && sameBytea(got, svb)) {
						what := "policy ciphertext: delivered field is not the stored ciphertext"
						if leaks(got, plainOf(rrows[ri][ci])) {
							what = "policy ciphertext: plaintext (partly) delivered"
						}
						r.Violation(sig(what), detail(map[string]interface{}{"row": ri, "got": ev.Hex(got), "stored": ev.Hex(svb)}))
					} else {
						r.Count("policy_fields_checked", 1)
						r.Distinct(fmt.Sprintf("%s|oid=%v|%s|%s|ciphertext|%s|%s|stored-bytes", col.DataType, col.TypeID != 0, col.Kind, col.Envelope, readerClass(reader), fmtName))
					}
				case pol == "default":
					want, err := encodeDeclared(col.DataType, defaultBytes(col), binFmt)
					if err != nil {
						continue
					}
					if !sameField(got, want, col.DataType, binFmt) {
						r.Violation(sig("policy default_value: delivered field is not the configured default in the declared type"), detail(map[string]interface{}{"row": ri, "got": ev.Hex(got), "want": ev.Hex(want), "default": *col.Default}))
					} else {
						r.Count("policy_fields_checked", 1)
						r.Distinct(fmt.Sprintf("%s|oid=%v|%s|%s|default|%s|%s|default-encoded", col.DataType, col.TypeID != 0, col.Kind, col.Envelope, readerClass(reader), fmtName))
					}
					if rd != nil && len(rd.Fields) == 2 && rd.Fields[1].DataTypeOID != typeOID[col.DataType] {
						r.Violation(sig("policy default_value: column not described as the declared type"), detail(map[string]interface{}{"oid": rd.Fields[1].DataTypeOID}))
					}
				}
			}
		}
	}
}

// checkColumns selects several configured columns in one statement (both result formats) and judges every field:
// fields the reader can reveal must equal the reference in the declared encoding, the others follow their column's policy.
func checkColumns(r *ev.Run, w *c04.World, c *proxyrig.PGClient, t proxyrig.TableSpec, reader string, sel []int, damaged map[int]map[int]bool, history []string, sidx int) {
	srows := w.Store.DB.Snapshot(t.Name)
	rrows := w.Ref.DB.Snapshot(t.Name)
	if len(srows) != len(rrows) {
		return
	}
	unrevealable := func(ri, ci int) bool {
		sv, _ := srows[ri][ci].([]byte)
		return len(sv) > 0 && damaged[ci][ri]
	}
	errExpected := false
	firstErrRow := -1
	for ri := range srows {
		for _, ci := range sel {
			if policyOf(t.Cols[ci]) == "error" && unrevealable(ri, ci) {
				errExpected = true
				if firstErrRow < 0 {
					firstErrRow = ri
				}
			}
		}
	}
	names := ""
	for _, ci := range sel {
		names += ", " + t.Cols[ci].Name
	}
	sql := fmt.Sprintf("select id%s from %s order by id", names, t.Name)
	for _, binFmt := range []bool{false, true} {
		r.Case()
		var msgs []proxyrig.BackendMsg
		var err error
		if binFmt {
			msgs, err = c.Extended("", sql, nil, nil, nil, []int16{1}, 0)
		} else {
			msgs, err = c.Simple(sql)
		}
		fmtName := map[bool]string{false: "text", true: "binary"}[binFmt]
		detail := func(extra map[string]interface{}) map[string]interface{} {
			m := map[string]interface{}{"session": sidx, "schema": w.Schema, "sql": sql, "history": history, "reader": reader, "reply": describe(msgs), "damaged(column index -> rows)": fmt.Sprint(damaged)}
			for k, v := range extra {
				m[k] = v
			}
			return m
		}
		gsig := func(what string) string {
			return fmt.Sprintf("%s: reader=%s format=%s columns=%d", what, reader, fmtName, len(sel))
		}
		if err != nil {
			r.Violation(gsig("connection broke while reading"), detail(map[string]interface{}{"err": err.Error()}))
			return
		}
		rows := proxyrig.Rows(msgs)
		errResp := proxyrig.ErrorOf(msgs)
		if errExpected {
			if errResp == nil {
				r.Violation(gsig("policy error: no error reported for the statement"), detail(nil))
				continue
			}
			for k := range rows {
				if k >= firstErrRow {
					r.Violation(gsig("policy error: a row with an unrevealable value was delivered"), detail(map[string]interface{}{"row": k}))
					break
				}
			}
			r.Count("mixed_row_statements_checked", 1)
			continue
		}
		if errResp != nil {
			r.Violation(gsig("unexpected error response"), detail(map[string]interface{}{"error": errResp.Message}))
			continue
		}
		if len(rows) != len(srows) {
			r.Violation(gsig("row count differs"), detail(map[string]interface{}{"got": len(rows), "want": len(srows)}))
			continue
		}
		r.Count("mixed_row_statements_checked", 1)
		for ri, row := range rows {
			if len(row) != 1+len(sel) {
				r.Violation(gsig("field count differs"), detail(nil))
				break
			}
			mixed := false
			for _, ci := range sel {
				if unrevealable(ri, ci) != unrevealable(ri, sel[0]) {
					mixed = true
				}
			}
			if mixed {
				r.Count("mixed_rows_checked", 1)
			}
			for k, ci := range sel {
				col := t.Cols[ci]
				pol := policyOf(col)
				got := row[1+k]
				sv := srows[ri][ci]
				svb, _ := sv.([]byte)
				sig := func(what string) string {
					return fmt.Sprintf("%s: type=%s kind=%s/%s policy=%s reader=%s format=%s", what, col.DataType, col.Kind, col.Envelope, pol, reader, fmtName)
				}
				fd := func(extra map[string]interface{}) map[string]interface{} {
					extra["row"], extra["column"], extra["position_in_select"] = ri, col.Name, k
					return detail(extra)
				}
				switch {
				case sv == nil:
					if got != nil {
						r.Violation(sig("NULL did not stay NULL"), fd(map[string]interface{}{"got": ev.Hex(got)}))
					}
				case len(svb) == 0:
					// judged by the single-column reads
				case !unrevealable(ri, ci):
					want, err := encodeDeclared(col.DataType, plainOf(rrows[ri][ci]), binFmt)
					if err == nil && !sameField(got, want, col.DataType, binFmt) {
						r.Violation(sig("undamaged value not revealed in the declared type"), fd(map[string]interface{}{"got": ev.Hex(got), "want": ev.Hex(want)}))
					} else if err == nil {
						r.Count("mixed_fields_revealed", 1)
					}
				case pol == "ciphertext":
					hexForm := []byte(`\x` + hex.EncodeToString(svb))
					if !bytes.Equal(got, svb) && !bytes.Equal(got, hexForm) && !(!binFmt && sameBytea(got, svb)) {
						what := "policy ciphertext: delivered field is not the stored ciphertext"
						if leaks(got, plainOf(rrows[ri][ci])) {
							what = "policy ciphertext: plaintext (partly) delivered"
						}
						r.Violation(sig(what), fd(map[string]interface{}{"got": ev.Hex(got), "stored": ev.Hex(svb)}))
					} else {
						r.Count("policy_fields_checked", 1)
						r.Distinct(fmt.Sprintf("%s|oid=%v|%s|%s|ciphertext|%s|%s|stored-bytes", col.DataType, col.TypeID != 0, col.Kind, col.Envelope, reader, fmtName))
					}
				case pol == "default":
					want, err := encodeDeclared(col.DataType, defaultBytes(col), binFmt)
					if err != nil {
						continue
					}
					if !sameField(got, want, col.DataType, binFmt) {
						r.Violation(sig("policy default_value: delivered field is not the configured default in the declared type"), fd(map[string]interface{}{"got": ev.Hex(got), "want": ev.Hex(want), "default": *col.Default}))
					} else {
						r.Count("policy_fields_checked", 1)
						r.Distinct(fmt.Sprintf("%s|oid=%v|%s|%s|default|%s|%s|default-encoded", col.DataType, col.TypeID != 0, col.Kind, col.Envelope, reader, fmtName))
					}
				}
			}
		}
	}
}

// sameField compares a delivered field with the expected one; a bytea value in text format may be spelled in the hex or in the
// escape format (bytea_output of the database): the values are compared, not the spellings.
func sameField(got, want []byte, typ string, binFmt bool) bool {
	if bytes.Equal(got, want) {
		return true
	}
	if typ != "bytes" || binFmt {
		return false
	}
	a, errA := fakepg.DecodeByteaText(string(got))
	b, errB := fakepg.DecodeByteaText(string(want))
	return errA == nil && errB == nil && bytes.Equal(a, b)
}

// sameBytea reports whether a text-format bytea field spells the given bytes (hex or escape format).
func sameBytea(got, raw []byte) bool {
	a, err := fakepg.DecodeByteaText(string(got))
	return err == nil && bytes.Equal(a, raw)
}

func plainOf(v fakepg.Value) []byte {
	switch x := v.(type) {
	case int64:
		return []byte(strconv.FormatInt(x, 10))
	case string:
		return []byte(x)
	case []byte:
		return x
	}
	return nil
}

func leaks(got, plain []byte) bool {
	if len(plain) < 9 {
		return false
	}
	if len(plain) > 32 {
		plain = plain[:32]
	}
	return bytes.Contains(got, plain) || bytes.Contains(got, []byte(hex.EncodeToString(plain)))
}

func readerClass(id string) string {
	switch id {
	case c04.Other:
		return "other-keys"
	case c04.NoKeys:
		return "no-keys"
	}
	return id
}

func describe(ms []proxyrig.BackendMsg) string {
	s := ""
	for _, m := range ms {
		s += m.Type
		if e, ok := m.Msg.(*pgproto3.ErrorResponse); ok {
			s += "(" + e.Code + ":" + e.Message + ")"
		}
		s += ","
	}
	return s
}
