package sqlgen

import (
	"fmt"
	"math/rand"
	"sort"
	"strconv"
	"strings"
)

// literal writes one literal at the current slot, from Options.Literals or the built-in source.
// want: any | string | number | unsigned | int | single.
func (g *Gen) literal(want string) {
	src := g.o.Literals
	if src == nil {
		src = DefaultLiterals
	}
	kind, spelling, value := src(LitRequest{Dialect: g.d, Slot: g.slot(), Want: want, Rand: g.r})
	// keep tokens apart: a number directly after an identifier character or a sign would fuse with it
	if n := len(g.buf); n > 0 && len(spelling) > 0 {
		last := g.buf[n-1]
		first := spelling[0]
		if (first == '-' && (last == '-' || last == '+')) || (isWordByte(last) && isWordByte(first)) {
			g.w(" ")
		}
	}
	g.lits = append(g.lits, Literal{Kind: kind, Slot: g.slot(), Spelling: spelling, Value: value, Offset: len(g.buf)})
	g.w(spelling)
	g.feat("lit-" + string(kind))
}

func isWordByte(c byte) bool {
	return c == '_' || c >= '0' && c <= '9' || c >= 'a' && c <= 'z' || c >= 'A' && c <= 'Z' || c == '.' || c == '@' || c == '$'
}

type piece struct{ spell, val string }

var mysqlPieces = []piece{
	{"''", "'"}, {`\'`, "'"}, {`\\`, `\`}, {`\n`, "\n"}, {`\t`, "\t"}, {`\r`, "\r"}, {`\0`, "\x00"}, {`\Z`, "\x1a"}, {`\b`, "\b"},
	{`\"`, `"`}, {`"`, `"`}, {`\%`, `\%`}, {`\_`, `\_`}, {`\q`, "q"}, {"%", "%"}, {"_", "_"}, {" ", " "}, {"é", "é"}, {"\xff", "\xff"}, {"\xc3", "\xc3"}, {";", ";"}, {"--", "--"}, {"/*", "/*"}, {"?", "?"}, {":v1", ":v1"}, {"$1", "$1"},
}

// PostgreSQL '...' with standard_conforming_strings = on: a backslash is an ordinary character.
var pgPlainPieces = []piece{
	{"''", "'"}, {`"`, `"`}, {"%", "%"}, {"_", "_"}, {" ", " "}, {"é", "é"}, {";", ";"}, {"--", "--"}, {"/*", "/*"}, {"?", "?"}, {"$1", "$1"}, {`\n`, `\n`}, {`\\`, `\\`}, {`\q`, `\q`},
}

// PostgreSQL E'...' escape strings.
var pgEscapePieces = []piece{
	{"''", "'"}, {`\'`, "'"}, {`\\`, `\`}, {`\n`, "\n"}, {`\t`, "\t"}, {`\r`, "\r"}, {`\b`, "\b"}, {`\f`, "\f"}, {`\x41`, "A"}, {`\101`, "A"}, {`\q`, "q"}, {`"`, `"`}, {"%", "%"}, {" ", " "}, {"é", "é"},
}

const alnum = "abcdefghijklmnopqrstuvwxyzABCDEFGHIJKLMNOPQRSTUVWXYZ0123456789"

func randWord(r *rand.Rand, n int) string {
	b := make([]byte, n)
	for i := range b {
		b[i] = alnum[r.Intn(len(alnum))]
	}
	return string(b)
}

// buildString composes a quoted string from plain runs and special pieces; returns spelling (without quotes) and value.
func buildString(r *rand.Rand, pieces []piece, special int) (string, string) {
	var sp, val strings.Builder
	parts := 1 + r.Intn(3)
	for i := 0; i < parts; i++ {
		if r.Intn(special) == 0 {
			p := pieces[r.Intn(len(pieces))]
			sp.WriteString(p.spell)
			val.WriteString(p.val)
		} else {
			w := randWord(r, 1+r.Intn(8))
			sp.WriteString(w)
			val.WriteString(w)
		}
	}
	return sp.String(), val.String()
}

// DefaultLiterals is the built-in LiteralSource: every spelling family, ordinary and hostile contents.
func DefaultLiterals(q LitRequest) (LitKind, string, []byte) {
	r := q.Rand
	str := func(forceSingle bool) (LitKind, string, []byte) {
		if r.Intn(15) == 0 {
			return LitSingle, "''", []byte{}
		}
		if q.Dialect == MySQL {
			if !forceSingle && r.Intn(4) == 0 {
				// double-quoted: " must be doubled or escaped, ' is plain
				sp, val := buildString(r, mysqlPieces, 3)
				// the piece table is written for single quotes: fix the two quote pieces
				sp2, val2 := requote(sp, val)
				return LitDouble, `"` + sp2 + `"`, []byte(val2)
			}
			sp, val := buildString(r, mysqlPieces, 3)
			if r.Intn(20) == 0 {
				// leading \x: Acra's tokenizer special-cases it (PostgreSQL bytea hex); MySQL reads "x"
				return LitSingle, `'\x` + sp + `'`, []byte("x" + val)
			}
			return LitSingle, "'" + sp + "'", []byte(val)
		}
		if !forceSingle && r.Intn(4) == 0 {
			sp, val := buildString(r, pgEscapePieces, 3)
			e := "E"
			if r.Intn(4) == 0 {
				e = "e"
			}
			return LitEscape, e + "'" + sp + "'", []byte(val)
		}
		sp, val := buildString(r, pgPlainPieces, 4)
		if r.Intn(20) == 0 {
			return LitSingle, `'\x` + "4a4b" + `'`, []byte(`\x4a4b`)
		}
		return LitSingle, "'" + sp + "'", []byte(val)
	}
	num := func(allowNeg, intOnly bool) (LitKind, string, []byte) {
		neg := allowNeg && r.Intn(5) == 0
		var s string
		kind := LitInt
		switch k := r.Intn(10); {
		case intOnly || k < 5:
			switch r.Intn(6) {
			case 0:
				s = "0"
			case 1:
				s = strconv.FormatInt(r.Int63(), 10)
			case 2:
				s = "0" + strconv.Itoa(r.Intn(1000)) // leading zero
			default:
				s = strconv.Itoa(r.Intn(100000))
			}
		case k < 8:
			kind = LitDecimal
			switch r.Intn(4) {
			case 0:
				s = "." + strconv.Itoa(r.Intn(1000))
			case 1:
				s = strconv.Itoa(r.Intn(1000)) + "."
			default:
				s = strconv.Itoa(r.Intn(100000)) + "." + strconv.Itoa(r.Intn(1000))
			}
		default:
			kind = LitExponent
			s = strconv.Itoa(1+r.Intn(99)) + g1(r, ".", "") + g1(r, strconv.Itoa(r.Intn(100)), "") + g1(r, "e", "E") + g1(r, "", "+", "-") + strconv.Itoa(r.Intn(30))
			if strings.Contains(s, ".e") || strings.Contains(s, ".E") {
				s = strings.Replace(strings.Replace(s, ".e", ".0e", 1), ".E", ".0E", 1)
			}
		}
		if neg {
			s = "-" + s
			switch kind {
			case LitInt:
				kind = LitNegInt
			case LitDecimal:
				kind = LitNegDecimal
			default:
				kind = LitNegExp
			}
		}
		return kind, s, []byte(s)
	}
	switch q.Want {
	case "string":
		return str(false)
	case "single":
		return str(true)
	case "number":
		return num(true, false)
	case "unsigned":
		return num(false, false)
	case "int":
		return num(false, true)
	}
	switch k := r.Intn(20); {
	case k < 9:
		return str(false)
	case k < 17:
		return num(true, false)
	case k == 17:
		h := fmt.Sprintf("%X", r.Int63n(1<<40))
		if len(h)%2 == 1 {
			h = "0" + h
		}
		return LitHexNum, "0x" + h, []byte(strings.ToLower(h))
	case k == 18:
		h := fmt.Sprintf("%x", r.Int63n(1<<40))
		if len(h)%2 == 1 {
			h = "0" + h
		}
		return LitHexStr, g1(r, "x", "X") + "'" + h + "'", []byte(h)
	default:
		b := strconv.FormatInt(int64(r.Intn(256)), 2)
		return LitBit, g1(r, "b", "B") + "'" + b + "'", []byte(b)
	}
}

func g1(r *rand.Rand, xs ...string) string { return xs[r.Intn(len(xs))] }

// requote turns a spelling written for single quotes into one valid inside double quotes (MySQL):
// ” (doubled single quote = one quote) becomes a plain ', a bare " becomes "".
func requote(sp, val string) (string, string) {
	var out strings.Builder
	for i := 0; i < len(sp); i++ {
		c := sp[i]
		switch {
		case c == '\\' && i+1 < len(sp):
			out.WriteByte(c)
			out.WriteByte(sp[i+1])
			i++
		case c == '\'' && i+1 < len(sp) && sp[i+1] == '\'':
			out.WriteByte('\'')
			i++
		case c == '"':
			out.WriteString(`""`)
		default:
			out.WriteByte(c)
		}
	}
	return out.String(), val
}

// finish numbers the placeholders in text order and sorts literals by offset.
func finish(text []byte, lits []Literal, style string) (string, []Literal) {
	sort.SliceStable(lits, func(i, j int) bool { return lits[i].Offset < lits[j].Offset })
	if !strings.Contains(string(text), phSentinel) {
		return string(text), lits
	}
	var out strings.Builder
	n := 0
	li := 0
	for i := 0; i < len(text); i++ {
		for li < len(lits) && lits[li].Offset == i {
			lits[li].Offset = out.Len()
			li++
		}
		if text[i] != phSentinel[0] {
			out.WriteByte(text[i])
			continue
		}
		n++
		switch style {
		case "$":
			fmt.Fprintf(&out, "$%d", n)
		case ":v":
			fmt.Fprintf(&out, ":v%d", n)
		default:
			out.WriteByte('?')
		}
	}
	return out.String(), lits
}
