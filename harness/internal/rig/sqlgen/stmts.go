package sqlgen

// Statement-level productions. Each mirrors a rule of Acra's grammar (sqlparser/sql.y) or, under
// Options.Strict, the subset of it that the real DBMS accepts.

// selectStmt writes a full select_statement (base select + order/limit/lock).
func (g *Gen) selectStmt(top bool) {
	g.baseSelect()
	g.orderLimitLock(top)
}

func (g *Gen) baseSelect() {
	savedScope := g.scope
	defer func() { g.scope = savedScope }()
	g.kw("select")
	g.sp()
	g.commentOpt()
	if g.d == MySQL && g.p(25) {
		g.kw(g.pick("sql_no_cache", "sql_cache"))
		g.sp()
		g.feat("select-cache")
	}
	if g.p(8) {
		g.kw("distinct")
		g.sp()
		g.feat("select-distinct")
	}
	if g.d == MySQL && g.p(30) {
		g.kw("straight_join")
		g.sp()
		g.feat("select-straight-join-hint")
	}
	// decide FROM first so that the select list can reference tables in scope; text order is kept by
	// generating the FROM clause into a side buffer.
	hasFrom := !g.p(12)
	var fromText []byte
	var fromLits []Literal
	if hasFrom {
		fromText, fromLits = g.capture(func() { g.pushSlot("from"); g.tableRefs(); g.popSlot() })
	}
	g.pushSlot("select-list")
	n := 1 + g.r.Intn(3)
	if g.p(6) {
		n += 2
	}
	for i := 0; i < n; i++ {
		if i > 0 {
			g.w(",")
			g.sp()
		}
		g.selectExpr(hasFrom)
	}
	g.popSlot()
	if hasFrom {
		g.sp()
		g.kw("from")
		g.sp()
		g.splice(fromText, fromLits)
	} else {
		g.feat("select-no-from")
	}
	if g.p(2) {
		g.sp()
		g.kw("where")
		g.sp()
		g.pushSlot("where")
		g.boolExpr()
		g.popSlot()
		g.feat("where")
	}
	if g.p(7) {
		g.sp()
		g.kw("group by")
		g.sp()
		g.pushSlot("group-by")
		m := 1 + g.r.Intn(2)
		for i := 0; i < m; i++ {
			if i > 0 {
				g.w(", ")
			}
			if g.p(5) {
				g.valueExpr()
			} else {
				g.column()
			}
		}
		g.popSlot()
		g.feat("group-by")
		if g.p(2) {
			g.sp()
			g.kw("having")
			g.sp()
			g.pushSlot("having")
			g.boolExpr()
			g.popSlot()
			g.feat("having")
		}
	} else if g.p(30) {
		g.sp()
		g.kw("having")
		g.sp()
		g.pushSlot("having")
		g.boolExpr()
		g.popSlot()
		g.feat("having")
	}
}

// capture runs f writing into a fresh buffer and returns what it wrote plus the literals recorded
// (offsets relative to the captured text).
func (g *Gen) capture(f func()) ([]byte, []Literal) {
	savedBuf, savedLits := g.buf, g.lits
	g.buf, g.lits = nil, nil
	f()
	text, lits := g.buf, g.lits
	g.buf, g.lits = savedBuf, savedLits
	return text, lits
}

// splice appends captured text, rebasing literal offsets.
func (g *Gen) splice(text []byte, lits []Literal) {
	base := len(g.buf)
	g.buf = append(g.buf, text...)
	for _, l := range lits {
		l.Offset += base
		g.lits = append(g.lits, l)
	}
}

func (g *Gen) selectExpr(hasFrom bool) {
	switch {
	case hasFrom && g.p(8):
		g.w("*")
		g.feat("select-star")
		return
	case hasFrom && g.p(14) && len(g.scope) > 0:
		t := g.scope[g.r.Intn(len(g.scope))]
		g.ident(t.Name)
		g.w(".*")
		g.feat("select-table-star")
		return
	}
	if g.p(3) {
		g.boolExpr()
	} else {
		g.valueExpr()
	}
	if g.p(5) {
		g.sp()
		if g.p(2) {
			g.kw("as")
			g.sp()
		}
		switch {
		case g.p(8) && !g.o.Strict:
			// quoted alias: an identifier, not a literal
			if g.d == MySQL {
				g.w(g.pick("'al ias'", "`al`", "'x'"))
			} else {
				g.w(g.pick(`"Al ias"`, `"x"`))
			}
			g.feat("alias-quoted")
		default:
			g.w(g.alias())
		}
		g.feat("select-alias")
	}
}

// orderLimitLock writes ORDER BY / LIMIT / lock clauses.
func (g *Gen) orderLimitLock(top bool) {
	if g.p(5) {
		g.orderBy()
	}
	if g.p(5) {
		g.limit()
	}
	if top && g.p(25) {
		g.sp()
		if g.d == MySQL && g.p(2) {
			g.kw("lock in share mode")
			g.feat("lock-share")
		} else {
			g.kw("for update")
			g.feat("lock-for-update")
		}
	}
}

func (g *Gen) orderBy() {
	g.sp()
	g.kw("order by")
	g.sp()
	g.pushSlot("order-by")
	n := 1 + g.r.Intn(2)
	for i := 0; i < n; i++ {
		if i > 0 {
			g.w(", ")
		}
		switch {
		case g.p(25) && !g.o.Strict:
			g.kw("null")
			g.feat("order-by-null")
		case g.p(25) && g.d == MySQL:
			g.w("rand()")
			g.feat("order-by-rand")
		case g.p(4):
			g.valueExpr()
		default:
			g.column()
		}
		switch g.r.Intn(8) {
		case 0:
			g.sp()
			g.kw("asc")
			g.feat("order-asc")
		case 1, 2:
			g.sp()
			g.kw("desc")
			g.feat("order-desc")
		case 3:
			if g.d == PostgreSQL {
				g.sp()
				g.kw(g.pick("asc nulls first", "asc nulls last", "desc nulls first", "desc nulls last"))
				g.feat("order-nulls")
			}
		}
	}
	g.popSlot()
	g.feat("order-by")
}

func (g *Gen) limit() {
	g.sp()
	g.kw("limit")
	g.sp()
	g.feat("limit")
	switch {
	case g.d == PostgreSQL && g.p(8):
		g.kw("all")
		g.feat("limit-all")
		if g.p(2) {
			g.sp()
			g.kw("offset")
			g.sp()
			g.pushSlot("offset")
			g.limitValue()
			g.popSlot()
			g.feat("offset")
		}
		return
	case g.d == MySQL && g.p(4):
		g.pushSlot("offset")
		g.limitValue()
		g.popSlot()
		g.w(",")
		g.sp()
		g.pushSlot("limit")
		g.limitValue()
		g.popSlot()
		g.feat("limit-comma")
		return
	}
	g.pushSlot("limit")
	g.limitValue()
	g.popSlot()
	if g.p(3) {
		g.sp()
		g.kw("offset")
		g.sp()
		g.pushSlot("offset")
		g.limitValue()
		g.popSlot()
		g.feat("offset")
	}
}

func (g *Gen) limitValue() {
	if g.phStyle != "" && g.p(4) {
		g.placeholder()
		return
	}
	g.literal("int")
}

func (g *Gen) unionStmt() {
	g.feat("union")
	arms := 2
	if g.p(4) {
		arms = 3
	}
	for i := 0; i < arms; i++ {
		g.pushSlot("union-arm")
		if i > 0 {
			g.sp()
			g.kw("union")
			switch g.r.Intn(4) {
			case 0:
				g.sp()
				g.kw("all")
				g.feat("union-all")
			case 1:
				g.sp()
				g.kw("distinct")
				g.feat("union-distinct")
			}
			g.sp()
		}
		switch {
		case g.p(4):
			g.w("(")
			g.selectStmt(false)
			g.w(")")
			g.feat("union-paren-arm")
		case i == 0 && g.p(8) && !g.o.Strict:
			// the left arm may carry its own order/limit without parentheses (grammar: union_lhs = select_statement)
			g.selectStmt(false)
			g.feat("union-lhs-order-limit")
		default:
			g.baseSelect()
		}
		g.popSlot()
	}
	g.pushSlot("union")
	g.orderLimitLock(true)
	g.popSlot()
}

// subquery writes a parenthesised select (or union) and restores scope afterwards.
func (g *Gen) subquery() {
	g.depth++
	if g.depth > g.maxSeen {
		g.maxSeen = g.depth
	}
	g.pushSlot("sub")
	g.w("(")
	if g.p(8) {
		g.pushSlot("union-arm")
		g.baseSelect()
		g.sp()
		g.kw("union")
		g.sp()
		g.baseSelect()
		g.popSlot()
		g.feat("subquery-union")
	} else {
		g.selectStmt(false)
	}
	g.w(")")
	g.popSlot()
	g.depth--
	g.feat("subquery")
}

// ---- table references ----

func (g *Gen) tableRefs() {
	n := 1
	if g.p(6) {
		n = 2
	}
	for i := 0; i < n; i++ {
		if i > 0 {
			g.w(",")
			g.sp()
			g.feat("from-comma")
		}
		g.tableRef(0)
	}
}

func (g *Gen) tableRef(level int) {
	g.tableFactor(level)
	joins := 0
	for level < 2 && g.p(4) && joins < 3 {
		joins++
		g.sp()
		kind := g.r.Intn(10)
		switch {
		case kind < 4:
			g.kw(g.pick("join", "inner join", "cross join"))
			g.sp()
			g.tableFactor(level + 1)
			if g.p(5) {
				g.feat("join-no-condition")
			} else {
				g.joinCondition()
			}
			g.feat("join-inner")
		case kind < 7:
			g.kw(g.pick("left join", "left outer join", "right join", "right outer join"))
			g.sp()
			g.tableFactor(level + 1)
			g.joinCondition()
			g.feat("join-outer")
		case kind == 7 && !g.o.Strict || kind == 7 && g.d == MySQL:
			g.kw(g.pick("natural join", "natural left join", "natural right outer join"))
			g.sp()
			g.tableFactor(level + 1)
			g.feat("join-natural")
		case kind == 8 && g.d == MySQL:
			g.kw("straight_join")
			g.sp()
			g.tableFactor(level + 1)
			if g.p(2) {
				g.sp()
				g.kw("on")
				g.sp()
				g.pushSlot("join-on")
				g.boolExpr()
				g.popSlot()
			}
			g.feat("join-straight")
		default:
			g.kw("join")
			g.sp()
			g.tableFactor(level + 1)
			g.joinCondition()
			g.feat("join-inner")
		}
	}
}

func (g *Gen) joinCondition() {
	g.sp()
	if g.p(5) && len(g.scope) > 0 {
		g.kw("using")
		g.sp()
		g.w("(")
		t := g.scope[len(g.scope)-1]
		g.w(t.Columns[g.r.Intn(len(t.Columns))])
		g.w(")")
		g.feat("join-using")
		return
	}
	g.kw("on")
	g.sp()
	g.pushSlot("join-on")
	g.boolExpr()
	g.popSlot()
	g.feat("join-on")
}

func (g *Gen) tableFactor(level int) {
	switch {
	case g.p(10) && g.depth < g.o.MaxDepth:
		g.subquery()
		g.sp()
		if g.p(2) {
			g.kw("as")
			g.sp()
		}
		a := g.alias()
		g.w(a)
		g.scope = append(g.scope, Table{Name: a, Columns: g.pickTable().Columns})
		g.feat("from-subquery")
		return
	case g.p(14) && level < 2:
		g.w("(")
		g.tableRef(level + 1)
		if g.p(3) {
			g.w(", ")
			g.tableRef(level + 1)
		}
		g.w(")")
		g.feat("from-paren")
		return
	}
	t := g.tableName()
	name := t.Name
	if g.d == MySQL && g.p(30) {
		g.sp()
		g.kw("partition")
		g.sp()
		g.w("(p0")
		if g.p(2) {
			g.w(", p1")
		}
		g.w(")")
		g.feat("table-partition")
	}
	if g.p(4) {
		g.sp()
		if g.p(2) {
			g.kw("as")
			g.sp()
		}
		name = g.alias()
		g.w(name)
		g.feat("table-alias")
	}
	if g.d == MySQL && g.p(25) {
		g.sp()
		g.kw(g.pick("use index", "ignore index", "force index"))
		g.sp()
		g.w("(")
		g.w(g.pick("idx_a", "primary_idx"))
		if g.p(3) {
			g.w(", idx_b")
		}
		g.w(")")
		g.feat("index-hint")
	}
	g.scope = append(g.scope, Table{Name: name, Columns: t.Columns})
}

// ---- INSERT / REPLACE ----

func (g *Gen) insertStmt(kind string) {
	g.kw(kind)
	g.sp()
	g.commentOpt()
	if g.d == MySQL && g.p(15) {
		g.kw("ignore")
		g.sp()
		g.feat("insert-ignore")
	}
	if !g.p(10) || g.o.Strict {
		g.kw("into")
		g.sp()
	} else {
		g.feat("insert-no-into")
	}
	t := g.tableName()
	g.scope = []Table{t}
	form := g.r.Intn(20)
	if form == 0 {
		g.sp()
		g.kw("default values")
		g.feat("insert-default-values")
		if g.o.Strict {
			g.returningOpt()
		}
		return
	}
	if g.d == MySQL && g.p(30) {
		g.sp()
		g.kw("partition")
		g.w(" (p0)")
		g.feat("insert-partition")
	}
	switch {
	case form <= 2 && g.d == MySQL:
		// INSERT ... SET col = expr, ...
		g.sp()
		g.kw("set")
		g.sp()
		g.pushSlot("set")
		g.updateList(t, 1+g.r.Intn(3))
		g.popSlot()
		g.feat("insert-set")
		g.onDupOpt(t)
		return
	}
	ncols := 0
	if !g.p(4) {
		ncols = 1 + g.r.Intn(len(t.Columns))
		if ncols > 4 {
			ncols = 4
		}
		if g.p(2) {
			g.sp()
		}
		g.w("(")
		perm := g.r.Perm(len(t.Columns))
		for i := 0; i < ncols; i++ {
			if i > 0 {
				g.w(",")
				g.sp()
			}
			if g.p(20) && !g.o.Strict {
				g.ident(t.Name)
				g.w(".")
				g.feat("insert-qualified-column")
			}
			g.ident(t.Columns[perm[i]])
		}
		g.w(")")
		g.feat("insert-column-list")
	} else {
		ncols = 1 + g.r.Intn(4)
	}
	g.sp()
	switch {
	case form <= 6:
		// INSERT ... SELECT
		if g.p(3) {
			g.w("(")
			g.selectOrUnion()
			g.w(")")
			g.feat("insert-paren-select")
		} else {
			g.selectOrUnion()
		}
		g.feat("insert-select")
	default:
		g.kw("values")
		g.sp()
		rows := 1
		if g.p(3) {
			rows = 2 + g.r.Intn(3)
			g.feat("insert-multi-row")
		}
		g.pushSlot("values")
		for r := 0; r < rows; r++ {
			if r > 0 {
				g.w(",")
				g.sp()
			}
			g.w("(")
			if g.p(40) && !g.o.Strict {
				g.feat("insert-empty-row")
			} else {
				for c := 0; c < ncols; c++ {
					if c > 0 {
						g.w(",")
						g.sp()
					}
					g.insertValue()
				}
			}
			g.w(")")
		}
		g.popSlot()
		g.feat("insert-values")
	}
	g.onDupOpt(t)
	g.returningOpt()
}

func (g *Gen) selectOrUnion() {
	savedScope := g.scope
	g.pushSlot("insert-select")
	if g.p(6) {
		g.pushSlot("union-arm")
		g.baseSelect()
		g.sp()
		g.kw("union")
		g.sp()
		g.baseSelect()
		g.popSlot()
		g.feat("insert-select-union")
	} else {
		g.selectStmt(false)
	}
	g.popSlot()
	g.scope = savedScope
}

// insertValue writes one element of a VALUES row: mostly plain literals / placeholders (what applications send).
func (g *Gen) insertValue() {
	switch g.r.Intn(12) {
	case 0:
		g.kw("null")
	case 1:
		g.kw("default")
		g.feat("value-default")
	case 2:
		g.valueExpr()
	case 3:
		if g.phStyle != "" {
			g.placeholder()
			return
		}
		g.literal("any")
	case 4:
		if g.d == MySQL {
			g.w("_binary ")
			g.literal("string")
			g.feat("value-_binary")
			return
		}
		g.literal("any")
		if g.p(2) {
			g.w("::" + g.pick("text", "bytea", "int", "varchar"))
			g.feat("pg-typecast")
		}
	case 5:
		g.w("(")
		g.literal("any")
		g.w(")")
		g.feat("value-paren")
	default:
		if g.phStyle != "" && g.p(3) {
			g.placeholder()
			return
		}
		g.literal("any")
	}
}

func (g *Gen) onDupOpt(t Table) {
	if g.d != MySQL || !g.p(6) {
		return
	}
	g.sp()
	g.kw("on duplicate key update")
	g.sp()
	g.pushSlot("on-dup")
	n := 1 + g.r.Intn(2)
	for i := 0; i < n; i++ {
		if i > 0 {
			g.w(", ")
		}
		col := g.bareColumn(t)
		g.sp()
		g.w("=")
		g.sp()
		switch g.r.Intn(4) {
		case 0:
			g.kw("values")
			g.w("(" + col + ")")
			g.feat("values-func")
		case 1:
			g.valueExpr()
		default:
			g.literal("any")
		}
	}
	g.popSlot()
	g.feat("on-duplicate-key")
}

func (g *Gen) returningOpt() {
	if g.d != PostgreSQL || !g.p(5) {
		return
	}
	g.sp()
	g.kw("returning")
	g.sp()
	g.pushSlot("returning")
	if g.p(3) {
		g.w("*")
	} else {
		n := 1 + g.r.Intn(2)
		for i := 0; i < n; i++ {
			if i > 0 {
				g.w(", ")
			}
			if g.p(6) {
				g.valueExpr()
			} else {
				g.column()
			}
		}
	}
	g.popSlot()
	g.feat("returning")
}

// updateList writes col = expr, ... for UPDATE SET / INSERT SET.
func (g *Gen) updateList(t Table, n int) {
	for i := 0; i < n; i++ {
		if i > 0 {
			g.w(",")
			g.sp()
		}
		if g.p(8) {
			g.ident(t.Name)
			g.w(".")
		}
		g.bareColumn(t)
		g.sp()
		g.w("=")
		g.sp()
		switch g.r.Intn(8) {
		case 0:
			g.valueExpr()
		case 1:
			g.boolExpr()
		case 2:
			g.kw("default")
			g.feat("value-default")
		case 3:
			g.kw("null")
		default:
			g.insertValue()
		}
	}
}

// ---- UPDATE ----

func (g *Gen) updateStmt() {
	g.kw("update")
	g.sp()
	g.commentOpt()
	var t Table
	if g.p(8) && (g.d == MySQL || !g.o.Strict) {
		g.pushSlot("update-tables")
		g.tableRef(0)
		g.popSlot()
		t = g.scope[0]
		g.feat("update-join")
	} else {
		t = g.tableName()
		name := t.Name
		if g.p(6) {
			g.sp()
			g.kw("as")
			g.sp()
			name = g.alias()
			g.w(name)
			g.feat("table-alias")
		}
		g.scope = []Table{{Name: name, Columns: t.Columns}}
		t = g.scope[0]
	}
	g.sp()
	g.kw("set")
	g.sp()
	g.pushSlot("set")
	g.updateList(t, 1+g.r.Intn(3))
	g.popSlot()
	if g.d == PostgreSQL && g.p(8) {
		g.sp()
		g.kw("from")
		g.sp()
		g.pushSlot("update-from")
		g.tableRefs()
		g.popSlot()
		g.feat("update-from")
	}
	if !g.p(5) {
		g.sp()
		g.kw("where")
		g.sp()
		g.pushSlot("where")
		g.boolExpr()
		g.popSlot()
		g.feat("where")
	}
	if g.d == MySQL || !g.o.Strict {
		if g.p(10) {
			g.orderBy()
		}
		if g.p(8) {
			g.sp()
			g.kw("limit")
			g.sp()
			g.pushSlot("limit")
			g.limitValue()
			g.popSlot()
			g.feat("limit")
		}
	}
	g.returningOpt()
}

// ---- DELETE ----

func (g *Gen) deleteStmt() {
	g.kw("delete")
	g.sp()
	g.commentOpt()
	form := g.r.Intn(12)
	switch {
	case form == 0 && g.d == MySQL:
		// DELETE a, b FROM refs WHERE
		g.tableNameScoped()
		if g.p(2) {
			g.w(", ")
			g.tableNameScoped()
		}
		g.sp()
		g.kw("from")
		g.sp()
		g.pushSlot("delete-tables")
		g.tableRefs()
		g.popSlot()
		g.feat("delete-multi-targets")
	case form == 1 && (g.d == MySQL || !g.o.Strict):
		// DELETE FROM a, b USING refs WHERE
		g.kw("from")
		g.sp()
		g.tableNameScoped()
		if g.p(2) {
			g.w(", ")
			g.tableNameScoped()
		}
		g.sp()
		g.kw("using")
		g.sp()
		g.pushSlot("delete-tables")
		g.tableRefs()
		g.popSlot()
		g.feat("delete-using")
	default:
		g.kw("from")
		g.sp()
		t := g.tableName()
		name := t.Name
		if g.d == MySQL && g.p(30) {
			g.sp()
			g.kw("partition")
			g.w(" (p0)")
			g.feat("table-partition")
		}
		if g.p(8) {
			g.sp()
			g.kw("as")
			g.sp()
			name = g.alias()
			g.w(name)
			g.feat("table-alias")
		}
		g.scope = []Table{{Name: name, Columns: t.Columns}}
		if !g.p(6) {
			g.sp()
			g.kw("where")
			g.sp()
			g.pushSlot("where")
			g.boolExpr()
			g.popSlot()
			g.feat("where")
		}
		if g.d == MySQL || !g.o.Strict {
			if g.p(10) {
				g.orderBy()
			}
			if g.p(8) {
				g.sp()
				g.kw("limit")
				g.sp()
				g.pushSlot("limit")
				g.limitValue()
				g.popSlot()
				g.feat("limit")
			}
		}
		g.returningOpt()
		return
	}
	if !g.p(5) {
		g.sp()
		g.kw("where")
		g.sp()
		g.pushSlot("where")
		g.boolExpr()
		g.popSlot()
		g.feat("where")
	}
	g.returningOpt()
}

func (g *Gen) tableNameScoped() {
	t := g.tableName()
	g.scope = append(g.scope, t)
}

// ---- SET (not DML; used by C16 for the "SET clauses" position of the SET statement) ----

func (g *Gen) setStmt() {
	g.kw("set")
	g.sp()
	g.pushSlot("set")
	switch g.r.Intn(5) {
	case 0:
		if g.d == MySQL {
			g.kw(g.pick("session", "global"))
			g.sp()
		}
		fallthrough
	case 1, 2:
		n := 1 + g.r.Intn(2)
		for i := 0; i < n; i++ {
			if i > 0 {
				g.w(", ")
			}
			g.w(g.pick("autocommit", "sql_mode", "@uservar", "search_path_x", "wait_timeout"))
			g.sp()
			g.w("=")
			g.sp()
			if g.p(4) {
				g.valueExpr()
			} else {
				g.literal("any")
			}
		}
		g.feat("set-assign")
	case 3:
		g.kw("names")
		g.sp()
		g.w(g.pick("utf8", "utf8mb4", "latin1"))
		g.feat("set-names")
	default:
		if g.d == PostgreSQL {
			g.w(g.pick("search_path", "timezone", "work_mem"))
			g.sp()
			g.kw("to")
			g.sp()
			g.literal("any")
			g.feat("set-to")
		} else {
			g.w("@v")
			g.sp()
			g.w("=")
			g.sp()
			g.literal("any")
			g.feat("set-assign")
		}
	}
	g.popSlot()
}
