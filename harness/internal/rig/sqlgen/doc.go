// Package sqlgen produces SQL statement TEXT for the two dialects Acra's sqlparser understands
// (MySQL and PostgreSQL), together with metadata about what was written. It is a workload source:
// it never imports Acra's parser or printer, so whatever it says about a statement (kind, tables,
// literals and their values) is independent of the code under test.
//
// # API (kept small on purpose; C05, C13, C16 and the proxy rigs share it)
//
//	g := sqlgen.New(seed, "stream-name", sqlgen.MySQL, sqlgen.Options{})
//	st := g.Next()            // *Stmt: Text, Kind, Tables, Literals (kind, slot, spelling, value, offset), Features
//	st  = g.NextKind("insert") // a statement of one kind: select | union | insert | replace | update | delete | set
//
//	hs, err := sqlgen.Harvest(repoPath) // statements written in /repo/sqlparser/*_test.go and dialect tests, read AS DATA
//	                                     // (go/parser over the test sources at run time; nothing is compiled in)
//	lits, err := sqlgen.LexLiterals(sqlgen.MySQL, text) // independent literal lexer (values as the real DBMS reads them)
//	toks, err := sqlgen.LexTokens(sqlgen.MySQL, text)   // all tokens (words, quoted identifiers, literals, placeholders, comments)
//	bad, how := sqlgen.Break(rnd, sqlgen.MySQL, text)   // a damaged (very likely unparseable) variant of a statement
//	cond, lits := g.Fragment(tables...)  // a stand-alone boolean expression, for callers that assemble statements themselves
//	lit := g.LiteralText("string")       // one literal (any | string | single | number | unsigned | int)
//
// Strict is best effort: it avoids constructs the real DBMS rejects syntactically (MySQL-isms in PostgreSQL and
// vice versa) but does not type-check; a rig whose fake database cannot parse a statement must treat that as
// rig-inconclusive. About 8 % of strict PostgreSQL statements are rejected by pg_query (hex numbers, odd casts).
//
// # Options
//
//   - Schema: tables/columns the generator prefers (so that column configurations of a rig are reached);
//     DefaultSchema is used when nil.
//   - Literals: a LiteralSource called for every literal position; lets a monitor put its own marker
//     values at every position (C16). nil = built-in random spellings of every kind.
//   - Strict: only constructs the REAL DBMS of the dialect accepts (for rigs whose fake database parses
//     statements with an independent grammar, e.g. pg_query). Without it the generator explores everything
//     Acra's grammar (sql.y) accepts in that dialect mode, including MySQL-isms in PostgreSQL mode.
//   - MaxDepth: expression nesting bound (default 3).
//   - Placeholders: "none", "mixed" (default: a statement uses at most one style: ?, $n or :vN in order).
//
// # Determinism
//
// A Gen is a pure function of (seed, stream, dialect, options): the n-th Next() is always the same text.
//
// # Literal metadata
//
// Every literal the generator writes is recorded with the exact spelling, its byte offset in Text, the
// syntactic position (Slot: a path of clause names from the outside in, e.g. "where", "select-list/func-arg",
// "from/join-on", "values", "set", "on-dup", "limit", "offset", "having", "group-by", "order-by", "where/case",
// "returning/func-arg", "update-from/sub/select-list", "insert-select/where"; "sub" marks a sub-select, "union-arm"
// a member of a union, "union" the union's own ORDER BY / LIMIT, e.g. "union/limit"), and Value = the bytes the
// real DBMS would read (MySQL: backslash escapes per the manual, \% and \_ keep the backslash; PostgreSQL
// '..' strings take backslashes literally (standard_conforming_strings=on), E'..' strings decode escapes).
// Quoted things that are NOT literal values (aliases such as AS 'x', quoted identifiers, charset names, type
// lengths) are never recorded as literals and never receive LiteralSource values. The SEPARATOR string of
// GROUP_CONCAT is a literal (slot ".../func-arg/separator").
package sqlgen
