package sqlgen

import (
	"bytes"
	"fmt"
	"strconv"
)

// LexedLiteral is a literal found by the independent lexer.
type LexedLiteral struct {
	Class    string // string | number | hexnum | hexstr | bit
	Spelling string
	Value    []byte // strings: decoded as the real DBMS reads them; number: the spelling; hex: lower-case digits; bit: digits
	Offset   int
}

// Token is a lexical token of LexTokens.
type Token struct {
	Kind   string // word | qident | string | number | hexnum | hexstr | bit | placeholder | punct | comment
	Text   string
	Offset int
}

// LexLiterals scans text with the lexical rules of the REAL DBMS of the dialect (not Acra's tokenizer) and
// returns the literals in order. MySQL: '..' and ".." strings with backslash escapes (\0 \' \" \b \n \r \t \Z \\,
// \% and \_ keep the backslash, any other \c is c), doubled delimiters; `..` identifiers. PostgreSQL: '..' strings
// without backslash escapes, E'..' strings with C-style escapes (\b \f \n \r \t \ooo \xhh \uXXXX), "..".identifiers.
func LexLiterals(d Dialect, text string) ([]LexedLiteral, error) {
	var out []LexedLiteral
	err := lex(d, text, func(t Token, val []byte) {
		switch t.Kind {
		case "string", "number", "hexnum", "hexstr", "bit":
			out = append(out, LexedLiteral{Class: t.Kind, Spelling: t.Text, Value: val, Offset: t.Offset})
		}
	})
	return out, err
}

// LexTokens returns all tokens (comments included).
func LexTokens(d Dialect, text string) ([]Token, error) {
	var out []Token
	err := lex(d, text, func(t Token, _ []byte) { out = append(out, t) })
	return out, err
}

func isIdentStart(c byte) bool {
	return c == '_' || c == '@' || c >= 'a' && c <= 'z' || c >= 'A' && c <= 'Z' || c >= 0x80
}
func isDigitB(c byte) bool { return c >= '0' && c <= '9' }
func isHexB(c byte) bool {
	return isDigitB(c) || c >= 'a' && c <= 'f' || c >= 'A' && c <= 'F'
}

func lex(d Dialect, s string, emit func(Token, []byte)) error {
	i := 0
	n := len(s)
	for i < n {
		c := s[i]
		switch {
		case c == ' ' || c == '\t' || c == '\n' || c == '\r':
			i++
		case c == '-' && i+1 < n && s[i+1] == '-', c == '#' && d == MySQL:
			j := i
			for j < n && s[j] != '\n' {
				j++
			}
			emit(Token{"comment", s[i:j], i}, nil)
			i = j
		case c == '/' && i+1 < n && s[i+1] == '*':
			j := bytes.Index([]byte(s[i+2:]), []byte("*/"))
			if j < 0 {
				return fmt.Errorf("unterminated comment at %d", i)
			}
			emit(Token{"comment", s[i : i+2+j+2], i}, nil)
			i += 2 + j + 2
		case c == '`' && d == MySQL, c == '"' && d == PostgreSQL:
			j := i + 1
			for {
				if j >= n {
					return fmt.Errorf("unterminated quoted identifier at %d", i)
				}
				if s[j] == c {
					if j+1 < n && s[j+1] == c {
						j += 2
						continue
					}
					break
				}
				j++
			}
			emit(Token{"qident", s[i : j+1], i}, nil)
			i = j + 1
		case c == '\'' || c == '"' && d == MySQL:
			val, end, err := scanQuoted(s, i, c, d == MySQL)
			if err != nil {
				return err
			}
			emit(Token{"string", s[i:end], i}, val)
			i = end
		case (c == 'E' || c == 'e') && d == PostgreSQL && i+1 < n && s[i+1] == '\'':
			val, end, err := scanPgEscape(s, i+1)
			if err != nil {
				return err
			}
			emit(Token{"string", s[i:end], i}, val)
			i = end
		case (c == 'x' || c == 'X' || c == 'b' || c == 'B') && i+1 < n && s[i+1] == '\'':
			j := i + 2
			for j < n && s[j] != '\'' {
				j++
			}
			if j >= n {
				return fmt.Errorf("unterminated hex/bit literal at %d", i)
			}
			kind := "hexstr"
			if c == 'b' || c == 'B' {
				kind = "bit"
			}
			emit(Token{kind, s[i : j+1], i}, bytes.ToLower([]byte(s[i+2:j])))
			i = j + 1
		case isDigitB(c) || c == '.' && i+1 < n && isDigitB(s[i+1]):
			j := i
			if c == '0' && j+1 < n && (s[j+1] == 'x' || s[j+1] == 'X') {
				j += 2
				for j < n && isHexB(s[j]) {
					j++
				}
				emit(Token{"hexnum", s[i:j], i}, bytes.ToLower([]byte(s[i+2:j])))
				i = j
				continue
			}
			for j < n && isDigitB(s[j]) {
				j++
			}
			if j < n && s[j] == '.' {
				j++
				for j < n && isDigitB(s[j]) {
					j++
				}
			}
			if j < n && (s[j] == 'e' || s[j] == 'E') {
				k := j + 1
				if k < n && (s[k] == '+' || s[k] == '-') {
					k++
				}
				if k < n && isDigitB(s[k]) {
					for k < n && isDigitB(s[k]) {
						k++
					}
					j = k
				}
			}
			emit(Token{"number", s[i:j], i}, []byte(s[i:j]))
			i = j
		case isIdentStart(c):
			j := i + 1
			for j < n && (isIdentStart(s[j]) || isDigitB(s[j]) || s[j] == '$') {
				j++
			}
			emit(Token{"word", s[i:j], i}, nil)
			i = j
		case c == '?':
			emit(Token{"placeholder", "?", i}, nil)
			i++
		case c == '$' && i+1 < n && isDigitB(s[i+1]):
			j := i + 1
			for j < n && isDigitB(s[j]) {
				j++
			}
			emit(Token{"placeholder", s[i:j], i}, nil)
			i = j
		case c == ':':
			j := i + 1
			if j < n && s[j] == ':' {
				j++
			}
			k := j
			for k < n && (isIdentStart(s[k]) || isDigitB(s[k]) || s[k] == '.') {
				k++
			}
			if k == j {
				emit(Token{"punct", s[i:j], i}, nil)
				i = j
				continue
			}
			emit(Token{"placeholder", s[i:k], i}, nil)
			i = k
		default:
			// multi-character operators
			for _, op := range []string{"<=>", "->>", "<<", ">>", "<=", ">=", "<>", "!=", "->", "&&", "||"} {
				if len(s)-i >= len(op) && s[i:i+len(op)] == op {
					emit(Token{"punct", op, i}, nil)
					i += len(op)
					goto next
				}
			}
			emit(Token{"punct", string(c), i}, nil)
			i++
		next:
		}
	}
	return nil
}

// scanQuoted scans '...' or "..." starting at s[i]==q. backslash selects MySQL escape processing.
func scanQuoted(s string, i int, q byte, backslash bool) ([]byte, int, error) {
	var val []byte
	j := i + 1
	for {
		if j >= len(s) {
			return nil, 0, fmt.Errorf("unterminated string at %d", i)
		}
		c := s[j]
		switch {
		case c == q:
			if j+1 < len(s) && s[j+1] == q {
				val = append(val, q)
				j += 2
				continue
			}
			return orEmpty(val), j + 1, nil
		case c == '\\' && backslash:
			if j+1 >= len(s) {
				return nil, 0, fmt.Errorf("unterminated string at %d", i)
			}
			e := s[j+1]
			switch e {
			case '0':
				val = append(val, 0)
			case 'b':
				val = append(val, '\b')
			case 'n':
				val = append(val, '\n')
			case 'r':
				val = append(val, '\r')
			case 't':
				val = append(val, '\t')
			case 'Z':
				val = append(val, 0x1a)
			case '%', '_':
				val = append(val, '\\', e)
			default:
				val = append(val, e)
			}
			j += 2
		default:
			val = append(val, c)
			j++
		}
	}
}

func orEmpty(b []byte) []byte {
	if b == nil {
		return []byte{}
	}
	return b
}

// scanPgEscape scans the quoted part of E'...' starting at s[i]=='\”.
func scanPgEscape(s string, i int) ([]byte, int, error) {
	var val []byte
	j := i + 1
	for {
		if j >= len(s) {
			return nil, 0, fmt.Errorf("unterminated string at %d", i)
		}
		c := s[j]
		switch {
		case c == '\'':
			if j+1 < len(s) && s[j+1] == '\'' {
				val = append(val, '\'')
				j += 2
				continue
			}
			return orEmpty(val), j + 1, nil
		case c == '\\':
			if j+1 >= len(s) {
				return nil, 0, fmt.Errorf("unterminated string at %d", i)
			}
			e := s[j+1]
			j += 2
			switch {
			case e == 'b':
				val = append(val, '\b')
			case e == 'f':
				val = append(val, '\f')
			case e == 'n':
				val = append(val, '\n')
			case e == 'r':
				val = append(val, '\r')
			case e == 't':
				val = append(val, '\t')
			case e >= '0' && e <= '7':
				k := j
				for k < len(s) && k < j+2 && s[k] >= '0' && s[k] <= '7' {
					k++
				}
				v, _ := strconv.ParseUint(s[j-1:k], 8, 16)
				val = append(val, byte(v))
				j = k
			case e == 'x':
				k := j
				for k < len(s) && k < j+2 && isHexB(s[k]) {
					k++
				}
				if k == j {
					val = append(val, 'x')
				} else {
					v, _ := strconv.ParseUint(s[j:k], 16, 8)
					val = append(val, byte(v))
					j = k
				}
			case e == 'u' && j+4 <= len(s):
				v, err := strconv.ParseUint(s[j:j+4], 16, 32)
				if err != nil {
					val = append(val, 'u')
				} else {
					val = append(val, []byte(string(rune(v)))...)
					j += 4
				}
			default:
				val = append(val, e)
			}
		default:
			val = append(val, c)
			j++
		}
	}
}
