package sqlgen_test

import (
	"bytes"
	"strings"
	"testing"

	"github.com/cossacklabs/acra/sqlparser"
	mysqld "github.com/cossacklabs/acra/sqlparser/dialect/mysql"
	pgd "github.com/cossacklabs/acra/sqlparser/dialect/postgresql"

	"verif/harness/internal/rig/sqlgen"
)

// The generator's literal metadata must agree with the independent lexer (offset, spelling, value).
func TestMetadataAgreesWithLexer(t *testing.T) {
	for _, d := range []sqlgen.Dialect{sqlgen.MySQL, sqlgen.PostgreSQL} {
		for _, strict := range []bool{false, true} {
			g := sqlgen.New(7, "meta", d, sqlgen.Options{Strict: strict})
			for i := 0; i < 6000; i++ {
				st := g.Next()
				lx, err := sqlgen.LexLiterals(d, st.Text)
				if err != nil {
					t.Fatalf("%v: lexer failed on %q: %v", d, st.Text, err)
				}
				byOff := map[int]sqlgen.LexedLiteral{}
				for _, l := range lx {
					byOff[l.Offset] = l
				}
				for _, l := range st.Literals {
					if st.Text[l.Offset:l.Offset+len(l.Spelling)] != l.Spelling {
						t.Fatalf("offset wrong: %q lit %+v", st.Text, l)
					}
					off, sp, val := l.Offset, l.Spelling, l.Value
					if strings.HasPrefix(sp, "-") {
						off, sp, val = off+1, sp[1:], val[1:]
					}
					got, ok := byOff[off]
					if !ok {
						t.Fatalf("%v: recorded literal %q at %d not seen by lexer in %q", d, l.Spelling, l.Offset, st.Text)
					}
					if got.Spelling != sp {
						t.Fatalf("%v: spelling differs: recorded %q lexer %q in %q", d, sp, got.Spelling, st.Text)
					}
					if !bytes.Equal(got.Value, val) {
						t.Fatalf("%v: value differs for %q: recorded %q lexer %q", d, sp, val, got.Value)
					}
				}
			}
		}
	}
}

func TestAcceptanceRate(t *testing.T) {
	for _, d := range []sqlgen.Dialect{sqlgen.MySQL, sqlgen.PostgreSQL} {
		if d == sqlgen.MySQL {
			sqlparser.SetDefaultDialect(mysqld.NewMySQLDialect())
		} else {
			sqlparser.SetDefaultDialect(pgd.NewPostgreSQLDialect())
		}
		p := sqlparser.New(sqlparser.ModeStrict)
		g := sqlgen.New(3, "accept", d, sqlgen.Options{})
		ok, bad := 0, 0
		rej := map[string]int{}
		for i := 0; i < 20000; i++ {
			st := g.Next()
			if _, err := p.Parse(st.Text); err != nil {
				bad++
				if bad <= 12 {
					t.Logf("%v rejected: %s\n   %v", d, st.Text, err)
				}
				for _, f := range st.Features {
					rej[f]++
				}
			} else {
				ok++
			}
		}
		t.Logf("%v: accepted %d rejected %d", d, ok, bad)
		if bad*10 > ok {
			t.Errorf("%v: too many rejected", d)
		}
	}
	sqlparser.SetDefaultDialect(mysqld.NewMySQLDialect())
}

func TestHarvest(t *testing.T) {
	hs, err := sqlgen.Harvest(sqlgen.RepoPath())
	if err != nil {
		t.Fatal(err)
	}
	pg, inv := 0, 0
	for _, h := range hs {
		if h.Dialect == sqlgen.PostgreSQL {
			pg++
		}
		if h.Invalid {
			inv++
		}
	}
	t.Logf("harvested %d strings (%d postgresql, %d from invalid lists)", len(hs), pg, inv)
	if len(hs) < 500 {
		t.Errorf("too few")
	}
}
