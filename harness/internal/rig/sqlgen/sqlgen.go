package sqlgen

import (
	"fmt"
	"math/rand"
	"sort"
	"strings"
)

// Dialect selects the grammar mode.
type Dialect int

// Dialects.
const (
	MySQL Dialect = iota
	PostgreSQL
)

func (d Dialect) String() string {
	if d == PostgreSQL {
		return "postgresql"
	}
	return "mysql"
}

// LitKind is the spelling family of a literal.
type LitKind string

// Literal kinds. The first seven are the spellings property C16 enumerates; hex/bit are generated but only reported.
const (
	LitSingle     LitKind = "str-single"  // '...'
	LitDouble     LitKind = "str-double"  // "..." (MySQL, ANSI_QUOTES off)
	LitEscape     LitKind = "str-escape"  // E'...' (PostgreSQL)
	LitInt        LitKind = "int"         // 123
	LitDecimal    LitKind = "decimal"     // 1.5  .5
	LitExponent   LitKind = "exponent"    // 1.5e3
	LitNegInt     LitKind = "neg-int"     // -123
	LitNegDecimal LitKind = "neg-decimal" // -1.5
	LitNegExp     LitKind = "neg-exponent"
	LitHexNum     LitKind = "hexnum" // 0x1F
	LitHexStr     LitKind = "hexstr" // x'1f'
	LitBit        LitKind = "bit"    // b'0101'
)

// IsString reports whether the kind is a quoted character string.
func (k LitKind) IsString() bool { return k == LitSingle || k == LitDouble || k == LitEscape }

// IsNumber reports whether the kind is a decimal numeric literal (any sign).
func (k LitKind) IsNumber() bool {
	switch k {
	case LitInt, LitDecimal, LitExponent, LitNegInt, LitNegDecimal, LitNegExp:
		return true
	}
	return false
}

// Literal is one literal written into a statement.
type Literal struct {
	Kind     LitKind `json:"kind"`
	Slot     string  `json:"slot"`     // syntactic position class, see package doc
	Spelling string  `json:"spelling"` // exact text in the statement (quotes / sign included)
	Value    []byte  `json:"-"`        // what the real DBMS reads: decoded bytes (strings, hex), digits text (numbers, sign included)
	Offset   int     `json:"offset"`   // byte offset of Spelling in Stmt.Text
}

// Stmt is one generated statement.
type Stmt struct {
	Dialect      Dialect
	Text         string
	Kind         string   // select | union | insert | replace | update | delete | set
	Tables       []string // table names as written (unquoted form), in order of first appearance
	Literals     []Literal
	Placeholders int
	PlaceStyle   string   // "", "?", "$", ":v"
	Features     []string // grammar features used, sorted
	Depth        int      // deepest expression nesting reached
}

// DML reports whether the statement is a data-manipulation statement (C13's domain).
func (s *Stmt) DML() bool { return s.Kind != "set" }

// Table is a table the generator may reference.
type Table struct {
	Name    string
	Columns []string
}

// Schema is the name pool of a generator.
type Schema struct{ Tables []Table }

// DefaultSchema is used when Options.Schema is nil.
var DefaultSchema = &Schema{Tables: []Table{
	{"users", []string{"id", "email", "name", "age", "balance", "created_at", "data"}},
	{"orders", []string{"id", "user_id", "amount", "status", "note", "token"}},
	{"t", []string{"a", "b", "c", "d", "id"}},
	{"logs", []string{"id", "usrid", "date", "msg"}},
}}

// LitRequest describes the literal position a LiteralSource is asked to fill.
type LitRequest struct {
	Dialect Dialect
	Slot    string
	// Want restricts the family: "any", "string" (a character string), "number" (decimal numeric),
	// "int" (non-negative integer, e.g. LIMIT), "single" (must be '...': GROUP_CONCAT separator, PostgreSQL INTERVAL).
	Want string
	Rand *rand.Rand
}

// LiteralSource returns the literal to write at a position. Value must be what the real DBMS would read.
type LiteralSource func(req LitRequest) (kind LitKind, spelling string, value []byte)

// Options configure a Gen.
type Options struct {
	Schema       *Schema
	Literals     LiteralSource
	Strict       bool
	MaxDepth     int
	Placeholders string   // "none" | "mixed" (default)
	Kinds        []string // statement kinds Next() draws from (default: all DML kinds + occasionally set)
}

// Gen is a seeded statement generator.
type Gen struct {
	r   *rand.Rand
	d   Dialect
	o   Options
	sch *Schema

	// per statement
	buf       []byte
	lits      []Literal
	feats     map[string]struct{}
	tables    []string
	scope     []Table
	ph        int
	phStyle   string
	depth     int
	maxSeen   int
	slots     []string
	aliasSeq  int
	allowDflt bool
}

// New creates a generator; (seed, stream, dialect, options) fix the whole sequence.
func New(seed int64, stream string, d Dialect, o Options) *Gen {
	h := uint64(1469598103934665603)
	for _, c := range []byte(stream + "|" + d.String()) {
		h ^= uint64(c)
		h *= 1099511628211
	}
	if o.MaxDepth <= 0 {
		o.MaxDepth = 3
	}
	sch := o.Schema
	if sch == nil {
		sch = DefaultSchema
	}
	return &Gen{r: rand.New(rand.NewSource(seed*1000003 + int64(h&0x7fffffffffff))), d: d, o: o, sch: sch}
}

// Dialect returns the generator's dialect.
func (g *Gen) Dialect() Dialect { return g.d }

var allKinds = []string{"select", "select", "select", "union", "insert", "insert", "replace", "update", "update", "delete"}

// Next generates the next statement.
func (g *Gen) Next() *Stmt {
	kinds := g.o.Kinds
	if len(kinds) == 0 {
		if g.r.Intn(40) == 0 {
			return g.NextKind("set")
		}
		kinds = allKinds
	}
	return g.NextKind(kinds[g.r.Intn(len(kinds))])
}

// NextKind generates a statement of the given kind.
func (g *Gen) NextKind(kind string) *Stmt {
	g.buf = g.buf[:0]
	g.lits = nil
	g.feats = map[string]struct{}{}
	g.tables = nil
	g.scope = nil
	g.ph = 0
	g.phStyle = ""
	g.depth, g.maxSeen, g.aliasSeq = 0, 0, 0
	g.slots = g.slots[:0]
	if g.o.Placeholders != "none" && g.r.Intn(4) == 0 {
		switch {
		case g.d == PostgreSQL && g.r.Intn(3) != 0:
			g.phStyle = "$"
		case !g.o.Strict && g.r.Intn(5) == 0:
			g.phStyle = ":v"
		case g.d == MySQL || !g.o.Strict:
			g.phStyle = "?"
		default:
			g.phStyle = "$"
		}
	}
	if g.d == PostgreSQL && g.o.Strict && kind == "replace" {
		kind = "insert"
	}
	switch kind {
	case "select":
		g.selectStmt(true)
	case "union":
		g.unionStmt()
	case "insert", "replace":
		g.insertStmt(kind)
	case "update":
		g.updateStmt()
	case "delete":
		g.deleteStmt()
	case "set":
		g.setStmt()
	default:
		panic("sqlgen: unknown kind " + kind)
	}
	if g.r.Intn(25) == 0 {
		g.w(";")
	}
	fs := make([]string, 0, len(g.feats))
	for f := range g.feats {
		fs = append(fs, f)
	}
	sort.Strings(fs)
	text, lits := finish(g.buf, g.lits, g.phStyle)
	st := &Stmt{Dialect: g.d, Text: text, Kind: kind, Tables: g.tables, Literals: lits, Placeholders: g.ph, Features: fs, Depth: g.maxSeen}
	if g.ph > 0 {
		st.PlaceStyle = g.phStyle
	}
	return st
}

// Fragment generates a stand-alone boolean expression whose column references prefer the given tables, for callers
// that assemble statements of their own shape around generated parts. Placeholders are not used in fragments.
func (g *Gen) Fragment(tables ...Table) (string, []Literal) {
	saved := g.phStyle
	g.buf = g.buf[:0]
	g.lits = nil
	g.feats = map[string]struct{}{}
	g.scope = append([]Table{}, tables...)
	g.phStyle = ""
	g.depth, g.maxSeen = 0, 0
	g.slots = g.slots[:0]
	g.pushSlot("where")
	g.boolExpr()
	g.popSlot()
	g.phStyle = saved
	text, lits := finish(g.buf, g.lits, "")
	return text, lits
}

// LiteralText returns one literal spelling of the requested family (any | string | number | int | single | unsigned).
func (g *Gen) LiteralText(want string) Literal {
	g.buf = g.buf[:0]
	g.lits = nil
	g.feats = map[string]struct{}{}
	g.slots = g.slots[:0]
	g.literal(want)
	return g.lits[0]
}

// ---- low level writers ----

func (g *Gen) w(s string) {
	// never let two minus signs meet: "--" starts a comment
	if n := len(g.buf); n > 0 && len(s) > 0 && s[0] == '-' && g.buf[n-1] == '-' {
		g.buf = append(g.buf, ' ')
	}
	g.buf = append(g.buf, s...)
}

func (g *Gen) feat(f string) { g.feats[f] = struct{}{} }

func (g *Gen) p(n int) bool { return g.r.Intn(n) == 0 }

func (g *Gen) pick(xs ...string) string { return xs[g.r.Intn(len(xs))] }

// kw writes a keyword with varied case.
func (g *Gen) kw(s string) {
	switch g.r.Intn(6) {
	case 0:
		g.w(strings.ToUpper(s))
	default:
		g.w(s)
	}
}

// sp writes white space (sometimes exotic).
func (g *Gen) sp() {
	switch g.r.Intn(30) {
	case 0:
		g.w("  ")
	case 1:
		g.w("\n")
	case 2:
		g.w("\t")
	default:
		g.w(" ")
	}
}

func (g *Gen) pushSlot(s string) { g.slots = append(g.slots, s) }
func (g *Gen) popSlot()          { g.slots = g.slots[:len(g.slots)-1] }
func (g *Gen) slot() string {
	if len(g.slots) == 0 {
		return "where"
	}
	return strings.Join(g.slots, "/")
}

func (g *Gen) addTable(name string) {
	for _, t := range g.tables {
		if t == name {
			return
		}
	}
	g.tables = append(g.tables, name)
}

// ---- identifiers ----

var mysqlOddNames = []string{"select", "table", "key", "order", "group", "my col", "we`ird", "1st", "from", "Üser"}
var pgOddNames = []string{"select", "table", "User", "my col", "we\"ird", "1st", "Order", "CamelCase"}

var identKeywords = map[string]bool{"select": true, "table": true, "key": true, "order": true, "group": true, "from": true, "user": true}

func needsQuote(d Dialect, name string) bool {
	if identKeywords[strings.ToLower(name)] {
		return true
	}
	for i := 0; i < len(name); i++ {
		c := name[i]
		switch {
		case c == '_' || c >= 'a' && c <= 'z':
		case c >= 'A' && c <= 'Z':
			if d == PostgreSQL {
				return true
			}
		case c >= '0' && c <= '9':
			if i == 0 {
				return true
			}
		default:
			return true
		}
	}
	return false
}

// ident writes an identifier, quoted in the dialect's style when it needs to be (and sometimes when not).
func (g *Gen) ident(name string) {
	must := needsQuote(g.d, name)
	if g.d == MySQL {
		if must || g.r.Intn(12) == 0 {
			g.w("`" + strings.ReplaceAll(name, "`", "``") + "`")
			g.feat("ident-backtick")
			return
		}
	} else {
		if must || g.r.Intn(12) == 0 {
			g.w(`"` + strings.ReplaceAll(name, `"`, `""`) + `"`)
			g.feat("ident-dquote")
			return
		}
	}
	g.w(name)
}

// oddIdent writes an identifier that needs quoting (keyword, space, embedded quote, leading digit).
func (g *Gen) oddIdent() string {
	if g.d == MySQL {
		n := mysqlOddNames[g.r.Intn(len(mysqlOddNames))]
		g.w("`" + strings.ReplaceAll(n, "`", "``") + "`")
		g.feat("ident-backtick-odd")
		if strings.Contains(n, "`") {
			g.feat("ident-embedded-quote")
		}
		return n
	}
	n := pgOddNames[g.r.Intn(len(pgOddNames))]
	g.w(`"` + strings.ReplaceAll(n, `"`, `""`) + `"`)
	g.feat("ident-dquote-odd")
	if strings.Contains(n, `"`) {
		g.feat("ident-embedded-quote")
	}
	return n
}

func (g *Gen) pickTable() Table { return g.sch.Tables[g.r.Intn(len(g.sch.Tables))] }

// tableName writes a (possibly qualified) table name and returns the table.
func (g *Gen) tableName() Table {
	t := g.pickTable()
	if g.p(14) {
		g.ident(g.pick("db1", "app", "public"))
		g.w(".")
		g.feat("table-qualified")
	}
	if g.p(25) && !g.o.Strict {
		n := g.oddIdent()
		g.addTable(n)
		return Table{Name: n, Columns: t.Columns}
	}
	g.ident(t.Name)
	g.addTable(t.Name)
	return t
}

func (g *Gen) alias() string {
	g.aliasSeq++
	return fmt.Sprintf("%s%d", g.pick("a", "t", "x", "al"), g.aliasSeq)
}

// column writes a column reference (sometimes qualified by a table in scope).
func (g *Gen) column() {
	var t Table
	if len(g.scope) > 0 {
		t = g.scope[g.r.Intn(len(g.scope))]
	} else {
		t = g.pickTable()
	}
	col := t.Columns[g.r.Intn(len(t.Columns))]
	switch g.r.Intn(10) {
	case 0, 1:
		g.ident(t.Name)
		g.w(".")
		g.ident(col)
		g.feat("column-qualified")
	case 2:
		if !g.o.Strict && g.p(3) {
			g.ident("db1")
			g.w(".")
			g.ident(t.Name)
			g.w(".")
			g.ident(col)
			g.feat("column-qualified-db")
			return
		}
		g.ident(col)
	case 3:
		if g.p(6) && !g.o.Strict {
			g.oddIdent()
			return
		}
		g.ident(col)
	default:
		g.ident(col)
	}
}

// bareColumn writes an unqualified column of t and returns its name.
func (g *Gen) bareColumn(t Table) string {
	col := t.Columns[g.r.Intn(len(t.Columns))]
	g.ident(col)
	return col
}

// ---- comments ----

func (g *Gen) commentOpt() {
	if g.p(20) {
		g.w(g.pick("/* c */", "/* two words */", "/*+ hint */"))
		g.sp()
		g.feat("comment")
	}
}
