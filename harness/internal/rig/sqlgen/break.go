package sqlgen

import (
	"math/rand"
	"strings"
)

// Break returns a damaged variant of a statement that a SQL parser will very likely reject, and the name of
// the damage applied. All literal text of the original stays in the result (so that a monitor can look for it
// in places where an unparseable statement must not show up). Callers must still check that the target parser
// really rejects it.
func Break(r *rand.Rand, d Dialect, text string) (string, string) {
	toks, err := LexTokens(d, text)
	if err != nil || len(toks) < 3 {
		return text + " )) garbage ((", "append-garbage"
	}
	cut := func(i int) (string, string) { return text[:toks[i].Offset], text[toks[i].Offset+len(toks[i].Text):] }
	switch r.Intn(8) {
	case 0:
		return text + " )", "extra-close-paren"
	case 1:
		// duplicate a keyword
		for tries := 0; tries < 20; tries++ {
			i := r.Intn(len(toks))
			if toks[i].Kind == "word" {
				a, b := cut(i)
				return a + toks[i].Text + " " + toks[i].Text + b, "duplicate-word"
			}
		}
	case 2:
		// insert a stray operator between two tokens
		i := 1 + r.Intn(len(toks)-1)
		return text[:toks[i].Offset] + " = = " + text[toks[i].Offset:], "stray-operators"
	case 3:
		// unbalanced open parenthesis after the first word
		i := 1
		return text[:toks[i].Offset] + "( " + text[toks[i].Offset:], "unbalanced-open-paren"
	case 4:
		// misspell the verb
		a, b := cut(0)
		return a + toks[0].Text + "x" + b, "misspelled-verb"
	case 5:
		// keyword in the wrong place
		i := 1 + r.Intn(len(toks)-1)
		return text[:toks[i].Offset] + " from where " + text[toks[i].Offset:], "misplaced-keywords"
	case 6:
		// trailing junk tokens
		return text + " foo bar baz", "trailing-words"
	}
	// swap: move the first token to the end
	a, b := cut(0)
	return strings.TrimSpace(a+b) + " " + toks[0].Text, "verb-moved-to-end"
}
