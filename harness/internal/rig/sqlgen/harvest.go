package sqlgen

import (
	"bytes"
	"fmt"
	"go/ast"
	"go/parser"
	"go/printer"
	"go/token"
	"os"
	"path/filepath"
	"sort"
	"strconv"
	"strings"
)

// Harvested is one SQL string found in Acra's parser test sources.
type Harvested struct {
	Text     string
	Dialect  Dialect // dialect the test case names; MySQL when it names none (what the tests default to)
	ANSI     bool    // the test case builds the MySQL dialect with ANSI mode on
	Explicit bool    // a dialect was named by the test case
	Expected string  // the `output:` string of the case, if any (printed form the test expects, or an error text)
	Invalid  bool    // found in a list whose name contains "invalid" (the tests expect a parse error)
	File     string
	Line     int
}

// RepoPath returns the repository under test (env VERIF_REPO_PATH, default /repo).
func RepoPath() string {
	if p := os.Getenv("VERIF_REPO_PATH"); p != "" {
		return p
	}
	return "/repo"
}

// Harvest reads, AS DATA, every SQL string written in the test sources of <repo>/sqlparser (package tests and
// the dialect sub-packages): values of the keys input / query / sql in composite literals, and the elements
// of []string literals whose first word is an SQL verb. Nothing is compiled or executed. Callers decide
// validity by parsing: Invalid only tells which list the string came from.
func Harvest(repo string) ([]Harvested, error) {
	dirs := []string{"sqlparser", "sqlparser/dialect/mysql", "sqlparser/dialect/postgresql"}
	var out []Harvested
	seen := map[string]bool{}
	for _, d := range dirs {
		files, _ := filepath.Glob(filepath.Join(repo, d, "*_test.go"))
		sort.Strings(files)
		for _, f := range files {
			hs, err := harvestFile(f)
			if err != nil {
				return nil, fmt.Errorf("%s: %w", f, err)
			}
			for _, h := range hs {
				k := fmt.Sprintf("%d|%v|%s", h.Dialect, h.ANSI, h.Text)
				if seen[k] {
					continue
				}
				seen[k] = true
				out = append(out, h)
			}
		}
	}
	if len(out) == 0 {
		return nil, fmt.Errorf("no SQL strings found under %s/sqlparser", repo)
	}
	return out, nil
}

var sqlVerbs = map[string]bool{"select": true, "insert": true, "replace": true, "update": true, "delete": true, "set": true, "create": true, "alter": true, "drop": true,
	"rename": true, "truncate": true, "analyze": true, "show": true, "use": true, "begin": true, "start": true, "commit": true, "rollback": true, "describe": true, "desc": true,
	"explain": true, "repair": true, "optimize": true, "prepare": true, "execute": true, "deallocate": true, "stream": true, "(select": true}

func looksLikeSQL(s string) bool {
	t := strings.TrimLeft(s, " \t\n(")
	if strings.HasPrefix(t, "/*") {
		if i := strings.Index(t, "*/"); i >= 0 {
			t = strings.TrimLeft(t[i+2:], " \t\n")
		}
	}
	w := strings.ToLower(t)
	if i := strings.IndexAny(w, " \t\n;("); i >= 0 {
		w = w[:i]
	}
	return sqlVerbs[w]
}

func constString(e ast.Expr) (string, bool) {
	switch v := e.(type) {
	case *ast.BasicLit:
		if v.Kind != token.STRING {
			return "", false
		}
		s, err := strconv.Unquote(v.Value)
		return s, err == nil
	case *ast.BinaryExpr:
		if v.Op != token.ADD {
			return "", false
		}
		a, ok1 := constString(v.X)
		b, ok2 := constString(v.Y)
		return a + b, ok1 && ok2
	case *ast.ParenExpr:
		return constString(v.X)
	}
	return "", false
}

func harvestFile(path string) ([]Harvested, error) {
	fset := token.NewFileSet()
	f, err := parser.ParseFile(fset, path, nil, 0)
	if err != nil {
		return nil, err
	}
	var out []Harvested
	src := func(e ast.Expr) string {
		var b bytes.Buffer
		printer.Fprint(&b, fset, e)
		return b.String()
	}
	// name of the enclosing variable (value specs and short assignments), to recognise invalid lists
	var walk func(n ast.Node, owner string)
	walk = func(n ast.Node, owner string) {
		ast.Inspect(n, func(n ast.Node) bool {
			switch v := n.(type) {
			case *ast.ValueSpec:
				for i, val := range v.Values {
					name := owner
					if i < len(v.Names) {
						name = v.Names[i].Name
					}
					walk(val, name)
				}
				return false
			case *ast.AssignStmt:
				for i, val := range v.Rhs {
					name := owner
					if i < len(v.Lhs) {
						if id, ok := v.Lhs[i].(*ast.Ident); ok {
							name = id.Name
						}
					}
					walk(val, name)
				}
				return false
			case *ast.CompositeLit:
				invalid := strings.Contains(strings.ToLower(owner), "invalid")
				h := Harvested{File: filepath.Base(path), Invalid: invalid}
				keyed := false
				for _, el := range v.Elts {
					kv, ok := el.(*ast.KeyValueExpr)
					if !ok {
						continue
					}
					k, ok := kv.Key.(*ast.Ident)
					if !ok {
						continue
					}
					switch strings.ToLower(k.Name) {
					case "input", "query", "sql", "in":
						if s, ok := constString(kv.Value); ok {
							h.Text = s
							h.Line = fset.Position(kv.Pos()).Line
							keyed = true
						}
					case "output", "out", "expected":
						if s, ok := constString(kv.Value); ok {
							h.Expected = s
						}
					case "dialect":
						t := src(kv.Value)
						h.Explicit = true
						if strings.Contains(t, "postgresql") || strings.Contains(t, "PostgreSQL") {
							h.Dialect = PostgreSQL
						} else {
							h.Dialect = MySQL
							if strings.Contains(t, "SetANSIMode(true)") {
								h.ANSI = true
							}
						}
					}
				}
				if keyed && h.Text != "" {
					out = append(out, h)
				}
				// []string{...} of SQL texts
				if at, ok := v.Type.(*ast.ArrayType); ok {
					if id, ok := at.Elt.(*ast.Ident); ok && id.Name == "string" {
						for _, el := range v.Elts {
							if s, ok := constString(el); ok && looksLikeSQL(s) {
								out = append(out, Harvested{Text: s, File: filepath.Base(path), Line: fset.Position(el.Pos()).Line, Invalid: invalid})
							}
						}
					}
				}
				return true
			}
			return true
		})
	}
	walk(f, "")
	return out, nil
}
