package sqlgen

// Expression productions (sql.y: expression / condition / value_expression / function_call_*).

const phSentinel = "\x01"

// placeholder writes a bind placeholder in the statement's style; numbering is assigned in text order at the end.
func (g *Gen) placeholder() {
	if g.phStyle == "" {
		g.literal("any")
		return
	}
	g.w(phSentinel)
	g.ph++
	g.feat("placeholder-" + g.phStyle)
}

func (g *Gen) enter() bool {
	g.depth++
	if g.depth > g.maxSeen {
		g.maxSeen = g.depth
	}
	return g.depth <= g.o.MaxDepth
}
func (g *Gen) leave() { g.depth-- }

// boolExpr writes an `expression` (boolean level).
func (g *Gen) boolExpr() {
	if !g.enter() {
		g.leave()
		g.condition()
		return
	}
	defer g.leave()
	switch g.r.Intn(16) {
	case 0, 1:
		g.boolExpr()
		g.sp()
		if g.d == MySQL && g.p(8) {
			g.w("&&")
			g.feat("op-&&")
		} else {
			g.kw("and")
		}
		g.sp()
		g.boolExpr()
		g.feat("and")
	case 2:
		g.boolExpr()
		g.sp()
		if g.d == MySQL && g.p(8) {
			g.w("||")
			g.feat("op-||")
		} else {
			g.kw("or")
		}
		g.sp()
		g.boolExpr()
		g.feat("or")
	case 3:
		g.kw("not")
		g.sp()
		g.boolExpr()
		g.feat("not")
	case 4:
		g.w("(")
		g.boolExpr()
		g.w(")")
		g.feat("paren-bool")
	case 5:
		if g.p(2) {
			g.condition()
		} else {
			g.valueExpr()
		}
		g.sp()
		g.kw(g.pick("is null", "is not null", "is true", "is not true", "is false", "is not false"))
		g.feat("is")
	case 6:
		// mixed precedence chains: a or b and c, not a and b
		g.condition()
		g.sp()
		g.kw(g.pick("or", "and"))
		g.sp()
		g.condition()
		g.sp()
		g.kw(g.pick("or", "and"))
		g.sp()
		g.condition()
		g.feat("and-or-chain")
	default:
		g.condition()
	}
}

var cmpOpsBoth = []string{"=", "<", ">", "<=", ">=", "!=", "<>"}

// condition writes a `condition`.
func (g *Gen) condition() {
	switch g.r.Intn(20) {
	case 0, 1:
		g.valueExpr()
		g.sp()
		if g.p(3) {
			g.kw("not")
			g.sp()
		}
		g.kw("in")
		g.sp()
		g.pushSlot("in-list")
		switch {
		case g.p(5) && g.depth < g.o.MaxDepth:
			g.subquery()
			g.feat("in-subquery")
		case g.p(25) && !g.o.Strict:
			g.w("::lst")
			g.feat("in-listarg")
		default:
			g.w("(")
			n := 1 + g.r.Intn(4)
			for i := 0; i < n; i++ {
				if i > 0 {
					g.w(",")
					g.sp()
				}
				if g.p(8) {
					g.valueExpr()
				} else if g.phStyle != "" && g.p(4) {
					g.placeholder()
				} else {
					g.literal("any")
				}
			}
			g.w(")")
			g.feat("in-tuple")
		}
		g.popSlot()
	case 2, 3:
		g.valueExpr()
		g.sp()
		if g.p(3) {
			g.kw("not")
			g.sp()
		}
		if g.d == PostgreSQL && g.p(3) {
			g.kw("ilike")
			g.feat("ilike")
		} else {
			g.kw("like")
		}
		g.sp()
		g.pushSlot("like")
		if g.p(6) {
			g.valueExpr()
		} else {
			g.literal("string")
		}
		if g.p(6) {
			g.sp()
			g.kw("escape")
			g.sp()
			g.literal("string")
			g.feat("like-escape")
		}
		g.popSlot()
		g.feat("like")
	case 4:
		if g.d == MySQL || !g.o.Strict {
			g.valueExpr()
			g.sp()
			if g.p(3) {
				g.kw("not")
				g.sp()
			}
			g.kw("regexp")
			g.sp()
			g.pushSlot("like")
			g.literal("string")
			g.popSlot()
			g.feat("regexp")
			return
		}
		fallthrough
	case 5, 6:
		g.valueExpr()
		g.sp()
		if g.p(3) {
			g.kw("not")
			g.sp()
		}
		g.kw("between")
		g.sp()
		g.pushSlot("between")
		g.valueExprNoBool()
		g.sp()
		g.kw("and")
		g.sp()
		g.valueExprNoBool()
		g.popSlot()
		g.feat("between")
	case 7:
		if g.depth < g.o.MaxDepth {
			g.kw("exists")
			g.sp()
			g.subquery()
			g.feat("exists")
			return
		}
		fallthrough
	default:
		// comparison; most often column <op> value, as applications write it
		if g.p(4) {
			g.valueExpr()
		} else {
			g.column()
		}
		g.sp()
		op := cmpOpsBoth[g.r.Intn(len(cmpOpsBoth))]
		if g.p(2) {
			op = "="
		}
		if g.d == MySQL && g.p(20) || !g.o.Strict && g.p(40) {
			op = "<=>"
		}
		g.w(op)
		g.feat("cmp-" + op)
		g.sp()
		switch g.r.Intn(6) {
		case 0:
			g.valueExpr()
		case 1:
			if g.phStyle != "" {
				g.placeholder()
			} else {
				g.literal("any")
			}
		case 2:
			g.column()
		default:
			g.literal("any")
		}
	}
}

// valueExprNoBool writes a value expression that cannot swallow a following AND (operands of BETWEEN).
func (g *Gen) valueExprNoBool() {
	switch g.r.Intn(5) {
	case 0:
		g.column()
	case 1:
		if g.phStyle != "" {
			g.placeholder()
			return
		}
		g.literal("any")
	case 2:
		g.literal("number")
		g.sp()
		g.w(g.pick("+", "-", "*"))
		g.sp()
		g.literal("number")
		g.feat("arith")
	default:
		g.literal("any")
	}
}

var binOpsBoth = []string{"+", "-", "*", "/", "%", "&", "|", "^", "<<", ">>"}

// valueExpr writes a `value_expression`.
func (g *Gen) valueExpr() {
	if !g.enter() {
		g.leave()
		g.leaf()
		return
	}
	defer g.leave()
	switch g.r.Intn(40) {
	case 0, 1, 2:
		g.valueExpr()
		g.sp()
		op := binOpsBoth[g.r.Intn(len(binOpsBoth))]
		if (g.d == MySQL || !g.o.Strict) && g.p(10) {
			op = g.pick("div", "mod", "DIV", "MOD")
		}
		g.w(op)
		g.feat("binop-" + op)
		g.sp()
		g.valueExpr()
	case 3:
		g.w("(")
		g.valueExpr()
		g.w(")")
		g.feat("paren-value")
	case 4:
		// parenthesised arithmetic where the parentheses matter
		g.w("(")
		g.leaf()
		g.w(g.pick(" + ", " - ", " | "))
		g.leaf()
		g.w(")")
		g.w(g.pick(" * ", " / ", " & ", " - "))
		if g.p(2) {
			g.w("(")
			g.leaf()
			g.w(g.pick(" + ", " - "))
			g.leaf()
			g.w(")")
		} else {
			g.leaf()
		}
		g.feat("paren-precedence")
	case 5:
		g.w("(")
		n := 2 + g.r.Intn(2)
		for i := 0; i < n; i++ {
			if i > 0 {
				g.w(", ")
			}
			g.leaf()
		}
		g.w(")")
		g.feat("tuple")
	case 6:
		if g.depth < g.o.MaxDepth {
			g.subquery()
			g.feat("scalar-subquery")
			return
		}
		g.leaf()
	case 7:
		op := g.pick("-", "+", "~")
		if (g.d == MySQL || !g.o.Strict) && g.p(3) {
			op = "!"
		}
		g.w(op)
		if g.p(3) {
			g.w(" ")
		}
		g.feat("unary-" + op)
		switch g.r.Intn(4) {
		case 0:
			g.column()
		case 1:
			g.w("(")
			g.valueExpr()
			g.w(")")
		case 2:
			// nested unary
			g.w(g.pick("-", "~", "+"))
			g.column()
			g.feat("unary-nested")
		default:
			g.literal("unsigned")
		}
	case 8:
		if g.d == MySQL || !g.o.Strict {
			g.kw(g.pick("binary", "_binary"))
			g.sp()
			if g.p(2) {
				g.column()
			} else {
				g.literal("string")
			}
			g.feat("unary-binary")
			return
		}
		g.leaf()
	case 9:
		if g.d == MySQL || !g.o.Strict {
			g.leaf()
			g.sp()
			g.kw("collate")
			g.sp()
			g.w(g.pick("utf8_bin", "utf8mb4_general_ci", "latin1_swedish_ci", "'utf8_bin'"))
			g.feat("collate")
			return
		}
		g.leaf()
	case 10:
		if g.d == MySQL {
			g.kw("interval")
			g.sp()
			g.literal("int")
			g.sp()
			g.kw(g.pick("day", "hour", "minute", "month", "year", "second", "week"))
			g.feat("interval-mysql")
		} else {
			g.kw("interval")
			g.sp()
			g.pushSlot("func-arg")
			g.literal("single")
			g.popSlot()
			g.feat("interval-pg")
		}
	case 11, 12, 13, 14:
		g.funcCall()
	case 15:
		g.caseExpr()
	case 16:
		if g.d == MySQL || !g.o.Strict {
			g.column()
			g.w(g.pick(" -> ", " ->> ", "->", "->>"))
			g.literal("string")
			g.feat("json-extract")
			return
		}
		g.leaf()
	case 17:
		if g.d == PostgreSQL {
			g.pgCast()
			return
		}
		g.leaf()
	case 18:
		g.kw(g.pick("true", "false"))
		g.feat("bool-literal")
	default:
		g.leaf()
	}
}

func (g *Gen) pgCast() {
	switch g.r.Intn(4) {
	case 0:
		g.kw("null")
	case 1:
		if g.phStyle != "" {
			g.placeholder()
		} else {
			g.literal("any")
		}
	default:
		g.literal("any")
	}
	g.w("::")
	g.w(g.pick("text", "int", "bytea", "varchar", "numeric", "date", "int4"))
	if g.p(8) && !g.o.Strict {
		g.w("::text")
		g.feat("pg-typecast-chain")
	}
	g.feat("pg-typecast")
}

// leaf writes a column, literal, placeholder or NULL.
func (g *Gen) leaf() {
	switch g.r.Intn(10) {
	case 0, 1, 2, 3:
		g.column()
	case 4:
		g.kw("null")
	case 5:
		if g.phStyle != "" {
			g.placeholder()
			return
		}
		g.literal("any")
	default:
		g.literal("any")
	}
}

func (g *Gen) args(min, max int) {
	n := min
	if max > min {
		n += g.r.Intn(max - min + 1)
	}
	g.pushSlot("func-arg")
	for i := 0; i < n; i++ {
		if i > 0 {
			g.w(",")
			g.sp()
		}
		switch g.r.Intn(4) {
		case 0:
			g.valueExpr()
		case 1:
			g.column()
		default:
			g.literal("any")
		}
	}
	g.popSlot()
}

var genericFuncs = []string{"concat", "lower", "upper", "coalesce", "length", "abs", "round", "nullif", "md5", "greatest", "ifnull", "date_add"}

func (g *Gen) funcCall() {
	g.feat("func")
	switch g.r.Intn(22) {
	case 0:
		// aggregate, possibly DISTINCT / star
		f := g.pick("count", "sum", "max", "min", "avg")
		g.w(f + "(")
		switch {
		case f == "count" && g.p(2):
			g.w("*")
		case g.p(4):
			g.kw("distinct")
			g.sp()
			g.column()
			g.feat("func-distinct")
		default:
			g.column()
		}
		g.w(")")
		g.feat("func-aggregate")
	case 1:
		if g.d == MySQL || !g.o.Strict {
			g.kw(g.pick("left", "right"))
			g.w("(")
			g.pushSlot("func-arg")
			g.column()
			g.w(", ")
			g.literal("int")
			g.popSlot()
			g.w(")")
			g.feat("func-left-right")
			return
		}
		fallthrough
	case 2:
		if g.d == MySQL || !g.o.Strict {
			g.kw("convert")
			g.w("(")
			g.pushSlot("func-arg")
			g.valueExpr()
			g.popSlot()
			g.w(", ")
			g.convertType()
			g.w(")")
			g.feat("convert")
			return
		}
		fallthrough
	case 3, 4:
		g.kw("cast")
		g.w("(")
		g.pushSlot("func-arg")
		if g.p(2) {
			g.valueExpr()
		} else {
			g.literal("any")
		}
		g.popSlot()
		g.sp()
		g.kw("as")
		g.sp()
		g.convertType()
		g.w(")")
		g.feat("cast")
	case 5:
		if g.d == MySQL || !g.o.Strict {
			g.kw("convert")
			g.w("(")
			g.pushSlot("func-arg")
			g.valueExpr()
			g.popSlot()
			g.sp()
			g.kw("using")
			g.sp()
			g.w(g.pick("utf8", "utf8mb4", "latin1", "'utf8'"))
			g.w(")")
			g.feat("convert-using")
			return
		}
		fallthrough
	case 6, 7:
		// SUBSTR / SUBSTRING forms: first argument must be a column in Acra's grammar
		g.kw(g.pick("substr", "substring"))
		g.w("(")
		g.column()
		g.pushSlot("func-arg")
		if g.p(3) {
			g.sp()
			g.kw("from")
			g.sp()
			g.literal("int")
			g.sp()
			g.kw("for")
			g.sp()
			g.literal("int")
			g.feat("substr-from-for")
		} else {
			g.w(", ")
			g.literal("int")
			if g.p(2) {
				g.w(", ")
				if g.p(4) {
					g.valueExpr()
				} else {
					g.literal("int")
				}
			}
		}
		g.popSlot()
		g.w(")")
		g.feat("substr")
	case 8:
		if g.d == MySQL || !g.o.Strict {
			g.kw("match")
			g.w("(")
			g.column()
			if g.p(3) {
				g.w(", ")
				g.column()
			}
			g.w(") ")
			g.kw("against")
			g.w(" (")
			g.pushSlot("func-arg")
			g.literal("string")
			g.popSlot()
			g.w(g.pick("", " in boolean mode", " in natural language mode", " with query expansion", " in natural language mode with query expansion"))
			g.w(")")
			g.feat("match-against")
			return
		}
		fallthrough
	case 9:
		if g.d == MySQL || !g.o.Strict {
			g.kw("group_concat")
			g.w("(")
			if g.p(3) {
				g.kw("distinct")
				g.sp()
				g.feat("func-distinct")
			}
			g.column()
			if g.p(3) {
				g.w(", ")
				g.pushSlot("func-arg")
				g.literal("string")
				g.popSlot()
			}
			if g.p(3) {
				g.orderBy()
			}
			if g.p(2) {
				g.sp()
				g.kw("separator")
				g.sp()
				g.pushSlot("func-arg/separator")
				g.literal("single")
				g.popSlot()
				g.feat("group-concat-separator")
			}
			g.w(")")
			g.feat("group-concat")
			return
		}
		fallthrough
	case 10:
		g.kw(g.pick("current_timestamp", "current_date", "current_time", "localtime", "localtimestamp"))
		if g.p(2) && (g.d == MySQL || !g.o.Strict) {
			g.w("()")
		}
		g.feat("func-datetime")
	case 11:
		if g.d == MySQL || !g.o.Strict {
			g.kw("if")
			g.w("(")
			g.pushSlot("func-arg")
			g.boolExpr()
			g.w(", ")
			g.leaf()
			g.w(", ")
			g.leaf()
			g.popSlot()
			g.w(")")
			g.feat("func-if")
			return
		}
		fallthrough
	case 12:
		if g.d == MySQL || !g.o.Strict {
			switch g.r.Intn(3) {
			case 0:
				g.kw("database")
				g.w("()")
			case 1:
				g.kw("mod")
				g.w("(")
				g.args(2, 2)
				g.w(")")
			default:
				g.kw("replace")
				g.w("(")
				g.args(3, 3)
				g.w(")")
			}
			g.feat("func-conflict")
			return
		}
		fallthrough
	case 13:
		if !g.o.Strict {
			// qualified function
			g.w(g.pick("db1", "pkg"))
			g.w(".")
			g.w(g.pick("myfunc", "calc"))
			g.w("(")
			g.args(0, 2)
			g.w(")")
			g.feat("func-qualified")
			return
		}
		fallthrough
	default:
		f := genericFuncs[g.r.Intn(len(genericFuncs))]
		if g.p(6) {
			g.kw(f)
		} else {
			g.w(f)
		}
		g.w("(")
		if f == "date_add" && g.d == MySQL {
			g.column()
			g.w(", ")
			g.kw("interval")
			g.sp()
			g.pushSlot("func-arg")
			g.literal("int")
			g.popSlot()
			g.sp()
			g.kw("day")
			g.feat("interval-mysql")
		} else {
			g.args(1, 3)
		}
		g.w(")")
		g.feat("func-generic")
	}
}

func (g *Gen) convertType() {
	if g.d == PostgreSQL && g.o.Strict {
		g.w(g.pick("text", "integer", "numeric", "varchar(20)", "date", "bytea"))
		return
	}
	// type lengths are type parameters, not literal values: never recorded as literals
	switch g.r.Intn(13) {
	case 12:
		// MariaDB / PostgreSQL spelling
		g.kw("varchar")
		g.w("(20)")
		g.feat("cast-varchar")
	case 0:
		g.kw("binary")
	case 1:
		g.kw("binary")
		g.w("(16)")
	case 2:
		g.kw("char")
	case 3:
		g.kw("char")
		g.w("(10)")
	case 4:
		g.kw("char")
		g.w("(10) ")
		g.kw("character set")
		g.w(" utf8")
		g.feat("cast-charset")
	case 5:
		g.kw("date")
	case 6:
		g.kw("datetime")
	case 7:
		g.kw("decimal")
		g.w(g.pick("", "(10)", "(10, 2)"))
	case 8:
		g.kw("signed")
		if g.p(2) {
			g.w(" ")
			g.kw("integer")
		}
	case 9:
		g.kw("unsigned")
		if g.p(2) {
			g.w(" ")
			g.kw("integer")
		}
	case 10:
		g.kw("json")
	default:
		g.kw("time")
	}
}

func (g *Gen) caseExpr() {
	g.kw("case")
	g.sp()
	g.pushSlot("case")
	simple := g.p(2)
	if simple {
		g.column()
		g.sp()
		g.feat("case-simple")
	}
	n := 1 + g.r.Intn(2)
	for i := 0; i < n; i++ {
		g.kw("when")
		g.sp()
		if simple {
			g.literal("any")
		} else {
			g.condition()
		}
		g.sp()
		g.kw("then")
		g.sp()
		if g.p(4) {
			g.valueExpr()
		} else {
			g.literal("any")
		}
		g.sp()
	}
	if g.p(2) {
		g.kw("else")
		g.sp()
		g.literal("any")
		g.sp()
		g.feat("case-else")
	}
	g.kw("end")
	g.popSlot()
	g.feat("case")
}
