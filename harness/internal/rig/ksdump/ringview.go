package ksdump

// ringview.go — the ring-level view (see readRing) of a key ring that is ALREADY OPEN: everything the public getters of
// one api.KeyRing object show, key by key, through exactly that object (no store access: a KeyRing answers from the
// view it holds, which may be older than the storage). Used by C17 to look through the handle of a writer whose update
// has just been refused. Values are copied; every getter's error is kept as its class.

import (
	"fmt"

	"github.com/cossacklabs/acra/keystore/v2/keystore/api"
)

// Field is one piece of key material: the bytes, or the class of the error the getter returned.
type Field struct {
	Val []byte
	Err string // "" | destroyed | noformat | nodata | invalidformat | err:<text>
}

// KeyEntry is the complete view of one key of a ring.
type KeyEntry struct {
	Seq        int
	State      int
	StateErr   string
	Since      int64 // Unix seconds (stored rings keep whole seconds)
	Until      int64
	ValidErr   string
	Formats    []int
	FormatsErr string
	Pub        Field // ThemisKeyPairFormat
	Priv       Field // ThemisKeyPairFormat
	Sym        Field // ThemisSymmetricKeyFormat
}

// RingEntries is the complete view of one open key ring. Keys are in ring order (oldest first).
type RingEntries struct {
	Keys       []KeyEntry
	Current    int
	NoCurrent  bool   // CurrentKey() said "no current key"
	CurrentErr string // any other error of CurrentKey()
	ListErr    string // AllKeys() failed
	Panic      string // innermost Acra frame when a getter panicked (the view is incomplete then)
}

func field(b []byte, err error) Field {
	if err != nil {
		return Field{Err: errClass(err)}
	}
	return Field{Val: append([]byte{}, b...)}
}

// ViewRing reads the complete view through one open ring object.
func ViewRing(ring api.KeyRing) (v RingEntries) {
	v.Current = -1
	defer func() {
		if p := recover(); p != nil {
			v.Panic = site() + ": " + fmt.Sprint(p)
		}
	}()
	seqs, err := ring.AllKeys() // newest to oldest
	if err != nil {
		v.ListErr = err.Error()
		return v
	}
	for i := len(seqs) - 1; i >= 0; i-- {
		q := seqs[i]
		e := KeyEntry{Seq: q}
		st, err := ring.State(q)
		if err != nil {
			e.StateErr = errClass(err)
		}
		e.State = int(st)
		since, err1 := ring.ValidSince(q)
		until, err2 := ring.ValidUntil(q)
		if err1 != nil {
			e.ValidErr = errClass(err1)
		} else if err2 != nil {
			e.ValidErr = errClass(err2)
		} else {
			e.Since, e.Until = since.Unix(), until.Unix()
		}
		fs, err := ring.Formats(q)
		if err != nil {
			e.FormatsErr = errClass(err)
		}
		e.Formats = []int{}
		for _, f := range fs {
			e.Formats = append(e.Formats, int(f))
		}
		e.Pub = field(ring.PublicKey(q, api.ThemisKeyPairFormat))
		e.Priv = field(ring.PrivateKey(q, api.ThemisKeyPairFormat))
		e.Sym = field(ring.SymmetricKey(q, api.ThemisSymmetricKeyFormat))
		v.Keys = append(v.Keys, e)
	}
	c, err := ring.CurrentKey()
	switch {
	case err == nil:
		v.Current = c
	case err == api.ErrNoCurrentKey:
		v.NoCurrent = true
	default:
		v.CurrentErr = err.Error()
	}
	return v
}
