// Package ksdump reads "everything readable" from a keystore handle through its public getters and listings
// (the observation used by the C08 and C18 monitors): values are copied at call time, errors are classified
// (absent / other), panics are caught and recorded.
package ksdump

import (
	"encoding/hex"
	"errors"
	"fmt"
	"io/fs"
	"os"
	"runtime"
	"sort"
	"strings"

	"github.com/cossacklabs/themis/gothemis/keys"
	"github.com/cossacklabs/themis/gothemis/message"

	"github.com/cossacklabs/acra/keystore"
	"github.com/cossacklabs/acra/keystore/v2/keystore/api"
	backendAPI "github.com/cossacklabs/acra/keystore/v2/keystore/filesystem/backend/api"

	"verif/harness/internal/rig/ksrig"
)

// Store is the getter/listing surface common to both server keystores.
type Store interface {
	GetClientIDEncryptionPublicKey(id []byte) (*keys.PublicKey, error)
	GetServerDecryptionPrivateKey(id []byte) (*keys.PrivateKey, error)
	GetServerDecryptionPrivateKeys(id []byte) ([]*keys.PrivateKey, error)
	GetClientIDSymmetricKey(id []byte) ([]byte, error)
	GetClientIDSymmetricKeys(id []byte) ([][]byte, error)
	GetHMACSecretKey(id []byte) ([]byte, error)
	GetLogSecretKey() ([]byte, error)
	GetPoisonKeyPair() (*keys.Keypair, error)
	GetPoisonPrivateKeys() ([]*keys.PrivateKey, error)
	GetPoisonSymmetricKey() ([]byte, error)
	GetPoisonSymmetricKeys() ([][]byte, error)
	ListKeys() ([]keystore.KeyDescription, error)
	ListRotatedKeys() ([]keystore.KeyDescription, error)
}

// Entry is the result of one getter.
type Entry struct {
	Vals   [][]byte
	Err    string
	Absent bool   // the error says "no such key" (not found / no current key / destroyed)
	Panic  string // innermost Acra frame, when the getter panicked
}

// OK reports whether the getter returned values.
func (e Entry) OK() bool { return e.Err == "" && e.Panic == "" }

// Equal compares two entries by value (errors: same class).
func (e Entry) Equal(o Entry) bool {
	if e.OK() != o.OK() {
		return false
	}
	if !e.OK() {
		return e.Absent == o.Absent && (e.Panic == "") == (o.Panic == "")
	}
	if len(e.Vals) != len(o.Vals) {
		return false
	}
	for i := range e.Vals {
		if string(e.Vals[i]) != string(o.Vals[i]) {
			return false
		}
	}
	return true
}

func (e Entry) String() string {
	if e.Panic != "" {
		return "PANIC@" + e.Panic
	}
	if e.Err != "" {
		if e.Absent {
			return "absent(" + e.Err + ")"
		}
		return "error(" + e.Err + ")"
	}
	parts := make([]string, len(e.Vals))
	for i, v := range e.Vals {
		parts[i] = short(v)
	}
	return "[" + strings.Join(parts, " ") + "]"
}

func short(b []byte) string {
	h := hex.EncodeToString(b)
	if len(h) > 16 {
		return fmt.Sprintf("%s..(%d)", h[:16], len(b))
	}
	return h
}

// Listing is the result of one listing call.
type Listing struct {
	Items []string
	Err   string
	Panic string
}

// OK reports success.
func (l Listing) OK() bool { return l.Err == "" && l.Panic == "" }

// Dump is everything read from one handle.
type Dump struct {
	E map[string]Entry
	L map[string]Listing
}

// Names returns the entry names, sorted.
func (d *Dump) Names() []string {
	out := make([]string, 0, len(d.E))
	for k := range d.E {
		out = append(out, k)
	}
	sort.Strings(out)
	return out
}

// Render gives a compact, deterministic text form (for replay details).
func (d *Dump) Render() map[string]string {
	out := map[string]string{}
	for k, e := range d.E {
		out[k] = e.String()
	}
	for k, l := range d.L {
		if l.OK() {
			out["list:"+k] = fmt.Sprintf("ok(%d items)", len(l.Items))
		} else {
			out["list:"+k] = "FAILED(" + l.Err + l.Panic + ")"
		}
	}
	return out
}

// IsAbsent classifies an error as "the key is not there".
func IsAbsent(err error) bool {
	if err == nil {
		return false
	}
	if errors.Is(err, fs.ErrNotExist) || os.IsNotExist(err) || errors.Is(err, keystore.ErrKeysNotFound) ||
		errors.Is(err, backendAPI.ErrNotExist) || errors.Is(err, api.ErrNoCurrentKey) || errors.Is(err, api.ErrKeyDestroyed) ||
		errors.Is(err, api.ErrKeyNotExist) {
		return true
	}
	return false
}

func site() string {
	buf := make([]byte, 16<<10)
	n := runtime.Stack(buf, false)
	return ksrig.FaultPanicSite(string(buf[:n]))
}

func guard(name string, d *Dump, f func() ([][]byte, error)) {
	var e Entry
	func() {
		defer func() {
			if p := recover(); p != nil {
				e = Entry{Panic: site(), Err: fmt.Sprint(p)}
			}
		}()
		vals, err := f()
		if err != nil {
			e = Entry{Err: err.Error(), Absent: IsAbsent(err)}
			return
		}
		for _, v := range vals {
			e.Vals = append(e.Vals, append([]byte(nil), v...))
		}
		if e.Vals == nil {
			e.Vals = [][]byte{}
		}
	}()
	d.E[name] = e
}

func guardList(name string, d *Dump, f func() ([]string, error)) {
	var l Listing
	func() {
		defer func() {
			if p := recover(); p != nil {
				l = Listing{Panic: site(), Err: fmt.Sprint(p)}
			}
		}()
		items, err := f()
		if err != nil {
			l = Listing{Err: err.Error()}
			return
		}
		l.Items = items
	}()
	d.L[name] = l
}

func one(b []byte, err error) ([][]byte, error) {
	if err != nil {
		return nil, err
	}
	return [][]byte{b}, nil
}

func privs(ks []*keys.PrivateKey, err error) ([][]byte, error) {
	if err != nil {
		return nil, err
	}
	out := make([][]byte, len(ks))
	for i, k := range ks {
		if k != nil {
			out[i] = k.Value
		}
	}
	return out, nil
}

func descs(ds []keystore.KeyDescription, err error) ([]string, error) {
	if err != nil {
		return nil, err
	}
	out := make([]string, len(ds))
	for i, d := range ds {
		out[i] = fmt.Sprintf("%s|%s|%s|%d|%s", d.KeyID, d.Purpose, d.ClientID, d.Index, d.State)
	}
	sort.Strings(out)
	return out, nil
}

// Options selects what is read.
type Options struct {
	Clients      [][]byte
	CacheOnStart func() error // v1 only: warm-up call included among the listings
	// Rings, when set (v2), is used to (a) list key rings first so that the poison getters — which CREATE an empty
	// ring when none exists — are only called for rings that exist, and (b) add ring-level entries
	// (every seqnum with state and values, current marker).
	Rings api.KeyStore
}

// Entry name helpers.
func Pub(id []byte) string   { return "pub/" + string(id) }
func Priv(id []byte) string  { return "priv/" + string(id) }
func Privs(id []byte) string { return "privs/" + string(id) }
func Sym(id []byte) string   { return "sym/" + string(id) }
func Syms(id []byte) string  { return "syms/" + string(id) }
func Hmac(id []byte) string  { return "hmac/" + string(id) }

// Names of the non-client entries.
const (
	Log        = "log"
	PoisonPub  = "poison.pub"
	PoisonPriv = "poison.priv"
	PoisonAll  = "poison.privs"
	PoisonSym  = "poison.sym"
	PoisonSyms = "poison.syms"
)

// Read dumps the store.
func Read(s Store, o Options) *Dump {
	d := &Dump{E: map[string]Entry{}, L: map[string]Listing{}}
	poisonPair, poisonSym := true, true
	if o.Rings != nil {
		var rings []string
		guardList("ListKeyRings", d, func() ([]string, error) {
			r, err := o.Rings.ListKeyRings()
			rings = r
			return append([]string(nil), r...), err
		})
		poisonPair, poisonSym = false, false
		for _, r := range rings {
			if r == "poison-record" {
				poisonPair = true
			}
			if r == "poison-record-sym" {
				poisonSym = true
			}
		}
		for _, r := range rings {
			readRing(d, o.Rings, r)
		}
	}
	guardList("ListKeys", d, func() ([]string, error) { return descs(s.ListKeys()) })
	guardList("ListRotatedKeys", d, func() ([]string, error) { return descs(s.ListRotatedKeys()) })
	for _, id := range o.Clients {
		id := id
		guard(Pub(id), d, func() ([][]byte, error) {
			k, err := s.GetClientIDEncryptionPublicKey(id)
			if err != nil {
				return nil, err
			}
			return [][]byte{k.Value}, nil
		})
		guard(Priv(id), d, func() ([][]byte, error) {
			k, err := s.GetServerDecryptionPrivateKey(id)
			if err != nil {
				return nil, err
			}
			return [][]byte{k.Value}, nil
		})
		guard(Privs(id), d, func() ([][]byte, error) { return privs(s.GetServerDecryptionPrivateKeys(id)) })
		guard(Sym(id), d, func() ([][]byte, error) { return one(s.GetClientIDSymmetricKey(id)) })
		guard(Syms(id), d, func() ([][]byte, error) { return s.GetClientIDSymmetricKeys(id) })
		guard(Hmac(id), d, func() ([][]byte, error) { return one(s.GetHMACSecretKey(id)) })
	}
	guard(Log, d, func() ([][]byte, error) { return one(s.GetLogSecretKey()) })
	if poisonPair {
		var pair *keys.Keypair
		var perr error
		guard(PoisonPriv, d, func() ([][]byte, error) {
			pair, perr = s.GetPoisonKeyPair()
			if perr != nil {
				return nil, perr
			}
			return [][]byte{pair.Private.Value}, nil
		})
		guard(PoisonPub, d, func() ([][]byte, error) {
			if perr != nil {
				return nil, perr
			}
			if pair == nil {
				return nil, errors.New("no pair")
			}
			return [][]byte{pair.Public.Value}, nil
		})
		guard(PoisonAll, d, func() ([][]byte, error) { return privs(s.GetPoisonPrivateKeys()) })
	} else {
		absent := Entry{Err: "poison-record ring absent", Absent: true}
		d.E[PoisonPriv], d.E[PoisonPub], d.E[PoisonAll] = absent, absent, absent
	}
	if poisonSym {
		guard(PoisonSym, d, func() ([][]byte, error) { return one(s.GetPoisonSymmetricKey()) })
		guard(PoisonSyms, d, func() ([][]byte, error) { return s.GetPoisonSymmetricKeys() })
	} else {
		absent := Entry{Err: "poison-record-sym ring absent", Absent: true}
		d.E[PoisonSym], d.E[PoisonSyms] = absent, absent
	}
	if o.CacheOnStart != nil {
		guardList("CacheOnStart", d, func() ([]string, error) { return nil, o.CacheOnStart() })
	}
	return d
}

// RingName is the entry name of the ring-level view of a v2 key ring.
func RingName(path string) string { return "ring/" + path }

// RingCurrent is the entry name of a ring's current marker.
func RingCurrent(path string) string { return "ring/" + path + "#current" }

// readRing adds the ring-level view: one value per key, newest first: "seq|state|pub|priv|sym" (hex), and the current seqnum.
func readRing(d *Dump, ks api.KeyStore, path string) {
	var ring api.KeyRing
	guard(RingName(path), d, func() ([][]byte, error) {
		r, err := ks.OpenKeyRing(path)
		if err != nil {
			return nil, err
		}
		ring = r
		seqs, err := r.AllKeys()
		if err != nil {
			return nil, err
		}
		out := [][]byte{}
		for _, q := range seqs {
			st, err := r.State(q)
			if err != nil {
				return nil, fmt.Errorf("state(%d): %w", q, err)
			}
			field := func(b []byte, err error) string {
				if err != nil {
					return "!" + errClass(err)
				}
				return hex.EncodeToString(b)
			}
			pub := field(r.PublicKey(q, api.ThemisKeyPairFormat))
			priv := field(r.PrivateKey(q, api.ThemisKeyPairFormat))
			sym := field(r.SymmetricKey(q, api.ThemisSymmetricKeyFormat))
			out = append(out, []byte(fmt.Sprintf("%d|%d|%s|%s|%s", q, st, pub, priv, sym)))
		}
		return out, nil
	})
	guard(RingCurrent(path), d, func() ([][]byte, error) {
		if ring == nil {
			return nil, errors.New("ring not open")
		}
		c, err := ring.CurrentKey()
		if err != nil {
			return nil, err
		}
		return [][]byte{[]byte(fmt.Sprint(c))}, nil
	})
}

func errClass(err error) string {
	switch {
	case errors.Is(err, api.ErrKeyDestroyed):
		return "destroyed"
	case errors.Is(err, api.ErrFormatMissing):
		return "noformat"
	case errors.Is(err, api.ErrNoKeyData):
		return "nodata"
	case errors.Is(err, api.ErrInvalidFormat):
		return "invalidformat"
	}
	return "err:" + err.Error()
}

// PairConsistent decides, through the crypto library only, whether priv and pub are the two halves of one EC key pair:
// a message wrapped for pub by an ephemeral sender must unwrap with priv.
func PairConsistent(priv, pub []byte) bool {
	e, err := keys.New(keys.TypeEC)
	if err != nil {
		return false
	}
	msg := []byte("pair-consistency-probe")
	wrapped, err := message.New(e.Private, &keys.PublicKey{Value: pub}).Wrap(msg)
	if err != nil {
		return false
	}
	got, err := message.New(&keys.PrivateKey{Value: priv}, e.Public).Unwrap(wrapped)
	return err == nil && string(got) == string(msg)
}
