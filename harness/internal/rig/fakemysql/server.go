package fakemysql

import (
	"bufio"
	"crypto/tls"
	"encoding/binary"
	"errors"
	"fmt"
	"io"
	"net"
	"strconv"
	"strings"
	"sync"

	"verif/harness/internal/rig/fakepg"
)

// Received is one client message as it arrived at the database end.
type Received struct {
	Conn    int
	Seq     byte
	EndSeq  byte
	Packets int
	Cmd     byte
	Name    string // COM_QUERY, ... ; "HandshakeResponse" for the login packet
	Payload []byte
	SQL     string   // COM_QUERY / COM_STMT_PREPARE text; for COM_STMT_EXECUTE the text of the prepared statement
	Exec    *Execute // decoded COM_STMT_EXECUTE
	Trans   *Translated
}

// Sent is one server message.
type Sent struct {
	Conn    int
	Seq     byte
	Packets int
	Kind    string // Handshake OK ERR EOF ColumnCount ColumnDef ParamDef TextRow BinaryRow PrepareOK Statistics Raw
	Payload []byte
}

// Reply is a canned answer (C12: arbitrary server message sequences).
type Reply struct {
	Cols     []ColDef
	Rows     [][]Field // encoded for the protocol asked for (text: strings; binary: fixed-width little-endian / strings)
	Err      *ErrInfo
	Affected uint64
	LastID   uint64
	Status   uint16
	Warnings uint16
	Info     string
	Raw      [][]byte // when set: payloads sent verbatim, one logical message each (overrides everything else)
	// capability matrix (servercaps.go)
	ParamCols    []ColDef // COM_STMT_PREPARE of a scripted statement: parameter definitions (default: anonymous "?" definitions)
	SessionState []byte   // OK packets under CLIENT_SESSION_TRACK: session state information (sets SERVER_SESSION_STATE_CHANGED)
	// ErrAtPrepare: a scripted statement whose Err is set is refused already at COM_STMT_PREPARE (where a real server reports
	// syntax errors) instead of at execution.
	ErrAtPrepare bool
	// Metadata overrides, for this result set of a COM_STMT_EXECUTE, the server's MARIADB_CLIENT_CACHE_METADATA policy
	// (metahist.go): 0 = the policy of the greeting decides, MetadataSend / MetadataSkip = column definitions are sent / left
	// out. Without the negotiated capability definitions are always sent.
	Metadata int8
}

// Script produces the canned answer of a statement; binary tells whether the binary protocol (COM_STMT_EXECUTE) is used.
type Script func(sql string, binary bool) *Reply

// Server is the fake MySQL server.
type Server struct {
	DB *fakepg.DB
	// Caps are the capabilities announced in the handshake.
	Caps uint32
	// TLS (set through NewServerTLS), makes the server announce CLIENT_SSL and perform the in-protocol upgrade
	// (SSL request packet, TLS handshake, then the full handshake response over TLS).
	TLS *tls.Config
	// OnResult may tamper with results before they are sent.
	OnResult func(sql string, res *fakepg.Result)
	// Hand, when set, replaces the fixed MySQL-flavour greeting (capability matrix, servercaps.go); Caps is then Hand.WireCaps().
	Hand *Greeting
	// Fallback, when set, answers every COM_QUERY / COM_STMT_PREPARE text that has no exact SetScript entry (a nil reply
	// falls through to evaluation): fully scripted databases for layers that do not care what a statement means.
	Fallback Script

	ln          net.Listener
	mu          sync.Mutex
	log         []Received
	sent        []Sent
	rawIn       map[int]*[]byte
	rawOut      map[int]*[]byte
	negCaps     map[int]uint32
	conns       int
	scripts     map[string]Script
	unsupp      []string
	closed      bool
	tlsUpgrades int
}

// TLSUpgrades returns the number of connections that switched to TLS.
func (s *Server) TLSUpgrades() int { s.mu.Lock(); defer s.mu.Unlock(); return s.tlsUpgrades }

type bufferedConn struct {
	net.Conn
	r *bufio.Reader
}

func (b *bufferedConn) Read(p []byte) (int, error) { return b.r.Read(p) }

// DefaultCaps is what the server announces unless told otherwise.
const DefaultCaps = CapLongPassword | CapFoundRows | CapLongFlag | CapConnectWithDB | CapLocalFiles | CapProtocol41 | CapTransactions | CapSecureConn | CapMultiResults | CapPluginAuth | CapConnectAttrs | CapPluginAuthLenc | CapDeprecateEOF

// NewServer starts a server on a loopback port.
func NewServer(db *fakepg.DB) (*Server, error) { return NewServerTLS(db, nil) }

// NewServerTLS starts a server that also accepts the in-protocol TLS upgrade with the given configuration (nil = no TLS).
func NewServerTLS(db *fakepg.DB, tlsCfg *tls.Config) (*Server, error) {
	ln, err := net.Listen("tcp", "127.0.0.1:0")
	if err != nil {
		return nil, err
	}
	s := &Server{DB: db, Caps: DefaultCaps, TLS: tlsCfg, ln: ln, rawIn: map[int]*[]byte{}, rawOut: map[int]*[]byte{}, negCaps: map[int]uint32{}, scripts: map[string]Script{}}
	go s.accept()
	return s, nil
}

// Port the server listens on.
func (s *Server) Port() int { return s.ln.Addr().(*net.TCPAddr).Port }

// Close stops the server.
func (s *Server) Close() {
	s.mu.Lock()
	s.closed = true
	s.mu.Unlock()
	s.ln.Close()
}

// SetScript registers a canned reply for an exact statement text.
func (s *Server) SetScript(sql string, sc Script) {
	s.mu.Lock()
	s.scripts[sql] = sc
	s.mu.Unlock()
}

// Log returns a copy of the received-message log.
func (s *Server) Log() []Received {
	s.mu.Lock()
	defer s.mu.Unlock()
	return append([]Received{}, s.log...)
}

// LogLen returns the current length of the received-message log.
func (s *Server) LogLen() int { s.mu.Lock(); defer s.mu.Unlock(); return len(s.log) }

// SentLog returns a copy of the sent-message log.
func (s *Server) SentLog() []Sent {
	s.mu.Lock()
	defer s.mu.Unlock()
	return append([]Sent{}, s.sent...)
}

// SentLen returns the current length of the sent-message log.
func (s *Server) SentLen() int { s.mu.Lock(); defer s.mu.Unlock(); return len(s.sent) }

// Conns returns the number of connections accepted so far.
func (s *Server) Conns() int { s.mu.Lock(); defer s.mu.Unlock(); return s.conns }

// NegotiatedCaps returns client&server capabilities of a connection (1-based).
func (s *Server) NegotiatedCaps(id int) uint32 {
	s.mu.Lock()
	defer s.mu.Unlock()
	return s.negCaps[id]
}

// RawInConn returns every byte received on the given connection (1-based).
func (s *Server) RawInConn(id int) []byte {
	s.mu.Lock()
	defer s.mu.Unlock()
	if b := s.rawIn[id]; b != nil {
		return append([]byte{}, (*b)...)
	}
	return nil
}

// RawInLen returns the number of bytes received so far on a connection.
func (s *Server) RawInLen(id int) int {
	s.mu.Lock()
	defer s.mu.Unlock()
	if b := s.rawIn[id]; b != nil {
		return len(*b)
	}
	return 0
}

// RawOutConn returns every byte sent on the given connection (1-based).
func (s *Server) RawOutConn(id int) []byte {
	s.mu.Lock()
	defer s.mu.Unlock()
	if b := s.rawOut[id]; b != nil {
		return append([]byte{}, (*b)...)
	}
	return nil
}

// DropRaw forgets the raw byte logs of a connection (large-payload sessions).
func (s *Server) DropRaw(id int) {
	s.mu.Lock()
	delete(s.rawIn, id)
	delete(s.rawOut, id)
	s.mu.Unlock()
}

// Unsupported returns statements the translator / evaluator could not handle (rig-inconclusive).
func (s *Server) Unsupported() []string {
	s.mu.Lock()
	defer s.mu.Unlock()
	return append([]string{}, s.unsupp...)
}

func (s *Server) noteUnsupported(sql string, err error) {
	s.mu.Lock()
	if len(s.unsupp) < 200 {
		if len(sql) > 300 {
			sql = sql[:300] + "..."
		}
		s.unsupp = append(s.unsupp, sql+" -- "+err.Error())
	}
	s.mu.Unlock()
}

func (s *Server) accept() {
	for {
		c, err := s.ln.Accept()
		if err != nil {
			return
		}
		s.mu.Lock()
		s.conns++
		id := s.conns
		in, out := []byte{}, []byte{}
		s.rawIn[id], s.rawOut[id] = &in, &out
		s.mu.Unlock()
		go s.serve(id, c)
	}
}

type teeReader struct {
	r  io.Reader
	s  *Server
	id int
}

func (t *teeReader) Read(p []byte) (int, error) {
	n, err := t.r.Read(p)
	if n > 0 {
		t.s.mu.Lock()
		if b := t.s.rawIn[t.id]; b != nil {
			*b = append(*b, p[:n]...)
		}
		t.s.mu.Unlock()
	}
	return n, err
}

type conn struct {
	s    *Server
	id   int
	c    net.Conn
	r    *bufio.Reader
	out  []byte
	seq  byte
	caps uint32
	ext  uint32 // negotiated MariaDB extended capabilities (Server.Hand)
	// skipMetadata: the next result set is sent without column definitions (MARIADB_CLIENT_CACHE_METADATA, set per COM_STMT_EXECUTE)
	skipMetadata bool
}

func (c *conn) deprecateEOF() bool { return c.caps&CapDeprecateEOF != 0 }

// send queues one logical message.
func (c *conn) send(kind string, payload []byte) {
	enc, next := EncodeFrame(c.seq, payload)
	c.s.mu.Lock()
	c.s.sent = append(c.s.sent, Sent{Conn: c.id, Seq: c.seq, Packets: int(next - c.seq), Kind: kind, Payload: payload})
	c.s.mu.Unlock()
	c.seq = next
	c.out = append(c.out, enc...)
}

func (c *conn) flush() error {
	if len(c.out) == 0 {
		return nil
	}
	c.s.mu.Lock()
	if b := c.s.rawOut[c.id]; b != nil {
		*b = append(*b, c.out...)
	}
	c.s.mu.Unlock()
	_, err := c.c.Write(c.out)
	c.out = nil
	return err
}

const statusAutocommit = 0x0002

func (c *conn) sendOK(affected, lastID uint64, info string) {
	c.send("OK", c.okPacket(0x00, affected, lastID, statusAutocommit, 0, info, nil))
}

func (c *conn) sendErr(code uint16, state, msg string) { c.send("ERR", ErrPacket(code, state, msg)) }

func (c *conn) sendEOFAfterDefs() {
	if !c.deprecateEOF() {
		c.send("EOF", EOFPacket(statusAutocommit, 0))
	}
}

func (c *conn) sendEndOfRows(status, warnings uint16) {
	if c.deprecateEOF() {
		c.send("OK", c.okPacket(0xfe, 0, 0, status, warnings, "", nil))
	} else {
		c.send("EOF", EOFPacket(status, warnings))
	}
}

func (c *conn) sqlError(err error) {
	var se *fakepg.SQLError
	if errors.As(err, &se) {
		code, state := uint16(1105), "HY000"
		switch se.Code {
		case "42P01":
			code, state = 1146, "42S02"
		case "42703", "42702":
			code, state = 1054, "42S22"
		case "22003":
			code, state = 1264, "22003"
		case "22P02":
			code, state = 1366, "HY000"
		case "42601":
			code, state = 1064, "42000"
		}
		c.sendErr(code, state, se.Msg)
		return
	}
	c.sendErr(1235, "42000", err.Error())
}

// ColDefFor describes a fakepg result field the way MySQL would for the mapped column type.
func ColDefFor(db *fakepg.DB, f fakepg.Field, schema string, aliases map[string]string) ColDef {
	cd := ColDef{Schema: schema, Name: f.Name}
	if f.Table != "" {
		cd.OrgTable = f.Table
		cd.Table = f.Table
		if a, ok := aliases[f.Table]; ok {
			cd.Table = a
		}
		cd.OrgName = f.Name
		if t := db.Tables[f.Table]; t != nil && f.Col >= 1 && f.Col <= len(t.Cols) {
			cd.OrgName = t.Cols[f.Col-1].Name
		}
	} else {
		cd.Schema = ""
	}
	switch f.Type {
	case fakepg.Int4:
		cd.Type, cd.Charset, cd.Length, cd.Flags = TypeLong, 63, 11, FlagNum
	case fakepg.Int8:
		cd.Type, cd.Charset, cd.Length, cd.Flags = TypeLongLong, 63, 20, FlagNum
	case fakepg.Text:
		cd.Type, cd.Charset, cd.Length = TypeVarString, 33, 255*3
	default:
		cd.Type, cd.Charset, cd.Length, cd.Flags = TypeBlob, 63, 65535, FlagBlob|FlagBinary
	}
	return cd
}

// EncodeValue renders a fakepg value for the text (binary=false) or binary protocol.
func EncodeValue(v fakepg.Value, t fakepg.ColType, binaryProto bool) Field {
	switch x := v.(type) {
	case nil:
		return Field{Null: true}
	case int64:
		if !binaryProto {
			return Field{Data: []byte(strconv.FormatInt(x, 10))}
		}
		if t == fakepg.Int4 {
			b := make([]byte, 4)
			binary.LittleEndian.PutUint32(b, uint32(int32(x)))
			return Field{Data: b}
		}
		if t == fakepg.Int8 {
			b := make([]byte, 8)
			binary.LittleEndian.PutUint64(b, uint64(x))
			return Field{Data: b}
		}
		return Field{Data: []byte(strconv.FormatInt(x, 10))}
	case string:
		return Field{Data: []byte(x)}
	case []byte:
		return Field{Data: x}
	}
	return Field{Null: true}
}

func affectedOf(tag string) uint64 {
	f := strings.Fields(tag)
	if len(f) == 0 {
		return 0
	}
	n, _ := strconv.ParseUint(f[len(f)-1], 10, 64)
	return n
}

type prepared struct {
	id        uint32
	sql       string
	tr        *Translated
	st        *fakepg.Stmt
	script    Script
	nParams   int
	lastTypes []BoundParam
	long      map[int][]byte
	execs     int
}

func (s *Server) record(r Received) {
	s.mu.Lock()
	s.log = append(s.log, r)
	s.mu.Unlock()
}

func (c *conn) sendResultSet(cols []ColDef, rows [][]Field, binaryProto bool, status, warnings uint16) {
	metadata := !c.skipMetadata
	c.skipMetadata = false
	c.send("ColumnCount", ColumnCountPacket(len(cols), c.cacheMetadata(), metadata))
	types := make([]byte, len(cols))
	for i, cd := range cols {
		types[i] = cd.Type
		if metadata {
			c.send("ColumnDef", cd.EncodeCaps(c.extTypeInfo()))
		}
	}
	c.sendEOFAfterDefs()
	for _, r := range rows {
		if binaryProto {
			c.send("BinaryRow", EncodeBinaryRow(r, types))
		} else {
			c.send("TextRow", EncodeTextRow(r))
		}
	}
	if status == 0 {
		status = statusAutocommit
	}
	c.sendEndOfRows(status, warnings)
}

func (c *conn) sendReply(rep *Reply, binaryProto bool) {
	switch {
	case rep.Raw != nil:
		for _, p := range rep.Raw {
			c.send("Raw", p)
		}
	case rep.Err != nil:
		c.sendErr(rep.Err.Code, rep.Err.State, rep.Err.Msg)
	case rep.Cols != nil:
		c.replyMetadata(rep, binaryProto)
		c.sendResultSet(rep.Cols, rep.Rows, binaryProto, rep.Status, rep.Warnings)
	default:
		st := rep.Status
		if st == 0 {
			st = statusAutocommit
		}
		c.send("OK", c.okPacket(0x00, rep.Affected, rep.LastID, st, rep.Warnings, rep.Info, rep.SessionState))
	}
}

// evaluate runs a translated statement and sends its result.
func (c *conn) evaluate(sql string, tr *Translated, st *fakepg.Stmt, bound []BoundParam, binaryProto bool, schema string) {
	params, err := tr.Params(bound)
	if err != nil {
		c.s.noteUnsupported(sql, err)
		c.sendErr(1235, "42000", err.Error())
		return
	}
	if tr.Upsert != nil {
		n, err := c.s.execUpsert(tr.Upsert, params)
		if err != nil {
			var se *fakepg.SQLError
			if !errors.As(err, &se) || se.Code == "08P01" {
				c.s.noteUnsupported(sql, err)
			}
			c.sqlError(err)
			return
		}
		c.sendOK(n, 0, "")
		return
	}
	res, err := c.s.DB.Exec(st, params)
	if err != nil {
		var se *fakepg.SQLError
		if errors.Is(err, fakepg.ErrUnsupported) || (errors.As(err, &se) && se.Code == "08P01") {
			c.s.noteUnsupported(sql, err)
		}
		c.sqlError(err)
		return
	}
	if c.s.OnResult != nil {
		c.s.OnResult(sql, res)
	}
	if res.Fields == nil {
		c.sendOK(affectedOf(res.Tag), 0, "")
		return
	}
	cols := make([]ColDef, len(res.Fields))
	for i, f := range res.Fields {
		cols[i] = ColDefFor(c.s.DB, f, schema, tr.Aliases)
	}
	rows := make([][]Field, len(res.Rows))
	for i, r := range res.Rows {
		rows[i] = make([]Field, len(r))
		for j, v := range r {
			rows[i][j] = EncodeValue(v, res.Fields[j].Type, binaryProto)
		}
	}
	c.sendResultSet(cols, rows, binaryProto, 0, 0)
}

func (s *Server) parse(sql string) (*Translated, *fakepg.Stmt, error) {
	tr, err := Translate(sql)
	if err != nil {
		return nil, nil, err
	}
	if tr.Upsert != nil {
		return tr, nil, nil
	}
	st, err := fakepg.Parse(tr.PG)
	if err != nil {
		// the translated text is not PostgreSQL: outside the translator's reach, not a verdict about the statement
		return tr, nil, fmt.Errorf("%w: %v", ErrUntranslatable, err)
	}
	return tr, st, nil
}

func (s *Server) serve(id int, nc net.Conn) {
	defer nc.Close()
	defer func() {
		if p := recover(); p != nil {
			s.noteUnsupported("", fmt.Errorf("fakemysql codec panic: %v", p))
		}
	}()
	c := &conn{s: s, id: id, c: nc, r: bufio.NewReaderSize(&teeReader{r: nc, s: s, id: id}, 64<<10)}
	// handshake v10
	hs := []byte{10}
	hs = append(hs, "8.0.0-fakemysql\x00"...)
	hs = append(hs, byte(id), byte(id>>8), byte(id>>16), byte(id>>24))
	hs = append(hs, "abcdefgh"...)
	hs = append(hs, 0)
	announced := s.Caps
	if s.TLS != nil {
		announced |= CapSSL
	}
	hs = append(hs, byte(announced), byte(announced>>8))
	hs = append(hs, 33)
	hs = append(hs, statusAutocommit, 0)
	hs = append(hs, byte(announced>>16), byte(announced>>24))
	hs = append(hs, 21)
	hs = append(hs, make([]byte, 10)...)
	hs = append(hs, "ijklmnopqrst\x00"...)
	hs = append(hs, "mysql_native_password\x00"...)
	if s.Hand != nil {
		announced = s.Hand.WireCaps()
		hs = s.Hand.Encode(uint32(id))
	}
	c.send("Handshake", hs)
	if c.flush() != nil {
		return
	}
	f, err := ReadFrame(c.r)
	if err != nil {
		return
	}
	if len(f.Payload) < 32 {
		return
	}
	if s.TLS != nil && len(f.Payload) == 32 && binary.LittleEndian.Uint32(f.Payload)&CapSSL != 0 {
		// SSL request: switch to TLS (bytes the buffered reader already holds belong to the TLS stream)
		s.record(Received{Conn: id, Seq: f.Seq, EndSeq: f.EndSeq, Packets: f.Packets, Name: "SSLRequest", Payload: f.Payload})
		tc := tls.Server(&bufferedConn{Conn: nc, r: c.r}, s.TLS)
		if err := tc.Handshake(); err != nil {
			return
		}
		s.mu.Lock()
		s.tlsUpgrades++
		s.mu.Unlock()
		c.c = tc
		c.r = bufio.NewReaderSize(&teeReader{r: tc, s: s, id: id}, 64<<10)
		if f, err = ReadFrame(c.r); err != nil || len(f.Payload) < 32 {
			return
		}
	}
	clientCaps := binary.LittleEndian.Uint32(f.Payload)
	c.caps = clientCaps & s.Caps
	if s.Hand != nil {
		c.caps = clientCaps & announced
		if s.Hand.MariaDB {
			c.ext = binary.LittleEndian.Uint32(f.Payload[28:]) & s.Hand.ExtCaps
		}
	}
	s.mu.Lock()
	s.negCaps[id] = c.caps
	s.mu.Unlock()
	schema := ""
	{
		// user\0 auth [db\0]
		p := f.Payload[32:]
		if i := indexByte(p, 0); i >= 0 {
			p = p[i+1:]
			switch {
			case clientCaps&CapPluginAuthLenc != 0:
				if n, _, u, err := LenEncInt(p); err == nil && len(p) >= u+int(n) {
					p = p[u+int(n):]
				}
			case clientCaps&CapSecureConn != 0:
				if len(p) > 0 && len(p) >= 1+int(p[0]) {
					p = p[1+int(p[0]):]
				}
			default:
				if i := indexByte(p, 0); i >= 0 {
					p = p[i+1:]
				}
			}
			if clientCaps&CapConnectWithDB != 0 {
				if i := indexByte(p, 0); i >= 0 {
					schema = string(p[:i])
				}
			}
		}
	}
	s.record(Received{Conn: id, Seq: f.Seq, EndSeq: f.EndSeq, Packets: f.Packets, Name: "HandshakeResponse", Payload: f.Payload})
	c.seq = f.EndSeq + 1
	c.sendOK(0, 0, "")
	if c.flush() != nil {
		return
	}
	preps := map[uint32]*prepared{}
	nextID := uint32(0)
	// MariaDB (10.2+): COM_STMT_EXECUTE with statement id 0xFFFFFFFF executes "the last statement prepared on this connection
	// if no COM_STMT_PREPARE has failed since" (lastprep.go)
	var last lastPrepared
	for {
		f, err := ReadFrame(c.r)
		if err != nil {
			return
		}
		c.seq = f.EndSeq + 1
		c.skipMetadata = false
		if len(f.Payload) == 0 {
			s.record(Received{Conn: id, Seq: f.Seq, EndSeq: f.EndSeq, Packets: f.Packets, Name: "Empty", Payload: f.Payload})
			c.sendErr(1047, "08S01", "empty command packet")
			if c.flush() != nil {
				return
			}
			continue
		}
		cmd := f.Payload[0]
		rec := Received{Conn: id, Seq: f.Seq, EndSeq: f.EndSeq, Packets: f.Packets, Cmd: cmd, Name: CommandName(cmd), Payload: f.Payload}
		switch cmd {
		case ComQuit:
			s.record(rec)
			return
		case ComPing, ComResetConn:
			s.record(rec)
			c.sendOK(0, 0, "")
		case ComInitDB:
			rec.SQL = string(f.Payload[1:])
			s.record(rec)
			schema = rec.SQL
			c.sendInitDBOK(schema)
		case ComStatistics:
			s.record(rec)
			c.send("Statistics", []byte("Uptime: 1  Threads: 1  Questions: 1  Slow queries: 0  Opens: 1  Flush tables: 1  Open tables: 1  Queries per second avg: 0.1"))
		case ComQuery:
			sql := string(f.Payload[1:])
			rec.SQL = sql
			s.mu.Lock()
			sc := s.scripts[sql]
			s.mu.Unlock()
			if sc == nil {
				sc = s.fallbackFor(sql, false)
			}
			if sc != nil {
				s.record(rec)
				c.sendReply(sc(sql, false), false)
				break
			}
			tr, st, err := s.parse(sql)
			rec.Trans = tr
			s.record(rec)
			if err != nil {
				s.noteUnsupported(sql, err)
				c.sendErr(1235, "42000", err.Error())
				break
			}
			if st != nil && st.Kind == "Empty" {
				c.sendErr(1065, "42000", "Query was empty")
				break
			}
			c.evaluate(sql, tr, st, nil, false, schema)
		case ComStmtPrepare:
			sql := string(f.Payload[1:])
			rec.SQL = sql
			s.mu.Lock()
			sc := s.scripts[sql]
			s.mu.Unlock()
			if sc == nil {
				sc = s.fallbackFor(sql, true)
			}
			nextID++
			p := &prepared{id: nextID, sql: sql, long: map[int][]byte{}}
			last.prepareBegins()
			var cols, paramCols []ColDef
			if sc != nil {
				s.record(rec)
				p.script = sc
				p.nParams = strings.Count(sql, "?")
				rep := sc(sql, true)
				if rep.Err != nil && rep.ErrAtPrepare {
					c.sendErr(rep.Err.Code, rep.Err.State, rep.Err.Msg)
					break
				}
				if rep.Err != nil && rep.Cols == nil {
					// scripted statements that fail do so at execution
				}
				cols = rep.Cols
				paramCols = rep.ParamCols
			} else {
				tr, st, err := s.parse(sql)
				rec.Trans = tr
				s.record(rec)
				if err != nil {
					s.noteUnsupported(sql, err)
					c.sendErr(1235, "42000", err.Error())
					break
				}
				p.tr, p.st, p.nParams = tr, st, tr.Placeholders
				var fields []fakepg.Field
				if st != nil {
					fields, err = s.DB.Describe(st)
				}
				if err != nil {
					if errors.Is(err, fakepg.ErrUnsupported) {
						s.noteUnsupported(sql, err)
					}
					c.sqlError(err)
					break
				}
				for _, fd := range fields {
					cols = append(cols, ColDefFor(s.DB, fd, schema, tr.Aliases))
				}
			}
			preps[p.id] = p
			last.prepared(p)
			c.send("PrepareOK", PrepareOK{StmtID: p.id, Columns: uint16(len(cols)), Params: uint16(p.nParams)}.Encode())
			if p.nParams > 0 {
				for i := 0; i < p.nParams; i++ {
					pd := ColDef{Name: "?", Charset: 63, Type: TypeVarString, Flags: FlagBinary}
					if i < len(paramCols) {
						pd = paramCols[i]
					}
					c.send("ParamDef", pd.EncodeCaps(c.extTypeInfo()))
				}
				c.sendEOFAfterDefs()
			}
			if len(cols) > 0 {
				for _, cd := range cols {
					c.send("ColumnDef", cd.EncodeCaps(c.extTypeInfo()))
				}
				c.sendEOFAfterDefs()
			}
		case ComFieldList:
			if !c.fieldList(&rec) {
				c.sendErr(1047, "08S01", "Unknown command")
			}
		case ComStmtSendLong:
			// no response
			if len(f.Payload) >= 7 {
				sid := binary.LittleEndian.Uint32(f.Payload[1:])
				pi := int(binary.LittleEndian.Uint16(f.Payload[5:]))
				if p := preps[sid]; p != nil {
					rec.SQL = p.sql
					p.long[pi] = append(p.long[pi], f.Payload[7:]...)
				}
			}
			s.record(rec)
			continue
		case ComStmtClose:
			if len(f.Payload) >= 5 {
				last.closed(binary.LittleEndian.Uint32(f.Payload[1:]))
				delete(preps, binary.LittleEndian.Uint32(f.Payload[1:]))
			}
			s.record(rec)
			continue // no response
		case ComStmtReset:
			if len(f.Payload) >= 5 {
				if p := preps[binary.LittleEndian.Uint32(f.Payload[1:])]; p != nil {
					p.long = map[int][]byte{}
					rec.SQL = p.sql
					s.record(rec)
					c.sendOK(0, 0, "")
					break
				}
			}
			s.record(rec)
			c.sendErr(1243, "HY000", "Unknown prepared statement handler given to mysqld_stmt_reset")
		case ComStmtExecute:
			var p *prepared
			if len(f.Payload) >= 5 {
				p = preps[binary.LittleEndian.Uint32(f.Payload[1:])]
				if binary.LittleEndian.Uint32(f.Payload[1:]) == LastPreparedStmtID {
					p = last.stmt
				}
			}
			if p == nil {
				s.record(rec)
				c.sendErr(1243, "HY000", "Unknown prepared statement handler given to mysqld_stmt_execute")
				break
			}
			rec.SQL = p.sql
			rec.Trans = p.tr
			ex, err := decodeExecuteLong(f.Payload, p.nParams, p.lastTypes, p.long)
			if err != nil {
				s.record(rec)
				s.noteUnsupported(p.sql, fmt.Errorf("COM_STMT_EXECUTE does not parse: %v", err))
				c.sendErr(1210, "HY000", "Incorrect arguments to mysqld_stmt_execute")
				break
			}
			rec.Exec = &ex
			s.record(rec)
			p.lastTypes = ex.Params
			p.long = map[int][]byte{}
			p.execs++
			c.skipMetadata = c.skipMetadataFor(p.execs)
			if p.script != nil {
				c.sendReply(p.script(p.sql, true), true)
				break
			}
			c.evaluate(p.sql, p.tr, p.st, ex.Params, true, schema)
		default:
			s.record(rec)
			c.sendErr(1047, "08S01", "Unknown command")
		}
		if c.flush() != nil {
			return
		}
	}
}

func indexByte(b []byte, c byte) int {
	for i, x := range b {
		if x == c {
			return i
		}
	}
	return -1
}

// decodeExecuteLong decodes COM_STMT_EXECUTE where some parameters were supplied through COM_STMT_SEND_LONG_DATA
// (their values are absent from the packet).
func decodeExecuteLong(p []byte, nParams int, prev []BoundParam, long map[int][]byte) (Execute, error) {
	if len(long) == 0 {
		return DecodeExecute(p, nParams, prev)
	}
	// re-insert the long values as length-encoded strings so that the ordinary decoder applies
	if len(p) < 10 {
		return Execute{}, ErrMalformed
	}
	bm := (nParams + 7) / 8
	pos := 10 + bm
	if len(p) < pos+1 {
		return Execute{}, ErrMalformed
	}
	if p[pos] != 1 {
		return Execute{}, fmt.Errorf("%w: long data without new parameter types", ErrMalformed)
	}
	pos++
	if len(p) < pos+2*nParams {
		return Execute{}, ErrMalformed
	}
	types := p[pos : pos+2*nParams]
	nulls := p[10 : 10+bm]
	out := append([]byte{}, p[:pos+2*nParams]...)
	pos += 2 * nParams
	for i := 0; i < nParams; i++ {
		if nulls[i/8]&(1<<(uint(i)%8)) != 0 {
			continue
		}
		if v, ok := long[i]; ok {
			out = PutLenEncStr(out, v)
			continue
		}
		t := types[2*i]
		switch fs := fixedSize(t); {
		case fs > 0:
			if len(p)-pos < fs {
				return Execute{}, ErrMalformed
			}
			out = append(out, p[pos:pos+fs]...)
			pos += fs
		case fs == -1:
			if len(p)-pos < 1 || len(p)-pos-1 < int(p[pos]) {
				return Execute{}, ErrMalformed
			}
			out = append(out, p[pos:pos+1+int(p[pos])]...)
			pos += 1 + int(p[pos])
		case fs == -2:
		default:
			_, _, u, err := LenEncStr(p[pos:])
			if err != nil {
				return Execute{}, ErrMalformed
			}
			out = append(out, p[pos:pos+u]...)
			pos += u
		}
	}
	if pos != len(p) {
		return Execute{}, fmt.Errorf("%w: execute (with long data) has %d trailing bytes", ErrMalformed, len(p)-pos)
	}
	return DecodeExecute(out, nParams, prev)
}
