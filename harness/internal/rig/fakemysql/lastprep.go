package fakemysql

// LastPreparedStmtID is the statement id MariaDB (10.2 and later) reads in COM_STMT_EXECUTE as "the last statement prepared
// on this connection, if no COM_STMT_PREPARE has failed since" (https://mariadb.com/kb/en/com_stmt_execute/#statement-id):
// clients send COM_STMT_PREPARE and COM_STMT_EXECUTE(-1) without knowing the id the server assigns.
const LastPreparedStmtID = 0xFFFFFFFF

// lastPrepared tracks that statement for one connection, the way MariaDB does: set by every COM_STMT_PREPARE that succeeds,
// cleared by one that fails and when the statement itself is closed. A COM_STMT_EXECUTE(-1) without such a statement is
// answered like any unknown statement id (ERR 1243).
type lastPrepared struct{ stmt *prepared }

// prepareBegins: a COM_STMT_PREPARE arrived; unless it succeeds there is no "last prepared statement" any more.
func (l *lastPrepared) prepareBegins() { l.stmt = nil }

// prepared: the COM_STMT_PREPARE succeeded.
func (l *lastPrepared) prepared(p *prepared) { l.stmt = p }

// closed: COM_STMT_CLOSE for a statement id.
func (l *lastPrepared) closed(id uint32) {
	if l.stmt != nil && l.stmt.id == id {
		l.stmt = nil
	}
}
