// Package fakemysql is a small in-memory MySQL stand-in used on the database side of the proxy rig (the twin of fakepg).
//
// Everything on the wire is encoded and decoded by the codec in this package, written for the harness from the
// protocol documentation and sharing no code with Acra's decryptor/mysql: 3-byte length + sequence id framing with
// 0xffffff-sized continuation packets, handshake v10, OK/ERR/EOF, column definitions (protocol 4.1), text rows
// (length-encoded strings, 0xfb = NULL), binary rows (NULL bitmap with offset 2, little-endian integers,
// length-encoded strings), COM_QUERY, COM_STMT_PREPARE / EXECUTE / SEND_LONG_DATA / CLOSE / RESET, COM_PING,
// COM_INIT_DB, COM_STATISTICS, COM_FIELD_LIST(unsupported -> ERR), COM_QUIT.
//
// Statements are evaluated by fakepg.DB: the MySQL text is translated to the PostgreSQL spelling fakepg evaluates
// (translate.go); a statement that cannot be translated or evaluated is recorded as rig-inconclusive (Unsupported()).
package fakemysql

import (
	"encoding/binary"
	"errors"
	"fmt"
	"io"
	"math"
)

// MaxFrame is the largest payload of one physical packet; a payload of exactly this size is followed by another packet.
const MaxFrame = 1<<24 - 1

// Capability flags used here.
const (
	CapLongPassword   uint32 = 0x00000001
	CapFoundRows      uint32 = 0x00000002
	CapLongFlag       uint32 = 0x00000004
	CapConnectWithDB  uint32 = 0x00000008
	CapLocalFiles     uint32 = 0x00000080
	CapProtocol41     uint32 = 0x00000200
	CapSSL            uint32 = 0x00000800
	CapTransactions   uint32 = 0x00002000
	CapSecureConn     uint32 = 0x00008000
	CapMultiStmts     uint32 = 0x00010000
	CapMultiResults   uint32 = 0x00020000
	CapPluginAuth     uint32 = 0x00080000
	CapConnectAttrs   uint32 = 0x00100000
	CapPluginAuthLenc uint32 = 0x00200000
	CapDeprecateEOF   uint32 = 0x01000000
)

// Commands.
const (
	ComQuit         = 0x01
	ComInitDB       = 0x02
	ComQuery        = 0x03
	ComFieldList    = 0x04
	ComStatistics   = 0x09
	ComPing         = 0x0e
	ComStmtPrepare  = 0x16
	ComStmtExecute  = 0x17
	ComStmtSendLong = 0x18
	ComStmtClose    = 0x19
	ComStmtReset    = 0x1a
	ComResetConn    = 0x1f
)

// CommandName names a command byte.
func CommandName(c byte) string {
	switch c {
	case ComQuit:
		return "COM_QUIT"
	case ComInitDB:
		return "COM_INIT_DB"
	case ComQuery:
		return "COM_QUERY"
	case ComFieldList:
		return "COM_FIELD_LIST"
	case ComStatistics:
		return "COM_STATISTICS"
	case ComPing:
		return "COM_PING"
	case ComStmtPrepare:
		return "COM_STMT_PREPARE"
	case ComStmtExecute:
		return "COM_STMT_EXECUTE"
	case ComStmtSendLong:
		return "COM_STMT_SEND_LONG_DATA"
	case ComStmtClose:
		return "COM_STMT_CLOSE"
	case ComStmtReset:
		return "COM_STMT_RESET"
	case ComResetConn:
		return "COM_RESET_CONNECTION"
	}
	return fmt.Sprintf("COM_0x%02x", c)
}

// Column type ids.
const (
	TypeDecimal    = 0
	TypeTiny       = 1
	TypeShort      = 2
	TypeLong       = 3
	TypeFloat      = 4
	TypeDouble     = 5
	TypeNull       = 6
	TypeTimestamp  = 7
	TypeLongLong   = 8
	TypeInt24      = 9
	TypeDate       = 10
	TypeTime       = 11
	TypeDatetime   = 12
	TypeYear       = 13
	TypeVarchar    = 15
	TypeBit        = 16
	TypeJSON       = 245
	TypeNewDecimal = 246
	TypeEnum       = 247
	TypeSet        = 248
	TypeTinyBlob   = 249
	TypeMediumBlob = 250
	TypeLongBlob   = 251
	TypeBlob       = 252
	TypeVarString  = 253
	TypeString     = 254
	TypeGeometry   = 255
)

// Column flags.
const (
	FlagNotNull  = 0x0001
	FlagBlob     = 0x0010
	FlagUnsigned = 0x0020
	FlagBinary   = 0x0080
	FlagNum      = 0x8000
)

// ErrMalformed marks bytes that do not parse as what they should be.
var ErrMalformed = errors.New("fakemysql: malformed packet")

// PutLenEncInt appends a length-encoded integer.
func PutLenEncInt(b []byte, n uint64) []byte {
	switch {
	case n < 251:
		return append(b, byte(n))
	case n < 1<<16:
		return append(b, 0xfc, byte(n), byte(n>>8))
	case n < 1<<24:
		return append(b, 0xfd, byte(n), byte(n>>8), byte(n>>16))
	default:
		return append(b, 0xfe, byte(n), byte(n>>8), byte(n>>16), byte(n>>24), byte(n>>32), byte(n>>40), byte(n>>48), byte(n>>56))
	}
}

// PutLenEncStr appends a length-encoded string.
func PutLenEncStr(b []byte, s []byte) []byte {
	b = PutLenEncInt(b, uint64(len(s)))
	return append(b, s...)
}

// LenEncInt decodes a length-encoded integer; null reports the 0xfb marker.
func LenEncInt(b []byte) (n uint64, null bool, used int, err error) {
	if len(b) == 0 {
		return 0, false, 0, ErrMalformed
	}
	switch b[0] {
	case 0xfb:
		return 0, true, 1, nil
	case 0xfc:
		if len(b) < 3 {
			return 0, false, 0, ErrMalformed
		}
		return uint64(binary.LittleEndian.Uint16(b[1:])), false, 3, nil
	case 0xfd:
		if len(b) < 4 {
			return 0, false, 0, ErrMalformed
		}
		return uint64(b[1]) | uint64(b[2])<<8 | uint64(b[3])<<16, false, 4, nil
	case 0xfe:
		if len(b) < 9 {
			return 0, false, 0, ErrMalformed
		}
		return binary.LittleEndian.Uint64(b[1:]), false, 9, nil
	case 0xff:
		return 0, false, 0, ErrMalformed
	}
	return uint64(b[0]), false, 1, nil
}

// LenEncStr decodes a length-encoded string (nil, true for NULL).
func LenEncStr(b []byte) (s []byte, null bool, used int, err error) {
	n, null, u, err := LenEncInt(b)
	if err != nil || null {
		return nil, null, u, err
	}
	if uint64(len(b)-u) < n {
		return nil, false, 0, ErrMalformed
	}
	return b[u : u+int(n)], false, u + int(n), nil
}

// Frame is one logical message: the reassembled payload of one or more physical packets.
type Frame struct {
	Seq     byte // sequence id of the first physical packet
	EndSeq  byte // sequence id of the last physical packet
	Packets int  // number of physical packets
	Payload []byte
}

// ReadFrame reads one logical message.
func ReadFrame(r io.Reader) (Frame, error) {
	var f Frame
	var h [4]byte
	for {
		if _, err := io.ReadFull(r, h[:]); err != nil {
			if f.Packets > 0 && err == io.EOF {
				err = io.ErrUnexpectedEOF
			}
			return f, err
		}
		n := int(h[0]) | int(h[1])<<8 | int(h[2])<<16
		if f.Packets == 0 {
			f.Seq = h[3]
		} else if h[3] != f.EndSeq+1 {
			return f, fmt.Errorf("%w: continuation packet has sequence id %d after %d", ErrMalformed, h[3], f.EndSeq)
		}
		f.EndSeq = h[3]
		f.Packets++
		if n > 0 {
			old := len(f.Payload)
			if cap(f.Payload)-old < n {
				nb := make([]byte, old, old+n+16)
				copy(nb, f.Payload)
				f.Payload = nb
			}
			f.Payload = f.Payload[:old+n]
			if _, err := io.ReadFull(r, f.Payload[old:]); err != nil {
				if err == io.EOF {
					err = io.ErrUnexpectedEOF
				}
				return f, err
			}
		}
		if n < MaxFrame {
			return f, nil
		}
	}
}

// EncodeFrame renders a payload as physical packets starting at sequence id seq; it returns the bytes and the next sequence id.
func EncodeFrame(seq byte, payload []byte) ([]byte, byte) {
	out := make([]byte, 0, len(payload)+4*(len(payload)/MaxFrame+1))
	for {
		n := len(payload)
		if n > MaxFrame {
			n = MaxFrame
		}
		out = append(out, byte(n), byte(n>>8), byte(n>>16), seq)
		out = append(out, payload[:n]...)
		seq++
		payload = payload[n:]
		if n < MaxFrame {
			return out, seq
		}
	}
}

// SplitFrames segments a recorded byte stream into logical messages. rest is what remains unparsed (incomplete tail or malformed).
func SplitFrames(stream []byte) (frames []Frame, rest []byte, err error) {
	pos := 0
	for pos < len(stream) {
		start := pos
		var f Frame
		for {
			if len(stream)-pos < 4 {
				return frames, stream[start:], nil
			}
			n := int(stream[pos]) | int(stream[pos+1])<<8 | int(stream[pos+2])<<16
			s := stream[pos+3]
			if len(stream)-pos-4 < n {
				return frames, stream[start:], nil
			}
			if f.Packets == 0 {
				f.Seq = s
			} else if s != f.EndSeq+1 {
				return frames, stream[start:], fmt.Errorf("%w: continuation packet has sequence id %d after %d", ErrMalformed, s, f.EndSeq)
			}
			f.EndSeq = s
			f.Packets++
			if f.Packets == 1 && n < MaxFrame {
				f.Payload = stream[pos+4 : pos+4+n]
			} else {
				f.Payload = append(f.Payload, stream[pos+4:pos+4+n]...)
			}
			pos += 4 + n
			if n < MaxFrame {
				break
			}
		}
		frames = append(frames, f)
	}
	return frames, nil, nil
}

// ColDef is a protocol-4.1 column definition.
type ColDef struct {
	Catalog, Schema, Table, OrgTable, Name, OrgName string
	Charset                                         uint16
	Length                                          uint32
	Type                                            byte
	Flags                                           uint16
	Decimals                                        byte
	// Capability-dependent parts (caps.go: EncodeCaps / DecodeColDefCaps); Encode / DecodeColDef ignore them.
	ExtInfo     string // content of the MariaDB extended type info block (entries, without the block's length prefix)
	HasDefault  bool   // COM_FIELD_LIST response: a default value follows the fixed part
	DefaultNull bool
	Default     string
}

// Encode renders the column definition payload.
func (c ColDef) Encode() []byte {
	var b []byte
	cat := c.Catalog
	if cat == "" {
		cat = "def"
	}
	b = PutLenEncStr(b, []byte(cat))
	b = PutLenEncStr(b, []byte(c.Schema))
	b = PutLenEncStr(b, []byte(c.Table))
	b = PutLenEncStr(b, []byte(c.OrgTable))
	b = PutLenEncStr(b, []byte(c.Name))
	b = PutLenEncStr(b, []byte(c.OrgName))
	b = append(b, 0x0c)
	b = append(b, byte(c.Charset), byte(c.Charset>>8))
	b = append(b, byte(c.Length), byte(c.Length>>8), byte(c.Length>>16), byte(c.Length>>24))
	b = append(b, c.Type)
	b = append(b, byte(c.Flags), byte(c.Flags>>8))
	b = append(b, c.Decimals, 0, 0)
	return b
}

// DecodeColDef parses a column definition payload.
func DecodeColDef(p []byte) (ColDef, error) {
	var c ColDef
	pos := 0
	for i := 0; i < 6; i++ {
		s, null, u, err := LenEncStr(p[pos:])
		if err != nil || null {
			return c, ErrMalformed
		}
		pos += u
		switch i {
		case 0:
			c.Catalog = string(s)
		case 1:
			c.Schema = string(s)
		case 2:
			c.Table = string(s)
		case 3:
			c.OrgTable = string(s)
		case 4:
			c.Name = string(s)
		case 5:
			c.OrgName = string(s)
		}
	}
	if len(p)-pos != 13 || p[pos] != 0x0c {
		return c, fmt.Errorf("%w: column definition has %d bytes after the names (fixed part must be 13 bytes starting with 0x0c)", ErrMalformed, len(p)-pos)
	}
	pos++
	c.Charset = binary.LittleEndian.Uint16(p[pos:])
	c.Length = binary.LittleEndian.Uint32(p[pos+2:])
	c.Type = p[pos+6]
	c.Flags = binary.LittleEndian.Uint16(p[pos+7:])
	c.Decimals = p[pos+9]
	return c, nil
}

// Field is one value of a row on the wire: Null, or the raw bytes of the value (text protocol: the string; binary
// protocol: the fixed-size little-endian encoding or the string without its length prefix).
type Field struct {
	Null bool
	Data []byte
}

// EncodeTextRow renders a text-protocol row.
func EncodeTextRow(fields []Field) []byte {
	var b []byte
	for _, f := range fields {
		if f.Null {
			b = append(b, 0xfb)
		} else {
			b = PutLenEncStr(b, f.Data)
		}
	}
	return b
}

// DecodeTextRow parses a text-protocol row of n fields; the payload must be consumed exactly.
func DecodeTextRow(p []byte, n int) ([]Field, error) {
	out := make([]Field, 0, n)
	pos := 0
	for i := 0; i < n; i++ {
		s, null, u, err := LenEncStr(p[pos:])
		if err != nil {
			return nil, fmt.Errorf("%w: text row field %d", ErrMalformed, i)
		}
		pos += u
		out = append(out, Field{Null: null, Data: s})
	}
	if pos != len(p) {
		return nil, fmt.Errorf("%w: text row has %d trailing bytes after %d fields", ErrMalformed, len(p)-pos, n)
	}
	return out, nil
}

// fixedSize returns the size of a fixed-width binary value of the type (0 = length-encoded string, -1 = date/time with own length byte, -2 = not supported).
func fixedSize(t byte) int {
	switch t {
	case TypeTiny:
		return 1
	case TypeShort, TypeYear:
		return 2
	case TypeLong, TypeInt24, TypeFloat:
		return 4
	case TypeLongLong, TypeDouble:
		return 8
	case TypeDate, TypeDatetime, TypeTimestamp, TypeTime:
		return -1
	case TypeNull:
		return -2
	}
	return 0
}

// EncodeBinaryRow renders a binary-protocol row: Data of fixed-width types must have the type's width.
func EncodeBinaryRow(fields []Field, types []byte) []byte {
	n := len(fields)
	b := make([]byte, 1+(n+7+2)/8)
	for i, f := range fields {
		if f.Null {
			b[1+(i+2)/8] |= 1 << (uint(i+2) % 8)
		}
	}
	for i, f := range fields {
		if f.Null {
			continue
		}
		switch fs := fixedSize(types[i]); {
		case fs > 0:
			b = append(b, f.Data...)
		case fs == -1:
			b = append(b, byte(len(f.Data)))
			b = append(b, f.Data...)
		default:
			b = PutLenEncStr(b, f.Data)
		}
	}
	return b
}

// DecodeBinaryRow parses a binary-protocol row against the column types; the payload must be consumed exactly.
func DecodeBinaryRow(p []byte, types []byte) ([]Field, error) {
	n := len(types)
	bm := (n + 7 + 2) / 8
	if len(p) < 1+bm || p[0] != 0 {
		return nil, fmt.Errorf("%w: binary row header", ErrMalformed)
	}
	out := make([]Field, n)
	pos := 1 + bm
	for i := 0; i < n; i++ {
		if p[1+(i+2)/8]&(1<<(uint(i+2)%8)) != 0 {
			out[i].Null = true
			continue
		}
		switch fs := fixedSize(types[i]); {
		case fs > 0:
			if len(p)-pos < fs {
				return nil, fmt.Errorf("%w: binary row field %d (type %d) needs %d bytes, %d left", ErrMalformed, i, types[i], fs, len(p)-pos)
			}
			out[i].Data = p[pos : pos+fs]
			pos += fs
		case fs == -1:
			if len(p)-pos < 1 || len(p)-pos-1 < int(p[pos]) {
				return nil, fmt.Errorf("%w: binary row temporal field %d", ErrMalformed, i)
			}
			out[i].Data = p[pos+1 : pos+1+int(p[pos])]
			pos += 1 + int(p[pos])
		case fs == -2:
			return nil, fmt.Errorf("%w: non-NULL field of type NULL", ErrMalformed)
		default:
			s, null, u, err := LenEncStr(p[pos:])
			if err != nil || null {
				return nil, fmt.Errorf("%w: binary row field %d (type %d) length-encoded string", ErrMalformed, i, types[i])
			}
			out[i].Data = s
			pos += u
		}
	}
	if pos != len(p) {
		return nil, fmt.Errorf("%w: binary row has %d trailing bytes", ErrMalformed, len(p)-pos)
	}
	return out, nil
}

// OKPacket renders an OK packet (header 0x00, or 0xfe when it terminates a result set under CLIENT_DEPRECATE_EOF).
func OKPacket(header byte, affected, lastID uint64, status, warnings uint16, info string) []byte {
	b := []byte{header}
	b = PutLenEncInt(b, affected)
	b = PutLenEncInt(b, lastID)
	b = append(b, byte(status), byte(status>>8), byte(warnings), byte(warnings>>8))
	b = append(b, info...)
	return b
}

// EOFPacket renders an EOF packet.
func EOFPacket(status, warnings uint16) []byte {
	return []byte{0xfe, byte(warnings), byte(warnings >> 8), byte(status), byte(status >> 8)}
}

// ErrPacket renders an ERR packet (protocol 4.1).
func ErrPacket(code uint16, state, msg string) []byte {
	b := []byte{0xff, byte(code), byte(code >> 8), '#'}
	if len(state) != 5 {
		state = "HY000"
	}
	b = append(b, state...)
	return append(b, msg...)
}

// ErrInfo is a decoded ERR packet.
type ErrInfo struct {
	Code  uint16
	State string
	Msg   string
}

// DecodeErr parses an ERR packet.
func DecodeErr(p []byte) (ErrInfo, error) {
	if len(p) < 3 || p[0] != 0xff {
		return ErrInfo{}, ErrMalformed
	}
	e := ErrInfo{Code: binary.LittleEndian.Uint16(p[1:])}
	rest := p[3:]
	if len(rest) >= 6 && rest[0] == '#' {
		e.State = string(rest[1:6])
		rest = rest[6:]
	}
	e.Msg = string(rest)
	return e, nil
}

// IsEOF reports whether a payload is the terminator of a row / definition block for the given capability.
func IsEOF(p []byte, deprecateEOF bool) bool {
	if len(p) == 0 || p[0] != 0xfe {
		return false
	}
	if deprecateEOF {
		return len(p) < MaxFrame // an OK packet with header 0xfe; a row starting with 0xfe would carry an 8-byte length, i.e. be >= 16 MiB
	}
	return len(p) < 9
}

// BoundParam is one decoded COM_STMT_EXECUTE parameter.
type BoundParam struct {
	Type     byte
	Unsigned bool
	Null     bool
	Data     []byte // fixed-width little-endian bytes or the string value
	Omit     bool   // encoder only: the value travels through COM_STMT_SEND_LONG_DATA and is left out of the packet
}

// Int returns the integer value of an integer-typed parameter.
func (p BoundParam) Int() (int64, bool) {
	switch p.Type {
	case TypeTiny:
		if len(p.Data) == 1 {
			if p.Unsigned {
				return int64(p.Data[0]), true
			}
			return int64(int8(p.Data[0])), true
		}
	case TypeShort, TypeYear:
		if len(p.Data) == 2 {
			v := binary.LittleEndian.Uint16(p.Data)
			if p.Unsigned {
				return int64(v), true
			}
			return int64(int16(v)), true
		}
	case TypeLong, TypeInt24:
		if len(p.Data) == 4 {
			v := binary.LittleEndian.Uint32(p.Data)
			if p.Unsigned {
				return int64(v), true
			}
			return int64(int32(v)), true
		}
	case TypeLongLong:
		if len(p.Data) == 8 {
			v := binary.LittleEndian.Uint64(p.Data)
			if p.Unsigned && v > math.MaxInt64 {
				return 0, false
			}
			return int64(v), true
		}
	}
	return 0, false
}

// Execute is a decoded COM_STMT_EXECUTE.
type Execute struct {
	StmtID     uint32
	Flags      byte
	Iterations uint32
	NewBound   bool
	Params     []BoundParam
}

// DecodeExecute parses COM_STMT_EXECUTE for a statement with nParams parameters; prevTypes are the types bound by an earlier execute (used when new-params-bound is 0).
func DecodeExecute(p []byte, nParams int, prevTypes []BoundParam) (Execute, error) {
	var e Execute
	if len(p) < 10 || p[0] != ComStmtExecute {
		return e, ErrMalformed
	}
	e.StmtID = binary.LittleEndian.Uint32(p[1:])
	e.Flags = p[5]
	e.Iterations = binary.LittleEndian.Uint32(p[6:])
	pos := 10
	if nParams == 0 {
		if pos != len(p) {
			return e, fmt.Errorf("%w: execute without parameters has %d trailing bytes", ErrMalformed, len(p)-pos)
		}
		return e, nil
	}
	bm := (nParams + 7) / 8
	if len(p) < pos+bm+1 {
		return e, fmt.Errorf("%w: execute NULL bitmap", ErrMalformed)
	}
	nulls := p[pos : pos+bm]
	pos += bm
	e.NewBound = p[pos] == 1
	pos++
	e.Params = make([]BoundParam, nParams)
	if e.NewBound {
		if len(p) < pos+2*nParams {
			return e, fmt.Errorf("%w: execute parameter types", ErrMalformed)
		}
		for i := 0; i < nParams; i++ {
			e.Params[i].Type = p[pos]
			e.Params[i].Unsigned = p[pos+1]&0x80 != 0
			pos += 2
		}
	} else {
		if len(prevTypes) != nParams {
			return e, fmt.Errorf("%w: execute without types and no earlier binding", ErrMalformed)
		}
		for i := range e.Params {
			e.Params[i].Type, e.Params[i].Unsigned = prevTypes[i].Type, prevTypes[i].Unsigned
		}
	}
	for i := 0; i < nParams; i++ {
		if nulls[i/8]&(1<<(uint(i)%8)) != 0 {
			e.Params[i].Null = true
			continue
		}
		t := e.Params[i].Type
		switch fs := fixedSize(t); {
		case fs > 0:
			if len(p)-pos < fs {
				return e, fmt.Errorf("%w: execute parameter %d (type %d) needs %d bytes, %d left", ErrMalformed, i, t, fs, len(p)-pos)
			}
			e.Params[i].Data = p[pos : pos+fs]
			pos += fs
		case fs == -1:
			if len(p)-pos < 1 || len(p)-pos-1 < int(p[pos]) {
				return e, fmt.Errorf("%w: execute temporal parameter %d", ErrMalformed, i)
			}
			e.Params[i].Data = p[pos+1 : pos+1+int(p[pos])]
			pos += 1 + int(p[pos])
		case fs == -2:
			e.Params[i].Null = true
		default:
			s, null, u, err := LenEncStr(p[pos:])
			if err != nil || null {
				return e, fmt.Errorf("%w: execute parameter %d (type %d) length-encoded string", ErrMalformed, i, t)
			}
			e.Params[i].Data = s
			pos += u
		}
	}
	if pos != len(p) {
		return e, fmt.Errorf("%w: execute has %d trailing bytes after %d parameters", ErrMalformed, len(p)-pos, nParams)
	}
	return e, nil
}

// EncodeExecute renders COM_STMT_EXECUTE (types always sent).
func EncodeExecute(stmtID uint32, params []BoundParam) []byte {
	b := []byte{ComStmtExecute, byte(stmtID), byte(stmtID >> 8), byte(stmtID >> 16), byte(stmtID >> 24), 0, 1, 0, 0, 0}
	if len(params) == 0 {
		return b
	}
	bm := make([]byte, (len(params)+7)/8)
	for i, p := range params {
		if p.Null {
			bm[i/8] |= 1 << (uint(i) % 8)
		}
	}
	b = append(b, bm...)
	b = append(b, 1)
	for _, p := range params {
		f := byte(0)
		if p.Unsigned {
			f = 0x80
		}
		b = append(b, p.Type, f)
	}
	for _, p := range params {
		if p.Null || p.Omit {
			continue
		}
		switch fs := fixedSize(p.Type); {
		case fs > 0:
			b = append(b, p.Data...)
		case fs == -1:
			b = append(b, byte(len(p.Data)))
			b = append(b, p.Data...)
		case fs == -2:
		default:
			b = PutLenEncStr(b, p.Data)
		}
	}
	return b
}

// PrepareOK is the first packet of a COM_STMT_PREPARE response.
type PrepareOK struct {
	StmtID   uint32
	Columns  uint16
	Params   uint16
	Warnings uint16
}

// Encode renders the packet.
func (p PrepareOK) Encode() []byte {
	return []byte{0, byte(p.StmtID), byte(p.StmtID >> 8), byte(p.StmtID >> 16), byte(p.StmtID >> 24), byte(p.Columns), byte(p.Columns >> 8), byte(p.Params), byte(p.Params >> 8), 0, byte(p.Warnings), byte(p.Warnings >> 8)}
}

// DecodePrepareOK parses it.
func DecodePrepareOK(b []byte) (PrepareOK, error) {
	if len(b) != 12 || b[0] != 0 {
		return PrepareOK{}, ErrMalformed
	}
	return PrepareOK{StmtID: binary.LittleEndian.Uint32(b[1:]), Columns: binary.LittleEndian.Uint16(b[5:]), Params: binary.LittleEndian.Uint16(b[7:]), Warnings: binary.LittleEndian.Uint16(b[10:])}, nil
}
