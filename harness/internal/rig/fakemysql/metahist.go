package fakemysql

// Scripted metadata histories (MARIADB_CLIENT_CACHE_METADATA): a script decides per execution of a prepared statement whether
// the result set carries its column definitions, so that a scripted database can re-send CHANGED definitions (the table was
// altered between two executions) and leave them out afterwards. Inert unless a Reply sets Metadata.

const (
	// MetadataSend: the result set carries its column definitions (metadata-follows = 1).
	MetadataSend int8 = 1
	// MetadataSkip: the result set comes without column definitions (metadata-follows = 0); the client uses the ones it holds.
	MetadataSkip int8 = -1
)

// replyMetadata applies Reply.Metadata to the result set about to be sent. Only binary-protocol result sets can come without
// definitions (a COM_QUERY response always carries them), and only when both sides announced the capability.
func (c *conn) replyMetadata(rep *Reply, binaryProto bool) {
	if rep.Metadata == 0 || !binaryProto {
		return
	}
	c.skipMetadata = rep.Metadata == MetadataSkip && c.cacheMetadata()
}
