package fakemysql

import (
	"encoding/hex"
	"errors"
	"fmt"
	"strconv"
	"strings"

	"verif/harness/internal/rig/fakepg"
)

// ErrUntranslatable marks MySQL statements outside what the translator understands (rig-inconclusive).
var ErrUntranslatable = errors.New("fakemysql: statement not translatable")

// Slot is one $n of the translated statement: either a literal found in the text or the k-th `?` placeholder.
type Slot struct {
	Placeholder int    // >= 0: index of the `?`; -1: literal
	Literal     []byte // decoded bytes of a string / hex literal
}

// Translated is a MySQL statement spelled for fakepg.
type Translated struct {
	MySQL        string
	PG           string
	Slots        []Slot
	Placeholders int
	Aliases      map[string]string // real table name -> alias used in the statement
	Upsert       *Upsert           // non-nil for INSERT ... ON DUPLICATE KEY UPDATE (evaluated by Server.execUpsert)
	Literals     []Literal         // every literal of the statement as the database would decode it (for stored-form / leak inspection)
}

// Literal is one literal of a statement.
type Literal struct {
	Kind string // string | hex | int
	Data []byte
}

func isIdentStart(c byte) bool {
	return c == '_' || c == '$' || (c >= 'a' && c <= 'z') || (c >= 'A' && c <= 'Z') || c >= 0x80
}

func isIdentChar(c byte) bool { return isIdentStart(c) || (c >= '0' && c <= '9') }

func isHexDigit(c byte) bool {
	return (c >= '0' && c <= '9') || (c >= 'a' && c <= 'f') || (c >= 'A' && c <= 'F')
}

var notAlias = map[string]bool{"where": true, "order": true, "limit": true, "join": true, "inner": true, "left": true, "right": true, "cross": true, "on": true, "set": true, "group": true, "having": true, "values": true, "value": true, "select": true, "using": true, "natural": true, "straight_join": true, "union": true, "for": true, "lock": true, "partition": true, "as": true, "force": true, "use": true, "ignore": true}

// decodeQuoted decodes a MySQL quoted string starting at s[i] (the quote character); it returns the bytes and the index after the closing quote.
func decodeQuoted(s string, i int) ([]byte, int, error) {
	q := s[i]
	out := []byte{}
	i++
	for i < len(s) {
		c := s[i]
		switch {
		case c == q:
			if i+1 < len(s) && s[i+1] == q {
				out = append(out, q)
				i += 2
				continue
			}
			return out, i + 1, nil
		case c == '\\':
			if i+1 >= len(s) {
				return nil, 0, fmt.Errorf("%w: dangling backslash", ErrUntranslatable)
			}
			e := s[i+1]
			switch e {
			case '0':
				out = append(out, 0)
			case 'b':
				out = append(out, 8)
			case 'n':
				out = append(out, '\n')
			case 'r':
				out = append(out, '\r')
			case 't':
				out = append(out, '\t')
			case 'Z':
				out = append(out, 0x1a)
			case '%', '_':
				out = append(out, '\\', e)
			default:
				out = append(out, e)
			}
			i += 2
		default:
			out = append(out, c)
			i++
		}
	}
	return nil, 0, fmt.Errorf("%w: unterminated string", ErrUntranslatable)
}

// Translate rewrites one MySQL statement for fakepg: backtick identifiers -> "identifiers"; string, X'..', 0x.. and
// _binary'..' literals -> $n slots carrying the decoded bytes (so that the value is stored byte-exactly whatever the
// column type is); `?` -> $n; integer literals stay.
func Translate(sql string) (*Translated, error) {
	t := &Translated{MySQL: sql, Aliases: map[string]string{}}
	var b strings.Builder
	slot := func(s Slot) {
		t.Slots = append(t.Slots, s)
		fmt.Fprintf(&b, "$%d", len(t.Slots))
	}
	// alias tracking
	const (
		stNone = iota
		stWantTable
		stHaveTable
		stWantAlias
	)
	state := stNone
	lastTable := ""
	lastIdentStart := -1 // position in b of the last emitted bare identifier (for charset introducers)
	lastIdent := ""
	noteIdent := func(word string, quoted bool) {
		lw := strings.ToLower(word)
		switch state {
		case stWantTable:
			lastTable = word
			state = stHaveTable
			return
		case stHaveTable:
			if !quoted && lw == "as" {
				state = stWantAlias
				return
			}
			if quoted || !notAlias[lw] {
				t.Aliases[lastTable] = word
				state = stNone
				return
			}
			state = stNone
		case stWantAlias:
			t.Aliases[lastTable] = word
			state = stNone
			return
		}
		if !quoted && (lw == "from" || lw == "join" || lw == "update" || lw == "into") {
			state = stWantTable
		}
	}
	dropIntroducer := func() {
		if lastIdentStart >= 0 && strings.HasPrefix(lastIdent, "_") {
			// charset introducer (_binary, _utf8mb4, ...): drop it
			cur := b.String()
			if strings.TrimRight(cur[lastIdentStart:], " ") == lastIdent {
				b.Reset()
				b.WriteString(cur[:lastIdentStart])
			}
		}
	}
	i := 0
	for i < len(sql) {
		c := sql[i]
		switch {
		case c == ' ' || c == '\t' || c == '\n' || c == '\r':
			b.WriteByte(' ')
			i++
		case c == '#' || (c == '-' && i+2 < len(sql) && sql[i+1] == '-' && (sql[i+2] == ' ' || sql[i+2] == '\t' || sql[i+2] == '\n')):
			for i < len(sql) && sql[i] != '\n' {
				i++
			}
			b.WriteByte(' ')
		case c == '/' && i+1 < len(sql) && sql[i+1] == '*':
			if i+2 < len(sql) && sql[i+2] == '!' {
				return nil, fmt.Errorf("%w: versioned comment", ErrUntranslatable)
			}
			j := strings.Index(sql[i+2:], "*/")
			if j < 0 {
				return nil, fmt.Errorf("%w: unterminated comment", ErrUntranslatable)
			}
			i += 2 + j + 2
			b.WriteByte(' ')
		case c == '`':
			j := i + 1
			var name []byte
			for {
				if j >= len(sql) {
					return nil, fmt.Errorf("%w: unterminated identifier", ErrUntranslatable)
				}
				if sql[j] == '`' {
					if j+1 < len(sql) && sql[j+1] == '`' {
						name = append(name, '`')
						j += 2
						continue
					}
					break
				}
				name = append(name, sql[j])
				j++
			}
			i = j + 1
			b.WriteString(`"` + strings.ReplaceAll(string(name), `"`, `""`) + `"`)
			noteIdent(string(name), true)
			lastIdentStart = -1
		case c == '\'' || c == '"':
			data, j, err := decodeQuoted(sql, i)
			if err != nil {
				return nil, err
			}
			i = j
			dropIntroducer()
			t.Literals = append(t.Literals, Literal{Kind: "string", Data: data})
			slot(Slot{Placeholder: -1, Literal: data})
			lastIdentStart = -1
			state = stNone
		case (c == 'x' || c == 'X') && i+1 < len(sql) && sql[i+1] == '\'' && (i == 0 || !isIdentChar(sql[i-1])):
			j := strings.IndexByte(sql[i+2:], '\'')
			if j < 0 {
				return nil, fmt.Errorf("%w: unterminated hex literal", ErrUntranslatable)
			}
			data, err := hex.DecodeString(sql[i+2 : i+2+j])
			if err != nil {
				return nil, fmt.Errorf("%w: bad hex literal", ErrUntranslatable)
			}
			i += 2 + j + 1
			dropIntroducer()
			t.Literals = append(t.Literals, Literal{Kind: "hex", Data: data})
			slot(Slot{Placeholder: -1, Literal: data})
			lastIdentStart = -1
			state = stNone
		case c == '0' && i+2 < len(sql) && (sql[i+1] == 'x') && isHexDigit(sql[i+2]) && (i == 0 || !isIdentChar(sql[i-1])):
			j := i + 2
			for j < len(sql) && isHexDigit(sql[j]) {
				j++
			}
			if j < len(sql) && isIdentChar(sql[j]) {
				return nil, fmt.Errorf("%w: token starting with 0x", ErrUntranslatable)
			}
			h := sql[i+2 : j]
			if len(h)%2 == 1 {
				h = "0" + h
			}
			data, _ := hex.DecodeString(h)
			i = j
			dropIntroducer()
			t.Literals = append(t.Literals, Literal{Kind: "hex", Data: data})
			slot(Slot{Placeholder: -1, Literal: data})
			lastIdentStart = -1
			state = stNone
		case c == '?':
			slot(Slot{Placeholder: t.Placeholders})
			t.Placeholders++
			i++
			lastIdentStart = -1
			state = stNone
		case c >= '0' && c <= '9':
			j := i
			for j < len(sql) && (isIdentChar(sql[j]) || sql[j] == '.') {
				j++
			}
			tok := sql[i:j]
			if _, err := strconv.ParseInt(tok, 10, 64); err != nil {
				// -9223372036854775808: the digits alone overflow; hand the signed value over as a text-format slot
				cur := strings.TrimRight(b.String(), " ")
				if _, err2 := strconv.ParseInt("-"+tok, 10, 64); err2 == nil && strings.HasSuffix(cur, "-") {
					b.Reset()
					b.WriteString(cur[:len(cur)-1])
					t.Literals = append(t.Literals, Literal{Kind: "int", Data: []byte("-" + tok)})
					slot(Slot{Placeholder: -1, Literal: []byte("-" + tok)})
					i = j
					lastIdentStart = -1
					state = stNone
					continue
				}
				return nil, fmt.Errorf("%w: numeric literal %q", ErrUntranslatable, tok)
			}
			t.Literals = append(t.Literals, Literal{Kind: "int", Data: []byte(tok)})
			b.WriteString(tok)
			i = j
			lastIdentStart = -1
			state = stNone
		case isIdentStart(c):
			j := i
			for j < len(sql) && isIdentChar(sql[j]) {
				j++
			}
			word := sql[i:j]
			lastIdentStart = b.Len()
			lastIdent = word
			b.WriteString(word)
			i = j
			noteIdent(word, false)
		case c == '|' || c == '&':
			return nil, fmt.Errorf("%w: operator %c", ErrUntranslatable, c)
		case c == '<' && strings.HasPrefix(sql[i:], "<=>"):
			// NULL-safe equality is PostgreSQL's IS NOT DISTINCT FROM (evaluated by fakepg's ext.go)
			b.WriteString(" is not distinct from ")
			i += 3
			lastIdentStart = -1
			state = stNone
		case c == ';':
			if strings.TrimSpace(sql[i+1:]) != "" {
				return nil, fmt.Errorf("%w: multiple statements", ErrUntranslatable)
			}
			i = len(sql)
		default:
			switch {
			case c == ',' && state == stHaveTable:
				state = stWantTable // FROM a, b
			case c == '.' && state == stHaveTable:
				state = stWantTable // schema.table
			default:
				state = stNone
			}
			b.WriteByte(c)
			i++
			lastIdentStart = -1
		}
	}
	t.PG = b.String()
	// convert(<expr>, binary) (Acra's MySQL spelling of the searchable-hash comparison) is the identity on byte strings
	for i := 0; i < 8 && reConvert.MatchString(t.PG); i++ {
		t.PG = reConvert.ReplaceAllString(t.PG, "($1)")
	}
	u, err := splitUpsert(t.PG)
	if err != nil {
		return nil, err
	}
	t.Upsert = u
	return t, nil
}

// decimalLike reports whether b spells a decimal integer (so that it may be handed to fakepg in text format and end up in an integer column).
func decimalLike(b []byte) bool {
	if len(b) == 0 || len(b) > 20 {
		return false
	}
	i := 0
	if b[0] == '-' {
		i = 1
	}
	if i == len(b) {
		return false
	}
	for ; i < len(b); i++ {
		if b[i] < '0' || b[i] > '9' {
			return false
		}
	}
	return true
}

func bytesParam(b []byte) fakepg.Param {
	if decimalLike(b) {
		return fakepg.Param{Data: append([]byte{}, b...)}
	}
	return fakepg.Param{Binary: true, Data: append([]byte{}, b...)}
}

// Params builds the fakepg parameter list from the literal slots and the bound placeholders.
func (t *Translated) Params(bound []BoundParam) ([]fakepg.Param, error) {
	if len(bound) != t.Placeholders {
		return nil, fmt.Errorf("%w: %d parameters bound, statement has %d placeholders", ErrUntranslatable, len(bound), t.Placeholders)
	}
	out := make([]fakepg.Param, len(t.Slots))
	for i, s := range t.Slots {
		if s.Placeholder < 0 {
			out[i] = bytesParam(s.Literal)
			continue
		}
		p := bound[s.Placeholder]
		switch {
		case p.Null:
			out[i] = fakepg.Param{Null: true}
		case fixedSize(p.Type) > 0:
			v, ok := p.Int()
			if !ok {
				return nil, fmt.Errorf("%w: bound parameter of type %d", ErrUntranslatable, p.Type)
			}
			out[i] = fakepg.Param{Data: []byte(strconv.FormatInt(v, 10))}
		case fixedSize(p.Type) == 0:
			out[i] = bytesParam(p.Data)
		default:
			return nil, fmt.Errorf("%w: bound parameter of type %d", ErrUntranslatable, p.Type)
		}
	}
	return out, nil
}
