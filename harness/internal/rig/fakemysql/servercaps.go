package fakemysql

import "strings"

// Server side of the capability matrix (see caps.go). Everything here is inert unless Server.Hand is set and the client
// negotiates the capability, so the sessions of the other layers are unaffected.

func (c *conn) extTypeInfo() bool   { return c.ext&MariaExtendedTypeInfo != 0 }
func (c *conn) cacheMetadata() bool { return c.ext&MariaCacheMetadata != 0 }
func (c *conn) sessionTrack() bool  { return c.caps&CapSessionTrack != 0 }

func (c *conn) okPacket(header byte, affected, lastID uint64, status, warnings uint16, info string, state []byte) []byte {
	return OKPacketCaps(header, affected, lastID, status, warnings, info, c.sessionTrack(), state)
}

// skipMetadataFor applies the server's MARIADB_CLIENT_CACHE_METADATA policy to the n-th execution of a prepared statement.
func (c *conn) skipMetadataFor(n int) bool {
	if !c.cacheMetadata() || c.s.Hand == nil {
		return false
	}
	switch c.s.Hand.SkipMetadata {
	case "always":
		return true
	case "alternate":
		return n%2 == 1
	}
	return false
}

func (c *conn) sendInitDBOK(schema string) {
	if c.sessionTrack() && c.s.Hand != nil && c.s.Hand.TrackSchema {
		c.send("OK", c.okPacket(0x00, 0, 0, statusAutocommit, 0, "", SessionStateSchema(schema)))
		return
	}
	c.sendOK(0, 0, "")
}

// FieldListKey is the script key of a COM_FIELD_LIST for a table.
func FieldListKey(table string) string { return "COM_FIELD_LIST " + table }

// fieldList answers COM_FIELD_LIST (table NUL wildcard) from a script registered under FieldListKey(table): the column
// definitions (with their default values) followed by the terminator. Without a script the command stays unsupported.
func (c *conn) fieldList(rec *Received) bool {
	p := rec.Payload[1:]
	table := string(p)
	if i := indexByte(p, 0); i >= 0 {
		table = string(p[:i])
	}
	rec.SQL = strings.TrimSpace(table)
	c.s.mu.Lock()
	sc := c.s.scripts[FieldListKey(table)]
	c.s.mu.Unlock()
	c.s.record(*rec)
	if sc == nil {
		return false
	}
	rep := sc(table, false)
	if rep.Err != nil {
		c.sendErr(rep.Err.Code, rep.Err.State, rep.Err.Msg)
		return true
	}
	for _, cd := range rep.Cols {
		c.send("ColumnDef", cd.EncodeCaps(c.extTypeInfo()))
	}
	c.sendEndOfRows(statusAutocommit, 0)
	return true
}
