package fakemysql

import (
	"fmt"
	"regexp"
	"strconv"
	"strings"

	"verif/harness/internal/rig/fakepg"
)

// INSERT ... ON DUPLICATE KEY UPDATE is evaluated here, on top of fakepg.DB primitives (fakepg itself has no upsert):
// the first column of a table plays the primary key. For every VALUES tuple the row that would be inserted is evaluated
// (through a scratch table with the same columns); if no stored row has its key it is appended, otherwise the assignments
// run as UPDATE ... WHERE key = k with VALUES(col) bound to the tuple's value of col. `col + n` / `col - n` on an integer
// column is computed here (fakepg has no arithmetic). Affected rows: 1 per inserted row, 2 per updated row (MySQL's rule,
// without the "0 when nothing changed" refinement).

// Upsert is the split form of a translated INSERT ... ON DUPLICATE KEY UPDATE.
type Upsert struct {
	Table   string
	Head    string   // insert into t [(cols)] values
	Tuples  []string // "(...)" each
	Assigns []string // "col = expr" each, PostgreSQL spelling with $n slots
}

var (
	reOnDup     = regexp.MustCompile(`(?i)\s+on\s+duplicate\s+key\s+update\s+`)
	reConvert   = regexp.MustCompile(`(?i)\bconvert\s*\(((?:[^()]|\((?:[^()]|\([^()]*\))*\))*?),\s*binary\s*\)`)
	reInsertTab = regexp.MustCompile(`(?i)^\s*insert\s+(?:ignore\s+)?into\s+("?[\w]+"?)`)
	reValuesKw  = regexp.MustCompile(`(?i)\)\s*values?\s*\(|\svalues?\s*\(`)
	reValuesFn  = regexp.MustCompile(`(?i)\bvalues\s*\(\s*"?(\w+)"?\s*\)`)
	reArith     = regexp.MustCompile(`^\s*"?(\w+)"?\s*([+-])\s*(\d+)\s*$`)
)

// splitTop splits s at top-level commas.
func splitTop(s string) []string {
	var out []string
	depth, start := 0, 0
	for i := 0; i < len(s); i++ {
		switch s[i] {
		case '(':
			depth++
		case ')':
			depth--
		case ',':
			if depth == 0 {
				out = append(out, s[start:i])
				start = i + 1
			}
		}
	}
	return append(out, s[start:])
}

// splitUpsert recognises the upsert form in a translated statement (nil when it is not one).
func splitUpsert(pg string) (*Upsert, error) {
	loc := reOnDup.FindStringIndex(pg)
	if loc == nil {
		return nil, nil
	}
	ins, assigns := pg[:loc[0]], pg[loc[1]:]
	m := reInsertTab.FindStringSubmatch(ins)
	if m == nil {
		return nil, fmt.Errorf("%w: ON DUPLICATE KEY UPDATE on something that is not INSERT INTO t", ErrUntranslatable)
	}
	u := &Upsert{Table: strings.Trim(m[1], `"`)}
	vl := reValuesKw.FindStringIndex(ins)
	if vl == nil {
		return nil, fmt.Errorf("%w: upsert without VALUES", ErrUntranslatable)
	}
	open := vl[1] - 1 // position of the '(' that starts the first tuple
	u.Head = ins[:open]
	for _, tpl := range splitTop(ins[open:]) {
		tpl = strings.TrimSpace(tpl)
		if !strings.HasPrefix(tpl, "(") || !strings.HasSuffix(tpl, ")") {
			return nil, fmt.Errorf("%w: upsert tuple %q", ErrUntranslatable, tpl)
		}
		u.Tuples = append(u.Tuples, tpl)
	}
	for _, a := range splitTop(assigns) {
		if !strings.Contains(a, "=") {
			return nil, fmt.Errorf("%w: upsert assignment %q", ErrUntranslatable, a)
		}
		u.Assigns = append(u.Assigns, strings.TrimSpace(a))
	}
	return u, nil
}

func valueParam(v fakepg.Value) fakepg.Param {
	switch x := v.(type) {
	case nil:
		return fakepg.Param{Null: true}
	case int64:
		return fakepg.Param{Data: []byte(strconv.FormatInt(x, 10))}
	case string:
		return bytesParam([]byte(x))
	case []byte:
		return bytesParam(x)
	}
	return fakepg.Param{Null: true}
}

func sameKey(a, b fakepg.Value) bool {
	switch x := a.(type) {
	case int64:
		y, ok := b.(int64)
		return ok && x == y
	case string:
		y, ok := b.(string)
		return ok && x == y
	case []byte:
		y, ok := b.([]byte)
		return ok && string(x) == string(y)
	}
	return false
}

const scratchTable = "fakemysql_upsert_scratch"

// execUpsert evaluates the upsert; it returns the affected-row count MySQL would report.
func (s *Server) execUpsert(u *Upsert, params []fakepg.Param) (uint64, error) {
	t := s.DB.Tables[u.Table]
	if t == nil {
		return 0, &fakepg.SQLError{Code: "42P01", Msg: fmt.Sprintf("Table '%s' doesn't exist", u.Table)}
	}
	cols := append([]fakepg.Column{}, t.Cols...)
	head := reInsertTab.ReplaceAllStringFunc(u.Head, func(m string) string {
		return strings.Replace(m, reInsertTab.FindStringSubmatch(m)[1], scratchTable, 1)
	})
	var affected uint64
	for _, tpl := range u.Tuples {
		s.DB.CreateTable(scratchTable, cols)
		st, err := fakepg.Parse(head + tpl)
		if err != nil {
			return affected, fmt.Errorf("%w: %v", ErrUntranslatable, err)
		}
		if _, err := s.DB.Exec(st, params); err != nil {
			return affected, err
		}
		tmp := s.DB.Snapshot(scratchTable)
		if len(tmp) != 1 {
			return affected, fmt.Errorf("%w: upsert tuple evaluated to %d rows", ErrUntranslatable, len(tmp))
		}
		row := tmp[0]
		var existing []fakepg.Value
		for _, r := range s.DB.Snapshot(u.Table) {
			if sameKey(r[0], row[0]) {
				existing = r
				break
			}
		}
		if existing == nil {
			s.DB.InsertRow(u.Table, row)
			affected++
			continue
		}
		// UPDATE path
		p2 := append([]fakepg.Param{}, params...)
		var sets []string
		for _, a := range u.Assigns {
			eq := strings.Index(a, "=")
			lhs, rhs := strings.TrimSpace(a[:eq]), a[eq+1:]
			var ferr error
			rhs = reValuesFn.ReplaceAllStringFunc(rhs, func(m string) string {
				name := reValuesFn.FindStringSubmatch(m)[1]
				for ci, c := range cols {
					if c.Name == name {
						p2 = append(p2, valueParam(row[ci]))
						return fmt.Sprintf("$%d", len(p2))
					}
				}
				ferr = &fakepg.SQLError{Code: "42703", Msg: fmt.Sprintf("Unknown column '%s' in VALUES()", name)}
				return m
			})
			if ferr != nil {
				return affected, ferr
			}
			if m := reArith.FindStringSubmatch(rhs); m != nil {
				done := false
				for ci, c := range cols {
					if c.Name == m[1] {
						if v, ok := existing[ci].(int64); ok {
							n, _ := strconv.ParseInt(m[3], 10, 64)
							if m[2] == "-" {
								n = -n
							}
							p2 = append(p2, fakepg.Param{Data: []byte(strconv.FormatInt(v+n, 10))})
							rhs = fmt.Sprintf("$%d", len(p2))
							done = true
						}
					}
				}
				if !done {
					return affected, fmt.Errorf("%w: arithmetic in upsert assignment %q", ErrUntranslatable, a)
				}
			}
			sets = append(sets, lhs+" = "+rhs)
		}
		p2 = append(p2, valueParam(row[0]))
		upd := fmt.Sprintf(`update "%s" set %s where "%s" = $%d`, u.Table, strings.Join(sets, ", "), cols[0].Name, len(p2))
		ust, err := fakepg.Parse(upd)
		if err != nil {
			return affected, fmt.Errorf("%w: %v", ErrUntranslatable, err)
		}
		if _, err := s.DB.Exec(ust, p2); err != nil {
			return affected, err
		}
		affected += 2
	}
	s.DB.CreateTable(scratchTable, nil)
	return affected, nil
}
