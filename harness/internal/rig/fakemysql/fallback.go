package fakemysql

// fallbackFor returns Server.Fallback as the script of sql, or nil when there is no fallback or it declines this statement
// (returns a nil reply). Like any script it is asked again for every use: once per COM_QUERY; for a prepared statement once
// at COM_STMT_PREPARE (column definitions, ErrAtPrepare) and once per COM_STMT_EXECUTE.
func (s *Server) fallbackFor(sql string, binary bool) Script {
	s.mu.Lock()
	fb := s.Fallback
	s.mu.Unlock()
	if fb == nil || fb(sql, binary) == nil {
		return nil
	}
	return fb
}
