package fakemysql

// Capability / metadata matrix: the parts of the protocol that depend on what client and server negotiate.
// Written from the protocol documentation (MySQL "Connection Phase" / "OK_Packet" / "Column Definition",
// MariaDB knowledge base "Connection" / "Result Set Packets"); no code of Acra is used.
//
//   - HandshakeV10 in its two flavours: MySQL (10 reserved zero bytes) and MariaDB (CLIENT_MYSQL bit clear, 6 filler bytes +
//     4 bytes of extended capabilities, version prefixed "5.5.5-");
//   - HandshakeResponse41 with every layout switch: CLIENT_CONNECT_WITH_DB, CLIENT_PLUGIN_AUTH,
//     CLIENT_PLUGIN_AUTH_LENENC_CLIENT_DATA / CLIENT_SECURE_CONNECTION / NUL-terminated auth data, CLIENT_CONNECT_ATTRS,
//     MariaDB extended client capabilities in the last 4 of the 23 reserved bytes;
//   - column definitions with the MariaDB extended type info block (MARIADB_CLIENT_EXTENDED_TYPE_INFO) and with the
//     default value that follows the fixed part in a COM_FIELD_LIST response;
//   - the column count packet with the "metadata follows" byte of MARIADB_CLIENT_CACHE_METADATA;
//   - OK packets in the CLIENT_SESSION_TRACK layout (info as string<lenenc>, session state information).

import (
	"encoding/binary"
	"fmt"
)

// More capability flags (lower 32 bits).
const (
	CapNoSchema     uint32 = 0x00000010
	CapSessionTrack uint32 = 0x00800000
	// CapOptionalResultsetMetadata changes the column count packet of MySQL 8 servers; neither the rig nor Acra implement it.
	CapOptionalResultsetMetadata uint32 = 0x02000000
)

// MariaDB extended capabilities (bits 32.. of MariaDB's 64-bit capability word; on the wire a separate 4-byte field).
const (
	MariaProgress         uint32 = 1 << 0
	MariaComMulti         uint32 = 1 << 1
	MariaStmtBulk         uint32 = 1 << 2
	MariaExtendedTypeInfo uint32 = 1 << 3
	MariaCacheMetadata    uint32 = 1 << 4
)

// StatusSessionStateChanged is SERVER_SESSION_STATE_CHANGED.
const StatusSessionStateChanged uint16 = 0x4000

// Greeting describes the initial handshake packet (protocol version 10) the server sends.
type Greeting struct {
	// MariaDB selects the MariaDB flavour: the CLIENT_MYSQL bit (bit 0 of the capabilities) is cleared and the last four of the
	// ten reserved bytes carry ExtCaps. In the MySQL flavour the ten bytes are zero and ExtCaps is not transmitted.
	MariaDB bool
	Version string
	Caps    uint32
	ExtCaps uint32
	Charset byte
	Status  uint16
	Seed    []byte // 20 bytes of authentication seed (8 + 12)
	Plugin  string // authentication plugin name (sent when CLIENT_PLUGIN_AUTH is announced)
	// SkipMetadata is the server's policy under MARIADB_CLIENT_CACHE_METADATA for the result sets of COM_STMT_EXECUTE:
	// "always" (metadata is never repeated after the prepare response), "alternate" (every second execution of a statement
	// repeats it), "" / "never" (metadata always follows).
	SkipMetadata string
	// TrackSchema makes COM_INIT_DB answers carry a session state change (schema) when CLIENT_SESSION_TRACK is in force.
	TrackSchema bool
}

// WireCaps are the capability bits as they appear on the wire for the flavour.
func (g Greeting) WireCaps() uint32 {
	if g.MariaDB {
		return g.Caps &^ CapLongPassword
	}
	return g.Caps | CapLongPassword
}

// Encode renders the handshake payload.
func (g Greeting) Encode(connID uint32) []byte {
	caps := g.WireCaps()
	seed := g.Seed
	if len(seed) != 20 {
		seed = []byte("abcdefghijklmnopqrst")
	}
	ver := g.Version
	if ver == "" {
		if g.MariaDB {
			ver = "5.5.5-10.6.12-MariaDB-fake"
		} else {
			ver = "8.0.0-fakemysql"
		}
	}
	b := []byte{10}
	b = append(b, ver...)
	b = append(b, 0)
	b = append(b, byte(connID), byte(connID>>8), byte(connID>>16), byte(connID>>24))
	b = append(b, seed[:8]...)
	b = append(b, 0)
	b = append(b, byte(caps), byte(caps>>8))
	b = append(b, g.Charset)
	b = append(b, byte(g.Status), byte(g.Status>>8))
	b = append(b, byte(caps>>16), byte(caps>>24))
	if caps&CapPluginAuth != 0 {
		b = append(b, 21) // length of the seed + terminating zero
	} else {
		b = append(b, 0)
	}
	b = append(b, 0, 0, 0, 0, 0, 0)
	if g.MariaDB {
		b = append(b, byte(g.ExtCaps), byte(g.ExtCaps>>8), byte(g.ExtCaps>>16), byte(g.ExtCaps>>24))
	} else {
		b = append(b, 0, 0, 0, 0)
	}
	if caps&CapSecureConn != 0 {
		b = append(b, seed[8:]...)
		b = append(b, 0)
	}
	if caps&CapPluginAuth != 0 {
		b = append(b, g.Plugin...)
		b = append(b, 0)
	}
	return b
}

// DecodeGreeting parses a handshake payload (strictly: every byte must be accounted for).
func DecodeGreeting(p []byte) (g Greeting, connID uint32, err error) {
	bad := func(what string) (Greeting, uint32, error) {
		return g, 0, fmt.Errorf("%w: handshake: %s", ErrMalformed, what)
	}
	if len(p) < 1 || p[0] != 10 {
		return bad("protocol version")
	}
	i := indexByte(p[1:], 0)
	if i < 0 {
		return bad("server version")
	}
	g.Version = string(p[1 : 1+i])
	pos := 1 + i + 1
	if len(p)-pos < 4+8+1+2+1+2+2+1+10 {
		return bad("fixed part")
	}
	connID = binary.LittleEndian.Uint32(p[pos:])
	pos += 4
	g.Seed = append([]byte{}, p[pos:pos+8]...)
	pos += 9
	caps := uint32(binary.LittleEndian.Uint16(p[pos:]))
	pos += 2
	g.Charset = p[pos]
	pos++
	g.Status = binary.LittleEndian.Uint16(p[pos:])
	pos += 2
	caps |= uint32(binary.LittleEndian.Uint16(p[pos:])) << 16
	pos += 2
	seedLen := int(p[pos])
	pos++
	pos += 6
	g.MariaDB = caps&CapLongPassword == 0
	if g.MariaDB {
		g.ExtCaps = binary.LittleEndian.Uint32(p[pos:])
	}
	pos += 4
	g.Caps = caps
	if caps&CapSecureConn != 0 {
		n := seedLen - 9
		if n < 12 {
			n = 12
		}
		if len(p)-pos < n+1 {
			return bad("second part of the seed")
		}
		g.Seed = append(g.Seed, p[pos:pos+n]...)
		pos += n + 1
	}
	if caps&CapPluginAuth != 0 {
		j := indexByte(p[pos:], 0)
		if j < 0 {
			return bad("plugin name")
		}
		g.Plugin = string(p[pos : pos+j])
		pos += j + 1
	}
	if pos != len(p) {
		return bad(fmt.Sprintf("%d trailing bytes", len(p)-pos))
	}
	return g, connID, nil
}

// Login is a HandshakeResponse41.
type Login struct {
	Caps      uint32
	ExtCaps   uint32 // MariaDB extended client capabilities (transmitted when MariaDB is set)
	MariaDB   bool   // the server is MariaDB (no CLIENT_MYSQL bit): the last 4 reserved bytes carry ExtCaps
	MaxPacket uint32
	Charset   byte
	User      string
	Auth      []byte
	DB        string      // sent when CLIENT_CONNECT_WITH_DB
	Plugin    string      // sent when CLIENT_PLUGIN_AUTH
	Attrs     [][2]string // sent when CLIENT_CONNECT_ATTRS
}

// Encode renders the handshake response payload according to the capability bits it announces.
func (l Login) Encode() []byte {
	b := []byte{byte(l.Caps), byte(l.Caps >> 8), byte(l.Caps >> 16), byte(l.Caps >> 24)}
	b = append(b, byte(l.MaxPacket), byte(l.MaxPacket>>8), byte(l.MaxPacket>>16), byte(l.MaxPacket>>24))
	b = append(b, l.Charset)
	b = append(b, make([]byte, 19)...)
	if l.MariaDB {
		b = append(b, byte(l.ExtCaps), byte(l.ExtCaps>>8), byte(l.ExtCaps>>16), byte(l.ExtCaps>>24))
	} else {
		b = append(b, 0, 0, 0, 0)
	}
	b = append(b, l.User...)
	b = append(b, 0)
	switch {
	case l.Caps&CapPluginAuthLenc != 0:
		b = PutLenEncStr(b, l.Auth)
	case l.Caps&CapSecureConn != 0:
		b = append(b, byte(len(l.Auth)))
		b = append(b, l.Auth...)
	default:
		b = append(b, l.Auth...)
		b = append(b, 0)
	}
	if l.Caps&CapConnectWithDB != 0 {
		b = append(b, l.DB...)
		b = append(b, 0)
	}
	if l.Caps&CapPluginAuth != 0 {
		b = append(b, l.Plugin...)
		b = append(b, 0)
	}
	if l.Caps&CapConnectAttrs != 0 {
		var kv []byte
		for _, a := range l.Attrs {
			kv = PutLenEncStr(kv, []byte(a[0]))
			kv = PutLenEncStr(kv, []byte(a[1]))
		}
		b = PutLenEncStr(b, kv)
	}
	return b
}

// DecodeLogin parses a HandshakeResponse41 strictly. mariaDB tells whether the server announced itself without CLIENT_MYSQL.
func DecodeLogin(p []byte, mariaDB bool) (Login, error) {
	var l Login
	bad := func(what string) (Login, error) {
		return l, fmt.Errorf("%w: handshake response: %s", ErrMalformed, what)
	}
	if len(p) < 32 {
		return bad("fixed part")
	}
	l.Caps = binary.LittleEndian.Uint32(p)
	l.MaxPacket = binary.LittleEndian.Uint32(p[4:])
	l.Charset = p[8]
	l.MariaDB = mariaDB
	if mariaDB {
		l.ExtCaps = binary.LittleEndian.Uint32(p[28:])
	}
	pos := 32
	cstr := func() (string, bool) {
		i := indexByte(p[pos:], 0)
		if i < 0 {
			return "", false
		}
		s := string(p[pos : pos+i])
		pos += i + 1
		return s, true
	}
	var ok bool
	if l.User, ok = cstr(); !ok {
		return bad("user name")
	}
	switch {
	case l.Caps&CapPluginAuthLenc != 0:
		s, null, u, err := LenEncStr(p[pos:])
		if err != nil || null {
			return bad("length-encoded auth data")
		}
		l.Auth = append([]byte{}, s...)
		pos += u
	case l.Caps&CapSecureConn != 0:
		if len(p)-pos < 1 || len(p)-pos-1 < int(p[pos]) {
			return bad("auth data")
		}
		l.Auth = append([]byte{}, p[pos+1:pos+1+int(p[pos])]...)
		pos += 1 + int(p[pos])
	default:
		s, ok := cstr()
		if !ok {
			return bad("NUL-terminated auth data")
		}
		l.Auth = []byte(s)
	}
	if l.Caps&CapConnectWithDB != 0 {
		if l.DB, ok = cstr(); !ok {
			return bad("database name")
		}
	}
	if l.Caps&CapPluginAuth != 0 {
		if l.Plugin, ok = cstr(); !ok {
			return bad("plugin name")
		}
	}
	if l.Caps&CapConnectAttrs != 0 {
		kv, null, u, err := LenEncStr(p[pos:])
		if err != nil || null {
			return bad("connection attributes")
		}
		pos += u
		for q := 0; q < len(kv); {
			k, n1, u1, err1 := LenEncStr(kv[q:])
			if err1 != nil || n1 {
				return bad("connection attribute key")
			}
			q += u1
			v, n2, u2, err2 := LenEncStr(kv[q:])
			if err2 != nil || n2 {
				return bad("connection attribute value")
			}
			q += u2
			l.Attrs = append(l.Attrs, [2]string{string(k), string(v)})
		}
	}
	if pos != len(p) {
		return bad(fmt.Sprintf("%d trailing bytes", len(p)-pos))
	}
	return l, nil
}

// ExtEntry is one entry of the MariaDB extended type info block: Kind 0 = type name, 1 = format name.
type ExtEntry struct {
	Kind  byte
	Value string
}

// EncodeExtInfo renders the entries (the content of the block, without the length prefix of the block).
func EncodeExtInfo(entries []ExtEntry) string {
	var b []byte
	for _, e := range entries {
		b = append(b, e.Kind)
		b = PutLenEncStr(b, []byte(e.Value))
	}
	return string(b)
}

// DecodeExtInfo parses the content of an extended type info block.
func DecodeExtInfo(block []byte) ([]ExtEntry, error) {
	var out []ExtEntry
	for pos := 0; pos < len(block); {
		k := block[pos]
		pos++
		s, null, u, err := LenEncStr(block[pos:])
		if err != nil || null {
			return nil, fmt.Errorf("%w: extended type info entry %d", ErrMalformed, len(out))
		}
		pos += u
		out = append(out, ExtEntry{Kind: k, Value: string(s)})
	}
	return out, nil
}

// ColDefLayout locates the parts of a column definition payload (offsets into the payload).
type ColDefLayout struct {
	NamesEnd   int // end of catalog..org_name (six length-encoded strings)
	ExtEnd     int // end of the extended type info block including its length prefix (= NamesEnd when the block is not part of the layout)
	FixedEnd   int // end of the 0x0c marker + 12 bytes
	DefaultEnd int // end of the default value (COM_FIELD_LIST) = len(payload)
}

// EncodeCaps renders the column definition for a connection with (extTypeInfo) or without MARIADB_CLIENT_EXTENDED_TYPE_INFO in force.
// The extended block is c.ExtInfo with its length prefix (a single 0x00 when empty); HasDefault appends the default value
// (DefaultNull: the 0xfb marker) the way a COM_FIELD_LIST response does.
func (c ColDef) EncodeCaps(extTypeInfo bool) []byte {
	var b []byte
	cat := c.Catalog
	if cat == "" {
		cat = "def"
	}
	b = PutLenEncStr(b, []byte(cat))
	b = PutLenEncStr(b, []byte(c.Schema))
	b = PutLenEncStr(b, []byte(c.Table))
	b = PutLenEncStr(b, []byte(c.OrgTable))
	b = PutLenEncStr(b, []byte(c.Name))
	b = PutLenEncStr(b, []byte(c.OrgName))
	if extTypeInfo {
		b = PutLenEncStr(b, []byte(c.ExtInfo))
	}
	b = append(b, 0x0c)
	b = append(b, byte(c.Charset), byte(c.Charset>>8))
	b = append(b, byte(c.Length), byte(c.Length>>8), byte(c.Length>>16), byte(c.Length>>24))
	b = append(b, c.Type)
	b = append(b, byte(c.Flags), byte(c.Flags>>8))
	b = append(b, c.Decimals, 0, 0)
	if c.HasDefault {
		if c.DefaultNull {
			b = append(b, 0xfb)
		} else {
			b = PutLenEncStr(b, []byte(c.Default))
		}
	}
	return b
}

// DecodeColDefCaps parses a column definition payload strictly under the given capability: every byte must be accounted for,
// the extended block must be a sequence of well-formed entries, the filler must be zero.
func DecodeColDefCaps(p []byte, extTypeInfo bool) (ColDef, ColDefLayout, error) {
	var c ColDef
	var lay ColDefLayout
	pos := 0
	for i := 0; i < 6; i++ {
		s, null, u, err := LenEncStr(p[pos:])
		if err != nil || null {
			return c, lay, fmt.Errorf("%w: column definition: name field %d at offset %d", ErrMalformed, i, pos)
		}
		pos += u
		switch i {
		case 0:
			c.Catalog = string(s)
		case 1:
			c.Schema = string(s)
		case 2:
			c.Table = string(s)
		case 3:
			c.OrgTable = string(s)
		case 4:
			c.Name = string(s)
		case 5:
			c.OrgName = string(s)
		}
	}
	lay.NamesEnd = pos
	if extTypeInfo {
		s, null, u, err := LenEncStr(p[pos:])
		if err != nil || null {
			return c, lay, fmt.Errorf("%w: column definition: extended type info block at offset %d", ErrMalformed, pos)
		}
		if _, err := DecodeExtInfo(s); err != nil {
			return c, lay, err
		}
		c.ExtInfo = string(s)
		pos += u
	}
	lay.ExtEnd = pos
	if len(p)-pos < 13 || p[pos] != 0x0c {
		return c, lay, fmt.Errorf("%w: column definition: %d bytes at offset %d where the 0x0c marker and 12 fixed bytes must be", ErrMalformed, len(p)-pos, pos)
	}
	pos++
	c.Charset = binary.LittleEndian.Uint16(p[pos:])
	c.Length = binary.LittleEndian.Uint32(p[pos+2:])
	c.Type = p[pos+6]
	c.Flags = binary.LittleEndian.Uint16(p[pos+7:])
	c.Decimals = p[pos+9]
	if p[pos+10] != 0 || p[pos+11] != 0 {
		return c, lay, fmt.Errorf("%w: column definition: filler bytes are %02x %02x", ErrMalformed, p[pos+10], p[pos+11])
	}
	pos += 12
	lay.FixedEnd = pos
	if pos < len(p) {
		s, null, u, err := LenEncStr(p[pos:])
		if err != nil {
			return c, lay, fmt.Errorf("%w: column definition: default value at offset %d", ErrMalformed, pos)
		}
		c.HasDefault, c.DefaultNull, c.Default = true, null, string(s)
		pos += u
	}
	lay.DefaultEnd = pos
	if pos != len(p) {
		return c, lay, fmt.Errorf("%w: column definition: %d trailing bytes", ErrMalformed, len(p)-pos)
	}
	return c, lay, nil
}

// ColumnCountPacket renders the first packet of a result set; with MARIADB_CLIENT_CACHE_METADATA in force a byte follows
// that tells whether the column definitions follow.
func ColumnCountPacket(n int, cacheMetadata, metadataFollows bool) []byte {
	b := PutLenEncInt(nil, uint64(n))
	if cacheMetadata {
		if metadataFollows {
			b = append(b, 1)
		} else {
			b = append(b, 0)
		}
	}
	return b
}

// DecodeColumnCount parses the first packet of a result set.
func DecodeColumnCount(p []byte, cacheMetadata bool) (n int, metadataFollows bool, err error) {
	v, null, u, err := LenEncInt(p)
	if err != nil || null {
		return 0, false, fmt.Errorf("%w: column count", ErrMalformed)
	}
	metadataFollows = true
	if cacheMetadata {
		if len(p) != u+1 || p[u] > 1 {
			return 0, false, fmt.Errorf("%w: column count packet without the metadata-follows byte", ErrMalformed)
		}
		metadataFollows = p[u] == 1
		u++
	}
	if u != len(p) {
		return 0, false, fmt.Errorf("%w: column count packet has %d trailing bytes", ErrMalformed, len(p)-u)
	}
	return int(v), metadataFollows, nil
}

// OKPacketCaps renders an OK packet; with CLIENT_SESSION_TRACK in force the info is a length-encoded string and, when
// status carries SERVER_SESSION_STATE_CHANGED, the session state information follows as a second length-encoded string.
func OKPacketCaps(header byte, affected, lastID uint64, status, warnings uint16, info string, sessionTrack bool, state []byte) []byte {
	if !sessionTrack {
		return OKPacket(header, affected, lastID, status, warnings, info)
	}
	if state != nil {
		status |= StatusSessionStateChanged
	}
	b := []byte{header}
	b = PutLenEncInt(b, affected)
	b = PutLenEncInt(b, lastID)
	b = append(b, byte(status), byte(status>>8), byte(warnings), byte(warnings>>8))
	if info != "" || state != nil {
		b = PutLenEncStr(b, []byte(info))
	}
	if state != nil {
		b = PutLenEncStr(b, state)
	}
	return b
}

// SessionStateSchema renders a SESSION_TRACK_SCHEMA entry.
func SessionStateSchema(schema string) []byte {
	inner := PutLenEncStr(nil, []byte(schema))
	return PutLenEncStr([]byte{0x01}, inner)
}

// SessionStateVariable renders a SESSION_TRACK_SYSTEM_VARIABLES entry.
func SessionStateVariable(name, value string) []byte {
	inner := PutLenEncStr(nil, []byte(name))
	inner = PutLenEncStr(inner, []byte(value))
	return PutLenEncStr([]byte{0x00}, inner)
}
