package proxyrig

import (
	"context"
	"crypto/ecdsa"
	"crypto/elliptic"
	"crypto/rand"
	"crypto/tls"
	"crypto/x509"
	"crypto/x509/pkix"
	"fmt"
	"math/big"
	"net"
	"os"
	"syscall"
	"time"

	acracensor "github.com/cossacklabs/acra/acra-censor"
	"github.com/cossacklabs/acra/cmd/acra-server/common"
	"github.com/cossacklabs/acra/crypto"
	"github.com/cossacklabs/acra/decryptor/base"
	"github.com/cossacklabs/acra/decryptor/mysql"
	"github.com/cossacklabs/acra/decryptor/postgresql"
	encryptorConfig "github.com/cossacklabs/acra/encryptor/base/config"
	"github.com/cossacklabs/acra/network"
	"github.com/cossacklabs/acra/poison"
	"github.com/cossacklabs/acra/pseudonymization"
	"github.com/cossacklabs/acra/pseudonymization/storage"
	"github.com/cossacklabs/acra/sqlparser"
	"github.com/jackc/pgx/v5/pgproto3"
)

// TLSKit is a throw-away PKI: one CA, one server certificate (localhost / 127.0.0.1; used by AcraServer towards
// applications and by the fake databases), AcraServer's client certificate towards the database, and one client
// certificate per application identity.
type TLSKit struct {
	Pool    *x509.CertPool
	Server  tls.Certificate
	AcraDB  tls.Certificate
	Clients map[string]tls.Certificate
	// IDs is the client id AcraServer derives from each application certificate (distinguished-name extractor, hex converter:
	// what acra-server configures for --tls_client_id_from_cert).
	IDs map[string][]byte
}

func newLeaf(ca *x509.Certificate, caKey *ecdsa.PrivateKey, serial int64, cn string, server bool) (tls.Certificate, *x509.Certificate, error) {
	key, err := ecdsa.GenerateKey(elliptic.P256(), rand.Reader)
	if err != nil {
		return tls.Certificate{}, nil, err
	}
	tpl := &x509.Certificate{
		SerialNumber: big.NewInt(serial),
		Subject:      pkix.Name{CommonName: cn, Organization: []string{"verif harness"}, Country: []string{"GB"}},
		NotBefore:    time.Now().Add(-time.Hour),
		NotAfter:     time.Now().Add(24 * time.Hour),
		KeyUsage:     x509.KeyUsageDigitalSignature,
	}
	if server {
		tpl.ExtKeyUsage = []x509.ExtKeyUsage{x509.ExtKeyUsageServerAuth}
		tpl.DNSNames = []string{"localhost"}
		tpl.IPAddresses = []net.IP{net.ParseIP("127.0.0.1")}
	} else {
		tpl.ExtKeyUsage = []x509.ExtKeyUsage{x509.ExtKeyUsageClientAuth}
	}
	der, err := x509.CreateCertificate(rand.Reader, tpl, ca, &key.PublicKey, caKey)
	if err != nil {
		return tls.Certificate{}, nil, err
	}
	parsed, err := x509.ParseCertificate(der)
	if err != nil {
		return tls.Certificate{}, nil, err
	}
	return tls.Certificate{Certificate: [][]byte{der}, PrivateKey: key, Leaf: parsed}, parsed, nil
}

// TLSClientIDExtractor is the extractor acra-server builds for --tls_client_id_from_cert with default options.
func TLSClientIDExtractor() (network.TLSClientIDExtractor, error) {
	conv, err := network.NewDefaultHexIdentifierConverter()
	if err != nil {
		return nil, err
	}
	ext, err := network.NewIdentifierExtractorByType(network.DefaultIdentifierExtractorTypeDistinguishedName)
	if err != nil {
		return nil, err
	}
	return network.NewTLSClientIDExtractor(ext, conv)
}

// NewTLSKit creates the PKI with one application certificate per name.
func NewTLSKit(names ...string) (*TLSKit, error) {
	caKey, err := ecdsa.GenerateKey(elliptic.P256(), rand.Reader)
	if err != nil {
		return nil, err
	}
	caTpl := &x509.Certificate{SerialNumber: big.NewInt(1), Subject: pkix.Name{CommonName: "verif harness CA"}, NotBefore: time.Now().Add(-time.Hour), NotAfter: time.Now().Add(24 * time.Hour),
		IsCA: true, BasicConstraintsValid: true, KeyUsage: x509.KeyUsageCertSign | x509.KeyUsageDigitalSignature}
	caDER, err := x509.CreateCertificate(rand.Reader, caTpl, caTpl, &caKey.PublicKey, caKey)
	if err != nil {
		return nil, err
	}
	ca, err := x509.ParseCertificate(caDER)
	if err != nil {
		return nil, err
	}
	k := &TLSKit{Pool: x509.NewCertPool(), Clients: map[string]tls.Certificate{}, IDs: map[string][]byte{}}
	k.Pool.AddCert(ca)
	if k.Server, _, err = newLeaf(ca, caKey, 2, "localhost", true); err != nil {
		return nil, err
	}
	if k.AcraDB, _, err = newLeaf(ca, caKey, 3, "acra-server database side", false); err != nil {
		return nil, err
	}
	ex, err := TLSClientIDExtractor()
	if err != nil {
		return nil, err
	}
	for i, n := range names {
		c, parsed, err := newLeaf(ca, caKey, int64(10+i), "application "+n, false)
		if err != nil {
			return nil, err
		}
		k.Clients[n] = c
		if k.IDs[n], err = ex.ExtractClientID(parsed); err != nil {
			return nil, err
		}
	}
	return k, nil
}

// ServerConfig is the TLS configuration of a server that demands a client certificate of this PKI.
func (k *TLSKit) ServerConfig() *tls.Config {
	return &tls.Config{Certificates: []tls.Certificate{k.Server}, ClientCAs: k.Pool, ClientAuth: tls.RequireAndVerifyClientCert, MinVersion: tls.VersionTLS12}
}

// ClientConfig is the TLS configuration of an application presenting the named certificate.
func (k *TLSKit) ClientConfig(name string) *tls.Config {
	return &tls.Config{Certificates: []tls.Certificate{k.Clients[name]}, RootCAs: k.Pool, ServerName: "localhost", MinVersion: tls.VersionTLS12}
}

// TLSOpts configures the identity side of StartTLS.
type TLSOpts struct {
	Kit *TLSKit
	// StaticClientID is acra-server's --client_id ("" = none).
	StaticClientID []byte
	// IDFromCert is --tls_client_id_from_cert.
	IDFromCert bool
}

// StartTLS launches an AcraServer the way cmd/acra-server wires it when TLS is configured: static client id (if any) for the
// raw connection, a TLS wrapper (application side: server certificate + mandatory client certificate; database side: client
// certificate) handed to the proxies for in-protocol TLS upgrades, client id from the certificate when asked for.
func StartTLS(o Opts, t TLSOpts) (*Acra, error) {
	registryOnce.Do(func() {
		if err := crypto.InitRegistry(o.KS); err != nil {
			panic(err)
		}
	})
	schema, err := encryptorConfig.MapTableSchemaStoreFromConfig([]byte(o.SchemaYAML), o.MySQL)
	if err != nil {
		return nil, fmt.Errorf("schema: %w", err)
	}
	cfg, err := common.NewConfig()
	if err != nil {
		return nil, err
	}
	cfg.SetDBConnectionSettings("127.0.0.1", o.DBPort)
	if err := cfg.SetDatabaseType(o.MySQL, !o.MySQL); err != nil {
		return nil, err
	}
	SetDialect(o.MySQL)
	cfg.SetUseClientIDFromCertificate(t.IDFromCert)
	if err := cfg.SetStaticClientID(t.StaticClientID); err != nil {
		return nil, err
	}
	extractor, err := TLSClientIDExtractor()
	if err != nil {
		return nil, err
	}
	cfg.SetTLSClientIDExtractor(extractor)
	dbSide := &tls.Config{Certificates: []tls.Certificate{t.Kit.AcraDB}, RootCAs: t.Kit.Pool, ServerName: "localhost", MinVersion: tls.VersionTLS12}
	tlsWrapper, err := network.NewTLSAuthenticationConnectionWrapper(t.IDFromCert, dbSide, t.Kit.ServerConfig(), extractor)
	if err != nil {
		return nil, err
	}
	proxyTLS := base.NewTLSConnectionWrapper(t.IDFromCert, tlsWrapper)
	cfg.SetKeyStore(o.KS)
	cfg.SetTableSchema(schema)
	ln, err := net.Listen("tcp", "127.0.0.1:0")
	if err != nil {
		return nil, err
	}
	port := ln.Addr().(*net.TCPAddr).Port
	lf, err := ln.(*net.TCPListener).File()
	if err != nil {
		ln.Close()
		return nil, err
	}
	fd, err := syscall.Dup(int(lf.Fd()))
	lf.Close()
	ln.Close()
	if err != nil {
		return nil, err
	}
	cfg.SetAcraConnectionString(fmt.Sprintf("tcp://127.0.0.1:%d", port))
	censor := acracensor.NewAcraCensor()
	cb := o.Poison
	if cb == nil {
		cb = poison.NewCallbackStorage()
	}
	cfg.SetDetectPoisonRecords(cb.HasCallbacks())
	ts := o.TokenStore
	if ts == nil {
		if ts, err = storage.NewMemoryTokenStorage(); err != nil {
			return nil, err
		}
	}
	tokenizer, err := pseudonymization.NewPseudoanonymizer(ts)
	if err != nil {
		return nil, err
	}
	setting := base.NewProxySetting(sqlparser.New(sqlparser.ModeDefault), schema, o.KS, proxyTLS, censor, cb)
	var factory base.ProxyFactory
	if o.MySQL {
		factory, err = mysql.NewProxyFactory(setting, o.KS, tokenizer)
	} else {
		factory, err = postgresql.NewProxyFactory(setting, o.KS, tokenizer)
	}
	if err != nil {
		return nil, err
	}
	a := &Acra{Port: port, Censor: censor}
	errCh := make(chan os.Signal, 2)
	server, err := common.NewEEAcraServerMainComponent(cfg, &capFactory{inner: factory, a: a}, errCh, errCh)
	if err != nil {
		return nil, err
	}
	a.server = server
	ctx, cancel := context.WithCancel(context.Background())
	a.cancel = cancel
	go server.StartFromFileDescriptor(ctx, uintptr(fd))
	return a, nil
}

// DialPGTLS connects, asks for TLS inside the PostgreSQL protocol (SSLRequest), completes the handshake with the given client
// configuration (client certificate) and performs the startup exchange over TLS. Recorded streams are the plaintext ones.
func DialPGTLS(port int, cfg *tls.Config) (*PGClient, error) {
	var conn net.Conn
	var err error
	for i := 0; i < 600; i++ {
		conn, err = net.DialTimeout("tcp", fmt.Sprintf("127.0.0.1:%d", port), time.Second)
		if err == nil {
			break
		}
		time.Sleep(5 * time.Millisecond)
	}
	if err != nil {
		return nil, err
	}
	conn.SetDeadline(time.Now().Add(Timeout))
	if _, err := conn.Write([]byte{0, 0, 0, 8, 4, 210, 22, 47}); err != nil {
		conn.Close()
		return nil, err
	}
	var ans [1]byte
	if _, err := conn.Read(ans[:]); err != nil {
		conn.Close()
		return nil, err
	}
	if ans[0] != 'S' {
		conn.Close()
		return nil, fmt.Errorf("SSLRequest answered with %q", ans[0])
	}
	tc := tls.Client(conn, cfg)
	if err := tc.Handshake(); err != nil {
		conn.Close()
		return nil, fmt.Errorf("tls handshake: %w", err)
	}
	conn.SetDeadline(time.Time{})
	c := &PGClient{conn: tc}
	rc := &recConn{Conn: tc, c: c}
	c.fe = pgproto3.NewFrontend(rc, rc)
	c.fe.Send(&pgproto3.StartupMessage{ProtocolVersion: pgproto3.ProtocolVersionNumber, Parameters: map[string]string{"user": "app", "database": "db"}})
	if err := c.fe.Flush(); err != nil {
		tc.Close()
		return nil, err
	}
	if _, err := c.ReadUntilReady(); err != nil {
		tc.Close()
		return nil, err
	}
	return c, nil
}
