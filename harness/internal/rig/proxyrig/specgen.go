package proxyrig

import (
	"fmt"
	"strings"

	"verif/harness/internal/gen"
	"verif/harness/internal/rig/fakepg"
)

// Catalogue of column configurations the generator draws from.
func catalogue(other string) []ColSpec {
	return []ColSpec{
		{Name: "e_as", Kind: "enc", Envelope: "acrastruct", AppType: fakepg.Bytea, StoreType: fakepg.Bytea},
		{Name: "e_ab", Kind: "enc", Envelope: "acrablock", AppType: fakepg.Bytea, StoreType: fakepg.Bytea},
		{Name: "e_as_str", Kind: "enc", Envelope: "acrastruct", DataType: "str", AppType: fakepg.Text, StoreType: fakepg.Bytea},
		{Name: "e_ab_str", Kind: "enc", Envelope: "acrablock", DataType: "str", AppType: fakepg.Text, StoreType: fakepg.Bytea},
		{Name: "e_ab_bytes", Kind: "enc", Envelope: "acrablock", DataType: "bytes", AppType: fakepg.Bytea, StoreType: fakepg.Bytea},
		{Name: "e_ab_i32", Kind: "enc", Envelope: "acrablock", DataType: "int32", AppType: fakepg.Int4, StoreType: fakepg.Bytea},
		{Name: "e_as_i64", Kind: "enc", Envelope: "acrastruct", DataType: "int64", AppType: fakepg.Int8, StoreType: fakepg.Bytea},
		{Name: "s_as", Kind: "search", Envelope: "acrastruct", AppType: fakepg.Bytea, StoreType: fakepg.Bytea},
		{Name: "s_ab", Kind: "search", Envelope: "acrablock", AppType: fakepg.Bytea, StoreType: fakepg.Bytea},
		{Name: "s_ab_str", Kind: "search", Envelope: "acrablock", DataType: "str", AppType: fakepg.Text, StoreType: fakepg.Bytea},
		{Name: "m_ab", Kind: "mask", Envelope: "acrablock", MaskPat: "xxxx", MaskLen: 3, MaskSide: "left", AppType: fakepg.Bytea, StoreType: fakepg.Bytea},
		{Name: "m_ab_str", Kind: "mask", Envelope: "acrablock", DataType: "str", MaskPat: "**", MaskLen: 4, MaskSide: "right", AppType: fakepg.Text, StoreType: fakepg.Bytea},
		{Name: "m_as", Kind: "mask", Envelope: "acrastruct", MaskPat: "#", MaskLen: 2, MaskSide: "right", AppType: fakepg.Bytea, StoreType: fakepg.Bytea},
		{Name: "t_i32", Kind: "token", TokenType: "int32", Consist: true, AppType: fakepg.Int4, StoreType: fakepg.Int4},
		{Name: "t_i64", Kind: "token", TokenType: "int64", Consist: false, AppType: fakepg.Int8, StoreType: fakepg.Int8},
		{Name: "t_str", Kind: "token", TokenType: "str", Consist: true, AppType: fakepg.Text, StoreType: fakepg.Text},
		{Name: "t_bytes", Kind: "token", TokenType: "bytes", Consist: false, AppType: fakepg.Bytea, StoreType: fakepg.Bytea},
		{Name: "t_email", Kind: "token", TokenType: "email", Consist: true, AppType: fakepg.Text, StoreType: fakepg.Text},
		{Name: "e_other", Kind: "enc", Envelope: "acrablock", ClientID: other, AppType: fakepg.Bytea, StoreType: fakepg.Bytea},
	}
}

// GenTables draws 1..n tables, each with three unconfigured columns (id int4, note text, raw bytea) and 2..6 configured ones.
// filter, when non-nil, restricts the catalogue.
func GenTables(r *gen.Rand, n int, other string, filter func(ColSpec) bool) []TableSpec {
	cat := catalogue(other)
	if filter != nil {
		var c2 []ColSpec
		for _, c := range cat {
			if filter(c) {
				c2 = append(c2, c)
			}
		}
		cat = c2
	}
	var out []TableSpec
	for ti := 0; ti < n; ti++ {
		t := TableSpec{Name: fmt.Sprintf("tab%d", ti+1)}
		t.Cols = append(t.Cols,
			ColSpec{Name: "id", AppType: fakepg.Int4, StoreType: fakepg.Int4},
			ColSpec{Name: "note", AppType: fakepg.Text, StoreType: fakepg.Text},
		)
		k := 2 + r.Intn(5)
		perm := r.Perm(len(cat))
		if k > len(cat) {
			k = len(cat)
		}
		for _, pi := range perm[:k] {
			t.Cols = append(t.Cols, cat[pi])
		}
		t.Cols = append(t.Cols, ColSpec{Name: "raw", AppType: fakepg.Bytea, StoreType: fakepg.Bytea})
		// shuffle the non-id columns so configured columns sit at varying positions
		rest := t.Cols[1:]
		r.Shuffle(len(rest), func(i, j int) { rest[i], rest[j] = rest[j], rest[i] })
		out = append(out, t)
	}
	return out
}

// GenColVal draws a value suitable for the column (e-mail shape for e-mail tokens).
func GenColVal(r *gen.Rand, c ColSpec) Val {
	if c.Kind == "token" && c.TokenType == "email" {
		if r.Intn(12) == 0 {
			return Val{Null: true, Type: fakepg.Text}
		}
		markerSeq++
		return Val{Type: fakepg.Text, S: fmt.Sprintf("mk%08x%04x@example%d.com", r.Uint32(), markerSeq&0xffff, r.Intn(100))}
	}
	v := GenVal(r, c.AppType, c.Name != "id")
	if c.Kind == "token" && !v.Null {
		// empty strings/bytes cannot be tokenized to an equal-length different value; keep them non-empty
		if c.AppType == fakepg.Text && v.S == "" {
			v.S = "tok" + strings.Repeat("z", 1+r.Intn(5))
		}
		if c.AppType == fakepg.Bytea && len(v.B) == 0 {
			v.B = gen.Bytes(r, 4+r.Intn(8))
		}
	}
	return percentClass(v, c)
}

var percentSeq int

// percentClass turns every fifth value written to an encrypted / searchable / masked text or bytea column into one carrying runs
// of '%' (the first byte of the serialized-container tag "%%%") at the places where they meet a container: at the start and the
// end of the value and, for masked columns, on both sides of the boundary between the visible window and the hidden part
// (visible part ending in %, %%, %%%; hidden part starting with them; %%%% straddling the boundary). The choice is made from
// a counter, not from the PRNG, so that the streams of all generators stay what they were.
func percentClass(v Val, c ColSpec) Val {
	if v.Null || (c.Kind != "enc" && c.Kind != "search" && c.Kind != "mask") || (c.AppType != fakepg.Text && c.AppType != fakepg.Bytea) {
		return v
	}
	percentSeq++
	if percentSeq%5 != 0 {
		return v
	}
	class := percentSeq / 5
	b := v.Bytes()
	run := strings.Repeat("%", 1+class%4) // %, %%, %%%, %%%%
	var out []byte
	if c.Kind == "mask" {
		n := c.MaskLen
		fill := func(k int) string {
			if k <= 0 {
				return ""
			}
			return strings.Repeat("w", k)
		}
		visible := run
		if len(visible) > n {
			visible = visible[:n]
		}
		switch (class / 4) % 4 {
		case 0: // visible window ends with the run
			if c.MaskSide == "left" {
				out = append([]byte(fill(n-len(visible))+visible), b...)
			} else {
				out = append(append([]byte{}, b...), []byte(visible+fill(n-len(visible)))...)
			}
		case 1: // hidden part touches the window with the run
			if c.MaskSide == "left" {
				out = append([]byte(fill(n)+run), b...)
			} else {
				out = append(append([]byte{}, b...), []byte(run+fill(n))...)
			}
		case 2: // the run straddles the boundary
			if c.MaskSide == "left" {
				out = append([]byte(fill(n-1)+"%"+run), b...)
			} else {
				out = append(append([]byte{}, b...), []byte(run+"%"+fill(n-1))...)
			}
		default: // the run at the far end of the value
			if c.MaskSide == "left" {
				out = append(append([]byte{}, b...), []byte(run)...)
			} else {
				out = append([]byte(run), b...)
			}
		}
	} else {
		switch (class / 4) % 3 {
		case 0:
			out = append([]byte(run), b...)
		case 1:
			out = append(append([]byte{}, b...), []byte(run)...)
		default:
			out = append(append([]byte(run), b...), []byte(run)...)
		}
	}
	if v.Type == fakepg.Text {
		v.S = string(out)
	} else {
		v.B = out
	}
	return v
}
