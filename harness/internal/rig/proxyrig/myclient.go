package proxyrig

import (
	"context"
	"crypto/tls"
	"database/sql"
	"errors"
	"fmt"
	"net"
	"strconv"
	"strings"
	"sync"
	"time"

	"github.com/go-sql-driver/mysql"
)

// MyRec records every byte a MySQL client connection sends and receives.
type MyRec struct {
	mu       sync.Mutex
	in, out  []byte
	timedOut bool
	noRecord bool
	raw      net.Conn
	poisoned bool // the client library panicked while using the connection: its locks may be held, only the socket is closed
}

// Mark is a position in both recorded streams.
type Mark struct{ In, Out int }

// Mark returns the current stream positions.
func (r *MyRec) Mark() Mark { r.mu.Lock(); defer r.mu.Unlock(); return Mark{len(r.in), len(r.out)} }

// Since returns the bytes sent and received after a mark.
func (r *MyRec) Since(m Mark) (sent, received []byte) {
	r.mu.Lock()
	defer r.mu.Unlock()
	return append([]byte{}, r.out[m.Out:]...), append([]byte{}, r.in[m.In:]...)
}

// RawIn returns every byte received so far.
func (r *MyRec) RawIn() []byte { r.mu.Lock(); defer r.mu.Unlock(); return append([]byte{}, r.in...) }

// RawOut returns every byte sent so far.
func (r *MyRec) RawOut() []byte { r.mu.Lock(); defer r.mu.Unlock(); return append([]byte{}, r.out...) }

// TimedOut reports whether the read watchdog fired on this connection.
func (r *MyRec) TimedOut() bool { r.mu.Lock(); defer r.mu.Unlock(); return r.timedOut }

type myRecConn struct {
	net.Conn
	rec *MyRec
}

func (c *myRecConn) Read(p []byte) (int, error) {
	c.Conn.SetReadDeadline(time.Now().Add(Timeout))
	n, err := c.Conn.Read(p)
	c.rec.mu.Lock()
	if n > 0 {
		c.rec.in = append(c.rec.in, p[:n]...)
	}
	if ne, ok := err.(net.Error); ok && ne.Timeout() {
		c.rec.timedOut = true
	}
	c.rec.mu.Unlock()
	return n, err
}

func (c *myRecConn) Write(p []byte) (int, error) {
	c.rec.mu.Lock()
	c.rec.out = append(c.rec.out, p...)
	c.rec.mu.Unlock()
	return c.Conn.Write(p)
}

var (
	myDialOnce sync.Once
	myRecs     sync.Map // "port/id" -> *MyRec
	myRecSeq   int
	myRecMu    sync.Mutex
)

func registerMyDial() {
	myDialOnce.Do(func() {
		mysql.SetLogger(nopLogger{})
		mysql.RegisterDialContext("verifrec", func(ctx context.Context, addr string) (net.Conn, error) {
			v, ok := myRecs.Load(addr)
			if !ok {
				return nil, fmt.Errorf("proxyrig: no recorder registered for %q", addr)
			}
			port := addr[:strings.IndexByte(addr, '/')]
			var conn net.Conn
			var err error
			for i := 0; i < 600; i++ {
				conn, err = net.DialTimeout("tcp", "127.0.0.1:"+port, time.Second)
				if err == nil {
					break
				}
				time.Sleep(5 * time.Millisecond)
			}
			if err != nil {
				return nil, err
			}
			rec := v.(*MyRec)
			rec.mu.Lock()
			rec.raw = conn
			rec.mu.Unlock()
			return &myRecConn{Conn: conn, rec: rec}, nil
		})
	})
}

type nopLogger struct{}

func (nopLogger) Print(v ...interface{}) {}

// MyClient is one MySQL session of the stock go-sql-driver/mysql client (through database/sql) over a recorded connection.
type MyClient struct {
	*MyRec
	db   *sql.DB
	conn *sql.Conn
	addr string
}

// DialMy opens one session (one pinned connection). maxPacket is the driver's maxAllowedPacket (0 = driver default 4 MiB).
func DialMy(port int, maxPacket int) (*MyClient, error) { return DialMyTLS(port, maxPacket, nil) }

var myTLSSeq int

// DialMyTLS is DialMy with the driver's in-protocol TLS upgrade (SSL request in the handshake) using the given client
// configuration; nil = no TLS. The recorded byte streams are then the encrypted ones.
func DialMyTLS(port int, maxPacket int, tlsCfg *tls.Config) (*MyClient, error) {
	registerMyDial()
	myRecMu.Lock()
	myRecSeq++
	addr := fmt.Sprintf("%d/%d", port, myRecSeq)
	myRecMu.Unlock()
	rec := &MyRec{}
	myRecs.Store(addr, rec)
	dsn := fmt.Sprintf("app:pw@verifrec(%s)/db?interpolateParams=false", addr)
	if maxPacket > 0 {
		dsn += "&maxAllowedPacket=" + strconv.Itoa(maxPacket)
	}
	if tlsCfg != nil {
		myRecMu.Lock()
		myTLSSeq++
		name := fmt.Sprintf("verif-tls-%d", myTLSSeq)
		myRecMu.Unlock()
		if err := mysql.RegisterTLSConfig(name, tlsCfg); err != nil {
			return nil, err
		}
		defer mysql.DeregisterTLSConfig(name)
		dsn += "&tls=" + name
	}
	db, err := sql.Open("mysql", dsn)
	if err != nil {
		myRecs.Delete(addr)
		return nil, err
	}
	db.SetMaxOpenConns(1)
	db.SetConnMaxLifetime(0)
	conn, err := db.Conn(context.Background())
	if err != nil {
		db.Close()
		myRecs.Delete(addr)
		return nil, err
	}
	return &MyClient{MyRec: rec, db: db, conn: conn, addr: addr}, nil
}

// Close ends the session (COM_QUIT).
func (c *MyClient) Close() {
	c.MyRec.mu.Lock()
	poisoned, raw := c.MyRec.poisoned, c.MyRec.raw
	c.MyRec.mu.Unlock()
	myRecs.Delete(c.addr)
	if poisoned {
		if raw != nil {
			raw.Close()
		}
		return
	}
	c.conn.Close()
	c.db.Close()
}

var errPoisoned = fmt.Errorf("proxyrig: connection abandoned after a client driver panic")

// dead reports (and records in res) that the connection was abandoned after a driver panic.
func (c *MyClient) dead(res *MyResult) bool {
	c.MyRec.mu.Lock()
	p := c.MyRec.poisoned
	c.MyRec.mu.Unlock()
	if p {
		res.Err, res.Broken, res.DriverPanic = errPoisoned, true, true
	}
	return p
}

// guard turns a panic of the client library (it indexes into malformed packets) into a broken-connection result.
func (c *MyClient) guard(res *MyResult) {
	if p := recover(); p != nil {
		c.MyRec.mu.Lock()
		c.MyRec.poisoned = true
		c.MyRec.mu.Unlock()
		res.Err = fmt.Errorf("client driver panicked on what it received: %v", p)
		res.Broken = true
		res.DriverPanic = true
	}
}

// MyCol describes a result column as the application sees it.
type MyCol struct {
	Name   string
	DBType string // database/sql DatabaseTypeName: INT, BIGINT, VARCHAR, BLOB, ...
}

// MyVal is one result value as the driver delivered it.
type MyVal struct {
	Null bool
	Kind string // bytes | int64 | uint64 | float | other
	B    []byte // bytes, or the decimal rendering of an integer
}

func (v MyVal) String() string {
	if v.Null {
		return "NULL"
	}
	if len(v.B) > 48 {
		return fmt.Sprintf("%s:%x...(%d)", v.Kind, v.B[:48], len(v.B))
	}
	return fmt.Sprintf("%s:%x", v.Kind, v.B)
}

// MyResult is the outcome of one statement.
type MyResult struct {
	Err      error
	ErrNo    uint16 // MySQL error number when the server (or Acra) answered with an ERR packet
	ErrMsg   string
	Affected int64
	Cols     []MyCol
	Rows     [][]MyVal
	Broken   bool // the connection is no longer usable
	Timeout  bool
	// DriverPanic: go-sql-driver panicked while decoding what it received (malformed packet)
	DriverPanic bool
}

func (c *MyClient) classify(res *MyResult, err error) {
	if err == nil {
		return
	}
	res.Err = err
	var me *mysql.MySQLError
	if errors.As(err, &me) {
		res.ErrNo, res.ErrMsg = me.Number, me.Message
		return
	}
	res.Broken = true
	res.Timeout = c.TimedOut()
}

func readRows(rows *sql.Rows, res *MyResult) error {
	cts, err := rows.ColumnTypes()
	if err != nil {
		return err
	}
	for _, ct := range cts {
		res.Cols = append(res.Cols, MyCol{Name: ct.Name(), DBType: ct.DatabaseTypeName()})
	}
	for rows.Next() {
		vals := make([]interface{}, len(cts))
		ptrs := make([]interface{}, len(cts))
		for i := range vals {
			ptrs[i] = &vals[i]
		}
		if err := rows.Scan(ptrs...); err != nil {
			return err
		}
		row := make([]MyVal, len(vals))
		for i, v := range vals {
			switch x := v.(type) {
			case nil:
				row[i] = MyVal{Null: true}
			case []byte:
				row[i] = MyVal{Kind: "bytes", B: append([]byte{}, x...)}
			case string:
				row[i] = MyVal{Kind: "bytes", B: []byte(x)}
			case int64:
				row[i] = MyVal{Kind: "int64", B: []byte(strconv.FormatInt(x, 10))}
			case uint64:
				row[i] = MyVal{Kind: "uint64", B: []byte(strconv.FormatUint(x, 10))}
			case float32:
				row[i] = MyVal{Kind: "float", B: []byte(strconv.FormatFloat(float64(x), 'g', -1, 32))}
			case float64:
				row[i] = MyVal{Kind: "float", B: []byte(strconv.FormatFloat(x, 'g', -1, 64))}
			default:
				row[i] = MyVal{Kind: "other", B: []byte(fmt.Sprint(x))}
			}
		}
		res.Rows = append(res.Rows, row)
	}
	return rows.Err()
}

// Query runs a statement that returns rows: without args as COM_QUERY (text protocol), with args as
// COM_STMT_PREPARE + COM_STMT_EXECUTE + COM_STMT_CLOSE (binary protocol).
func (c *MyClient) Query(q string, args ...interface{}) (res *MyResult) {
	res = &MyResult{}
	if c.dead(res) {
		return
	}
	defer c.guard(res)
	rows, err := c.conn.QueryContext(context.Background(), q, args...)
	if err != nil {
		c.classify(res, err)
		return res
	}
	err = readRows(rows, res)
	rows.Close()
	c.classify(res, err)
	return res
}

// Exec runs a statement that returns no rows (same protocol choice as Query).
func (c *MyClient) Exec(q string, args ...interface{}) (res *MyResult) {
	res = &MyResult{}
	if c.dead(res) {
		return
	}
	defer c.guard(res)
	r, err := c.conn.ExecContext(context.Background(), q, args...)
	if err != nil {
		c.classify(res, err)
		return res
	}
	res.Affected, _ = r.RowsAffected()
	return res
}

// MyStmt is an explicitly prepared statement.
type MyStmt struct {
	c  *MyClient
	st *sql.Stmt
}

// Prepare sends COM_STMT_PREPARE.
func (c *MyClient) Prepare(q string) (ps *MyStmt, res *MyResult) {
	res = &MyResult{}
	if c.dead(res) {
		return
	}
	defer c.guard(res)
	st, err := c.conn.PrepareContext(context.Background(), q)
	if err != nil {
		c.classify(res, err)
		return nil, res
	}
	return &MyStmt{c: c, st: st}, res
}

// Query executes the prepared statement (COM_STMT_EXECUTE, binary rows).
func (s *MyStmt) Query(args ...interface{}) (res *MyResult) {
	res = &MyResult{}
	if s.c.dead(res) {
		return
	}
	defer s.c.guard(res)
	rows, err := s.st.QueryContext(context.Background(), args...)
	if err != nil {
		s.c.classify(res, err)
		return res
	}
	err = readRows(rows, res)
	rows.Close()
	s.c.classify(res, err)
	return res
}

// Exec executes the prepared statement, discarding rows.
func (s *MyStmt) Exec(args ...interface{}) (res *MyResult) {
	res = &MyResult{}
	if s.c.dead(res) {
		return
	}
	defer s.c.guard(res)
	r, err := s.st.ExecContext(context.Background(), args...)
	if err != nil {
		s.c.classify(res, err)
		return res
	}
	res.Affected, _ = r.RowsAffected()
	return res
}

// Close sends COM_STMT_CLOSE.
func (s *MyStmt) Close() {
	s.c.MyRec.mu.Lock()
	poisoned := s.c.MyRec.poisoned
	s.c.MyRec.mu.Unlock()
	if poisoned {
		return
	}
	s.st.Close()
}

// Ping sends COM_PING.
func (c *MyClient) Ping() (err error) {
	res := &MyResult{}
	defer func() {
		if res.Err != nil {
			err = res.Err
		}
	}()
	defer c.guard(res)
	return c.conn.PingContext(context.Background())
}
