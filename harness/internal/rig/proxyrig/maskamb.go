package proxyrig

// MaskedPlaintextSpelledByStoredForm reports whether the documented stored form of a masked value contains the WHOLE plaintext
// although the hidden part is protected: left-side window, hidden part = one to three '%' characters. The stored form is the clear
// window followed by the serialized container, and every serialized container starts with the tag "%%%" - so window + tag spells
// window + hidden part. Finding the whole plaintext in the bytes forwarded to the database proves nothing for such a value (the
// generator's '%'-run class produces them when the base value is empty and the window is long enough for a 9-byte marker).
func MaskedPlaintextSpelledByStoredForm(c ColSpec, plain []byte) bool {
	if c.Kind != "mask" || c.MaskSide != "left" || len(plain) <= c.MaskLen {
		return false
	}
	hidden := plain[c.MaskLen:]
	if len(hidden) > 3 {
		return false
	}
	for _, b := range hidden {
		if b != '%' {
			return false
		}
	}
	return true
}
