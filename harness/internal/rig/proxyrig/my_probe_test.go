package proxyrig

import (
	"os"
	"testing"

	"github.com/cossacklabs/acra/keystore"
	"github.com/sirupsen/logrus"

	"verif/harness/internal/rig/fakepg"
	"verif/harness/internal/rig/ksrig"
)

func TestMyProbe(t *testing.T) {
	os.Setenv("VERIF_SCRATCH_DIR", t.TempDir())
	dir := ksrig.ScratchDir("myprobe")
	ks, _ := ksrig.V1(dir, ksrig.RandBytes(32), keystore.InfiniteCacheSize)
	ksrig.GenClient(ks, []byte("client_owner"))
	tables := []TableSpec{{Name: "t", Cols: []ColSpec{{Name: "id", AppType: fakepg.Int4, StoreType: fakepg.Int4}, {Name: "note", AppType: fakepg.Text, StoreType: fakepg.Text}, {Name: "data", Kind: "enc", Envelope: "acrablock", AppType: fakepg.Bytea, StoreType: fakepg.Bytea}}}}
	w, err := NewMyWorld(WorldOpts{Tables: tables, KS: ks, Clients: []string{"client_owner"}})
	if err != nil {
		t.Fatal(err)
	}
	defer w.Close()
	defer SetDialect(false)
	ac, _ := DialMy(w.Acras["client_owner"].Port, 0)
	defer ac.Close()
	ac.Exec("insert into t (id, note, data) values (1, 'n1', 'PLAINTEXTMARKER123')")
	if os.Getenv("PROBE_DEBUG") != "" {
		logrus.SetLevel(logrus.DebugLevel)
	}
	for _, q := range []string{"select data from t", "select data as x from t", "select note as y, data as x from t", "select id as i, data from t", "select data as x, id from t"} {
		r := ac.Query(q)
		t.Logf("%-40s -> err=%v cols=%v rows=%v", q, r.Err, r.Cols, r.Rows)
	}
	logrus.SetLevel(logrus.InfoLevel)
}
