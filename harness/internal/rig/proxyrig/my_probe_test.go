package proxyrig

import (
	"os"
	"testing"

	"github.com/cossacklabs/acra/keystore"
	"github.com/sirupsen/logrus"

	"verif/harness/internal/rig/fakepg"
	"verif/harness/internal/rig/ksrig"
)

func TestMyProbe(t *testing.T) {
	os.Setenv("VERIF_SCRATCH_DIR", t.TempDir())
	dir := ksrig.ScratchDir("myprobe")
	ks, _ := ksrig.V1(dir, ksrig.RandBytes(32), keystore.InfiniteCacheSize)
	ksrig.GenClient(ks, []byte("client_owner"))
	ksrig.GenClient(ks, []byte("client_other"))
	tables := []TableSpec{{Name: "t", Cols: []ColSpec{{Name: "id", AppType: fakepg.Int4, StoreType: fakepg.Int4}, {Name: "note", AppType: fakepg.Text, StoreType: fakepg.Text}, {Name: "data", Kind: "enc", Envelope: "acrablock", DataType: "bytes", OnFail: "ciphertext", AppType: fakepg.Bytea, StoreType: fakepg.Bytea}}}}
	w, err := NewMyWorld(WorldOpts{Tables: tables, KS: ks, Clients: []string{"client_owner", "client_other"}})
	if err != nil {
		t.Fatal(err)
	}
	defer w.Close()
	defer SetDialect(false)
	ac, _ := DialMy(w.Acras["client_owner"].Port, 0)
	defer ac.Close()
	ac.Exec("insert into t (id, note, data) values (1, 'n1', 'PLAINTEXTMARKER123')")
	if os.Getenv("PROBE_DEBUG") != "" {
		logrus.SetLevel(logrus.DebugLevel)
	}
	oc, _ := DialMy(w.Acras["client_other"].Port, 0)
	defer oc.Close()
	for _, q := range []string{"select id, data from t order by id"} {
		r := oc.Query(q)
		t.Logf("%-40s -> err=%v cols=%v rows=%v", q, r.Err, r.Cols, r.Rows)
	}
	logrus.SetLevel(logrus.InfoLevel)
}
