package proxyrig

import (
	"bufio"
	"fmt"
	"net"
	"time"

	"verif/harness/internal/rig/fakemysql"
)

// MyRaw is a scripted MySQL client built on the harness codec (fakemysql wire functions): exact control over every
// command packet, capabilities (CLIENT_DEPRECATE_EOF on/off) and parameter types.
type MyRaw struct {
	*MyRec
	conn net.Conn
	r    *bufio.Reader
	Caps uint32 // negotiated
	Ext  uint32 // negotiated MariaDB extended capabilities (DialMyRawLogin, myrawcaps.go)
	// ServerGreeting is the handshake payload received.
	ServerGreeting []byte
}

// MyRawBaseCaps is what the scripted client always announces.
const MyRawBaseCaps = fakemysql.CapLongPassword | fakemysql.CapLongFlag | fakemysql.CapConnectWithDB | fakemysql.CapProtocol41 | fakemysql.CapTransactions | fakemysql.CapSecureConn | fakemysql.CapMultiResults | fakemysql.CapPluginAuth

// DialMyRaw connects and logs in announcing MyRawBaseCaps|extraCaps.
func DialMyRaw(port int, extraCaps uint32) (*MyRaw, error) {
	var conn net.Conn
	var err error
	for i := 0; i < 600; i++ {
		conn, err = net.DialTimeout("tcp", fmt.Sprintf("127.0.0.1:%d", port), time.Second)
		if err == nil {
			break
		}
		time.Sleep(5 * time.Millisecond)
	}
	if err != nil {
		return nil, err
	}
	rec := &MyRec{}
	rc := &myRecConn{Conn: conn, rec: rec}
	c := &MyRaw{MyRec: rec, conn: rc, r: bufio.NewReaderSize(rc, 64<<10)}
	hs, err := fakemysql.ReadFrame(c.r)
	if err != nil {
		conn.Close()
		return nil, c.wrap(err)
	}
	c.ServerGreeting = hs.Payload
	caps := MyRawBaseCaps | extraCaps
	p := []byte{byte(caps), byte(caps >> 8), byte(caps >> 16), byte(caps >> 24), 0, 0, 0, 0x40, 33}
	p = append(p, make([]byte, 23)...)
	p = append(p, "app\x00"...)
	p = append(p, 0) // empty auth response (1-byte length)
	p = append(p, "db\x00"...)
	p = append(p, "mysql_native_password\x00"...)
	if err := c.sendFrame(hs.EndSeq+1, p); err != nil {
		conn.Close()
		return nil, err
	}
	ok, err := fakemysql.ReadFrame(c.r)
	if err != nil {
		conn.Close()
		return nil, c.wrap(err)
	}
	if len(ok.Payload) == 0 || ok.Payload[0] != 0 {
		conn.Close()
		return nil, fmt.Errorf("login refused: %x", ok.Payload)
	}
	c.Caps = caps // the fake server's announced capabilities are read by the caller from ServerGreeting when needed
	return c, nil
}

func (c *MyRaw) wrap(err error) error {
	if ne, ok := err.(net.Error); ok && ne.Timeout() {
		return ErrTimeout
	}
	return err
}

func (c *MyRaw) sendFrame(seq byte, payload []byte) error {
	b, _ := fakemysql.EncodeFrame(seq, payload)
	_, err := c.conn.Write(b)
	return err
}

// SetNegotiated tells the reader which capabilities are in force (client & server).
func (c *MyRaw) SetNegotiated(caps uint32) { c.Caps = caps }

func (c *MyRaw) deprecateEOF() bool { return c.Caps&fakemysql.CapDeprecateEOF != 0 }

// Close sends COM_QUIT and closes.
func (c *MyRaw) Close() {
	c.sendFrame(0, []byte{fakemysql.ComQuit})
	c.conn.Close()
}

// Abort closes the socket.
func (c *MyRaw) Abort() { c.conn.Close() }

// Command sends one command (sequence id 0) and reads its complete response according to the protocol state machine.
// respKind: "none" (COM_STMT_CLOSE, SEND_LONG_DATA), "single" (one packet: OK/ERR/statistics), "query" (OK | ERR | result set, text rows),
// "execute" (same with binary rows), "prepare".
func (c *MyRaw) Command(payload []byte, respKind string) ([]fakemysql.Frame, error) {
	if err := c.sendFrame(0, payload); err != nil {
		return nil, err
	}
	return c.ReadResponse(respKind)
}

// ReadResponse reads one response.
func (c *MyRaw) ReadResponse(respKind string) ([]fakemysql.Frame, error) {
	var out []fakemysql.Frame
	read := func() (fakemysql.Frame, error) {
		f, err := fakemysql.ReadFrame(c.r)
		if err != nil {
			return f, c.wrap(err)
		}
		out = append(out, f)
		return f, nil
	}
	switch respKind {
	case "none":
		return nil, nil
	case "single":
		_, err := read()
		return out, err
	case "prepare":
		f, err := read()
		if err != nil || len(f.Payload) == 0 || f.Payload[0] == 0xff {
			return out, err
		}
		pok, err := fakemysql.DecodePrepareOK(f.Payload)
		if err != nil {
			return out, fmt.Errorf("prepare response: %w", err)
		}
		for _, n := range []int{int(pok.Params), int(pok.Columns)} {
			if n == 0 {
				continue
			}
			for i := 0; i < n; i++ {
				if _, err := read(); err != nil {
					return out, err
				}
			}
			if !c.deprecateEOF() {
				if _, err := read(); err != nil {
					return out, err
				}
			}
		}
		return out, nil
	case "query", "execute":
		f, err := read()
		if err != nil || len(f.Payload) == 0 {
			return out, err
		}
		if f.Payload[0] == 0x00 || f.Payload[0] == 0xff || f.Payload[0] == 0xfb {
			return out, nil
		}
		n, _, _, err := fakemysql.LenEncInt(f.Payload)
		if err != nil {
			return out, err
		}
		for i := 0; i < int(n); i++ {
			if _, err := read(); err != nil {
				return out, err
			}
		}
		if !c.deprecateEOF() {
			if _, err := read(); err != nil {
				return out, err
			}
		}
		for {
			f, err := read()
			if err != nil {
				return out, err
			}
			if len(f.Payload) > 0 && f.Payload[0] == 0xff {
				return out, nil
			}
			if fakemysql.IsEOF(f.Payload, c.deprecateEOF()) {
				return out, nil
			}
		}
	}
	return nil, fmt.Errorf("unknown response kind %q", respKind)
}
