package proxyrig

import (
	"bufio"
	"fmt"
	"net"
	"time"

	"verif/harness/internal/rig/fakemysql"
)

// Capability matrix for the scripted client: the login packet is built by the caller from the greeting that arrived
// (decoded with the harness codec), so every layout switch of HandshakeResponse41 and the MariaDB extended capabilities can
// be exercised; responses are read with a state machine that knows MARIADB_CLIENT_CACHE_METADATA and COM_FIELD_LIST.

// DialMyRawLogin connects, decodes the greeting and logs in with the packet `build` returns for it.
func DialMyRawLogin(port int, build func(g fakemysql.Greeting) fakemysql.Login) (*MyRaw, fakemysql.Greeting, fakemysql.Login, error) {
	var conn net.Conn
	var err error
	var g fakemysql.Greeting
	var l fakemysql.Login
	for i := 0; i < 600; i++ {
		conn, err = net.DialTimeout("tcp", fmt.Sprintf("127.0.0.1:%d", port), time.Second)
		if err == nil {
			break
		}
		time.Sleep(5 * time.Millisecond)
	}
	if err != nil {
		return nil, g, l, err
	}
	rec := &MyRec{}
	rc := &myWatchConn{myRecConn: myRecConn{Conn: conn, rec: rec}}
	c := &MyRaw{MyRec: rec, conn: rc, r: bufio.NewReaderSize(rc, 64<<10)}
	hs, err := fakemysql.ReadFrame(c.r)
	if err != nil {
		conn.Close()
		return nil, g, l, c.wrap(err)
	}
	c.ServerGreeting = hs.Payload
	g, _, err = fakemysql.DecodeGreeting(hs.Payload)
	if err != nil {
		conn.Close()
		return nil, g, l, fmt.Errorf("greeting delivered to the client does not parse: %w", err)
	}
	l = build(g)
	l.MariaDB = g.MariaDB
	if err := c.sendFrame(hs.EndSeq+1, l.Encode()); err != nil {
		conn.Close()
		return nil, g, l, err
	}
	ok, err := fakemysql.ReadFrame(c.r)
	if err != nil {
		conn.Close()
		return nil, g, l, c.wrap(err)
	}
	if len(ok.Payload) == 0 || ok.Payload[0] != 0 {
		conn.Close()
		return nil, g, l, fmt.Errorf("login refused: %x", ok.Payload)
	}
	c.Caps = l.Caps & g.Caps
	if g.MariaDB {
		c.Ext = l.ExtCaps & g.ExtCaps
	}
	return c, g, l, nil
}

// myWatchConn is the recording connection with a read watchdog of its own (0 = the package-wide Timeout).
type myWatchConn struct {
	myRecConn
	d time.Duration
}

func (c *myWatchConn) Read(p []byte) (int, error) {
	d := c.d
	if d == 0 {
		d = Timeout
	}
	c.Conn.SetReadDeadline(time.Now().Add(d))
	n, err := c.Conn.Read(p)
	c.rec.mu.Lock()
	if n > 0 {
		c.rec.in = append(c.rec.in, p[:n]...)
	}
	if ne, ok := err.(net.Error); ok && ne.Timeout() {
		c.rec.timedOut = true
	}
	c.rec.mu.Unlock()
	return n, err
}

// SetWatchdog sets the read watchdog of a connection opened with DialMyRawLogin (its expiry is never a verdict).
func (c *MyRaw) SetWatchdog(d time.Duration) {
	if w, ok := c.conn.(*myWatchConn); ok {
		w.d = d
	}
}

// ErrAborted is returned when the per-frame callback of CommandCapsEach stopped the exchange.
var ErrAborted = fmt.Errorf("proxyrig: exchange stopped by the caller")

func (c *MyRaw) cacheMetadata() bool { return c.Ext&fakemysql.MariaCacheMetadata != 0 }

// CommandCaps is Command with the capability-aware response reader.
func (c *MyRaw) CommandCaps(payload []byte, respKind string) ([]fakemysql.Frame, error) {
	return c.CommandCapsEach(payload, respKind, nil)
}

// CommandCapsEach hands every frame of the response to `each` as soon as it is read; when `each` returns false the
// exchange stops with ErrAborted (the connection is then out of step and must be abandoned).
func (c *MyRaw) CommandCapsEach(payload []byte, respKind string, each func(fakemysql.Frame) bool) ([]fakemysql.Frame, error) {
	if err := c.sendFrame(0, payload); err != nil {
		return nil, err
	}
	return c.readResponseCaps(respKind, each)
}

// ReadResponseCaps reads one response. Kinds: those of ReadResponse plus "fieldlist" (column definitions up to the
// terminator). In "query" / "execute" the column count packet is read with the metadata-follows byte when
// MARIADB_CLIENT_CACHE_METADATA is in force: without metadata no column definitions are expected.
func (c *MyRaw) ReadResponseCaps(respKind string) ([]fakemysql.Frame, error) {
	return c.readResponseCaps(respKind, nil)
}

func (c *MyRaw) readResponseCaps(respKind string, each func(fakemysql.Frame) bool) ([]fakemysql.Frame, error) {
	var out []fakemysql.Frame
	read := func() (fakemysql.Frame, error) {
		f, err := fakemysql.ReadFrame(c.r)
		if err != nil {
			return f, c.wrap(err)
		}
		out = append(out, f)
		if each != nil && !each(f) {
			return f, ErrAborted
		}
		return f, nil
	}
	switch respKind {
	case "fieldlist":
		for {
			f, err := read()
			if err != nil {
				return out, err
			}
			if len(f.Payload) > 0 && f.Payload[0] == 0xff {
				return out, nil
			}
			if fakemysql.IsEOF(f.Payload, c.deprecateEOF()) {
				return out, nil
			}
		}
	case "query", "execute":
		f, err := read()
		if err != nil || len(f.Payload) == 0 {
			return out, err
		}
		if f.Payload[0] == 0x00 || f.Payload[0] == 0xff || f.Payload[0] == 0xfb {
			return out, nil
		}
		n, follows, err := fakemysql.DecodeColumnCount(f.Payload, c.cacheMetadata())
		if err != nil {
			return out, err
		}
		if follows {
			for i := 0; i < n; i++ {
				if _, err := read(); err != nil {
					return out, err
				}
			}
		}
		if !c.deprecateEOF() {
			if _, err := read(); err != nil {
				return out, err
			}
		}
		for {
			f, err := read()
			if err != nil {
				return out, err
			}
			if len(f.Payload) > 0 && f.Payload[0] == 0xff {
				return out, nil
			}
			if fakemysql.IsEOF(f.Payload, c.deprecateEOF()) {
				return out, nil
			}
		}
	}
	switch respKind {
	case "none":
		return nil, nil
	case "single":
		_, err := read()
		return out, err
	case "prepare":
		f, err := read()
		if err != nil || len(f.Payload) == 0 || f.Payload[0] == 0xff {
			return out, err
		}
		pok, err := fakemysql.DecodePrepareOK(f.Payload)
		if err != nil {
			return out, fmt.Errorf("prepare response: %w", err)
		}
		for _, n := range []int{int(pok.Params), int(pok.Columns)} {
			if n == 0 {
				continue
			}
			for i := 0; i < n; i++ {
				if _, err := read(); err != nil {
					return out, err
				}
			}
			if !c.deprecateEOF() {
				if _, err := read(); err != nil {
					return out, err
				}
			}
		}
		return out, nil
	}
	return nil, fmt.Errorf("unknown response kind %q", respKind)
}
