package proxyrig

import (
	"bytes"
	"os"
	"testing"

	"github.com/cossacklabs/acra/keystore"

	"verif/harness/internal/rig/fakemysql"
	"verif/harness/internal/rig/fakepg"
	"verif/harness/internal/rig/ksrig"
)

// Rig self-test: the same client script against the fake MySQL without Acra returns what was inserted; through Acra with
// one encrypted column the database sees no plaintext and the owner reads the original.
func TestMyRigSelf(t *testing.T) {
	os.Setenv("VERIF_SCRATCH_DIR", t.TempDir())
	db := fakepg.NewDB()
	db.CreateTable("t", []fakepg.Column{{Name: "id", Type: fakepg.Int4}, {Name: "note", Type: fakepg.Text}, {Name: "data", Type: fakepg.Bytea}, {Name: "n", Type: fakepg.Int8}})
	srv, err := fakemysql.NewServer(db)
	if err != nil {
		t.Fatal(err)
	}
	defer srv.Close()
	c, err := DialMy(srv.Port(), 0)
	if err != nil {
		t.Fatal(err)
	}
	if r := c.Exec("insert into t (id, note, data, n) values (1, 'it''s \\\\ \\n x', X'00ff27', -5), (2, NULL, 0x4142, 9223372036854775807)"); r.Err != nil || r.Affected != 2 {
		t.Fatalf("insert: %+v", r)
	}
	if r := c.Exec("insert into `t` (`id`, note, data) values (?, ?, ?)", int64(3), "pa'ram\\", []byte{0, 1, 2, '\''}); r.Err != nil || r.Affected != 1 {
		t.Fatalf("insert prepared: %+v", r)
	}
	r := c.Query("select id, note, data, n from t order by id")
	if r.Err != nil || len(r.Rows) != 3 {
		t.Fatalf("select: %+v", r)
	}
	if string(r.Rows[0][1].B) != "it's \\ \n x" || !bytes.Equal(r.Rows[0][2].B, []byte{0, 0xff, 0x27}) || string(r.Rows[0][3].B) != "-5" || !r.Rows[1][1].Null || string(r.Rows[1][2].B) != "AB" {
		t.Fatalf("rows: %v", r.Rows)
	}
	if string(r.Rows[2][1].B) != "pa'ram\\" || !bytes.Equal(r.Rows[2][2].B, []byte{0, 1, 2, '\''}) || !r.Rows[2][3].Null {
		t.Fatalf("row3: %v", r.Rows[2])
	}
	if r.Cols[0].DBType != "INT" || r.Cols[1].DBType != "VARCHAR" || r.Cols[2].DBType != "BLOB" || r.Cols[3].DBType != "BIGINT" {
		t.Fatalf("cols: %v", r.Cols)
	}
	rb := c.Query("select a1.id as x, a1.n from t as a1 where a1.id in (?, ?) order by a1.id desc limit 5", int64(1), int64(2))
	if rb.Err != nil || len(rb.Rows) != 2 || rb.Rows[0][0].Kind != "int64" || string(rb.Rows[0][0].B) != "2" || string(rb.Rows[1][1].B) != "-5" {
		t.Fatalf("binary select: %+v", rb)
	}
	if e := c.Query("select nope from t"); e.ErrNo != 1054 || e.Broken {
		t.Fatalf("error: %+v", e)
	}
	if err := c.Ping(); err != nil {
		t.Fatal(err)
	}
	c.Close()
	if u := srv.Unsupported(); len(u) > 0 {
		t.Fatalf("unsupported: %v", u)
	}
	// raw client, both EOF modes
	for _, extra := range []uint32{0, fakemysql.CapDeprecateEOF} {
		rc, err := DialMyRaw(srv.Port(), extra)
		if err != nil {
			t.Fatal(err)
		}
		fr, err := rc.Command(append([]byte{fakemysql.ComQuery}, "select id, data from t order by id"...), "query")
		want := 1 + 2 + 1 + 3 + 1
		if extra != 0 {
			want = 1 + 2 + 3 + 1
		}
		if err != nil || len(fr) != want {
			t.Fatalf("raw query: %d frames, %v", len(fr), err)
		}
		fr, err = rc.Command(append([]byte{fakemysql.ComStmtPrepare}, "select id, data from t where id = ?"...), "prepare")
		if err != nil {
			t.Fatal(err)
		}
		pok, err := fakemysql.DecodePrepareOK(fr[0].Payload)
		if err != nil || pok.Params != 1 || pok.Columns != 2 {
			t.Fatalf("prepare: %+v %v", pok, err)
		}
		fr, err = rc.Command(fakemysql.EncodeExecute(pok.StmtID, []fakemysql.BoundParam{{Type: fakemysql.TypeTiny, Data: []byte{2}}}), "execute")
		if err != nil {
			t.Fatal(err)
		}
		var row []byte
		for _, f := range fr {
			if len(f.Payload) > 0 && f.Payload[0] == 0 && len(f.Payload) > 4 {
				row = f.Payload
			}
		}
		fields, err := fakemysql.DecodeBinaryRow(row, []byte{fakemysql.TypeLong, fakemysql.TypeBlob})
		if err != nil || string(fields[1].Data) != "AB" {
			t.Fatalf("binary row: %v %v (%x)", fields, err, row)
		}
		rc.Close()
	}

	// through Acra
	dir := ksrig.ScratchDir("myself")
	ks, err := ksrig.V1(dir, ksrig.RandBytes(32), keystore.InfiniteCacheSize)
	if err != nil {
		t.Fatal(err)
	}
	ksrig.GenClient(ks, []byte("client_owner"))
	tables := []TableSpec{{Name: "t", Cols: []ColSpec{{Name: "id", AppType: fakepg.Int4, StoreType: fakepg.Int4}, {Name: "note", AppType: fakepg.Text, StoreType: fakepg.Text}, {Name: "data", Kind: "enc", Envelope: "acrablock", AppType: fakepg.Bytea, StoreType: fakepg.Bytea}}}}
	w, err := NewMyWorld(WorldOpts{Tables: tables, KS: ks, Clients: []string{"client_owner"}})
	if err != nil {
		t.Fatal(err)
	}
	defer w.Close()
	defer SetDialect(false)
	ac, err := DialMy(w.Acras["client_owner"].Port, 0)
	if err != nil {
		t.Fatal(err)
	}
	defer ac.Close()
	if r := ac.Exec("insert into t (id, note, data) values (1, 'n1', 'PLAINTEXTMARKER123')"); r.Err != nil {
		t.Fatalf("insert via acra: %+v", r)
	}
	if r := ac.Exec("insert into t (id, note, data) values (?, ?, ?)", int64(2), "n2", []byte("PLAINTEXTMARKER456")); r.Err != nil {
		t.Fatalf("insert via acra (prepared): %+v", r)
	}
	if bytes.Contains(w.Store.RawInConn(1), []byte("PLAINTEXTMARKER")) {
		t.Fatalf("plaintext reached the database")
	}
	for _, m := range w.Store.Log() {
		t.Logf("db got %s %.120q", m.Name, m.SQL)
	}
	r = ac.Query("select id, note, data from t order by id")
	if r.Err != nil || len(r.Rows) != 2 || string(r.Rows[0][2].B) != "PLAINTEXTMARKER123" || string(r.Rows[1][2].B) != "PLAINTEXTMARKER456" {
		t.Fatalf("select via acra: %+v", r)
	}
	r = ac.Query("select data from t where id = ?", int64(2))
	if r.Err != nil || len(r.Rows) != 1 || string(r.Rows[0][0].B) != "PLAINTEXTMARKER456" {
		t.Fatalf("binary select via acra: %+v", r)
	}
	if u := w.Store.Unsupported(); len(u) > 0 {
		t.Fatalf("unsupported: %v", u)
	}
}
