package proxyrig

import (
	"fmt"

	tokenCommon "github.com/cossacklabs/acra/pseudonymization/common"
	"github.com/cossacklabs/acra/pseudonymization/storage"

	"verif/harness/internal/rig/fakemysql"
	"verif/harness/internal/rig/fakepg"
	"verif/harness/internal/rig/ksrig"
)

// MyWorld is the MySQL twin of World: a storage-view fake MySQL behind one MySQL-mode AcraServer per client identity,
// and a reference fake MySQL holding the application-view schema.
// Acra's SQL dialect is a process global: a MyWorld must not be alive while PostgreSQL sessions run.
type MyWorld struct {
	Tables  []TableSpec
	KS      ksrig.FullKeyStore
	Store   *fakemysql.Server
	Ref     *fakemysql.Server
	Acras   map[string]*Acra
	Tokens  tokenCommon.TokenStorage
	Schema  string
	stopped bool
}

// NewMyWorld builds databases and MySQL-mode AcraServers.
func NewMyWorld(o WorldOpts) (*MyWorld, error) {
	w := &MyWorld{Tables: o.Tables, KS: o.KS, Acras: map[string]*Acra{}}
	sdb, rdb := fakepg.NewDB(), fakepg.NewDB()
	for _, t := range o.Tables {
		var sc, rc []fakepg.Column
		for _, c := range t.Cols {
			sc = append(sc, fakepg.Column{Name: c.Name, Type: c.StoreType})
			rc = append(rc, fakepg.Column{Name: c.Name, Type: c.AppType})
		}
		sdb.CreateTable(t.Name, sc)
		rdb.CreateTable(t.Name, rc)
	}
	var err error
	if w.Store, err = fakemysql.NewServer(sdb); err != nil {
		return nil, err
	}
	if w.Ref, err = fakemysql.NewServer(rdb); err != nil {
		w.Store.Close()
		return nil, err
	}
	ts, err := storage.NewMemoryTokenStorage()
	if err != nil {
		return nil, err
	}
	enc, err := storage.NewSCellEncryptor(o.KS)
	if err != nil {
		return nil, err
	}
	w.Tokens = storage.WrapStorageWithEncryption(ts, enc)
	w.Schema = YAML(o.Tables)
	for _, id := range o.Clients {
		a, err := Start(Opts{KS: o.KS, ClientID: []byte(id), DBPort: w.Store.Port(), SchemaYAML: w.Schema, CensorYAML: o.CensorYAML, Poison: o.Poison, TokenStore: w.Tokens, MySQL: true})
		if err != nil {
			w.Close()
			return nil, fmt.Errorf("start acra (mysql) for %s: %w\n%s", id, err, w.Schema)
		}
		w.Acras[id] = a
	}
	return w, nil
}

// Close stops everything.
func (w *MyWorld) Close() {
	if w.stopped {
		return
	}
	w.stopped = true
	for _, a := range w.Acras {
		a.Stop()
	}
	if w.Store != nil {
		w.Store.Close()
	}
	if w.Ref != nil {
		w.Ref.Close()
	}
}

// Table finds a table spec.
func (w *MyWorld) Table(name string) TableSpec {
	for _, t := range w.Tables {
		if t.Name == name {
			return t
		}
	}
	return TableSpec{}
}

// MyTypeID maps a declared data type to the MySQL type id Acra documents for it.
var MyTypeID = map[string]uint32{"str": fakemysql.TypeString, "bytes": fakemysql.TypeBlob, "int32": fakemysql.TypeLong, "int64": fakemysql.TypeLongLong}
